package main

import (
	"bytes"
	"crypto/sha256"
	"encoding/binary"
	"encoding/hex"
	"fmt"
	"os"
	"runtime/pprof"
	"sort"
	"strconv"
	"strings"

	"github.com/btcsuite/btcd/btcec"
	"github.com/btcsuite/btcd/chaincfg"
	"github.com/btcsuite/btcd/txscript"
	"github.com/btcsuite/btcd/wire"
	"github.com/btcsuite/btcutil"
	"github.com/polynetwork/poly/common"
	cstates "github.com/polynetwork/poly/core/states"
	"github.com/polynetwork/poly/core/store/leveldbstore"
	"github.com/polynetwork/poly/core/store/overlaydb"
	"github.com/polynetwork/poly/core/types"
	"github.com/polynetwork/poly/native"
	"github.com/polynetwork/poly/native/service/cross_chain_manager/btc"
	crosscommon "github.com/polynetwork/poly/native/service/cross_chain_manager/common"
	"github.com/polynetwork/poly/native/service/governance/side_chain_manager"
	"github.com/polynetwork/poly/native/service/utils"
	"github.com/polynetwork/poly/native/storage"
	"polyverif/internal/hx"
)

// Family btcsel (C26): the BTC coin selector and chooseUtxos on the real code.
//
//	sel <mode> <m> <n> <feeRate> <mc> <target> <maxPn> <maxPd> <kn> <kd> <tries> <outs> <utxos>
//	     mode = select | bnb | sorted; outs = comma separated pkScript lengths or "-";
//	     utxos = comma separated value:kind (w = P2WSH, s = P2SH, o = other) or "-", in the order handed to the selector
//	     -> none | panic | ok sel=<positions> sum=<n> fee=<n> tries=<remaining budget>
//	init <m> <n> <feeRate> <mc>              -> ok   (fresh CacheDB, BtcTxParam record written for the redeem key)
//	add <id> <value> <kind> <hash> <index>   -> ok   (appends to the stored UTXO record)
//	choose <amount> <outs>                   -> err | panic | ok sel=<ids> sum=<n> fee=<n> utxos=<ids> stxos=<ids>
//	dump                                     -> utxos=<ids> stxos=<ids>
//
// Property oracle (r.Viol), on every answer of the implementation: the selected outputs are distinct members of the
// offered set, the reported sum equals the sum of their values, the sum equals the target or exceeds it by at least
// the minimum change; after chooseUtxos the unspent record lost exactly the selection, the spent record gained
// exactly the selection, and no outpoint is ever selected twice in a case.
type btcsel struct {
	svc      *native.NativeService
	m, n     int
	rk       []byte
	ids      map[string]int // outpoint string -> id
	vals     map[int]uint64
	selected map[int]bool
	redeem   []byte
	privs    []*btcec.PrivateKey
	pending  []*pendTx
}

// a withdrawal transaction built by makeBtcTx and waiting for its signatures
type pendTx struct {
	raw    []byte // as stored under BTC_TX_PREFIX (inputs carry the spent outputs' scripts in SignatureScript)
	hash   []byte // its key: hash of the unsigned transaction
	txid   string // transaction id after the last signature (hex), "" before
	amount int64
	fresh  []uint64 // values of the outputs that became unspent when the last signature arrived
}

const btcChainID = uint64(1)

var overlay *overlaydb.OverlayDB

func init() { families["btcsel"] = func() hx.Family { return &btcsel{} } }

func (f *btcsel) Reset(r *hx.Run) {
	f.svc = nil
	f.ids = map[string]int{}
	f.vals = map[int]uint64{}
	f.selected = map[int]bool{}
	f.pending = nil
	f.privs = nil
}

func scriptOf(kind string, salt int) []byte {
	fill := func(n int) []byte {
		b := make([]byte, n)
		for i := range b {
			b[i] = byte(salt*31 + i*7 + 1)
		}
		return b
	}
	switch kind {
	case "w":
		return append([]byte{0x00, 0x20}, fill(32)...)
	case "s":
		return append(append([]byte{0xa9, 0x14}, fill(20)...), 0x87)
	default:
		return append(append([]byte{0x76, 0xa9, 0x14}, fill(20)...), 0x88, 0xac)
	}
}

// kindOK asks the library for the two classifications the selector uses; the op line's kind letter must agree.
func kindOK(kind string, script []byte) bool {
	isW := txscript.GetScriptClass(script) == txscript.WitnessV0ScriptHashTy
	isS := txscript.IsPayToScriptHash(script)
	return isW == (kind == "w") && isS == (kind == "s")
}

func splitList(s string) []string {
	if s == "-" {
		return nil
	}
	return strings.Split(s, ",")
}

func parseOuts(s string) []*wire.TxOut {
	outs := []*wire.TxOut{}
	for _, t := range splitList(s) {
		n, _ := strconv.Atoi(t)
		outs = append(outs, wire.NewTxOut(0, make([]byte, n)))
	}
	return outs
}

func u64(s string) uint64 { v, _ := strconv.ParseUint(s, 10, 64); return v }

func joinInts(a []int) string {
	if len(a) == 0 {
		return "-"
	}
	p := make([]string, len(a))
	for i, v := range a {
		p[i] = strconv.Itoa(v)
	}
	return strings.Join(p, ",")
}

func kindsClass(kinds []string) string {
	seen := map[string]bool{}
	for _, k := range kinds {
		seen[k] = true
	}
	switch {
	case len(seen) == 1 && seen["w"]:
		return "witness-only"
	case len(seen) == 1 && seen["s"]:
		return "p2sh-only"
	case len(seen) == 1:
		return "other-only"
	default:
		return "mixed-kinds"
	}
}

func (f *btcsel) Exec(r *hx.Run, op []string) string {
	switch op[0] {
	case "sel":
		if len(op) != 14 {
			return "bad-op"
		}
		mode := op[1]
		m, _ := strconv.Atoi(op[2])
		n, _ := strconv.Atoi(op[3])
		feeRate, mc, target := u64(op[4]), u64(op[5]), u64(op[6])
		maxP := float64(u64(op[7])) / float64(u64(op[8]))
		k := float64(u64(op[9])) / float64(u64(op[10]))
		tries, _ := strconv.ParseInt(op[11], 10, 64)
		outs := parseOuts(op[12])
		var utxos []*btc.Utxo
		var kinds []string
		pos := map[*btc.Utxo]int{}
		for i, t := range splitList(op[13]) {
			vk := strings.Split(t, ":")
			if len(vk) != 2 {
				return "bad-op"
			}
			sc := scriptOf(vk[1], i)
			if !kindOK(vk[1], sc) {
				return "bad-kind"
			}
			h := make([]byte, 32)
			h[0], h[1] = byte(i), byte(i>>8)
			u := &btc.Utxo{Op: &btc.OutPoint{Hash: h, Index: 0}, Value: u64(vk[0]), ScriptPubkey: sc}
			pos[u] = i
			utxos = append(utxos, u)
			kinds = append(kinds, vk[1])
		}
		offered := append([]*btc.Utxo{}, utxos...)
		cs := btc.VerifNewCoinSelector(utxos, mc, target, maxP, outs, k, tries, feeRate, m, n)
		var res []*btc.Utxo
		var sum, fee uint64
		switch mode {
		case "select":
			res, sum, fee = cs.Select()
		case "bnb":
			if len(utxos) == 0 {
				return "none"
			}
			res, sum, fee = cs.SimpleBnbSearch(0, make([]*btc.Utxo, 0), 0)
		case "sorted":
			res, sum, fee = cs.SortedSearch()
		default:
			return "bad-op"
		}
		if res == nil {
			r.Hist("sel." + mode + ".none")
			return "none"
		}
		r.Hist("sel." + mode + ".ok")
		var ps []int
		var total uint64
		seen := map[int]bool{}
		okMember := true
		for _, u := range res {
			p, ok := pos[u]
			if !ok || seen[p] || offered[p] != u {
				okMember = false
			}
			seen[p] = true
			ps = append(ps, p)
			total += u.Value
		}
		kc := kindsClass(kinds)
		if !okMember {
			r.Viol("C26:not-distinct-members:"+mode+":"+kc, fmt.Sprintf("selector (%s) returned outputs that are not distinct members of the offered UTXO list: positions %v", mode, ps))
		}
		if total != sum {
			r.Viol("C26:sum-mismatch:"+mode+":"+kc, fmt.Sprintf("selector (%s) reports input total %d but the selected outputs (positions %v) add up to %d; target %d min-change %d", mode, sum, ps, total, target, mc))
		}
		if !(sum == target || sum >= target+mc) {
			r.Viol("C26:target-missed:"+mode+":"+kc, fmt.Sprintf("selector (%s) reports total %d which is neither the target %d nor at least target+min-change %d", mode, sum, target, target+mc))
		}
		return fmt.Sprintf("ok sel=%s sum=%d fee=%d tries=%d", joinInts(ps), sum, fee, cs.VerifTries())
	case "init":
		if len(op) != 5 {
			return "bad-op"
		}
		if overlay == nil { // one empty backing store + overlay per process; every case gets a fresh CacheDB (never committed)
			memStore, _ := leveldbstore.NewMemLevelDBStore()
			overlay = overlaydb.NewOverlayDB(memStore)
		}
		db := storage.NewCacheDB(overlay)
		svc, err := native.NewNativeService(db, &types.Transaction{ChainID: 0}, 0, 0, common.Uint256{}, 0, nil, false)
		if err != nil {
			return "bad-op"
		}
		f.svc = svc
		f.m, _ = strconv.Atoi(op[1])
		f.n, _ = strconv.Atoi(op[2])
		f.rk = []byte{0xaa, 1, 2, 3, 4, 5, 6, 7, 8, 9, 10, 11, 12, 13, 14, 15, 16, 17, 18, 0xbb}
		f.redeem = nil
		if f.m >= 1 && f.m <= f.n && f.n <= 15 { // a real m-of-n redeem script; the redeem key is its hash160
			var addrs []*btcutil.AddressPubKey
			f.privs = nil
			for i := 0; i < f.n; i++ {
				seed := make([]byte, 32)
				seed[31], seed[0] = byte(i+1), 0x11
				priv, pub := btcec.PrivKeyFromBytes(btcec.S256(), seed)
				f.privs = append(f.privs, priv)
				a, err := btcutil.NewAddressPubKey(pub.SerializeCompressed(), &chaincfg.MainNetParams)
				if err != nil {
					return "bad-op"
				}
				addrs = append(addrs, a)
			}
			red, err := txscript.MultiSigScript(addrs, f.m)
			if err != nil {
				return "bad-op"
			}
			f.redeem = red
			f.rk = btcutil.Hash160(red)
			// the redeem script record MultiSign reads
			db.Put(utils.ConcatKey(utils.SideChainManagerContractAddress, []byte(side_chain_manager.REDEEM_SCRIPT),
				utils.GetUint64Bytes(btcChainID), []byte(hex.EncodeToString(f.rk))), cstates.GenRawStorageItem(red))
		}
		ccmc := make([]byte, 8)
		binary.LittleEndian.PutUint64(ccmc, uint64(utils.TyMainnet))
		if err := side_chain_manager.PutSideChain(svc, &side_chain_manager.SideChain{ChainId: btcChainID, Name: "btc", CCMCAddress: ccmc}); err != nil {
			return "bad-op"
		}
		detail := &side_chain_manager.BtcTxParamDetial{PVersion: 1, FeeRate: u64(op[3]), MinChange: u64(op[4])}
		sink := common.NewZeroCopySink(nil)
		detail.Serialization(sink)
		db.Put(utils.ConcatKey(utils.SideChainManagerContractAddress, []byte(side_chain_manager.BTC_TX_PARAM), f.rk,
			utils.GetUint64Bytes(btcChainID)), cstates.GenRawStorageItem(sink.Bytes()))
		return "ok"
	case "add":
		if len(op) != 6 || f.svc == nil {
			return "bad-op"
		}
		id, _ := strconv.Atoi(op[1])
		sc := scriptOf(op[3], id)
		if !kindOK(op[3], sc) {
			return "bad-kind"
		}
		idx, _ := strconv.ParseUint(op[5], 10, 32)
		u := &btc.Utxo{Op: &btc.OutPoint{Hash: hx.UnHex(op[4]), Index: uint32(idx)}, Value: u64(op[2]), ScriptPubkey: sc}
		key := hex.EncodeToString(f.rk)
		utxos, err := btc.VerifGetUtxos(f.svc, btcChainID, key)
		if err != nil {
			return "bad-op"
		}
		utxos.Utxos = append(utxos.Utxos, u)
		btc.VerifPutUtxos(f.svc, btcChainID, key, utxos)
		f.ids[opStr(u)] = id
		f.vals[id] = u.Value
		return "ok"
	case "choose":
		if len(op) != 3 || f.svc == nil {
			return "bad-op"
		}
		amount, _ := strconv.ParseInt(op[1], 10, 64)
		outs := parseOuts(op[2])
		beforeU, beforeS := f.records()
		var res []*btc.Utxo
		var sum, fee int64
		var err error
		cls := f.panicClass()
		if pm := safely(func() { res, sum, fee, err = btc.VerifChooseUtxos(f.svc, btcChainID, amount, outs, f.rk, f.m, f.n) }); pm != "" {
			r.Viol("C26:choose-panics:"+cls, fmt.Sprintf("chooseUtxos(amount %d) panics (%s); unspent record %v: the selected outputs neither leave the unspent record nor is the withdrawal refused", amount, pm, beforeU))
			return "panic"
		}
		if err != nil {
			r.Hist("choose.err")
			return "err"
		}
		r.Hist("choose.ok")
		afterU, afterS := f.records()
		var sel []int
		var total uint64
		for _, u := range res {
			id, ok := f.ids[opStr(u)]
			if !ok {
				id = -1
			}
			sel = append(sel, id)
			total += u.Value
		}
		if uint64(sum) != total {
			r.Viol("C26:choose-sum-mismatch", fmt.Sprintf("chooseUtxos reports input total %d but the selected outputs %v add up to %d (amount %d)", sum, sel, total, amount))
		}
		if !(sum == amount || uint64(sum) >= uint64(amount)+f.minChange()) {
			r.Viol("C26:choose-target-missed", fmt.Sprintf("chooseUtxos reports total %d for amount %d, min-change %d", sum, amount, f.minChange()))
		}
		if sum-amount < 0 {
			r.Viol("C26:negative-change", fmt.Sprintf("change sum-amount = %d is negative", sum-amount))
		}
		if !sameMultiset(beforeU, append(append([]int{}, afterU...), sel...)) || hasDup(sel) {
			r.Viol("C26:unspent-record-not-reduced-by-selection", fmt.Sprintf("unspent record before %v, selection %v, unspent record after %v", beforeU, sel, afterU))
		}
		if !sameMultiset(afterS, append(append([]int{}, beforeS...), sel...)) {
			r.Viol("C26:spent-record-not-extended-by-selection", fmt.Sprintf("spent record before %v, selection %v, spent record after %v", beforeS, sel, afterS))
		}
		for _, id := range sel {
			if f.selected[id] {
				r.Viol("C26:reselected", fmt.Sprintf("outpoint %d was selected by an earlier withdrawal and is selected again", id))
			}
			f.selected[id] = true
		}
		return fmt.Sprintf("ok sel=%s sum=%d fee=%d utxos=%s stxos=%s", joinInts(sel), sum, fee, joinInts(afterU), joinInts(afterS))
	case "maketx":
		if (len(op) != 2 && !(len(op) == 3 && op[2] == "self")) || f.svc == nil || f.redeem == nil {
			return "bad-op"
		}
		amount, _ := strconv.ParseInt(op[1], 10, 64)
		var to btcutil.Address
		var err error
		if len(op) == 3 { // pay the multisig's own witness address: the payment output becomes an unspent output too
			wh := sha256.Sum256(f.redeem)
			to, err = btcutil.NewAddressWitnessScriptHash(wh[:], &chaincfg.MainNetParams)
		} else {
			to, err = btcutil.NewAddressPubKeyHash(make([]byte, 20), &chaincfg.MainNetParams)
		}
		if err != nil {
			return "bad-op"
		}
		nBefore := len(f.svc.GetNotify())
		beforeU, _ := f.records()
		cls := f.panicClass()
		if pm := safely(func() {
			err = btc.VerifMakeBtcTx(f.svc, btcChainID, map[string]int64{to.EncodeAddress(): amount}, make([]byte, 32), 2, f.redeem, f.rk)
		}); pm != "" {
			r.Viol("C26:choose-panics:"+cls, fmt.Sprintf("makeBtcTx(amount %d) panics (%s); unspent record %v", amount, pm, beforeU))
			return "panic"
		}
		if err != nil {
			r.Hist("maketx.err")
			if strings.Contains(err.Error(), "current utxo is not enough") {
				return "err"
			}
			if strings.Contains(err.Error(), "wrong amount") || strings.Contains(err.Error(), "exceeds the MaxSatoshi") {
				return "err:amount"
			}
			return "err:other"
		}
		r.Hist("maketx.ok")
		nts := f.svc.GetNotify()
		if len(nts) != nBefore+1 {
			return "no-notify"
		}
		st, ok := nts[len(nts)-1].States.([]interface{})
		if !ok || len(st) != 4 {
			return "bad-notify"
		}
		raw, _ := hex.DecodeString(st[2].(string))
		mtx := wire.NewMsgTx(wire.TxVersion)
		if err := mtx.BtcDecode(bytes.NewReader(raw), wire.ProtocolVersion, wire.LatestEncoding); err != nil {
			return "bad-tx"
		}
		var ins []int
		var inTotal, outTotal int64
		for _, in := range mtx.TxIn {
			id, ok := f.ids[fmt.Sprintf("%x:%d", in.PreviousOutPoint.Hash[:], in.PreviousOutPoint.Index)]
			if !ok {
				id = -1
				r.Viol("C26:tx-input-not-an-unspent-output", "the built transaction spends an outpoint that was never deposited")
			}
			if f.selected[id] {
				r.Viol("C26:reselected", fmt.Sprintf("outpoint %d was selected by an earlier withdrawal and is spent again", id))
			}
			f.selected[id] = true
			ins = append(ins, id)
			inTotal += int64(f.vals[id])
		}
		var outs []string
		for _, o := range mtx.TxOut {
			outs = append(outs, strconv.FormatInt(o.Value, 10))
			outTotal += o.Value
			if o.Value < 0 {
				r.Viol("C26:negative-output", fmt.Sprintf("the built transaction has an output of %d", o.Value))
			}
		}
		if outTotal > inTotal {
			r.Viol("C26:tx-spends-more-than-inputs", fmt.Sprintf("inputs %v total %d, outputs %v total %d (amount %d)", ins, inTotal, outs, outTotal, amount))
		}
		change := int64(0)
		if len(mtx.TxOut) == 2 {
			change = mtx.TxOut[1].Value
		}
		if !(inTotal == amount || uint64(inTotal) >= uint64(amount)+f.minChange()) {
			r.Viol("C26:tx-total-neither-payment-nor-payment-plus-min-change", fmt.Sprintf("makeBtcTx spends inputs %v worth %d for a payment of %d with min-change %d: the change %d is below the minimum", ins, inTotal, amount, f.minChange(), inTotal-amount))
		}
		if change != inTotal-amount {
			r.Viol("C26:change-not-inputs-minus-amount", fmt.Sprintf("inputs total %d, amount %d, change output %d", inTotal, amount, change))
		}
		afterU, afterS := f.records()
		if !sameMultiset(beforeU, append(append([]int{}, afterU...), ins...)) || hasDup(ins) {
			r.Viol("C26:unspent-record-not-reduced-by-selection", fmt.Sprintf("unspent record before %v, inputs %v, unspent record after %v", beforeU, ins, afterU))
		}
		th := mtx.TxHash()
		f.pending = append(f.pending, &pendTx{raw: raw, hash: th[:], amount: amount})
		return fmt.Sprintf("ok in=%s out=%s utxos=%s stxos=%s", joinInts(ins), strings.Join(outs, ","), joinInts(afterU), joinInts(afterS))
	case "sign", "signbad":
		// sign <seq> <signer>: one MultiSign call of redeem-script key number <signer> on pending transaction <seq>
		if len(op) != 3 || f.svc == nil || f.redeem == nil {
			return "bad-op"
		}
		seq, _ := strconv.Atoi(op[1])
		signer, _ := strconv.Atoi(op[2])
		if seq < 0 || seq >= len(f.pending) || signer < 0 || signer >= len(f.privs) {
			return "bad-op"
		}
		return f.multiSign(r, f.pending[seq], seq, signer, op[0] == "signbad")
	case "settxid":
		if len(op) != 3 || f.svc == nil {
			return "bad-op"
		}
		seq, _ := strconv.Atoi(op[1])
		if seq < 0 || seq >= len(f.pending) || f.pending[seq].txid == "" {
			return "bad-op"
		}
		if f.pending[seq].txid != op[2] {
			return "bad-txid"
		}
		return "ok"
	case "dump":
		if f.svc == nil {
			return "bad-op"
		}
		u, s := f.records()
		return fmt.Sprintf("utxos=%s stxos=%s", joinInts(u), joinInts(s))
	}
	return "bad-op"
}

// multiSign performs one BTCHandler.MultiSign call with real signatures over the stored transaction.
func (f *btcsel) multiSign(r *hx.Run, p *pendTx, seq, signer int, corrupt bool) string {
	mtx := wire.NewMsgTx(wire.TxVersion)
	if err := mtx.BtcDecode(bytes.NewReader(p.raw), wire.ProtocolVersion, wire.LatestEncoding); err != nil {
		return "bad-tx"
	}
	pkScripts := make([][]byte, len(mtx.TxIn))
	amts := make([]int64, len(mtx.TxIn))
	var inIDs []int
	for i, in := range mtx.TxIn {
		pkScripts[i] = in.SignatureScript
		in.SignatureScript = nil
		id := f.ids[fmt.Sprintf("%x:%d", in.PreviousOutPoint.Hash[:], in.PreviousOutPoint.Index)]
		amts[i] = int64(f.vals[id])
		inIDs = append(inIDs, id)
	}
	var sigs [][]byte
	for i := range mtx.TxIn {
		var h []byte
		var err error
		switch txscript.GetScriptClass(pkScripts[i]) {
		case txscript.WitnessV0ScriptHashTy:
			h, err = txscript.CalcWitnessSigHash(f.redeem, txscript.NewTxSigHashes(mtx), txscript.SigHashAll, mtx, i, amts[i])
		default:
			h, err = txscript.CalcSignatureHash(f.redeem, txscript.SigHashAll, mtx, i)
		}
		if err != nil {
			return "bad-sighash"
		}
		if corrupt && i == 0 {
			h[0] ^= 1
		}
		sg, err := f.privs[signer].Sign(h)
		if err != nil {
			return "bad-sign"
		}
		sigs = append(sigs, append(sg.Serialize(), byte(txscript.SigHashAll)))
	}
	_, addrs, _, err := txscript.ExtractPkScriptAddrs(f.redeem, &chaincfg.MainNetParams)
	if err != nil || signer >= len(addrs) {
		return "bad-op"
	}
	param := &crosscommon.MultiSignParam{ChainID: btcChainID, RedeemKey: hex.EncodeToString(f.rk), TxHash: p.hash,
		Address: addrs[signer].EncodeAddress(), Signs: sigs}
	sink := common.NewZeroCopySink(nil)
	param.Serialization(sink)
	svc, err := native.NewNativeService(f.svc.GetCacheDB(), &types.Transaction{ChainID: 0}, 0, 0, common.Uint256{}, 0, sink.Bytes(), false)
	if err != nil {
		return "bad-op"
	}
	beforeU, beforeS := f.records()
	if err := btc.NewBTCHandler().MultiSign(svc); err != nil {
		r.Hist("sign.err")
		m := err.Error()
		switch {
		case strings.Contains(m, "already sign"):
			return "err:signed"
		case strings.Contains(m, "already enough signature"):
			return "err:enough"
		case strings.Contains(m, "failed to verify"):
			return "err:verify"
		}
		return "err:other"
	}
	afterU, afterS := f.records()
	nts := svc.GetNotify()
	if len(nts) != 1 {
		return "no-notify"
	}
	st, _ := nts[0].States.([]interface{})
	if len(st) > 0 && st[0] == "btcTxMultiSign" {
		r.Hist("sign.pending")
		if !sameMultiset(beforeU, afterU) || !sameMultiset(beforeS, afterS) {
			r.Viol("C26:records-changed-by-partial-signature", "a MultiSign call that does not complete the signatures changed the unspent or spent record")
		}
		return "ok pending"
	}
	if len(st) != 6 || st[0] != "btcTxToRelay" {
		return "bad-notify"
	}
	r.Hist("sign.final")
	rawSigned, _ := hex.DecodeString(st[3].(string))
	stx := wire.NewMsgTx(wire.TxVersion)
	if err := stx.BtcDecode(bytes.NewReader(rawSigned), wire.ProtocolVersion, wire.LatestEncoding); err != nil {
		return "bad-tx"
	}
	txid := stx.TxHash()
	p.txid = hex.EncodeToString(txid[:])
	wit, _ := txscript.PayToAddrScript(func() btcutil.Address {
		wh := sha256.Sum256(f.redeem)
		a, _ := btcutil.NewAddressWitnessScriptHash(wh[:], &chaincfg.MainNetParams)
		return a
	}())
	// the outputs paying the multisig's witness script become unspent outputs with fresh ids
	var fresh []int
	for i, o := range stx.TxOut {
		if bytes.Equal(o.PkScript, wit) {
			id := 1000 + 10*seq + i
			f.ids[fmt.Sprintf("%x:%d", txid[:], i)] = id
			f.vals[id] = uint64(o.Value)
			fresh = append(fresh, id)
			p.fresh = append(p.fresh, uint64(o.Value))
		}
	}
	afterU, afterS = f.records()
	if !sameMultiset(afterU, append(append([]int{}, beforeU...), fresh...)) {
		r.Viol("C26:unspent-record-after-signing", fmt.Sprintf("unspent record before %v, change outputs %v, after %v", beforeU, fresh, afterU))
	}
	if !sameMultiset(beforeS, append(append([]int{}, afterS...), inIDs...)) {
		r.Viol("C26:spent-record-after-signing", fmt.Sprintf("spent record before %v, inputs of the signed transaction %v, after %v", beforeS, inIDs, afterS))
	}
	return fmt.Sprintf("ok final utxos=%s stxos=%s", joinInts(afterU), joinInts(afterS))
}

// panicClass describes the unspent record for the key of a panic report.
func (f *btcsel) panicClass() string {
	us, err := btc.VerifGetUtxos(f.svc, btcChainID, hex.EncodeToString(f.rk))
	if err != nil {
		return "unreadable-record"
	}
	seen := map[string]bool{}
	for _, u := range us.Utxos {
		k := fmt.Sprintf("%d:%x", u.Value, u.Op.Hash)
		if seen[k] {
			return "two-outputs-of-one-tx-with-equal-value"
		}
		seen[k] = true
	}
	return "distinct-value-hash-keys"
}

func safely(fn func()) (msg string) {
	defer func() {
		if e := recover(); e != nil {
			msg = fmt.Sprint(e)
		}
	}()
	fn()
	return ""
}

func (f *btcsel) minChange() uint64 {
	d, err := side_chain_manager.GetBtcTxParam(f.svc, f.rk, btcChainID)
	if err != nil || d == nil {
		return 0
	}
	return d.MinChange
}

func opStr(u *btc.Utxo) string { return fmt.Sprintf("%x:%d", u.Op.Hash, u.Op.Index) }

func (f *btcsel) records() (utxos, stxos []int) {
	key := hex.EncodeToString(f.rk)
	conv := func(us *btc.Utxos) []int {
		var a []int
		for _, u := range us.Utxos {
			id, ok := f.ids[opStr(u)]
			if !ok {
				id = -1
			}
			a = append(a, id)
		}
		return a
	}
	us, _ := btc.VerifGetUtxos(f.svc, btcChainID, key)
	ss, _ := btc.VerifGetStxos(f.svc, btcChainID, key)
	return conv(us), conv(ss)
}

func sameMultiset(a, b []int) bool {
	x := append([]int{}, a...)
	y := append([]int{}, b...)
	sort.Ints(x)
	sort.Ints(y)
	if len(x) != len(y) {
		return false
	}
	for i := range x {
		if x[i] != y[i] {
			return false
		}
	}
	return true
}

func hasDup(a []int) bool {
	m := map[int]bool{}
	for _, v := range a {
		if m[v] {
			return true
		}
		m[v] = true
	}
	return false
}

// ---------------------------------------------------------------------------------------------- generation

type selCase struct {
	mode                 string
	m, n                 int
	feeRate, mc, target  uint64
	maxPn, maxPd, kn, kd uint64
	tries                int64
	outs                 []int
	vals                 []uint64
	kinds                []string
}

func (c *selCase) op() string {
	outs := "-"
	if len(c.outs) > 0 {
		outs = joinInts(c.outs)
	}
	us := "-"
	if len(c.vals) > 0 {
		p := make([]string, len(c.vals))
		for i := range c.vals {
			p[i] = fmt.Sprintf("%d:%s", c.vals[i], c.kinds[i])
		}
		us = strings.Join(p, ",")
	}
	return fmt.Sprintf("sel %s %d %d %d %d %d %d %d %d %d %d %s %s", c.mode, c.m, c.n, c.feeRate, c.mc, c.target,
		c.maxPn, c.maxPd, c.kn, c.kd, c.tries, outs, us)
}

func genValues(r *hx.Run, L int) []uint64 {
	vals := make([]uint64, L)
	style := r.Rng.Intn(6)
	base := uint64(1)
	for i := 0; i < r.Rng.Intn(8); i++ {
		base *= 10
	}
	for i := range vals {
		switch style {
		case 0: // small distinct-ish
			vals[i] = 1 + uint64(r.Rng.Intn(2000))
		case 1: // many equal
			vals[i] = base * uint64(1+r.Rng.Intn(3))
		case 2: // wide range
			vals[i] = 1 + r.Rng.U64()%(base*1000)
		case 3: // a few big, many dust
			if r.Rng.Chance(1, 4) {
				vals[i] = base*100 + uint64(r.Rng.Intn(1000))
			} else {
				vals[i] = 1 + uint64(r.Rng.Intn(600))
			}
		case 4: // satoshi scale up to 21e14
			vals[i] = 1 + r.Rng.U64()%2100000000000000
		default:
			vals[i] = base + uint64(i)
		}
	}
	return vals
}

func genKinds(r *hx.Run, L int) []string {
	kinds := make([]string, L)
	style := r.Rng.Intn(20)
	for i := range kinds {
		switch {
		case style < 9:
			kinds[i] = "w"
		case style < 13:
			kinds[i] = "s"
		case style < 19:
			if r.Rng.Bool() {
				kinds[i] = "w"
			} else {
				kinds[i] = "s"
			}
		default:
			kinds[i] = []string{"w", "s", "o"}[r.Rng.Intn(3)]
		}
	}
	return kinds
}

func sortDesc(vals []uint64, kinds []string) {
	idx := make([]int, len(vals))
	for i := range idx {
		idx[i] = i
	}
	sort.SliceStable(idx, func(a, b int) bool { return vals[idx[a]] > vals[idx[b]] })
	v2 := make([]uint64, len(vals))
	k2 := make([]string, len(vals))
	for i, j := range idx {
		v2[i], k2[i] = vals[j], kinds[j]
	}
	copy(vals, v2)
	copy(kinds, k2)
}

func genTarget(r *hx.Run, vals []uint64) uint64 {
	var total uint64
	for _, v := range vals {
		total += v
	}
	switch r.Rng.Intn(8) {
	case 0: // exact subset sum
		var s uint64
		for _, v := range vals {
			if r.Rng.Bool() {
				s += v
			}
		}
		if s == 0 {
			s = vals[0]
		}
		return s
	case 1: // just below a prefix sum of the sorted list
		var s uint64
		k := 1 + r.Rng.Intn(len(vals))
		for _, v := range vals[:k] {
			s += v
		}
		d := uint64(r.Rng.Intn(50))
		if s > d+1 {
			return s - d
		}
		return s
	case 2:
		return 1 + total/uint64(2+r.Rng.Intn(8))
	case 3:
		return total + uint64(r.Rng.Intn(3))
	case 4:
		return 1 + uint64(r.Rng.Intn(3))
	case 5:
		return 1 + r.Rng.U64()%(total+1)
	case 6:
		return vals[r.Rng.Intn(len(vals))]
	default:
		return 1 + vals[0]*uint64(1+r.Rng.Intn(3))/uint64(1+r.Rng.Intn(3))
	}
}

func (f *btcsel) genSel(r *hx.Run, id int) {
	maxL := r.Pick(14, 22)
	L := 1 + r.Rng.Intn(maxL)
	if r.Rng.Chance(1, r.Pick(12, 30)) {
		L = 1 + r.Rng.Intn(r.Pick(40, 120))
	}
	if r.Rng.Chance(1, 60) {
		L = 0
	}
	c := &selCase{maxPn: 1, maxPd: 1, kn: 4, kd: 1, tries: 1000000}
	c.vals = genValues(r, L)
	c.kinds = genKinds(r, L)
	if !r.Rng.Chance(1, 10) {
		sortDesc(c.vals, c.kinds)
	}
	mn := [][2]int{{2, 3}, {5, 7}, {1, 1}, {3, 5}, {11, 15}, {0, 0}, {1, 2}}[r.Rng.Intn(7)]
	c.m, c.n = mn[0], mn[1]
	if L > 0 {
		c.target = genTarget(r, c.vals)
	} else {
		c.target = uint64(1 + r.Rng.Intn(1000))
	}
	switch r.Rng.Intn(7) {
	case 0:
		c.mc = 0
	case 1:
		c.mc = uint64(1 + r.Rng.Intn(100))
	case 2:
		c.mc = c.target / uint64(1+r.Rng.Intn(4))
	case 3:
		c.mc = c.target * uint64(1+r.Rng.Intn(4))
	case 4:
		if L > 0 {
			c.mc = c.vals[r.Rng.Intn(L)]
		}
	case 5:
		c.mc = 2000
	default:
		c.mc = uint64(r.Rng.Intn(5000))
	}
	switch r.Rng.Intn(6) {
	case 0:
		c.feeRate = 0
	case 1, 2:
		c.feeRate = uint64(1 + r.Rng.Intn(3))
	case 3:
		c.feeRate = uint64(1 + r.Rng.Intn(60))
	default: // a rate that makes the fee reach the target after j inputs of ~110 (witness) .. 300 (p2sh) bytes
		j := uint64(1 + r.Rng.Intn(L+1))
		c.feeRate = c.target / (uint64(60+r.Rng.Intn(300)) * j)
	}
	if r.Rng.Chance(1, 8) {
		p := [][2]uint64{{1, 2}, {1, 10}, {3, 1}, {1, 100}, {2, 3}}[r.Rng.Intn(5)]
		c.maxPn, c.maxPd = p[0], p[1]
	}
	if r.Rng.Chance(1, 8) {
		p := [][2]uint64{{2, 1}, {3, 2}, {100, 1}, {1, 1}, {11, 10}}[r.Rng.Intn(5)]
		c.kn, c.kd = p[0], p[1]
	}
	if r.Rng.Chance(1, 8) {
		c.tries = int64([]int{0, 1, 2, 5, 17, 100, 1000}[r.Rng.Intn(7)])
	}
	if L > 16 && c.tries > 30000 { // keep the exhaustive branch-and-bound affordable on long lists
		c.tries = int64(r.Pick(3000, 6000))
	}
	for i := 0; i < r.Rng.Intn(4); i++ {
		c.outs = append(c.outs, []int{22, 23, 25, 34, 0, 252, 253, 300}[r.Rng.Intn(8)])
	}
	c.mode = []string{"select", "select", "select", "bnb", "sorted", "sorted", "sorted"}[r.Rng.Intn(7)]
	r.Case(fmt.Sprintf("sel-%d", id))
	res := r.Do(c.op())
	cls := "none"
	if strings.HasPrefix(res, "ok") {
		cls = "ok"
		nsel := strings.Count(strings.Fields(res)[1], ",") + 1
		r.Nontrivial(fmt.Sprintf("%s/L%d/k%s/sel%d/mc%v/fee%v", c.mode, L, kindsClass(c.kinds), nsel, c.mc > 0, c.feeRate > 3))
	}
	r.Hist("sel.kinds." + kindsClass(c.kinds))
	r.Hist(fmt.Sprintf("sel.L.%s", lenClass(L)))
	if id%211 == 1 {
		r.Sample(map[string]interface{}{"op": c.op(), "res": res, "class": cls})
	}
}

func lenClass(n int) string {
	switch {
	case n == 0:
		return "0"
	case n == 1:
		return "1"
	case n <= 4:
		return "2-4"
	case n <= 14:
		return "5-14"
	case n <= 40:
		return "15-40"
	default:
		return ">40"
	}
}

// a sequence of deposits and withdrawals on one redeem key
func (f *btcsel) genHistory(r *hx.Run, id int) {
	r.Case(fmt.Sprintf("hist-%d", id))
	mn := [][2]int{{2, 3}, {5, 7}, {1, 1}, {3, 5}}[r.Rng.Intn(4)]
	feeRate := uint64(r.Rng.Intn(4))
	if r.Rng.Chance(1, 5) {
		feeRate = uint64(r.Rng.Intn(40))
	}
	mc := uint64([]int{0, 1, 100, 546, 2000, 5000, 100000}[r.Rng.Intn(7)])
	r.Do(fmt.Sprintf("init %d %d %d %d", mn[0], mn[1], feeRate, mc))
	next := 0
	kindStyle := r.Rng.Intn(3)
	valStyle := r.Rng.Intn(3)
	var live []uint64
	type twin struct {
		h   []byte
		v   uint64
		idx int
	}
	var twins []twin
	used := map[string]bool{}
	add := func() {
		var v uint64
		switch valStyle {
		case 0:
			v = 1 + uint64(r.Rng.Intn(5000))
		case 1:
			v = 1000 * uint64(1+r.Rng.Intn(4))
		default:
			v = 1 + r.Rng.U64()%100000000
		}
		kind := "w"
		if kindStyle == 1 || (kindStyle == 2 && r.Rng.Bool()) {
			kind = "s"
		}
		h := r.Rng.Bytes(32)
		idx := r.Rng.Intn(3)
		if len(twins) > 0 && r.Rng.Chance(1, 8) { // a second output of an earlier transaction with the same value
			t := twins[r.Rng.Intn(len(twins))]
			h, v, idx = t.h, t.v, t.idx+1+r.Rng.Intn(2)
			for used[fmt.Sprintf("%x:%d", h, idx)] { // outpoints stay pairwise different
				idx++
			}
		}
		used[fmt.Sprintf("%x:%d", h, idx)] = true
		twins = append(twins, twin{h, v, idx})
		r.Do(fmt.Sprintf("add %d %d %s %s %d", next, v, kind, hx.Hex(h), idx))
		next++
		live = append(live, v)
	}
	for i, k := 0, 1+r.Rng.Intn(r.Pick(9, 11)); i < k; i++ {
		add()
	}
	steps := 2 + r.Rng.Intn(r.Pick(8, 12))
	okN := 0
	signedTx := 0
	for s := 0; s < steps; s++ {
		if r.Rng.Chance(1, 3) && next < r.Pick(13, 14) {
			add()
			continue
		}
		var total uint64
		for _, v := range live {
			total += v
		}
		var amount uint64
		switch r.Rng.Intn(5) {
		case 0:
			amount = 1 + total/uint64(2+r.Rng.Intn(10))
		case 1:
			if len(live) > 0 {
				amount = live[r.Rng.Intn(len(live))]
			}
		case 2:
			amount = 1 + r.Rng.U64()%(total+2)
		case 3:
			amount = total
		default:
			amount = 1 + uint64(r.Rng.Intn(3000))
		}
		if amount == 0 {
			amount = 1
		}
		outs := "34"
		if r.Rng.Bool() {
			outs = fmt.Sprintf("%d,34", []int{22, 23, 25, 34}[r.Rng.Intn(4)])
		}
		var res string
		madeTx := false
		if r.Rng.Chance(2, 5) {
			madeTx = true
			if r.Rng.Chance(1, 5) {
				res = r.Do(fmt.Sprintf("maketx %d self", amount))
			} else {
				res = r.Do(fmt.Sprintf("maketx %d", amount))
			}
		} else {
			res = r.Do(fmt.Sprintf("choose %d %s", amount, outs))
		}
		if res == "panic" {
			return
		}
		if madeTx && strings.HasPrefix(res, "ok") && r.Rng.Chance(3, 4) {
			// collect the signatures of the transaction just built: mn[0] of the mn[1] redeem keys in random order,
			// with a repeated signer, a wrong signature and a late extra signer thrown in
			seq := len(f.pending) - 1
			order := r.Rng.Perm(mn[1])
			signed := 0
			doSign := func(k int) { // a completed round is always followed by the id of the signed transaction
				sres := r.Do(fmt.Sprintf("sign %d %d", seq, k))
				if strings.HasPrefix(sres, "ok final") {
					r.Do(fmt.Sprintf("settxid %d %s", seq, f.pending[seq].txid))
					signedTx++
					live = append(live, f.pending[seq].fresh...)
				}
			}
			for _, k := range order {
				if signed == mn[0] {
					break
				}
				if r.Rng.Chance(1, 8) {
					r.Do(fmt.Sprintf("signbad %d %d", seq, k))
				}
				doSign(k)
				signed++
				if r.Rng.Chance(1, 8) {
					doSign(k)
				}
				if r.Rng.Chance(1, 6) { // stop half way: the change output may never materialise
					break
				}
			}
			if r.Rng.Chance(1, 6) {
				doSign(order[len(order)-1])
			}
		}
		if strings.HasPrefix(res, "ok") {
			okN++
			// the harness does not track which values left the set; rebuild `live` from the dump is unnecessary:
			// amounts are only steering values
			if len(live) > 0 {
				live = live[:len(live)-1]
			}
		}
	}
	r.Do("dump")
	if okN >= 2 {
		r.Nontrivial(fmt.Sprintf("hist/%d/%d/%d/ok%d/signed%d", mn[0], kindStyle, valStyle, okN, signedTx))
	}
	r.Hist(fmt.Sprintf("hist.fully-signed.%d", signedTx))
	r.Hist(fmt.Sprintf("hist.withdrawals-ok.%d", okN))
}

// genCrowded: a redeem key holding many (mostly tiny) outputs. Targets are steered so that the branch-and-bound finds its
// answer within a few steps (the largest output alone, largest + smallest, largest + smallest + second largest, or the
// largest leaving at least the minimum change): exact matches leave no change, so anything added to the selection
// afterwards shows up as a total that is neither the payment nor the payment plus at least the minimum change.
func (f *btcsel) genCrowded(r *hx.Run, id int) {
	r.Case(fmt.Sprintf("crowd-%d", id))
	mn := [][2]int{{2, 3}, {5, 7}, {3, 5}}[r.Rng.Intn(3)]
	mc := uint64([]int{2000, 546, 5000, 2000}[r.Rng.Intn(4)])
	r.Do(fmt.Sprintf("init %d %d %d %d", mn[0], mn[1], r.Rng.Intn(2), mc))
	L := 65 + r.Rng.Intn(r.Pick(90, 236))
	if r.Rng.Chance(1, 4) {
		L = 60 + r.Rng.Intn(10) // around the 64 mark
	}
	nBig := 3 + r.Rng.Intn(4)
	vals := map[int]uint64{}
	for i := 0; i < L; i++ {
		v := uint64(1 + r.Rng.Intn(1500))
		if i < nBig {
			v = uint64(200000+r.Rng.Intn(5000000)) + uint64(i) // distinct large values
		}
		kind := "w"
		if r.Rng.Chance(1, 10) {
			kind = "s"
		}
		r.Do(fmt.Sprintf("add %d %d %s %s %d", i, v, kind, hx.Hex(r.Rng.Bytes(32)), r.Rng.Intn(3)))
		vals[i] = v
	}
	live := map[int]bool{}
	for i := 0; i < L; i++ {
		live[i] = true
	}
	for step := 0; step < 2+r.Rng.Intn(2); step++ {
		var vs []uint64
		for i := range live {
			vs = append(vs, vals[i])
		}
		if len(vs) < 4 {
			break
		}
		sort.Slice(vs, func(a, b int) bool { return vs[a] > vs[b] })
		v0, v1, vmin := vs[0], vs[1], vs[len(vs)-1]
		var amount uint64
		switch r.Rng.Intn(5) {
		case 0:
			amount = v0 // the largest output alone, no change
		case 1:
			amount = v0 + vmin
		case 2:
			amount = v0 + vmin + v1
		case 3:
			amount = v0 - mc - uint64(r.Rng.Intn(1000)) // change of at least the minimum
		default:
			amount = v0
		}
		var res string
		if r.Rng.Bool() {
			res = r.Do(fmt.Sprintf("maketx %d", amount))
		} else {
			res = r.Do(fmt.Sprintf("choose %d 25,34", amount))
		}
		r.Hist("crowd." + strings.Fields(res)[0])
		if !strings.HasPrefix(res, "ok") {
			break
		}
		// what is still unspent according to the answer
		for _, fld := range strings.Fields(res) {
			if strings.HasPrefix(fld, "utxos=") {
				live = map[int]bool{}
				for _, t := range splitList(strings.TrimPrefix(fld, "utxos=")) {
					i, _ := strconv.Atoi(t)
					live[i] = true
				}
			}
		}
		r.Nontrivial(fmt.Sprintf("crowd/L%d/step%d", L/32, step))
	}
	r.Do("dump")
}

func (f *btcsel) Gen(r *hx.Run) {
	if pf := os.Getenv("HBTC_PROF"); pf != "" {
		fh, _ := os.Create(pf)
		pprof.StartCPUProfile(fh)
		defer pprof.StopCPUProfile()
	}
	r.Rule("sel: one selector call (Select / SimpleBnbSearch / SortedSearch) on a generated UTXO list (0..120 outputs, six value styles incl. equal values and satoshi-scale, witness-only / p2sh-only / mixed script kinds), targets steered to exact subset sums, prefix sums, totals and misses, min-change 0..4x target, fee rates that make the fee reach the target, varied maxP / k / search budget; distinct non-trivial = distinct (mode, length, kinds, selection size, mc>0, fee class) among successful selections. hist: deposit/withdrawal sequences through chooseUtxos on a real CacheDB; non-trivial = at least two successful withdrawals")
	// corpus: the inputs on which the three repaired defects were found (run first)
	{
		r.Case("corpus-f6")
		r.Do("sel sorted 2 3 1 2000 1000 1 1 4 1 1000000 34 1500:w,1400:w,1300:w,50:w")
		r.Do("sel select 2 3 1 2000 1000 1 1 4 1 1000000 34 1500:w,1400:w,1300:w,50:w")
		r.Case("corpus-p2sh-skip")
		r.Do("sel select 11 15 3 0 4251 2 3 4 1 1000000 252,0 3000:s,3000:w,3000:s,3000:s,2000:w,1000:w,1000:w,1000:w")
		r.Do("sel sorted 3 5 3 58 6702 1 1 4 1 1000000 - 1000:o,1001:o,1002:s,1003:o,1004:w,1005:w,1006:w,1007:o")
		r.Case("corpus-twin-outputs")
		r.Do("init 2 3 3 5000")
		r.Do("add 0 2000 s 00b68d817093e8b2cba41f5ddc7bbd200831cea66c8ace22718c5887e3ebdd21 1")
		r.Do("add 1 2000 w 00b68d817093e8b2cba41f5ddc7bbd200831cea66c8ace22718c5887e3ebdd21 3")
		r.Do("add 2 3000 s 22d53770c93f187b48f9e6ec8fcd9f5681e48b9cea524f2740dbfc273e009660 0")
		r.Do("add 3 2000 s b78e86183f9b69cc98772e24e2e0d08c120e2b219e59594e481b20c27de8b051 2")
		r.Do("add 4 4000 s 06864c20dde6277fca66fd62f84d80b5ba5fc0ee46e79aaa6317641dd1b45d7a 0")
		r.Do("add 5 1000 w 782b75ac5d4e6fc86e02ae9b7f5e5a7dd2a7b3e642cfabb181f3e787c7c83115 1")
		r.Do("add 6 4000 s fe316d446fea6268e8e49757fbaf9929f531c3e36b54d1b60e2c3ea5d48d7607 2")
		r.Do("add 7 3000 s 22d53770c93f187b48f9e6ec8fcd9f5681e48b9cea524f2740dbfc273e009660 2")
		r.Do("add 8 2000 w 00f33fc2c21dcda15b16e777be81cd3a584700c8f70b90fdd8dd256775f05a2f 1")
		r.Do("maketx 23000")
	}
	nSel := r.Pick(6000, 50000)
	if os.Getenv("HBTC_NOSEL") != "" {
		nSel = 0
	}
	for i := 0; i < nSel; i++ {
		f.genSel(r, i)
	}
	// histories on a crowded unspent record: 65..300 outputs, most of them tiny, exact-match (changeless) and
	// change-leaving withdrawals through chooseUtxos and makeBtcTx
	for i := 0; i < r.Pick(40, 600); i++ {
		f.genCrowded(r, i)
	}
	nHist := r.Pick(3000, 40000)
	for i := 0; i < nHist; i++ {
		f.genHistory(r, i)
	}
}
