package main

import (
	"bytes"
	"crypto/aes"
	"crypto/cipher"
	"crypto/sha256"
	"encoding/hex"
	"fmt"
	"os"
	"path/filepath"
	"strconv"
	"strings"
	"sync"

	"github.com/ontio/ontology-crypto/ec"
	"github.com/ontio/ontology-crypto/keypair"
	s "github.com/ontio/ontology-crypto/signature"
	"github.com/polynetwork/poly/account"
	"github.com/polynetwork/poly/common/log"
	"github.com/polynetwork/poly/core/types"
	"golang.org/x/crypto/ed25519"
	"golang.org/x/crypto/scrypt"
	"polyverif/internal/hx"
)

// Family wallet (C43): the real account package on a wallet file under $TMPDIR.
// Keys are named A0, A1, ... in creation order (real addresses are never compared); labels and passwords are hex.
//
//	open <def|low|tiny>                    -> ok                    (low: the file exists with scrypt N=4096, as `account export --low-security` writes it)
//	new <label> <alg> <curve> <scheme> <pw>     -> ok A<i> def=<b> | err:<class>
//	import <label> <new|A<j>> <pw> <gcm|ctr> <scheme> <alg> <curve>  -> ok A<i> def=<b> | err:<class>
//	get <A> <pw> | getlabel <label> <pw> | getidx <n> <pw> | getdef <pw>  -> nil | ok A<i> | ok other | err:<class>
//	meta <A>                            -> nil | label=<hex> def=<b> scheme=<s> alg=<a>
//	del <A> <pw>                        -> ok A<i> | nil | err:<class>
//	setdef <A> | setlabel <A> <label> | chpw <A> <old> <new> | chsig <A> <scheme>  -> ok | err:<class>
//	seclevel <low|def> <pw,..>          -> ok | err:count | err:failed:<i> | panic   (passwords in wallet-file order; ok is followed by a save)
//	exportlow <pw,..> | save | ximport <A> | chpwfault <A> <old> <new> | chpwconc <A> <old> <new,..> | chpwwon <A> <old> <new>   (see Exec)
//	reload                              -> ok n=<GetAccountNum> file=<accounts in file>
//	num                                 -> <n>
//	auditlive                           -> ok     (the same on the live client)
//	audit                               -> ok     (property oracle: every live account decrypts with its password to its key, not with another)
type walletFam struct {
	dir    string
	path   string
	cli    *account.ClientImpl
	keys   []*keyRec
	live   []*liveAcc
	order  []*liveAcc // the accounts in wallet-file order (walletData.Accounts)
	caseNo int
	cliB   *account.ClientImpl // a second wallet that imports accounts from the first (cross-wallet aliasing)
	inB    []*liveAcc          // what was imported into it, with the password valid at import time
	light  bool                // live audits probe own and replaced passwords only (every probe is a scrypt run)
	winner []byte              // new password of the ChangePassword call that won the last concurrent round
}

type keyRec struct {
	priv keypair.PrivateKey
	pub  keypair.PublicKey
	addr string
	alg  string
}

// liveAcc is what the property speaks about: an account created in / imported into the wallet with a password.
type liveAcc struct {
	key     int
	pw      []byte
	deleted bool
	shadow  bool // a later import of the same address replaced it in the address index
	mode    string
	oldPw   []byte // the password replaced by the last successful ChangePassword
	noIndex bool   // same address as a deleted entry: DeleteAccount dropped the address from the live client's index
	// (the entry is still in the file and is found again after a reload) — not looked up by address on the live client
}

func init() { families["wallet"] = func() hx.Family { return &walletFam{} } }

func (f *walletFam) Reset(r *hx.Run) {
	log.InitLog(log.ErrorLog, log.Stdout)
	f.caseNo++
	if f.dir != "" {
		os.RemoveAll(f.dir)
	}
	base := os.Getenv("TMPDIR")
	if base == "" {
		base = os.TempDir()
	}
	f.dir = filepath.Join(base, fmt.Sprintf("hwallet-%d-%d", os.Getpid(), f.caseNo))
	os.MkdirAll(f.dir, 0700)
	f.path = filepath.Join(f.dir, "wallet.dat")
	f.cli = nil
	f.keys = nil
	f.live = nil
	f.order = nil
	f.cliB = nil
	f.inB = nil
	f.winner = nil
}

func (f *walletFam) sym(addr string) string {
	for i, k := range f.keys {
		if k.addr == addr {
			return "A" + strconv.Itoa(i)
		}
	}
	return "other"
}

func (f *walletFam) realAddr(sym string) string {
	i, err := strconv.Atoi(strings.TrimPrefix(sym, "A"))
	if err != nil || i < 0 || i >= len(f.keys) {
		return "AUnknownAddress" + sym
	}
	return f.keys[i].addr
}

func privBytes(k keypair.PrivateKey) []byte { return keypair.SerializePrivateKey(k) }

func errClass(err error) string {
	m := err.Error()
	switch {
	case strings.Contains(m, "password cannot empty"):
		return "err:emptyPassword"
	case strings.Contains(m, "does not match KeyType"):
		return "err:sigScheme"
	case strings.Contains(m, "duplicate label"):
		return "err:dupLabel"
	case strings.Contains(m, "cannot find account"):
		return "err:notFound"
	case strings.Contains(m, "cannot delete default"):
		return "err:isDefault"
	case strings.Contains(m, "cannot found default"):
		return "err:noDefault"
	case strings.Contains(m, "signature scheme error"):
		return "err:badScheme"
	case strings.Contains(m, "save error"):
		return "err:save"
	case strings.Contains(m, "does not match the account address"):
		return "err:addrMismatch"
	case strings.Contains(m, "decrypt") || strings.Contains(m, "Decrypt") || strings.Contains(m, "authentication failed") || strings.Contains(m, "invalid argument") || strings.Contains(m, "private key length"):
		return "err:decrypt"
	}
	return "err:other:" + m
}

func keyTypeOf(alg string) keypair.KeyType {
	switch alg {
	case "ECDSA":
		return keypair.PK_ECDSA
	case "SM2":
		return keypair.PK_SM2
	}
	return keypair.PK_EDDSA
}

func algName(k keypair.PrivateKey) string {
	switch t := k.(type) {
	case *ec.PrivateKey:
		if t.Algorithm == ec.SM2 {
			return "SM2"
		}
		return "ECDSA"
	case ed25519.PrivateKey:
		return "Ed25519"
	}
	return "?"
}

// ctrProtect builds a legacy "aes-256-ctr" protected key exactly as DecryptWithCustomScrypt undoes it.
func ctrProtect(k keypair.PrivateKey, addr string, pw []byte, p *keypair.ScryptParam) *keypair.ProtectedKey {
	d := sha256.Sum256([]byte(addr))
	d = sha256.Sum256(d[:])
	dk, err := scrypt.Key(pw, d[:4], p.N, p.R, p.P, p.DKLen)
	if err != nil {
		panic(err)
	}
	var plain []byte
	res := &keypair.ProtectedKey{Address: addr, EncAlg: "aes-256-ctr"}
	switch t := k.(type) {
	case *ec.PrivateKey:
		plain = t.D.Bytes()
		res.Alg = "ECDSA"
		if t.Algorithm == ec.SM2 {
			res.Alg = "SM2"
		}
		res.Param = map[string]string{"curve": t.Params().Name}
	case ed25519.PrivateKey:
		plain = []byte(t)
		res.Alg = "Ed25519"
	}
	blk, _ := aes.NewCipher(dk[len(dk)-32:])
	out := make([]byte, len(plain))
	cipher.NewCTR(blk, dk[:16]).XORKeyStream(out, plain)
	res.Key = out
	return res
}

func (f *walletFam) accResult(acc *account.Account, err error) string {
	if err != nil {
		return errClass(err)
	}
	if acc == nil {
		return "nil"
	}
	sy := f.sym(acc.Address.ToBase58())
	if sy != "other" {
		i, _ := strconv.Atoi(sy[1:])
		if !bytes.Equal(privBytes(acc.PrivateKey), privBytes(f.keys[i].priv)) {
			return "ok other-key-same-address"
		}
	}
	return "ok " + sy
}

func (f *walletFam) Exec(r *hx.Run, op []string) string {
	switch op[0] {
	case "open":
		if op[1] == "low" || op[1] == "tiny" {
			wd := account.NewWalletData()
			wd.Scrypt = &keypair.ScryptParam{N: 4096, R: 8, P: 8, DKLen: 64}
			if op[1] == "tiny" { // the wallet format allows any parameters: cheap ones keep long histories affordable
				wd.Scrypt = &keypair.ScryptParam{N: 256, R: 8, P: 1, DKLen: 64}
			}
			if err := wd.Save(f.path); err != nil {
				return "err:io"
			}
		}
		c, err := account.NewClientImpl(f.path)
		if err != nil {
			return "err:open"
		}
		f.cli = c
		return "ok"
	case "new":
		label := string(hx.UnHex(op[1]))
		curve, _ := strconv.Atoi(op[3])
		sch, err := s.GetScheme(op[4])
		if err != nil {
			return "bad-op"
		}
		pw := hx.UnHex(op[5])
		acc, err := f.cli.NewAccount(label, keyTypeOf(op[2]), byte(curve), sch, pw)
		if err != nil {
			return errClass(err)
		}
		f.keys = append(f.keys, &keyRec{acc.PrivateKey, acc.PublicKey, acc.Address.ToBase58(), algName(acc.PrivateKey)})
		f.live = append(f.live, &liveAcc{key: len(f.keys) - 1, pw: append([]byte{}, pw...), mode: "new"})
		f.order = append(f.order, f.live[len(f.live)-1])
		return f.addOutcome(len(f.keys) - 1)
	case "import":
		label := string(hx.UnHex(op[1]))
		pw := hx.UnHex(op[3])
		var k *keyRec
		ki := -1
		if op[2] == "new" {
			curve, _ := strconv.Atoi(op[7])
			pri, pub, err := keypair.GenerateKeyPair(keyTypeOf(op[6]), byte(curve))
			if err != nil {
				return "bad-op"
			}
			a := types.AddressFromPubKey(pub)
			k = &keyRec{pri, pub, a.ToBase58(), algName(pri)}
		} else {
			ki, _ = strconv.Atoi(op[2][1:])
			if ki >= len(f.keys) {
				return "bad-op"
			}
			k = f.keys[ki]
		}
		var prot *keypair.ProtectedKey
		if op[4] == "ctr" {
			prot = ctrProtect(k.priv, k.addr, pw, f.cli.GetWalletData().Scrypt)
		} else {
			var err error
			prot, err = keypair.EncryptWithCustomScrypt(k.priv, k.addr, pw, f.cli.GetWalletData().Scrypt)
			if err != nil {
				return "bad-op"
			}
		}
		meta := &account.AccountMetadata{Label: label, KeyType: prot.Alg, Curve: prot.Param["curve"], Address: prot.Address,
			PubKey: hex.EncodeToString(keypair.SerializePublicKey(k.pub)), SigSch: op[5], Salt: prot.Salt, Key: prot.Key, EncAlg: prot.EncAlg, Hash: prot.Hash}
		if err := f.cli.ImportAccount(meta); err != nil {
			return errClass(err)
		}
		if ki < 0 {
			f.keys = append(f.keys, k)
			ki = len(f.keys) - 1
		} else {
			for _, l := range f.live {
				if l.key == ki && !l.deleted {
					l.shadow = true
				}
			}
		}
		f.live = append(f.live, &liveAcc{key: ki, pw: append([]byte{}, pw...), mode: op[4]})
		f.order = append(f.order, f.live[len(f.live)-1])
		return f.addOutcome(ki)
	case "get":
		return f.accResult(f.cli.GetAccountByAddress(f.realAddr(op[1]), hx.UnHex(op[2])))
	case "getlabel":
		return f.accResult(f.cli.GetAccountByLabel(string(hx.UnHex(op[1])), hx.UnHex(op[2])))
	case "getidx":
		i, _ := strconv.Atoi(op[1])
		return f.accResult(f.cli.GetAccountByIndex(i, hx.UnHex(op[2])))
	case "getdef":
		return f.accResult(f.cli.GetDefaultAccount(hx.UnHex(op[1])))
	case "meta":
		m := f.cli.GetAccountMetadataByAddress(f.realAddr(op[1]))
		if m == nil {
			return "nil"
		}
		return fmt.Sprintf("label=%s def=%v scheme=%s alg=%s", hx.Hex([]byte(m.Label)), m.IsDefault, m.SigSch, m.KeyType)
	case "del":
		addr := f.realAddr(op[1])
		acc, err := f.cli.DeleteAccount(addr, hx.UnHex(op[2]))
		if err == nil && acc != nil {
			// the code removes the first list entry with that address
			for i, l := range f.order {
				if f.keys[l.key].addr == addr {
					l.deleted = true
					f.order = append(append([]*liveAcc{}, f.order[:i]...), f.order[i+1:]...)
					for _, o := range f.order {
						if f.keys[o.key].addr == addr {
							o.noIndex = true
						}
					}
					break
				}
			}
		}
		return f.accResult(acc, err)
	case "setdef":
		if err := f.cli.SetDefaultAccount(f.realAddr(op[1])); err != nil {
			return errClass(err)
		}
		return "ok"
	case "setlabel":
		if err := f.cli.SetLabel(f.realAddr(op[1]), string(hx.UnHex(op[2]))); err != nil {
			return errClass(err)
		}
		return "ok"
	case "chpw":
		addr := f.realAddr(op[1])
		oldPw, newPw := hx.UnHex(op[2]), hx.UnHex(op[3])
		// the account is opened with the password about to be replaced first (whatever the client remembers about
		// that open must not outlive the change)
		f.cli.GetAccountByAddress(addr, oldPw)
		if err := f.cli.ChangePassword(addr, oldPw, newPw); err != nil {
			return errClass(err)
		}
		if !bytes.Equal(hmacKey(oldPw), hmacKey(newPw)) {
			// on the SAME live client, before any open with the new password: the replaced password must be refused
			if acc, err := f.cli.GetAccountByAddress(addr, oldPw); err == nil && acc != nil {
				r.Viol("C43:old-password-still-opens-after-change:get", fmt.Sprintf("after ChangePassword the account %s still opens with the replaced password (GetAccountByAddress on the live client)", op[1]))
			}
			if err := f.cli.UnLockAccount(addr, 1, oldPw); err == nil {
				f.cli.LockAccount(addr)
				r.Viol("C43:old-password-still-opens-after-change:unlock", fmt.Sprintf("after ChangePassword the account %s can still be unlocked with the replaced password", op[1]))
			}
		}
		if !bytes.Equal(oldPw, newPw) {
			// the address index points at the latest entry with that address
			var last *liveAcc
			for _, l := range f.live {
				if !l.deleted && f.keys[l.key].addr == addr {
					last = l
				}
			}
			if last != nil {
				last.pw = append([]byte{}, newPw...)
				last.oldPw = append([]byte{}, oldPw...)
				last.mode = "gcm"
			}
		}
		return "ok"
	case "chsig":
		sch, err := s.GetScheme(op[2])
		if err != nil {
			return "bad-op"
		}
		if err := f.cli.ChangeSigScheme(f.realAddr(op[1]), sch); err != nil {
			return errClass(err)
		}
		return "ok"
	case "seclevel":
		// the CLI's `account export --low-security` path (WalletData.ToLowSecurity) and its counterpart, applied to the
		// client's wallet data; a successful switch is written to the file, a refused one must leave everything as it was
		var pws [][]byte
		if op[2] != "-" {
			for _, h := range strings.Split(op[2], ",") {
				pws = append(pws, hx.UnHex(h))
			}
		}
		wd := f.cli.GetWalletData()
		var err error
		crashed := false
		func() {
			defer func() {
				if e := recover(); e != nil {
					crashed = true
					r.Viol("C43:seclevel-"+op[1]+"-panic", fmt.Sprintf("WalletData security-level switch (%s) panics: %v", op[1], e))
				}
			}()
			if op[1] == "low" {
				err = wd.ToLowSecurity(pws)
			} else {
				err = wd.ToDefaultSecurity(pws)
			}
		}()
		if crashed {
			return "panic"
		}
		if err != nil {
			m := err.Error()
			if strings.Contains(m, "not enough passwords") {
				return "err:count"
			}
			var i int
			if _, e := fmt.Sscanf(m, "re-encrypt account %d failed", &i); e == nil {
				return fmt.Sprintf("err:failed:%d", i)
			}
			return "err:other:" + m
		}
		if err := wd.Save(f.path); err != nil {
			return "err:io"
		}
		for _, l := range f.order {
			if !strings.HasPrefix(l.mode, "reenc-") {
				l.mode = "reenc-" + l.mode // re-encrypted by a security-level switch; was new / gcm / ctr before
			}
		}
		return "ok"
	case "exportlow":
		// the `account export --low-security` flow: Clone(), ToLowSecurity on the clone, Save to another file. The
		// wallet it was cloned from must not notice.
		var pws [][]byte
		if len(op) > 1 && op[1] != "-" {
			for _, h := range strings.Split(op[1], ",") {
				pws = append(pws, hx.UnHex(h))
			}
		}
		clone := f.cli.GetWalletData().Clone()
		if err := clone.ToLowSecurity(pws); err != nil {
			return "err:export"
		}
		target := filepath.Join(f.dir, "export.dat")
		os.Remove(target)
		if err := clone.Save(target); err != nil {
			return "err:io"
		}
		if ec, err := account.NewClientImpl(target); err != nil {
			r.Viol("C43:export-unreadable", "the exported low-security wallet cannot be opened: "+err.Error())
		} else {
			for _, l := range f.order {
				if len(l.pw) == 0 {
					continue
				}
				acc, err := ec.GetAccountByAddress(f.keys[l.key].addr, l.pw)
				if (err != nil || acc == nil) && !l.shadow {
					r.Viol("C43:own-password-fails:exported", fmt.Sprintf("account A%d of the exported low-security wallet does not open with its password: %v", l.key, err))
				}
			}
		}
		return "ok"
	case "save": // WalletData.Save of the live wallet data, as any later mutating call would do
		if err := f.cli.GetWalletData().Save(f.path); err != nil {
			return "err:io"
		}
		return "ok"
	case "ximport":
		// wallet B imports the account from wallet A through its metadata (the CLI's `account import` from a wallet file)
		if f.cliB == nil {
			c, err := account.NewClientImpl(filepath.Join(f.dir, "walletB.dat"))
			if err != nil {
				return "err:open"
			}
			*c.GetWalletData().Scrypt = *f.cli.GetWalletData().Scrypt
			f.cliB = c
		}
		addr := f.realAddr(op[1])
		meta := f.cli.GetAccountMetadataByAddress(addr)
		if meta == nil {
			return "nil"
		}
		meta.Label = ""
		if err := f.cliB.ImportAccount(meta); err != nil {
			return errClass(err)
		}
		var src *liveAcc
		for _, l := range f.live {
			if !l.deleted && f.keys[l.key].addr == addr {
				src = l
			}
		}
		if src != nil {
			f.inB = append(f.inB, &liveAcc{key: src.key, pw: append([]byte{}, src.pw...), mode: "ximport"})
		}
		return "ok"
	case "chpwfault":
		// ChangePassword while the wallet file cannot be written (a directory sits where Save puts its temporary file):
		// the call must fail and roll back completely
		addr := f.realAddr(op[1])
		oldPw, newPw := hx.UnHex(op[2]), hx.UnHex(op[3])
		block := f.path + "~"
		os.RemoveAll(block)
		os.Mkdir(block, 0700)
		err := f.cli.ChangePassword(addr, oldPw, newPw)
		os.RemoveAll(block)
		if err == nil {
			return "ok-unexpected"
		}
		out := errClass(err)
		if out == "err:save" && !bytes.Equal(hmacKey(oldPw), hmacKey(newPw)) {
			if acc, e := f.cli.GetAccountByAddress(addr, newPw); e == nil && acc != nil {
				r.Viol("C43:rejected-password-change-took-effect", fmt.Sprintf("ChangePassword(%s) failed with a save error, yet the account now opens with the new password", op[1]))
			}
			if acc, e := f.cli.GetAccountByAddress(addr, oldPw); e != nil || acc == nil {
				r.Viol("C43:own-password-fails:after-failed-change", fmt.Sprintf("ChangePassword(%s) failed with a save error and the account no longer opens with its (unchanged) password: %v", op[1], e))
			}
		}
		return out
	case "chpwconc":
		// k goroutines change the password of one account at once, all presenting the same old password
		addr := f.realAddr(op[1])
		oldPw := hx.UnHex(op[2])
		var news [][]byte
		for _, h := range strings.Split(op[3], ",") {
			news = append(news, hx.UnHex(h))
		}
		errs := make([]error, len(news))
		var wg sync.WaitGroup
		start := make(chan struct{})
		for i := range news {
			wg.Add(1)
			go func(i int) {
				defer wg.Done()
				<-start
				errs[i] = f.cli.ChangePassword(addr, oldPw, news[i])
			}(i)
		}
		close(start)
		wg.Wait()
		var won []int
		for i, e := range errs {
			if e == nil {
				won = append(won, i)
			}
		}
		f.winner = nil
		if len(won) > 1 {
			r.Viol("C43:concurrent-password-changes-all-succeed", fmt.Sprintf("%d of %d overlapping ChangePassword calls on %s with the same old password returned success", len(won), len(news), op[1]))
		}
		reopened, _ := account.NewClientImpl(f.path)
		for i, np := range news {
			ok := false
			for _, w := range won {
				if w == i {
					ok = true
				}
			}
			for _, cw := range []struct {
				c *account.ClientImpl
				w string
			}{{f.cli, "live"}, {reopened, "reloaded"}} {
				if cw.c == nil {
					continue
				}
				acc, e := cw.c.GetAccountByAddress(addr, np)
				opens := e == nil && acc != nil
				if ok && len(won) == 1 && !opens {
					r.Viol("C43:own-password-fails:after-concurrent-change", fmt.Sprintf("the ChangePassword call that reported success set a password that does not open %s (%s client)", op[1], cw.w))
				}
				if ok && len(won) > 1 && !opens {
					r.Viol("C43:own-password-fails:after-concurrent-change", fmt.Sprintf("a ChangePassword call reported success but its password does not open %s (%s client)", op[1], cw.w))
				}
				if !ok && opens {
					r.Viol("C43:other-password-accepted:after-concurrent-change", fmt.Sprintf("a ChangePassword call that failed left its password in effect on %s (%s client)", op[1], cw.w))
				}
			}
		}
		if len(won) >= 1 {
			f.winner = news[won[len(won)-1]]
			var last *liveAcc
			for _, l := range f.live {
				if !l.deleted && f.keys[l.key].addr == addr {
					last = l
				}
			}
			if last != nil && len(won) == 1 {
				last.oldPw = append([]byte{}, oldPw...)
				last.pw = append([]byte{}, f.winner...)
				last.mode = "gcm"
			}
		}
		return fmt.Sprintf("winners=%d", len(won))
	case "chpwwon": // op line written from the observation of the preceding chpwconc (which call won): echo
		return "ok"
	case "reload":
		c, err := account.NewClientImpl(f.path)
		if err != nil {
			r.Viol("C43:reload-fails", "a wallet file written by the client cannot be opened again: "+err.Error())
			return "err:open"
		}
		f.cli = c
		for _, l := range f.live {
			l.noIndex = false
		}
		return fmt.Sprintf("ok n=%d file=%d", c.GetAccountNum(), len(c.GetWalletData().Accounts))
	case "num":
		return strconv.Itoa(f.cli.GetAccountNum())
	case "audit":
		return f.audit(r)
	case "auditlive": // the same audit on the live client (no re-open)
		if f.cli != nil {
			f.light = true
			f.auditOn(r, f.cli, "live")
			f.light = false
		}
		f.auditB(r)
		return "ok"
	}
	return "bad-op"
}

// liveFor returns the live record behind the address index entry of a symbolic account (nil when deleted).
func (f *walletFam) liveFor(sym string) *liveAcc {
	addr := f.realAddr(sym)
	var last *liveAcc
	for _, l := range f.live {
		if !l.deleted && f.keys[l.key].addr == addr {
			last = l
		}
	}
	return last
}

func (f *walletFam) addOutcome(ki int) string {
	m := f.cli.GetAccountMetadataByAddress(f.keys[ki].addr)
	if m == nil {
		return "ok-but-missing"
	}
	return fmt.Sprintf("ok A%d def=%v", ki, m.IsDefault)
}

// audit evaluates the property on a freshly re-opened wallet file: every account that was created in or imported
// into the wallet (and not deleted, and not replaced in the address index by a later import of the same address)
// decrypts with its password to the same private key and address; another password does not.
func (f *walletFam) audit(r *hx.Run) string {
	c, err := account.NewClientImpl(f.path)
	if err != nil {
		r.Viol("C43:reload-fails", "a wallet file written by the client cannot be opened again: "+err.Error())
		return "err:open"
	}
	f.auditOn(r, c, "reloaded")
	f.auditB(r)
	return "ok"
}

// auditB: accounts imported into the second wallet open there with the password they had when they were imported,
// whatever happened to the wallet they came from — on the live second client and on its re-opened file.
func (f *walletFam) auditB(r *hx.Run) {
	if f.cliB == nil {
		return
	}
	cs := []*account.ClientImpl{f.cliB}
	if c, err := account.NewClientImpl(filepath.Join(f.dir, "walletB.dat")); err == nil {
		cs = append(cs, c)
	}
	for ci, c := range cs {
		for _, l := range f.inB {
			if len(l.pw) == 0 {
				continue
			}
			acc, err := c.GetAccountByAddress(f.keys[l.key].addr, l.pw)
			if err != nil || acc == nil || !bytes.Equal(privBytes(acc.PrivateKey), privBytes(f.keys[l.key].priv)) {
				r.Viol("C43:own-password-fails:imported-copy-in-other-wallet", fmt.Sprintf("account A%d imported into a second wallet no longer opens there with the password it was imported with (%s client): %v", l.key, []string{"live", "reloaded"}[ci], err))
			}
		}
	}
}

func (f *walletFam) auditOn(r *hx.Run, c *account.ClientImpl, where string) {
	probed := false
	params := "default-scrypt"
	if c.GetWalletData().Scrypt.N != keypair.DEFAULT_N {
		params = "custom-scrypt"
	}
	for _, l := range f.live {
		if l.deleted || l.shadow || (where == "live" && l.noIndex) {
			continue
		}
		k := f.keys[l.key]
		kind := fmt.Sprintf("%s:%s:%s", l.mode, k.alg, params)
		if len(l.pw) == 0 {
			continue // the library refuses the empty password at decryption; NewAccount refuses it at creation
		}
		acc, err := c.GetAccountByAddress(k.addr, l.pw)
		if err != nil || acc == nil {
			r.Viol("C43:own-password-fails:"+kind, fmt.Sprintf("account A%d (%s, %s client) cannot be decrypted with its own password: %v", l.key, kind, where, err))
		} else if !bytes.Equal(privBytes(acc.PrivateKey), privBytes(k.priv)) || acc.Address.ToBase58() != k.addr {
			r.Viol("C43:wrong-key-after-reload:"+kind, fmt.Sprintf("account A%d (%s, %s client) decrypts to a different key pair / address", l.key, kind, where))
		}
		if l.oldPw != nil && !bytes.Equal(hmacKey(l.oldPw), hmacKey(l.pw)) {
			if acc, err := c.GetAccountByAddress(k.addr, l.oldPw); err == nil && acc != nil {
				r.Viol("C43:old-password-still-opens-after-change:"+where, fmt.Sprintf("account A%d (%s client) still opens with the password replaced by ChangePassword", l.key, where))
			}
		}
		if f.light {
			continue
		}
		for _, wrong := range [][]byte{flipLast(l.pw), append([]byte("x"), l.pw...)} {
			if bytes.Equal(hmacKey(wrong), hmacKey(l.pw)) {
				continue
			}
			acc, err := c.GetAccountByAddress(k.addr, wrong)
			if err == nil && acc != nil {
				r.Viol("C43:other-password-accepted:"+kind, fmt.Sprintf("account A%d (%s) decrypts without error under a password that is not its own (returned address %s, own address %s)", l.key, kind, acc.Address.ToBase58(), k.addr))
			}
		}
		// passwords that are different byte strings but the same HMAC key (scrypt = PBKDF2-HMAC-SHA256 consumes
		// the password as an HMAC key: zero-padded to the block size, hashed when longer than it)
		var equiv [][]byte
		var what []string
		if probed { // the HMAC-key equivalence is probed on one account per audit (each probe is a scrypt run)
			continue
		}
		probed = true
		if len(l.pw) < 64 {
			equiv, what = append(equiv, append(append([]byte{}, l.pw...), 0)), append(what, "trailing-nul")
		}
		if len(l.pw) > 64 {
			h := sha256.Sum256(l.pw)
			equiv, what = append(equiv, h[:]), append(what, "sha256-of-long-password")
		}
		for i, e := range equiv {
			acc, err := c.GetAccountByAddress(k.addr, e)
			if err == nil && acc != nil {
				r.Viol("C43:equivalent-password-accepted:"+what[i], fmt.Sprintf("account A%d (%s) with password %x also decrypts under the different password %x (%s: both are the same HMAC-SHA256 key inside scrypt)", l.key, kind, l.pw, e, what[i]))
			} else {
				r.Hist("equivalent-password-rejected." + what[i])
			}
		}
	}
}


// hmacKey is the HMAC-SHA256 key block of a password.
func hmacKey(pw []byte) []byte {
	k := pw
	if len(k) > 64 {
		h := sha256.Sum256(k)
		k = h[:]
	}
	return append(append([]byte{}, k...), make([]byte, 64-len(k))...)
}

func flipLast(b []byte) []byte {
	c := append([]byte{}, b...)
	if len(c) > 0 {
		c[len(c)-1] ^= 1
	}
	return c
}

// ---------------------------------------------------------------- Gen

type keyKind struct {
	alg     string
	curve   int
	schemes []string
}

var keyKinds = []keyKind{
	{"ECDSA", 1, []string{"SHA224withECDSA", "SHA3-224withECDSA"}},
	{"ECDSA", 2, []string{"SHA256withECDSA", "SHA3-256withECDSA", "RIPEMD160withECDSA"}},
	{"ECDSA", 3, []string{"SHA384withECDSA", "SHA3-384withECDSA"}},
	{"ECDSA", 4, []string{"SHA512withECDSA", "SHA3-512withECDSA"}},
	{"ECDSA", 5, []string{"SHA256withECDSA"}},
	{"SM2", 20, []string{"SM3withSM2"}},
	{"Ed25519", 25, []string{"SHA512withEdDSA"}},
}

func (f *walletFam) Gen(r *hx.Run) {
	r.Rule("wallet histories on a temp file: every key kind (ECDSA P-224/256/384/521/secp256k1, SM2, Ed25519) created with NewAccount and imported (aes-256-gcm and legacy aes-256-ctr protected keys), default and low-security scrypt parameters, passwords empty/1 byte/unicode/invalid UTF-8/1500 bytes, labels empty/unicode/JSON-special/long, duplicate labels and duplicate addresses, wrong-password reads, delete/default/label/password/scheme changes, reload after every few ops, audit of the property on a re-opened file; distinct non-trivial = distinct (key kind, protection mode, scrypt parameters, op kinds used) of cases with at least one reload")
	g := r.Rng
	nCases := r.Pick(10, 100)
	pws := func() []byte {
		switch g.Intn(9) {
		case 0:
			return []byte("p")
		case 1:
			return []byte("пароль-密码-🔑")
		case 2:
			return []byte{0xff, 0xfe, 0x00, 0x80}
		case 3:
			return bytes.Repeat([]byte("long-password-"), 110)
		case 4:
			return []byte("pass word\twith \"quotes\"\n")
		default:
			return []byte(fmt.Sprintf("pw-%d", g.Intn(1000)))
		}
	}
	labels := func() string {
		switch g.Intn(9) {
		case 0, 1:
			return ""
		case 2:
			return "标签 ярлык 🏷"
		case 3:
			return "a\"b\\c<d>&e f\x01"
		case 4:
			return strings.Repeat("L", 300)
		case 5:
			return "dup"
		default:
			return fmt.Sprintf("acct-%d", g.Intn(6))
		}
	}
	for c := 0; c < nCases; c++ {
		r.Case(fmt.Sprintf("w-%d", c))
		low := c%3 != 0 // one third of the wallets use the (slow) default scrypt parameters
		if r.Thorough() {
			// thorough: 1/6 default parameters, 2/6 low-security, 3/6 cheap custom parameters
			low = c%6 != 0
			if c%6 >= 3 {
				r.Do("open tiny")
			} else if low {
				r.Do("open low")
			} else {
				r.Do("open def")
			}
		} else if low {
			r.Do("open low")
		} else {
			r.Do("open def")
		}
		used := map[string]bool{}
		type ent struct {
			sym string
			pw  []byte
			kd  keyKind
		}
		var ents []ent
		reloaded := false
		kk := keyKinds[c%len(keyKinds)]
		nOps := 5 + g.Intn(r.Pick(5, 10))
		for k := 0; k < nOps; k++ {
			x := g.Intn(20)
			if k == 0 {
				x = 0
			}
			if k == 1 {
				x = 4
			}
			switch {
			case x < 3: // new
				kd := kk
				if g.Intn(3) == 0 {
					kd = keyKinds[g.Intn(len(keyKinds))]
				}
				sch := kd.schemes[g.Intn(len(kd.schemes))]
				if g.Intn(12) == 0 {
					sch = keyKinds[(c+3)%len(keyKinds)].schemes[0] // possibly a scheme of another key type
				}
				pw := pws()
				if g.Intn(15) == 0 {
					pw = nil
				}
				out := r.Do(fmt.Sprintf("new %s %s %d %s %s", hx.Hex([]byte(labels())), kd.alg, kd.curve, sch, hx.Hex(pw)))
				if strings.HasPrefix(out, "ok A") {
					ents = append(ents, ent{strings.Fields(out)[1], pw, kd})
					used["new:"+kd.alg+strconv.Itoa(kd.curve)] = true
				}
			case x < 6: // import
				kd := kk
				mode := "gcm"
				if g.Intn(3) == 0 {
					mode = "ctr"
				}
				ref := "new"
				if len(ents) > 0 && g.Intn(6) == 0 {
					e := ents[g.Intn(len(ents))] // the same key again (duplicate address)
					ref, kd = e.sym, e.kd
				}
				pw := pws()
				if g.Intn(20) == 0 {
					pw = nil
				}
				out := r.Do(fmt.Sprintf("import %s %s %s %s %s %s %d", hx.Hex([]byte(labels())), ref, hx.Hex(pw), mode, kd.schemes[0], kd.alg, kd.curve))
				if strings.HasPrefix(out, "ok A") {
					ents = append(ents, ent{strings.Fields(out)[1], pw, kd})
					used["import:"+mode+":"+kd.alg+strconv.Itoa(kd.curve)] = true
				}
			case x < 10 && len(ents) > 0: // read with the right / a wrong password
				e := ents[g.Intn(len(ents))]
				pw := e.pw
				if g.Intn(2) == 0 {
					pw = append(append([]byte{}, pw...), 'x')
				}
				switch g.Intn(5) {
				case 0:
					r.Do(fmt.Sprintf("getidx %d %s", g.Intn(len(ents)+2), hx.Hex(pw)))
				case 1:
					r.Do(fmt.Sprintf("getdef %s", hx.Hex(pw)))
				case 2:
					r.Do(fmt.Sprintf("getlabel %s %s", hx.Hex([]byte(labels())), hx.Hex(pw)))
				default:
					r.Do(fmt.Sprintf("get %s %s", e.sym, hx.Hex(pw)))
				}
			case x < 11 && len(ents) > 0:
				e := ents[g.Intn(len(ents))]
				pw := e.pw
				if g.Intn(4) == 0 {
					pw = []byte("wrong")
				}
				r.Do(fmt.Sprintf("del %s %s", e.sym, hx.Hex(pw)))
				used["del"] = true
			case x < 12 && len(ents) > 0:
				r.Do(fmt.Sprintf("setdef %s", ents[g.Intn(len(ents))].sym))
				used["setdef"] = true
			case x < 13 && len(ents) > 0:
				r.Do(fmt.Sprintf("setlabel %s %s", ents[g.Intn(len(ents))].sym, hx.Hex([]byte(labels()))))
				used["setlabel"] = true
			case x < 14 && len(ents) > 0:
				i := g.Intn(len(ents))
				np := pws()
				old := ents[i].pw
				if g.Intn(5) == 0 {
					old = []byte("nope")
				}
				out := r.Do(fmt.Sprintf("chpw %s %s %s", ents[i].sym, hx.Hex(old), hx.Hex(np)))
				if out == "ok" && !bytes.Equal(old, np) {
					// the replaced password first, on the same live client, before any open with the new one
					r.Do(fmt.Sprintf("get %s %s", ents[i].sym, hx.Hex(old)))
					r.Do(fmt.Sprintf("get %s %s", ents[i].sym, hx.Hex(np)))
				}
				if out == "ok" {
					for j := range ents {
						if ents[j].sym == ents[i].sym {
							ents[j].pw = np
						}
					}
				}
				used["chpw"] = true
			case x < 15 && len(ents) > 0:
				r.Do(fmt.Sprintf("chsig %s %s", ents[g.Intn(len(ents))].sym, keyKinds[g.Intn(len(keyKinds))].schemes[0]))
			case x < 16 && len(ents) > 0:
				r.Do(fmt.Sprintf("meta %s", ents[g.Intn(len(ents))].sym))
			case x < 17:
				r.Do("num")
			default:
				r.Do("reload")
				reloaded = true
			}
		}
		// security-level switches (WalletData.ToLowSecurity / ToDefaultSecurity): first with one wrong password at a
		// non-first position (must be refused and leave every account decryptable), then with the right ones
		seclevel := func(kind string, wrongAt int) string {
			var p []string
			for i, l := range f.order {
				pw := l.pw
				if i == wrongAt {
					pw = append(append([]byte{}, pw...), 'w', 'r')
				}
				p = append(p, hx.Hex(pw))
			}
			if len(p) == 0 {
				return r.Do("seclevel " + kind + " -")
			}
			return r.Do("seclevel " + kind + " " + strings.Join(p, ","))
		}
		if (c%2 == 1 || r.Thorough()) && len(ents) > 0 {
			// a password change in every such history: open with the old password, change, then the old password
			// first (must be refused), then the new one — all on the one live client
			i := g.Intn(len(ents))
			np := append([]byte("changed-"), pws()...)
			r.Do(fmt.Sprintf("get %s %s", ents[i].sym, hx.Hex(ents[i].pw)))
			if out := r.Do(fmt.Sprintf("chpw %s %s %s", ents[i].sym, hx.Hex(ents[i].pw), hx.Hex(np))); out == "ok" {
				r.Do(fmt.Sprintf("get %s %s", ents[i].sym, hx.Hex(ents[i].pw)))
				r.Do(fmt.Sprintf("get %s %s", ents[i].sym, hx.Hex(np)))
				sym := ents[i].sym
				for j := range ents {
					if ents[j].sym == sym {
						ents[j].pw = np
					}
				}
				used["chpw"] = true
			}
		}
		if (c%3 == 0 || r.Thorough()) && len(ents) > 0 {
			// aliasing of protected-key buffers: an export made from a clone, an import into a second wallet, a failed
			// and a successful password change in this wallet — then both wallets are audited, live and re-opened
			i := g.Intn(len(ents))
			if f.liveFor(ents[i].sym) != nil && len(ents[i].pw) > 0 {
				r.Do("ximport " + ents[i].sym)
				{
					var p []string
					for _, l := range f.order {
						p = append(p, hx.Hex(l.pw))
					}
					if len(p) == 0 {
						p = []string{"-"}
					}
					r.Do("exportlow " + strings.Join(p, ",")) // passwords in wallet-file order, as the CLI asks for them
				}
				r.Do("save")
				r.Do("auditlive")
				np2 := append([]byte("second-"), pws()...)
				if out := r.Do(fmt.Sprintf("chpw %s %s %s", ents[i].sym, hx.Hex(ents[i].pw), hx.Hex(np2))); out == "ok" {
					sym := ents[i].sym
					for j := range ents {
						if ents[j].sym == sym {
							ents[j].pw = np2
						}
					}
				}
				r.Do("auditlive")
				used["aliasing"] = true
			}
		}
		if (c%3 == 2 || r.Thorough()) && len(ents) > 0 {
			// a password change whose save fails must be rolled back completely
			i := g.Intn(len(ents))
			if f.liveFor(ents[i].sym) != nil && len(ents[i].pw) > 0 {
				np := append([]byte("faulty-"), pws()...)
				r.Do(fmt.Sprintf("chpwfault %s %s %s", ents[i].sym, hx.Hex(ents[i].pw), hx.Hex(np)))
				r.Do("auditlive")
				used["chpwfault"] = true
			}
		}
		if (c%3 == 1 || r.Thorough()) && len(ents) > 0 {
			// overlapping password changes of one account with the same old password
			i := g.Intn(len(ents))
			if l := f.liveFor(ents[i].sym); l != nil && len(ents[i].pw) > 0 {
				k := 2 + g.Intn(3)
				var news []string
				for j := 0; j < k; j++ {
					news = append(news, hx.Hex([]byte(fmt.Sprintf("racer-%d-%d", j, g.Intn(1000)))))
				}
				out := r.Do(fmt.Sprintf("chpwconc %s %s %s", ents[i].sym, hx.Hex(ents[i].pw), strings.Join(news, ",")))
				if out != "winners=0" && f.winner != nil {
					r.Do(fmt.Sprintf("chpwwon %s %s %s", ents[i].sym, hx.Hex(ents[i].pw), hx.Hex(f.winner)))
					sym := ents[i].sym
					w := append([]byte{}, f.winner...)
					for j := range ents {
						if ents[j].sym == sym {
							ents[j].pw = w
						}
					}
					r.Do(fmt.Sprintf("get %s %s", sym, hx.Hex(w)))
				}
				used["chpwconc"] = true
			}
		}
		if c%2 == 0 || r.Thorough() {
			if n := len(f.order); n >= 2 {
				seclevel("low", 1+g.Intn(n-1))
				used["seclevel-refused"] = true
				r.Do("auditlive")
			}
			if g.Intn(4) == 0 {
				var p []string
				for _, l := range f.order {
					p = append(p, hx.Hex(l.pw))
				}
				r.Do("seclevel low " + strings.Join(append(p, "70"), ",")) // one password too many
			}
			kind := "low"
			if g.Intn(5) == 0 {
				kind = "def"
			}
			if out := seclevel(kind, -1); out == "ok" {
				used["seclevel-"+kind] = true
			}
		}
		r.Do("reload")
		reloaded = true
		for _, e := range ents {
			r.Do("meta " + e.sym)
		}
		r.Do("audit")
		if reloaded {
			var u []string
			for k := range used {
				u = append(u, k)
			}
			sortStrings(u)
			r.Nontrivial(fmt.Sprintf("low=%v/%s", low, strings.Join(u, ",")))
		}
		if c < 6 {
			r.Sample(map[string]interface{}{"case": c, "low": low, "accounts": len(ents)})
		}
	}
	if f.dir != "" {
		os.RemoveAll(f.dir)
	}
}

func sortStrings(a []string) {
	for i := range a {
		for j := i + 1; j < len(a); j++ {
			if a[j] < a[i] {
				a[i], a[j] = a[j], a[i]
			}
		}
	}
}
