// hwallet: correspondence harness (wallet accounts, C43).
// Each family lives in its own file and registers itself in `families`.
package main

import "polyverif/internal/hx"

var families = map[string]func() hx.Family{}

func main() { hx.Main(families) }
