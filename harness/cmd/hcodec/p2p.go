package main

import (
	"bytes"
	"fmt"
	"io"
	"strings"
	"sync"

	"github.com/polynetwork/poly/common"
	"github.com/polynetwork/poly/common/config"
	"github.com/polynetwork/poly/core/payload"
	ct "github.com/polynetwork/poly/core/types"
	pc "github.com/polynetwork/poly/p2pserver/common"
	mt "github.com/polynetwork/poly/p2pserver/message/types"
	"polyverif/internal/hx"
)

// Family p2p (C05): WriteMessage / ReadMessage and the 16 payload kinds on the real code.
//
//	rd <magic> <stream> <keys>     ReadMessage with NetworkMagic = <magic>: "ok <kind> <V> len=<payload> rest=<unread>" | "err:<class>" | "panic"
//	wr2 <magic> <f1> <f2> <junk> <keys>  both messages written into one sink that already holds <junk>: junk ++ f1 ++ f2, both read back
//	hold <magic> <f1> <f2> <f3> <keys>   the message decoded from f1 is kept while f2 (same reader) and f3 (another reader) are read, then compared
//	bigframe <magic> <version|tx> <payloadLen> <seed>   large frames: Checksum vs reference, corruption at block boundaries / in the tail
//	prop <magic> <frame> <keys>    property of a frame produced by WriteMessage: reads back, re-writes to the same bytes,
//	                               every examined single-byte corruption (3 masks) and truncation is refused: "ok <kind>"
type p2pFam struct {
	led      *ledgerFam
	sawPanic map[string]bool
}

func init() {
	families["p2p"] = func() hx.Family { return &p2pFam{led: &ledgerFam{}, sawPanic: map[string]bool{}} }
}

func (f *p2pFam) Reset(r *hx.Run) {}

func renderMsg(m mt.Message) (kind string, v string) {
	kind = m.CmdType()
	switch x := m.(type) {
	case *mt.Ping:
		v = fmt.Sprint(x.Height)
	case *mt.Pong:
		v = fmt.Sprint(x.Height)
	case *mt.Version:
		p := x.P
		v = fmt.Sprintf("%d,%d,%d,%d,%d,%d,%s,%d,%d,%d,%v,%s", p.Version, p.Services, p.TimeStamp, p.SyncPort, p.HttpInfoPort, p.ConsPort,
			hx.Hex(p.Cap[:]), p.Nonce, p.StartHeight, p.Relay, p.IsConsensus, hx.Hex([]byte(p.SoftVersion)))
	case *mt.VerACK:
		v = fmt.Sprint(x.IsConsensus)
	case *mt.Addr:
		parts := make([]string, len(x.NodeAddrs))
		for i, a := range x.NodeAddrs {
			parts[i] = fmt.Sprintf("%d,%d,%s,%d,%d,%d", a.Time, a.Services, hx.Hex(a.IpAddr[:]), a.Port, a.ConsensusPort, a.ID)
		}
		v = "[" + strings.Join(parts, ";") + "]"
	case *mt.AddrReq, *mt.Disconnected:
		v = "."
	case *mt.HeadersReq:
		v = fmt.Sprintf("%d,%s,%s", x.Len, hx.Hex(x.HashStart[:]), hx.Hex(x.HashEnd[:]))
	case *mt.BlocksReq:
		v = fmt.Sprintf("%d,%s,%s", x.HeaderHashCount, hx.Hex(x.HashStart[:]), hx.Hex(x.HashStop[:]))
	case *mt.BlkHeader:
		parts := make([]string, len(x.BlkHdr))
		for i, h := range x.BlkHdr {
			parts[i] = renderHeader(h)
		}
		v = "[" + strings.Join(parts, ";") + "]"
	case *mt.Inv:
		hs := make([][]byte, len(x.P.Blk))
		for i := range x.P.Blk {
			hs[i] = x.P.Blk[i][:]
		}
		v = fmt.Sprintf("%d,%s", byte(x.P.InvType), hexList(hs))
	case *mt.DataReq:
		v = fmt.Sprintf("%d,%s", byte(x.DataType), hx.Hex(x.Hash[:]))
	case *mt.Block:
		hs := make([]string, len(x.Blk.Transactions))
		for i, tx := range x.Blk.Transactions {
			h := tx.Hash()
			hs[i] = hx.Hex(h[:])
		}
		hh := x.Blk.Hash()
		v = fmt.Sprintf("%s hash=%s txs=[%s] root=%s", renderHeader(x.Blk.Header), hx.Hex(hh[:]), strings.Join(hs, ";"), hx.Hex(x.MerkleRoot[:]))
	case *mt.Trn:
		h := x.Txn.Hash()
		v = fmt.Sprintf("%s hash=%s", renderTx(x.Txn), hx.Hex(h[:]))
	case *mt.Consensus:
		c := x.Cons
		v = fmt.Sprintf("%d,%s,%d,%d,%d,%s,%s,%s", c.Version, hx.Hex(c.PrevHash[:]), c.Height, c.BookkeeperIndex, c.Timestamp, hx.Hex(c.Data),
			keyList1(c), hx.Hex(c.Signature))
	case *mt.NotFound:
		v = hx.Hex(x.Hash[:])
	default:
		v = "?"
	}
	return
}

func keyList1(c mt.ConsensusPayload) string {
	b, ok := serKeySafe(c)
	if !ok {
		return "?"
	}
	return hx.Hex(b)
}

func serKeySafe(c mt.ConsensusPayload) (b []byte, ok bool) {
	defer func() {
		if recover() != nil {
			ok = false
		}
	}()
	s := common.NewZeroCopySink(nil)
	c.Serialization(s)
	src := common.NewZeroCopySource(s.Bytes())
	src.Skip(4 + 32 + 4 + 2 + 4)
	src.NextVarBytes()
	k, _ := src.NextVarBytes()
	return k, true
}

func p2pErrClass(err error, stream []byte) string {
	msg := err.Error()
	switch {
	case strings.Contains(msg, "unmatched magic number"):
		return "err:magic"
	case strings.Contains(msg, "exceed max payload size"):
		return "err:oversize"
	case strings.Contains(msg, "message checksum mismatch"):
		return "err:checksum"
	case strings.Contains(msg, "unsupported cmd type"):
		return "err:unknown-cmd"
	}
	// short header / short payload versus payload decoder error: decided by the stream's own framing
	if len(stream) < pc.MSG_HDR_LEN {
		return "err:short"
	}
	l := uint32(stream[16]) | uint32(stream[17])<<8 | uint32(stream[18])<<16 | uint32(stream[19])<<24
	if uint64(len(stream)-pc.MSG_HDR_LEN) < uint64(l) && (err == io.EOF || err == io.ErrUnexpectedEOF) {
		return "err:short"
	}
	return "err:payload"
}

func (f *p2pFam) read(r *hx.Run, magic uint32, stream []byte) (mt.Message, uint32, int, string) {
	config.DefConfig.P2PNode.NetworkMagic = magic
	var msg mt.Message
	var plen uint32
	var rest int
	res, pm := guarded(func() string {
		rd := bytes.NewReader(stream)
		m, l, err := mt.ReadMessage(rd)
		if err != nil {
			return p2pErrClass(err, stream)
		}
		msg, plen, rest = m, l, rd.Len()
		return "ok"
	})
	if res == "panic" {
		cmd := "?"
		if len(stream) >= 16 {
			cmd = string(bytes.TrimRight(stream[4:16], "\x00"))
		}
		f.sawPanic[cmd] = true
		r.Viol("C05:read-panic:"+cmd+":"+panicSite(pm), fmt.Sprintf("ReadMessage(%s) panics: %s", trunc(hx.Hex(stream), 400), pm))
	}
	return msg, plen, rest, res
}

func writeFrame(magic uint32, m mt.Message) []byte {
	config.DefConfig.P2PNode.NetworkMagic = magic
	sink := common.NewZeroCopySink(nil)
	if err := mt.WriteMessage(sink, m); err != nil {
		panic(err)
	}
	return append([]byte{}, sink.Bytes()...)
}

func (f *p2pFam) Exec(r *hx.Run, op []string) string {
	var magic uint32
	fmt.Sscan(op[1], &magic)
	var data []byte
	if op[0] == "rd" || op[0] == "prop" {
		data = hx.UnHex(op[2])
	}
	switch op[0] {
	case "rd":
		m, plen, rest, res := f.read(r, magic, data)
		if res != "ok" {
			return res
		}
		kind, v := renderMsg(m)
		// an accepted frame has the right magic, a length within the limit and inside the stream, and a matching checksum
		if len(data) >= 24 {
			hm := uint32(data[0]) | uint32(data[1])<<8 | uint32(data[2])<<16 | uint32(data[3])<<24
			l := uint32(data[16]) | uint32(data[17])<<8 | uint32(data[18])<<16 | uint32(data[19])<<24
			if name := bytes.TrimRight(data[4:16], "\x00"); bytes.IndexByte(name, 0) >= 0 {
				r.Viol("C05:malformed-command-field-accepted", fmt.Sprintf("frame accepted as %s although its command field %x is not a name followed only by zero padding", kind, data[4:16]))
			}
			if hm != magic {
				r.Viol("C05:wrong-magic-accepted", fmt.Sprintf("frame with magic %d accepted under network magic %d", hm, magic))
			}
			if l > pc.MAX_PAYLOAD_LEN {
				r.Viol("C05:oversize-accepted", fmt.Sprintf("payload length %d accepted", l))
			}
			if uint64(l) <= uint64(len(data)-24) && !bytes.Equal(dsha256(data[24 : 24+int(l)])[:4], data[20:24]) {
				r.Viol("C05:bad-checksum-accepted", "frame accepted although its checksum is not the double SHA-256 prefix of its payload")
			}
		}
		return fmt.Sprintf("ok %s %s len=%d rest=%d", kind, v, plen, rest)
	case "hold":
		return f.holdOp(r, magic, op)
	case "wr2":
		// wr2 <magic> <f1> <f2> <junk> <keys>: the messages of f1 and f2 are written one after the other into ONE sink that already
		// holds <junk> (possibly empty); the sink must read junk ++ f1 ++ f2 and both frames must read back from it
		if len(op) != 6 {
			return "bad-op"
		}
		f1, f2, junk := hx.UnHex(op[2]), hx.UnHex(op[3]), hx.UnHex(op[4])
		config.DefConfig.P2PNode.NetworkMagic = magic
		res, pm := guarded(func() string {
			m1, _, e1 := mt.ReadMessage(bytes.NewReader(f1))
			m2, _, e2 := mt.ReadMessage(bytes.NewReader(f2))
			if e1 != nil || e2 != nil {
				return "bad-op"
			}
			k1, _ := renderMsg(m1)
			k2, _ := renderMsg(m2)
			sink := common.NewZeroCopySink(nil)
			sink.WriteBytes(junk)
			if err := mt.WriteMessage(sink, m1); err != nil {
				return "bad-op"
			}
			if err := mt.WriteMessage(sink, m2); err != nil {
				return "bad-op"
			}
			want := append(append(append([]byte{}, junk...), f1...), f2...)
			got := sink.Bytes()
			if !bytes.Equal(got, want) {
				r.Viol("C05:frame-appended-to-nonempty-sink-differs", fmt.Sprintf("a %s and a %s message written into one sink after %d bytes give %s, the frames written alone are %s and %s",
					k1, k2, len(junk), trunc(hx.Hex(got[min2(len(junk), len(got)):]), 160), trunc(hx.Hex(f1), 80), trunc(hx.Hex(f2), 80)))
				return "FAIL:bytes " + k1 + " " + k2
			}
			rd := bytes.NewReader(got[len(junk):])
			for i, k := range []string{k1, k2} {
				m, _, err := mt.ReadMessage(rd)
				if err != nil {
					r.Viol("C05:frame-appended-to-nonempty-sink-differs", fmt.Sprintf("frame %d (%s) written into a non-empty sink is not read back: %v", i+1, k, err))
					return "FAIL:read " + k1 + " " + k2
				}
				if kk, _ := renderMsg(m); kk != k {
					return "FAIL:kind " + k1 + " " + k2
				}
			}
			return "ok " + k1 + " " + k2
		})
		if res == "panic" {
			r.Viol("C05:write-panic:"+panicSite(pm), "wr2 panics: "+pm)
		}
		return res
	case "bigframe":
		return f.bigFrameOp(r, magic, op)
	case "prop":
		m, plen, rest, res := f.read(r, magic, data)
		if res != "ok" {
			r.Viol("C05:valid-frame-rejected", fmt.Sprintf("frame written by WriteMessage is not read back (%s): %s", res, trunc(hx.Hex(data), 300)))
			return "FAIL:read:" + strings.TrimPrefix(res, "err:")
		}
		kind, _ := renderMsg(m)
		var fails []string
		fail := func(k, d string) { fails = append(fails, k); r.Viol("C05:"+k+":"+kind, d) }
		if rest != 0 {
			fail("rest", "unread bytes after a single frame")
		}
		re, pm := guarded(func() string { return string(writeFrame(magic, m)) })
		if re == "panic" && pm != "" {
			fail("rewrite", "re-writing the decoded message panics: "+pm)
		} else if re != string(data) {
			fail("rewrite", fmt.Sprintf("decoded %s message re-frames to %s, original %s", kind, trunc(hx.Hex([]byte(re)), 200), trunc(hx.Hex(data), 200)))
		}
		if int(plen)+pc.MSG_HDR_LEN != len(data) {
			fail("len", "reported payload length does not match the frame")
		}
	corrupt:
		for _, i := range cutPoints(len(data)) {
			if i >= 4 && i < 16 {
				continue // command field: the checksum does not cover the header, ping <-> pong style changes are valid frames
			}
			if (i == 18 || i == 19) && data[20]%8 != 0 {
				continue // high length bytes make ReadMessage allocate up to 30 MB per attempt: examined for the frames whose first checksum byte is a multiple of 8
			}
			for _, mask := range []byte{0x01, 0x80, 0xff} {
				c := append([]byte{}, data...)
				c[i] ^= mask
				if _, _, _, res := f.read(r, magic, c); res == "ok" {
					fail("corruption-accepted", fmt.Sprintf("%s frame with byte %d xor %#x is accepted: %s", kind, i, mask, trunc(hx.Hex(c), 300)))
					break corrupt
				}
			}
		}
		for _, k := range cutPoints(len(data)) {
			if _, _, _, res := f.read(r, magic, data[:k:k]); res == "ok" {
				fail("truncation-accepted", fmt.Sprintf("the first %d of %d bytes of a %s frame are accepted", k, len(data), kind))
				break
			}
		}
		if len(fails) > 0 {
			return "FAIL:" + strings.Join(fails, ",")
		}
		return "ok " + kind
	}
	return "bad-op"
}

// holdOp: hold <magic> <frame1> <frame2> <frame3> <keys>. frame1 and frame2 are read from one reader, frame3 from another;
// the message decoded from frame1 is kept and, after the later reads, must still render to the same value and re-frame
// to frame1 (a delivered message must not share a buffer that later reads reuse). Outcome "ok <kind>".
func (f *p2pFam) holdOp(r *hx.Run, magic uint32, op []string) string {
	if len(op) != 6 {
		return "bad-op"
	}
	f1, f2, f3 := hx.UnHex(op[2]), hx.UnHex(op[3]), hx.UnHex(op[4])
	config.DefConfig.P2PNode.NetworkMagic = magic
	res, pm := guarded(func() string {
		rd := bytes.NewReader(append(append([]byte{}, f1...), f2...))
		m1, _, err := mt.ReadMessage(rd)
		if err != nil {
			return "err"
		}
		kind, before := renderMsg(m1)
		mt.ReadMessage(rd)
		mt.ReadMessage(bytes.NewReader(f3))
		mt.ReadMessage(bytes.NewReader(f2))
		_, after := renderMsg(m1)
		re := writeFrame(magic, m1)
		if after != before || !bytes.Equal(re, f1) {
			r.Viol("C05:decoded-message-changed-after-later-read:"+kind, fmt.Sprintf("the %s message decoded from frame 1 rendered %s; after two further frames were read it renders %s and re-frames to %s (frame 1 %s)",
				kind, trunc(before, 160), trunc(after, 160), trunc(hx.Hex(re), 120), trunc(hx.Hex(f1), 120)))
			return "FAIL:changed " + kind
		}
		// the other direction: frames written by WriteMessage (and ConsensusPayload.ToArray) are kept while more are written
		frames := [][]byte{f1, f2, f3}
		var msgs []mt.Message
		var wants [][]byte
		for _, fr := range frames {
			if m, _, err := mt.ReadMessage(bytes.NewReader(fr)); err == nil {
				msgs = append(msgs, m)
				wants = append(wants, fr)
			}
		}
		writeRaw := func(m mt.Message) []byte {
			sink := common.NewZeroCopySink(nil)
			if err := mt.WriteMessage(sink, m); err != nil {
				panic(err)
			}
			return sink.Bytes()
		}
		held := make([][]byte, len(msgs))
		var heldCons [][2][]byte
		for i, m := range msgs {
			held[i] = writeRaw(m)
			if c, ok := m.(*mt.Consensus); ok {
				heldCons = append(heldCons, [2][]byte{c.Cons.ToArray(), wants[i][24:]})
			}
		}
		for i := len(msgs) - 1; i >= 0; i-- {
			writeRaw(msgs[i])
			if c, ok := msgs[i].(*mt.Consensus); ok {
				c.Cons.ToArray()
			}
		}
		for i := range held {
			if !bytes.Equal(held[i], wants[i]) {
				k, _ := renderMsg(msgs[i])
				r.Viol("C05:written-frame-changed-later:"+k, fmt.Sprintf("the frame WriteMessage produced for a %s message reads %s after later frames were written (was %s)", k, trunc(hx.Hex(held[i]), 100), trunc(hx.Hex(wants[i]), 100)))
				return "FAIL:written-changed " + kind
			}
		}
		for _, hc := range heldCons {
			if !bytes.Equal(hc[0], hc[1]) {
				r.Viol("C05:written-frame-changed-later:ConsensusPayload.ToArray", "the slice returned by ConsensusPayload.ToArray changed after later encodings")
				return "FAIL:written-changed " + kind
			}
		}
		var wg sync.WaitGroup
		bad := make(chan string, 4)
		for w := 0; w < 2 && len(msgs) > 0; w++ {
			wg.Add(1)
			go func(w int) {
				defer wg.Done()
				defer func() {
					if e := recover(); e != nil {
						select {
						case bad <- fmt.Sprint("panic while writing: ", e):
						default:
						}
					}
				}()
				for round := 0; round < 20; round++ {
					k := (round + w) % len(msgs)
					a := writeRaw(msgs[k])
					writeRaw(msgs[(k+1)%len(msgs)])
					if !bytes.Equal(a, wants[k]) {
						select {
						case bad <- fmt.Sprintf("goroutine %d round %d: a written frame changed while another frame was written", w, round):
						default:
						}
						return
					}
				}
			}(w)
		}
		wg.Wait()
		close(bad)
		for msg := range bad {
			r.Viol("C05:written-frame-changed-under-concurrent-write", msg)
			return "FAIL:concurrent-write " + kind
		}
		return "ok " + kind
	})
	if res == "panic" {
		r.Viol("C05:read-panic:hold:"+panicSite(pm), "hold panics: "+pm)
	}
	return res
}

// bigPattern: the deterministic filler of the large-frame op (same formula in the Lean driver).
func bigPattern(n int, seed int) []byte {
	b := make([]byte, n)
	for i := range b {
		b[i] = byte((seed + i) % 251)
	}
	return b
}

// bigFrameOp: bigframe <magic> <version|tx> <payloadLen> <seed>. A message whose payload has exactly payloadLen bytes (a long
// SoftVersion / contract code filled with a fixed pattern) is framed; common.Checksum must equal the reference double SHA-256
// prefix, the frame must read back, and single-byte corruptions of the payload (first byte, offsets 262143 / 262144, the last
// 1 / 2 / 100 bytes) must be refused unless the reference checksum really collides. Outcome "ok <kind> len=<n> sum=<checksum>".
func (f *p2pFam) bigFrameOp(r *hx.Run, magic uint32, op []string) string {
	if len(op) != 5 {
		return "bad-op"
	}
	var target, seed int
	fmt.Sscan(op[3], &target)
	fmt.Sscan(op[4], &seed)
	var m mt.Message
	switch op[2] {
	case "version":
		n := target - 81
		if n < 0x10000 {
			return "bad-op"
		}
		v := &mt.Version{}
		v.P.Version, v.P.Nonce, v.P.IsConsensus = uint32(seed), uint64(seed), seed%2 == 1
		v.P.SoftVersion = string(bigPattern(n, seed))
		m = v
	case "tx":
		n := target - 58
		if n < 0x10000 {
			return "bad-op"
		}
		tx := &ct.Transaction{TxType: ct.Invoke, Nonce: uint32(seed), Payload: &payload.InvokeCode{Code: bigPattern(n, seed)}}
		t, err := decodeTx(serTx(tx))
		if err != nil {
			r.Viol("C05:valid-tx-rejected", "large transaction rejected: "+err.Error())
			return "FAIL:tx"
		}
		m = &mt.Trn{Txn: t}
	default:
		return "bad-op"
	}
	frame := writeFrame(magic, m)
	pl := frame[24:]
	var fails []string
	fail := func(k, d string) { fails = append(fails, k); r.Viol("C05:"+k+":"+op[2], d) }
	if len(pl) != target {
		return fmt.Sprintf("bad-op:len=%d", len(pl))
	}
	ref := dsha256(pl)[:4]
	if cs := pc.Checksum(pl); !bytes.Equal(cs[:], ref) {
		fail("checksum-differs-from-reference", fmt.Sprintf("common.Checksum of the %d-byte payload is %x, first four bytes of the double SHA-256 are %x", len(pl), cs[:], ref))
	}
	if !bytes.Equal(frame[20:24], ref) {
		fail("frame-checksum-differs-from-reference", fmt.Sprintf("WriteMessage stored checksum %x for a %d-byte payload, reference %x", frame[20:24], len(pl), ref))
	}
	if _, _, _, res := f.read(r, magic, frame); res != "ok" {
		fail("valid-frame-rejected", fmt.Sprintf("a %d-byte %s frame is not read back: %s", len(frame), op[2], res))
	}
	for _, off := range bigOffsets(len(pl)) {
		c := append([]byte{}, frame...)
		c[24+off] ^= 0x01
		if _, _, _, res := f.read(r, magic, c); res == "ok" && !bytes.Equal(dsha256(c[24:])[:4], ref) {
			fail("corruption-accepted", fmt.Sprintf("%s frame with a %d-byte payload: payload byte %d flipped and the frame is still accepted (reference checksum of the corrupted payload %x, header %x)",
				op[2], len(pl), off, dsha256(c[24:])[:4], ref))
			break
		}
	}
	if len(fails) > 0 {
		return "FAIL:" + strings.Join(fails, ",")
	}
	return fmt.Sprintf("ok %s len=%d sum=%s", op[2], len(pl), hx.Hex(ref))
}

func bigOffsets(n int) []int {
	var offs []int
	for _, o := range []int{0, 262143, 262144, n - 100, n - 2, n - 1} {
		if o >= 0 && o < n {
			offs = append(offs, o)
		}
	}
	return offs
}

// ---------------------------------------------------------------------------------------------- generator

var p2pKinds = []string{"ping", "version", "verack", "addr", "getaddr", "pong", "getheaders", "headers", "inv", "getdata", "block", "tx",
	"consensus", "notfound", "disconnect", "getblocks"}

func (f *p2pFam) genMsg(r *hx.Run, kind string) mt.Message {
	h32 := func() (u common.Uint256) { copy(u[:], r.Rng.Bytes(32)); return }
	switch kind {
	case "ping":
		return &mt.Ping{Height: r.Rng.U64B()}
	case "pong":
		return &mt.Pong{Height: r.Rng.U64B()}
	case "version":
		v := &mt.Version{}
		v.P = mt.VersionPayload{Version: uint32(r.Rng.U64B()), Services: r.Rng.U64B(), TimeStamp: int64(r.Rng.U64B()), SyncPort: uint16(r.Rng.U64B()),
			HttpInfoPort: uint16(r.Rng.U64B()), ConsPort: uint16(r.Rng.U64B()), Nonce: r.Rng.U64B(), StartHeight: r.Rng.U64B(), Relay: uint8(r.Rng.U64B()),
			IsConsensus: r.Rng.Bool(), SoftVersion: string(r.Rng.Bytes([]int{0, 1, 6, 0xfc, 0xfd, 300}[r.Rng.Intn(6)]))}
		copy(v.P.Cap[:], r.Rng.Bytes(32))
		return v
	case "verack":
		return &mt.VerACK{IsConsensus: r.Rng.Bool()}
	case "addr":
		a := &mt.Addr{}
		n := []int{0, 1, 2, 5, 63, 64}[r.Rng.Intn(6)]
		for i := 0; i < n; i++ {
			pa := pc.PeerAddr{Time: int64(r.Rng.U64B()), Services: r.Rng.U64B(), Port: uint16(r.Rng.U64B()), ConsensusPort: uint16(r.Rng.U64B()), ID: r.Rng.U64B()}
			copy(pa.IpAddr[:], r.Rng.Bytes(16))
			a.NodeAddrs = append(a.NodeAddrs, pa)
		}
		return a
	case "getaddr":
		return &mt.AddrReq{}
	case "disconnect":
		return &mt.Disconnected{}
	case "getheaders":
		return &mt.HeadersReq{Len: uint8(r.Rng.U64B()), HashStart: h32(), HashEnd: h32()}
	case "getblocks":
		return &mt.BlocksReq{HeaderHashCount: uint8(r.Rng.U64B()), HashStart: h32(), HashStop: h32()}
	case "headers":
		b := &mt.BlkHeader{}
		for i := r.Rng.Intn(5); i > 0; i-- {
			b.BlkHdr = append(b.BlkHdr, f.led.genHeader(r))
		}
		return b
	case "inv":
		iv := &mt.Inv{}
		iv.P.InvType = common.InventoryType(r.Rng.U64B())
		for i := []int{0, 1, 3, 63, 64}[r.Rng.Intn(5)]; i > 0; i-- {
			iv.P.Blk = append(iv.P.Blk, h32())
		}
		return iv
	case "getdata":
		return &mt.DataReq{DataType: common.InventoryType(r.Rng.U64B()), Hash: h32()}
	case "notfound":
		return &mt.NotFound{Hash: h32()}
	case "tx":
		for attempt := 0; ; attempt++ {
			if attempt == 20 {
				return nil
			}
			traw := serTx(f.led.genTx(r, 16))
			t, err := decodeTx(traw)
			if err != nil {
				r.Viol("C05:valid-tx-rejected", fmt.Sprintf("valid transaction %s rejected: %v", trunc(hx.Hex(traw), 300), err))
				continue
			}
			return &mt.Trn{Txn: t}
		}
	case "block":
		blk := &ct.Block{Header: f.led.genHeader(r)}
		for j := r.Rng.Intn(4); j > 0; j-- {
			traw := serTx(f.led.genTx(r, 3))
			t, err := decodeTx(traw)
			if err != nil {
				r.Viol("C05:valid-tx-rejected", fmt.Sprintf("valid transaction %s rejected: %v", trunc(hx.Hex(traw), 300), err))
				continue
			}
			blk.Transactions = append(blk.Transactions, t)
		}
		blk.RebuildMerkleRoot()
		return &mt.Block{Blk: blk, MerkleRoot: h32()}
	case "consensus":
		c := &mt.Consensus{}
		c.Cons = mt.ConsensusPayload{Version: uint32(r.Rng.U64B()), PrevHash: h32(), Height: uint32(r.Rng.U64B()), BookkeeperIndex: uint16(r.Rng.U64B()),
			Timestamp: uint32(r.Rng.U64B()), Data: r.Rng.Bytes([]int{0, 5, 0xfd, 400}[r.Rng.Intn(4)]), Owner: f.led.pool.pick(r.Rng), Signature: r.Rng.Bytes([]int{0, 64, 65}[r.Rng.Intn(3)])}
		return c
	}
	panic("kind " + kind)
}

// reframe builds a frame around an arbitrary payload (correct checksum and length) for a command string.
func reframe(magic uint32, cmd string, payload []byte) []byte {
	s := common.NewZeroCopySink(nil)
	s.WriteUint32(magic)
	var c [12]byte
	copy(c[:], cmd)
	s.WriteBytes(c[:])
	s.WriteUint32(uint32(len(payload)))
	s.WriteBytes(dsha256(payload)[:4])
	s.WriteBytes(payload)
	return append([]byte{}, s.Bytes()...)
}

func (f *p2pFam) Gen(r *hx.Run) {
	r.Rule("per message kind: random messages framed by WriteMessage (boundary field values; Addr/Inv with 0/1/63/64 entries; headers, blocks, transactions and consensus payloads with real keys) " +
		"through the property op (read back, re-write, every examined single-byte corruption with 3 masks, every examined truncation); malformed: wrong magic, length field +-1 / above MAX_PAYLOAD_LEN / 0xffffffff, " +
		"flipped checksum, unknown / NUL-embedded / unpadded commands, payloads mutated under a recomputed checksum (count fields replaced by 65 / 2^31 / 2^32-1 / 2^63 / 2^64-1, bad booleans, cut tails), garbage streams, frames followed by more bytes; " +
		"distinct non-trivial = distinct (kind, outcome class, size class)")
	f.led.pool = newKeyPool(r.Rng, 16)
	id := 0
	newCase := func(kind string) {
		id++
		r.Case(fmt.Sprintf("%s-%d", kind, id))
	}
	magics := []uint32{0x8c6077ab, 0x2ddf8829, 0, 1, 0xffffffff}
	outClass := func(out string) string { return strings.Fields(out)[0] }
	rd := func(magic uint32, stream []byte) string {
		out := r.Do(fmt.Sprintf("rd %d %s %s", magic, hx.Hex(stream), keyOracle(stream)))
		r.Hist("rd." + outClass(out))
		return out
	}
	// 1. count fields of list-carrying payloads replaced by boundary counts (checksum recomputed)
	u64le := func(v uint64) []byte { s := common.NewZeroCopySink(nil); s.WriteUint64(v); return s.Bytes() }
	u32le := func(v uint32) []byte { s := common.NewZeroCopySink(nil); s.WriteUint32(v); return s.Bytes() }
	for _, c := range []uint64{^uint64(0), 1 << 63, 1<<63 - 1, 1 << 32, 65, 64, 2, 1, 0} {
		for _, body := range []int{0, 1, 44, 88, 44 * 66} {
			newCase("addr-count")
			payload := append(append([]byte{}, u64le(c)...), r.Rng.Bytes(body)...)
			out := rd(magics[0], reframe(magics[0], "addr", payload))
			r.Nontrivial(fmt.Sprintf("addr-count/%d/%d/%s", c, body, outClass(out)))
			if f.sawPanic["addr"] && c >= 1<<63 {
				break
			}
		}
	}
	for _, c := range []uint32{0xffffffff, 1 << 31, 65, 64, 1, 0} {
		for _, body := range []int{0, 31, 32, 64, 32 * 66} {
			newCase("inv-count")
			payload := append(append([]byte{byte(r.Rng.U64())}, u32le(c)...), r.Rng.Bytes(body)...)
			out := rd(magics[0], reframe(magics[0], "inv", payload))
			r.Nontrivial(fmt.Sprintf("inv-count/%d/%d/%s", c, body, outClass(out)))
		}
		newCase("headers-count")
		out := rd(magics[0], reframe(magics[0], "headers", append(append([]byte{}, u32le(c)...), f.led.genHeader(r).ToArray()...)))
		r.Nontrivial(fmt.Sprintf("headers-count/%d/%s", c, outClass(out)))
	}
	// 1b. a header with a huge bookkeeper / signature count inside a headers frame and a block frame
	{
		h0 := f.led.genHeader(r)
		h0.Bookkeepers, h0.SigData = nil, nil
		full := h0.ToArray()
		ul := len(full) - 2
		for _, c := range []uint64{^uint64(0), 1 << 63, 1 << 60, 1 << 48} {
			for pos := 0; pos < 2; pos++ {
				hb := append([]byte{}, full[:ul]...)
				if pos == 1 {
					hb = append(hb, 0)
				}
				hb = append(append(hb, varuintBytes(c, 3)...), r.Rng.Bytes(8)...)
				if !f.sawPanic["headers"] {
					newCase("headers-hdrcount")
					rd(magics[0], reframe(magics[0], "headers", append(u32le(1), hb...)))
				}
				if !f.sawPanic["block"] {
					newCase("block-hdrcount")
					rd(magics[0], reframe(magics[0], "block", hb))
				}
			}
		}
	}
	// 2. valid frames of every kind
	per := r.Pick(60, 1200)
	for _, kind := range p2pKinds {
		n := per
		if kind == "block" || kind == "tx" || kind == "headers" {
			n = per / 2
		}
		for i := 0; i < n; i++ {
			newCase(kind)
			magic := magics[r.Rng.Intn(len(magics))]
			m := f.genMsg(r, kind)
			if m == nil {
				continue
			}
			frame := writeFrame(magic, m)
			keys := keyOracle(frame)
			out := r.Do(fmt.Sprintf("rd %d %s %s", magic, hx.Hex(frame), keys))
			if i == 0 {
				r.Sample(map[string]interface{}{"kind": kind, "frame_bytes": len(frame), "out": trunc(out, 140)})
			}
			r.Do(fmt.Sprintf("prop %d %s %s", magic, hx.Hex(frame), keys))
			r.Nontrivial(fmt.Sprintf("%s/%d/%s", kind, lenBucket(len(frame)), outClass(out)))
			payload := frame[24:]
			// frame followed by more stream bytes
			if i%4 == 0 {
				rd(magic, append(append([]byte{}, frame...), r.Rng.Bytes(1+r.Rng.Intn(30))...))
			}
			// header defects
			switch i % 6 {
			case 0:
				rd(magic^uint32(1<<uint(r.Rng.Intn(32))), frame)
			case 1:
				c := append([]byte{}, frame...)
				l := uint32(len(payload))
				nl := []uint32{l + 1, l - 1, 0xffffffff, pc.MAX_PAYLOAD_LEN + 1, pc.MAX_PAYLOAD_LEN, 0, l + 1000}[r.Rng.Intn(7)]
				copy(c[16:20], u32le(nl))
				rd(magic, c)
			case 2:
				c := append([]byte{}, frame...)
				c[20+r.Rng.Intn(4)] ^= byte(1 << uint(r.Rng.Intn(8)))
				rd(magic, c)
			case 3:
				cmds := []string{"foo", "PING", "pin", "pingg", "ping\x00x", "\x00ping", "getheaders12", "versionversi", "", "tx\x00\x00\x00\x00\x00\x00\x00\x00\x00\x01"}
				rd(magic, reframe(magic, cmds[r.Rng.Intn(len(cmds))], payload))
			case 4:
				// another kind's payload under this command and vice versa
				other := p2pKinds[r.Rng.Intn(len(p2pKinds))]
				rd(magic, reframe(magic, other, payload))
			default:
				rd(magic, frame[:r.Rng.Intn(len(frame))])
			}
			// payload defects under a valid header
			for j := 0; j < r.Pick(3, 6) && !f.sawPanic[kind]; j++ { // (no random corruption of a payload whose decoder already panicked)
				mp := mutate(r, payload)
				out := rd(magic, reframe(magic, kind, mp))
				r.Nontrivial(fmt.Sprintf("%s-mut/%s/%d", kind, outClass(out), lenBucket(len(mp))))
			}
		}
	}
	// 2b. a decoded message is kept while further frames are read (same reader and another reader), then compared
	fat := func() []byte { // a frame with a payload of a few hundred bytes to some KiB
		switch r.Rng.Intn(4) {
		case 0:
			v := f.genMsg(r, "version").(*mt.Version)
			v.P.SoftVersion = string(r.Rng.Bytes(200 + r.Rng.Intn(3000)))
			return writeFrame(magics[0], v)
		case 1:
			iv := &mt.Inv{}
			for i := 0; i < 64; i++ {
				var u common.Uint256
				copy(u[:], r.Rng.Bytes(32))
				iv.P.Blk = append(iv.P.Blk, u)
			}
			return writeFrame(magics[0], iv)
		case 2:
			b := &mt.BlkHeader{}
			for i := 0; i < 3+r.Rng.Intn(4); i++ {
				b.BlkHdr = append(b.BlkHdr, f.led.genHeader(r))
			}
			return writeFrame(magics[0], b)
		default:
			a := &mt.Addr{}
			for i := 0; i < 64; i++ {
				pa := pc.PeerAddr{Time: int64(r.Rng.U64()), ID: r.Rng.U64()}
				copy(pa.IpAddr[:], r.Rng.Bytes(16))
				a.NodeAddrs = append(a.NodeAddrs, pa)
			}
			return writeFrame(magics[0], a)
		}
	}
	for _, kind := range p2pKinds {
		for i := 0; i < r.Pick(3, 60); i++ {
			newCase("hold-" + kind)
			m := f.genMsg(r, kind)
			if m == nil {
				continue
			}
			if h, ok := m.(*mt.BlkHeader); ok && len(h.BlkHdr) == 0 {
				h.BlkHdr = append(h.BlkHdr, f.led.genHeader(r), f.led.genHeader(r))
			}
			f1, f2, f3 := writeFrame(magics[0], m), fat(), fat()
			out := r.Do(fmt.Sprintf("hold %d %s %s %s %s", magics[0], hx.Hex(f1), hx.Hex(f2), hx.Hex(f3), keyOracle(f1)))
			r.Nontrivial(fmt.Sprintf("hold/%s/%s", kind, outClass(out)))
		}
	}
	// 2b'. two messages written into one sink (empty, or already holding other bytes)
	for i := 0; i < r.Pick(40, 1500); i++ {
		newCase("wr2")
		k1, k2 := p2pKinds[r.Rng.Intn(len(p2pKinds))], p2pKinds[r.Rng.Intn(len(p2pKinds))]
		m1, m2 := f.genMsg(r, k1), f.genMsg(r, k2)
		if m1 == nil || m2 == nil {
			continue
		}
		f1, f2 := writeFrame(magics[0], m1), writeFrame(magics[0], m2)
		junk := r.Rng.Bytes([]int{0, 0, 1, 24, 25, 100}[r.Rng.Intn(6)])
		out := r.Do(fmt.Sprintf("wr2 %d %s %s %s %s", magics[0], hx.Hex(f1), hx.Hex(f2), hx.Hex(junk), keyOracle(f1, f2)))
		r.Nontrivial(fmt.Sprintf("wr2/%s/%s/%d/%s", k1, k2, len(junk), outClass(out)))
	}
	// 2b''. command fields that are a known name, a zero byte, and then something else: not name + zero padding
	for _, kind := range p2pKinds {
		for i := 0; i < r.Pick(2, 40); i++ {
			newCase("cmdfield-" + kind)
			m := f.genMsg(r, kind)
			if m == nil {
				continue
			}
			frame := writeFrame(magics[0], m)
			var c [12]byte
			copy(c[:], kind)
			free := 12 - len(kind) - 1
			if free <= 0 {
				continue
			}
			c[len(kind)+1+r.Rng.Intn(free)] = byte(1 + r.Rng.Intn(255))
			if r.Rng.Bool() {
				c[11] = 'X'
			}
			rd(magics[0], reframe(magics[0], string(c[:]), frame[24:]))
		}
	}
	// 2c. large frames: payloads around and beyond 256 KiB
	sizes := []int{262143, 262144, 262145, 300000, 600001}
	if r.Thorough() {
		sizes = append(sizes, 131072, 524287, 524288, 524289, 786433, 1000000)
	}
	for si, n := range sizes {
		kind := []string{"version", "tx"}[si%2]
		newCase("bigframe")
		r.Do(fmt.Sprintf("bigframe %d %s %d %d", magics[0], kind, n, r.Rng.Intn(250)))
		r.Nontrivial(fmt.Sprintf("bigframe/%s/%d", kind, n))
		if r.Thorough() || n == 262145 {
			newCase("bigframe")
			r.Do(fmt.Sprintf("bigframe %d %s %d %d", magics[0], []string{"tx", "version"}[si%2], n, r.Rng.Intn(250)))
		}
	}
	// 3. garbage streams
	for i := 0; i < r.Pick(300, 20000); i++ {
		newCase("garbage")
		g := r.Rng.Bytes(r.Rng.Intn(80))
		if len(g) >= 4 && r.Rng.Bool() {
			copy(g[:4], u32le(magics[0]))
		}
		if len(g) >= 16 && r.Rng.Bool() {
			var c [12]byte
			copy(c[:], p2pKinds[r.Rng.Intn(len(p2pKinds))])
			copy(g[4:16], c[:])
		}
		if len(g) >= 20 && r.Rng.Bool() {
			copy(g[16:20], u32le(uint32(r.Rng.Intn(60))))
		}
		out := rd(magics[0], g)
		r.Nontrivial(fmt.Sprintf("garbage/%s/%d", outClass(out), lenBucket(len(g))))
	}
}
