package main

import (
	"bytes"
	"fmt"
	"math/big"
	"reflect"
	"runtime"
	"sort"
	"strconv"
	"strings"
	"sync"

	"github.com/polynetwork/poly/common"
	cstates "github.com/polynetwork/poly/core/states"
	ccmcom "github.com/polynetwork/poly/native/service/cross_chain_manager/common"
	"github.com/polynetwork/poly/native/service/cross_chain_manager/btc"
	"github.com/polynetwork/poly/native/service/cross_chain_manager/consensus_vote"
	"github.com/polynetwork/poly/native/service/governance/neo3_state_manager"
	"github.com/polynetwork/poly/native/service/governance/node_manager"
	"github.com/polynetwork/poly/native/service/governance/relayer_manager"
	"github.com/polynetwork/poly/native/service/governance/side_chain_manager"
	"github.com/polynetwork/poly/native/service/governance/signature_manager"
	hscom "github.com/polynetwork/poly/native/service/header_sync/common"
	nstates "github.com/polynetwork/poly/native/states"
	"polyverif/internal/hx"
)

// Family records (C04): the Serialization / Deserialization pairs of the native parameter and state types.
//
//	dec <Type> <B> <keys>        the real decoder on B: "ok <V> rest=<unread>" | "err" | "panic"
//	decm <Type> <B> <keys>       dec, and the bytes allocated by the decoder are measured: a small input must not make it
//	                             allocate tens of megabytes (memory reserved from a declared count)
//	redec <Type> <A> <B> <keys>  A then B decoded into the same receiver = B decoded into a fresh one: "ok" | "err"
//	rawitem StorageItem <len> <seed> <keys>   GenRawStorageItem / GetValueFromRawStorageItem at an exact value length
//	holdenc <Type> <B1> <B2> <B3> <keys>   the three values are encoded, the returned slices kept, more encodings made (also from two
//	                             goroutines), then every kept slice re-checked; StorageItem: GenRawStorageItem / GetValueFromRawStorageItem
//	rt <Type> <V> <B> <keys>     B is the encoding of a value rendered V: decodes to V, re-encodes to B eight times (fresh
//	                             map iteration orders), every examined truncation is refused: "ok" | "FAIL:<which>"
//
// Values are rendered by reflection in field order (= serialization order): integers decimal, bytes / strings / arrays
// hex, big.Int decimal, slices and maps "[e;e]" (map entries "k,v" in the encoder's key order), nested structs flattened.
type recType struct {
	name string
	mk   func() interface{}
	fix  func(r *hx.Run, v interface{})
}

var recTypes = []recType{
	{"InitRedeemScriptParam", func() interface{} { return new(ccmcom.InitRedeemScriptParam) }, nil},
	{"EntranceParam", func() interface{} { return new(ccmcom.EntranceParam) }, nil},
	{"MakeTxParamWithSender", func() interface{} { return new(ccmcom.MakeTxParamWithSender) }, nil},
	{"MakeTxParam", func() interface{} { return new(ccmcom.MakeTxParam) }, nil},
	{"MultiSignParam", func() interface{} { return new(ccmcom.MultiSignParam) }, nil},
	{"ToMerkleValue", func() interface{} { return new(ccmcom.ToMerkleValue) }, nil},
	{"BlackChainParam", func() interface{} { return new(ccmcom.BlackChainParam) }, nil},
	{"SyncGenesisHeaderParam", func() interface{} { return new(hscom.SyncGenesisHeaderParam) }, nil},
	{"SyncBlockHeaderParam", func() interface{} { return new(hscom.SyncBlockHeaderParam) }, nil},
	{"SyncCrossChainMsgParam", func() interface{} { return new(hscom.SyncCrossChainMsgParam) }, nil},
	{"RegisterPeerParam", func() interface{} { return new(node_manager.RegisterPeerParam) }, nil},
	{"PeerParam", func() interface{} { return new(node_manager.PeerParam) }, nil},
	{"PeerListParam", func() interface{} { return new(node_manager.PeerListParam) }, nil},
	{"UpdateConfigParam", func() interface{} { return new(node_manager.UpdateConfigParam) }, nil},
	{"Status", func() interface{} { return new(node_manager.Status) }, nil},
	{"BlackListItem", func() interface{} { return new(node_manager.BlackListItem) }, nil},
	{"PeerPoolMap", func() interface{} { return new(node_manager.PeerPoolMap) }, func(r *hx.Run, v interface{}) {
		m := v.(*node_manager.PeerPoolMap)
		fixed := map[string]*node_manager.PeerPoolItem{}
		for _, it := range m.PeerPoolMap {
			fixed[it.PeerPubkey] = it
		}
		m.PeerPoolMap = fixed
	}},
	{"PeerPoolItem", func() interface{} { return new(node_manager.PeerPoolItem) }, nil},
	{"GovernanceView", func() interface{} { return new(node_manager.GovernanceView) }, nil},
	{"ConsensusSigns", func() interface{} { return new(node_manager.ConsensusSigns) }, nil},
	{"Configuration", func() interface{} { return new(node_manager.Configuration) }, nil},
	{"RegisterSideChainParam", func() interface{} { return new(side_chain_manager.RegisterSideChainParam) }, func(r *hx.Run, v interface{}) {
		p := v.(*side_chain_manager.RegisterSideChainParam)
		if p.BlocksToWait == 0 {
			p.BlocksToWait = 1 + uint64(r.Rng.Intn(5))
		}
	}},
	{"ChainidParam", func() interface{} { return new(side_chain_manager.ChainidParam) }, nil},
	{"RegisterRedeemParam", func() interface{} { return new(side_chain_manager.RegisterRedeemParam) }, nil},
	{"BtcTxParamDetial", func() interface{} { return new(side_chain_manager.BtcTxParamDetial) }, nil},
	{"BtcTxParam", func() interface{} { return new(side_chain_manager.BtcTxParam) }, nil},
	{"RegisterAssetParam", func() interface{} { return new(side_chain_manager.RegisterAssetParam) }, nil},
	{"AssetBind", func() interface{} { return new(side_chain_manager.AssetBind) }, nil},
	{"UpdateFeeParam", func() interface{} { return new(side_chain_manager.UpdateFeeParam) }, nil},
	{"SideChain", func() interface{} { return new(side_chain_manager.SideChain) }, nil},
	{"BindSignInfo", func() interface{} { return new(side_chain_manager.BindSignInfo) }, nil},
	{"ContractBinded", func() interface{} { return new(side_chain_manager.ContractBinded) }, nil},
	{"Fee", func() interface{} { return new(side_chain_manager.Fee) }, nil},
	{"FeeInfo", func() interface{} { return new(side_chain_manager.FeeInfo) }, nil},
	{"RippleExtraInfo", func() interface{} { return new(side_chain_manager.RippleExtraInfo) }, nil},
	{"RelayerListParam", func() interface{} { return new(relayer_manager.RelayerListParam) }, nil},
	{"ApproveRelayerParam", func() interface{} { return new(relayer_manager.ApproveRelayerParam) }, nil},
	{"StateValidatorListParam", func() interface{} { return new(neo3_state_manager.StateValidatorListParam) }, nil},
	{"ApproveStateValidatorParam", func() interface{} { return new(neo3_state_manager.ApproveStateValidatorParam) }, nil},
	{"SigInfo", func() interface{} { return new(signature_manager.SigInfo) }, nil},
	{"VoteInfo", func() interface{} { return new(consensus_vote.VoteInfo) }, nil},
	{"BtcProof", func() interface{} { return new(btc.BtcProof) }, nil},
	{"Utxos", func() interface{} { return new(btc.Utxos) }, nil},
	{"Utxo", func() interface{} { return new(btc.Utxo) }, nil},
	{"OutPoint", func() interface{} { return new(btc.OutPoint) }, nil},
	{"MultiSignInfo", func() interface{} { return new(btc.MultiSignInfo) }, nil},
	{"Args", func() interface{} { return new(btc.Args) }, nil},
	{"BtcFromInfo", func() interface{} { return new(btc.BtcFromInfo) }, nil},
	{"ContractInvokeParam", func() interface{} { return new(nstates.ContractInvokeParam) }, func(r *hx.Run, v interface{}) {
		v.(*nstates.ContractInvokeParam).Version = 0
	}},
	{"StorageItem", func() interface{} { return new(cstates.StorageItem) }, nil},
}

func recByName(name string) *recType {
	for i := range recTypes {
		if recTypes[i].name == name {
			return &recTypes[i]
		}
	}
	return nil
}

// recSer calls the type's own encoder.
func recSer(obj interface{}) []byte {
	switch x := obj.(type) {
	case *ccmcom.MakeTxParamWithSender:
		data, err := x.Serialization()
		if err != nil {
			panic(err)
		}
		return append([]byte{}, data...)
	case *cstates.StorageItem:
		buf := new(bytes.Buffer)
		if err := x.Serialize(buf); err != nil {
			panic(err)
		}
		return buf.Bytes()
	}
	sink := common.NewZeroCopySink(nil)
	m := reflect.ValueOf(obj).MethodByName("Serialization")
	out := m.Call([]reflect.Value{reflect.ValueOf(sink)})
	if len(out) == 1 && !out[0].IsNil() {
		panic(out[0].Interface())
	}
	return append([]byte{}, sink.Bytes()...)
}

// recDeser calls the type's own decoder on data; rest is the unread byte count (-1: not observable).
func recDeser(rt *recType, data []byte) (obj interface{}, rest int, err error) {
	obj = rt.mk()
	rest, err = recDeserInto(obj, data)
	return obj, rest, err
}

// recDeserInto decodes data into an existing (possibly already used) receiver.
func recDeserInto(obj interface{}, data []byte) (rest int, err error) {
	o, rs, e := recDeserObj(obj, data)
	_ = o
	return rs, e
}

func recDeserObj(obj interface{}, data []byte) (_ interface{}, rest int, err error) {
	switch x := obj.(type) {
	case *ccmcom.MakeTxParamWithSender:
		return obj, -1, x.Deserialization(append([]byte{}, data...))
	case *cstates.StorageItem:
		rd := bytes.NewReader(data)
		err := x.Deserialize(rd)
		return obj, rd.Len(), err
	}
	src := common.NewZeroCopySource(append([]byte{}, data...))
	out := reflect.ValueOf(obj).MethodByName("Deserialization").Call([]reflect.Value{reflect.ValueOf(src)})
	if !out[0].IsNil() {
		return obj, int(src.Len()), out[0].Interface().(error)
	}
	return obj, int(src.Len()), nil
}

var bigIntPtr = reflect.TypeOf((*big.Int)(nil))

func renderVal(v reflect.Value) string {
	if v.Type() == bigIntPtr {
		if v.IsNil() {
			return "nil"
		}
		return v.Interface().(*big.Int).String()
	}
	switch v.Kind() {
	case reflect.Ptr:
		if v.IsNil() {
			return "nil"
		}
		return renderVal(v.Elem())
	case reflect.Struct:
		var parts []string
		for i := 0; i < v.NumField(); i++ {
			if v.Type().Field(i).PkgPath != "" {
				continue
			}
			parts = append(parts, renderVal(v.Field(i)))
		}
		return strings.Join(parts, ",")
	case reflect.Slice:
		if v.Type().Elem().Kind() == reflect.Uint8 {
			return hx.Hex(v.Bytes())
		}
		parts := make([]string, v.Len())
		for i := range parts {
			parts[i] = renderVal(v.Index(i))
		}
		return "[" + strings.Join(parts, ";") + "]"
	case reflect.Array:
		b := make([]byte, v.Len())
		for i := range b {
			b[i] = byte(v.Index(i).Uint())
		}
		return hx.Hex(b)
	case reflect.String:
		return hx.Hex([]byte(v.String()))
	case reflect.Uint8, reflect.Uint16, reflect.Uint32, reflect.Uint64, reflect.Uint:
		return strconv.FormatUint(v.Uint(), 10)
	case reflect.Int8, reflect.Int16, reflect.Int32, reflect.Int64, reflect.Int:
		return strconv.FormatInt(v.Int(), 10)
	case reflect.Bool:
		return strconv.FormatBool(v.Bool())
	case reflect.Map:
		keys := v.MapKeys()
		sort.Slice(keys, func(i, j int) bool { return keyGreater(keys[i], keys[j]) })
		parts := make([]string, len(keys))
		for i, k := range keys {
			val := v.MapIndex(k)
			if val.Kind() == reflect.Ptr && val.Type() != bigIntPtr && val.Elem().Kind() == reflect.Struct {
				parts[i] = renderVal(val) // PeerPoolMap: the key is a field of the item, only the item is written
			} else {
				parts[i] = renderVal(k) + "," + renderVal(val)
			}
		}
		return "[" + strings.Join(parts, ";") + "]"
	}
	return "?" + v.Kind().String()
}

// keyGreater: the encoders' orders — strings and integers descending, addresses descending on the reversed bytes.
func keyGreater(a, b reflect.Value) bool {
	switch a.Kind() {
	case reflect.String:
		return a.String() > b.String()
	case reflect.Uint64, reflect.Uint32:
		return a.Uint() > b.Uint()
	case reflect.Array:
		for i := a.Len() - 1; i >= 0; i-- {
			x, y := a.Index(i).Uint(), b.Index(i).Uint()
			if x != y {
				return x > y
			}
		}
		return false
	}
	panic("map key kind " + a.Kind().String())
}

func render(obj interface{}) string { return renderVal(reflect.ValueOf(obj)) }

// fillVal fills v with boundary-heavy random content (everything derives from r.Rng).
func fillVal(r *hx.Run, v reflect.Value, depth int) {
	if v.Type() == bigIntPtr {
		var n *big.Int
		switch r.Rng.Intn(5) {
		case 0:
			n = new(big.Int)
		case 1:
			n = new(big.Int).SetUint64(r.Rng.U64B())
		case 2:
			n = new(big.Int).SetBytes(r.Rng.Bytes(1 + r.Rng.Intn(40)))
		case 3:
			n = new(big.Int).Lsh(big.NewInt(1), uint(8*r.Rng.Intn(40)))
		default:
			n = new(big.Int).SetUint64(uint64(r.Rng.Intn(300)))
		}
		v.Set(reflect.ValueOf(n))
		return
	}
	switch v.Kind() {
	case reflect.Ptr:
		v.Set(reflect.New(v.Type().Elem()))
		fillVal(r, v.Elem(), depth)
	case reflect.Struct:
		for i := 0; i < v.NumField(); i++ {
			if v.Type().Field(i).PkgPath == "" {
				fillVal(r, v.Field(i), depth)
			}
		}
	case reflect.Slice:
		if v.Type().Elem().Kind() == reflect.Uint8 {
			if forceBytesLen >= 0 {
				v.SetBytes(r.Rng.Bytes(forceBytesLen))
			} else {
				v.SetBytes(r.Rng.Bytes(genLen(r)))
			}
			return
		}
		n := []int{0, 1, 2, 3, 5, 8}[r.Rng.Intn(6)]
		if forceBytesLen >= 0 {
			n = 2
		}
		if depth == 0 && r.Rng.Chance(1, 25) {
			n = []int{0xfc, 0xfd, 0xfe, 300}[r.Rng.Intn(4)]
		}
		s := reflect.MakeSlice(v.Type(), n, n)
		for i := 0; i < n; i++ {
			fillVal(r, s.Index(i), depth+1)
		}
		v.Set(s)
	case reflect.Array:
		for i := 0; i < v.Len(); i++ {
			v.Index(i).SetUint(r.Rng.U64() & 0xff)
		}
	case reflect.String:
		if forceBytesLen >= 0 && depth == 0 {
			v.SetString(string(r.Rng.Bytes(forceBytesLen)))
		} else {
			v.SetString(string(r.Rng.Bytes(genLen(r) % 70)))
		}
	case reflect.Uint8, reflect.Uint16, reflect.Uint32, reflect.Uint64, reflect.Uint:
		bits := v.Type().Bits()
		x := r.Rng.U64B()
		if bits < 64 {
			if r.Rng.Chance(1, 3) {
				x = []uint64{0, 1, 1<<uint(bits-1) - 1, 1 << uint(bits-1), 1<<uint(bits) - 1, 0xfc, 0xfd}[r.Rng.Intn(7)]
			}
			x &= 1<<uint(bits) - 1
		}
		v.SetUint(x)
	case reflect.Int8, reflect.Int16, reflect.Int32, reflect.Int64, reflect.Int:
		v.SetInt(int64(r.Rng.U64B()))
	case reflect.Bool:
		v.SetBool(r.Rng.Bool())
	case reflect.Map:
		n := []int{0, 1, 2, 3, 6, 12, 40}[r.Rng.Intn(7)]
		if forceBytesLen >= 0 {
			n = 2
		}
		m := reflect.MakeMap(v.Type())
		prefix := r.Rng.Bytes(3)
		for i := 0; i < n; i++ {
			k := reflect.New(v.Type().Key()).Elem()
			switch k.Kind() {
			case reflect.String: // keys sharing prefixes, one a prefix of another, different lengths
				s := append(append([]byte{}, prefix[:r.Rng.Intn(4)]...), r.Rng.Bytes(r.Rng.Intn(4))...)
				k.SetString(string(s))
			case reflect.Array: // addresses differing in the last / first bytes (the order is on the reversed bytes)
				for j := 0; j < k.Len(); j++ {
					k.Index(j).SetUint(uint64(prefix[0]))
				}
				k.Index(r.Rng.Intn(k.Len())).SetUint(r.Rng.U64() & 0xff)
				k.Index(k.Len() - 1 - r.Rng.Intn(2)).SetUint(r.Rng.U64() & 3)
			default:
				fillVal(r, k, depth+1)
			}
			e := reflect.New(v.Type().Elem()).Elem()
			fillVal(r, e, depth+1)
			m.SetMapIndex(k, e)
		}
		v.Set(m)
	default:
		panic("fill kind " + v.Kind().String())
	}
}

// record types whose last field is their map, with the width of the entry count (var-uint below 0xFD: 1 byte; uint64: 8)
var trailingMapCountWidth = map[string]int{"SigInfo": 8, "VoteInfo": 8, "MultiSignInfo": 8, "BindSignInfo": 1, "ConsensusSigns": 1, "FeeInfo": 1, "PeerPoolMap": 1}

func lastMapField(v reflect.Value) reflect.Value {
	for i := v.NumField() - 1; i >= 0; i-- {
		if v.Field(i).Kind() == reflect.Map {
			return v.Field(i)
		}
	}
	panic("no map field")
}

// forceBytesLen >= 0 makes fillVal give every byte string (and top-level string) exactly that length
var forceBytesLen = -1

type recordsFam struct {
	sawPanic map[string]bool
}

func init() { families["records"] = func() hx.Family { return &recordsFam{sawPanic: map[string]bool{}} } }

func (f *recordsFam) Reset(r *hx.Run) {}

func (f *recordsFam) decode(r *hx.Run, rt *recType, data []byte) (obj interface{}, rest int, res string) {
	res, pm := guarded(func() string {
		o, rs, err := recDeser(rt, data)
		if err != nil {
			return "err"
		}
		obj, rest = o, rs
		return "ok"
	})
	if res == "panic" {
		f.sawPanic[rt.name] = true
		r.Viol("C04:decoder-panic:"+rt.name+":"+panicSite(pm), fmt.Sprintf("%s.Deserialization(%s) panics: %s", rt.name, trunc(hx.Hex(data), 300), pm))
	}
	return
}

// allocatedBy runs fn and returns the bytes it allocated (runtime.MemStats.TotalAlloc delta; the harness is single-threaded).
func allocatedBy(fn func()) uint64 {
	var a, b runtime.MemStats
	runtime.ReadMemStats(&a)
	fn()
	runtime.ReadMemStats(&b)
	return b.TotalAlloc - a.TotalAlloc
}

// allocLimit: a decoder may allocate in proportion to its input; a small input that makes it allocate more than this
// before (or without) failing reserves memory from a wire count.
func allocLimit(inputLen int) uint64 { return 32<<20 + 64*uint64(inputLen) }

// recSerRaw calls the type's own encoder and returns the byte slice exactly as the encoder hands it out (no copy), so that a
// buffer shared between calls shows.
func recSerRaw(obj interface{}) []byte {
	switch x := obj.(type) {
	case *ccmcom.MakeTxParamWithSender:
		data, err := x.Serialization()
		if err != nil {
			panic(err)
		}
		return data
	case *cstates.StorageItem:
		return x.ToArray()
	}
	sink := common.NewZeroCopySink(nil)
	out := reflect.ValueOf(obj).MethodByName("Serialization").Call([]reflect.Value{reflect.ValueOf(sink)})
	if len(out) == 1 && !out[0].IsNil() {
		panic(out[0].Interface())
	}
	return sink.Bytes()
}

// holdEnc: holdenc <Type> <B1> <B2> <B3> <keys>. B1..B3 are encodings of three values of the type. The values are encoded one
// after the other and the returned byte slices are KEPT; after all of them (and a second pass from two goroutines) every
// kept slice must still be the encoding it was. For StorageItem the raw-item helpers are exercised the same way:
// raw1 := GenRawStorageItem(x), then more raw items, then GetValueFromRawStorageItem(raw1) must still be x. Outcome "ok".
func (f *recordsFam) holdEnc(r *hx.Run, rt *recType, op []string) string {
	if len(op) != 6 {
		return "bad-op"
	}
	datas := [][]byte{hx.UnHex(op[2]), hx.UnHex(op[3]), hx.UnHex(op[4])}
	objs := make([]interface{}, len(datas))
	for i, d := range datas {
		o, _, res := f.decode(r, rt, d)
		if res != "ok" {
			return "bad-op"
		}
		objs[i] = o
	}
	res, pm := guarded(func() string {
		if rt.name == "StorageItem" {
			vals := make([][]byte, len(objs))
			raws := make([][]byte, len(objs))
			for i, o := range objs {
				vals[i] = o.(*cstates.StorageItem).Value
				raws[i] = cstates.GenRawStorageItem(vals[i])
			}
			for i := range raws {
				got, err := cstates.GetValueFromRawStorageItem(raws[i])
				if err != nil || !bytes.Equal(got, vals[i]) {
					r.Viol("C04:raw-storage-item-changed-later", fmt.Sprintf("raw%d := GenRawStorageItem(%s); after %d more raw items were generated GetValueFromRawStorageItem(raw%d) = %s, %v",
						i, trunc(hx.Hex(vals[i]), 80), len(raws)-1-i, i, trunc(hx.Hex(got), 80), err))
					return "FAIL:raw-item-changed"
				}
			}
			var wg2 sync.WaitGroup
			bad2 := make(chan string, 4)
			for w := 0; w < 2; w++ {
				wg2.Add(1)
				go func(w int) {
					defer wg2.Done()
					defer func() {
						if e := recover(); e != nil {
							select {
							case bad2 <- fmt.Sprint("panic: ", e):
							default:
							}
						}
					}()
					for round := 0; round < 60; round++ {
						k := (round + w) % len(vals)
						raw := cstates.GenRawStorageItem(vals[k])
						cstates.GenRawStorageItem(vals[(k+1)%len(vals)])
						got, err := cstates.GetValueFromRawStorageItem(raw)
						if err != nil || !bytes.Equal(got, vals[k]) {
							select {
							case bad2 <- fmt.Sprintf("goroutine %d round %d: the raw item of %s reads back as %s, %v", w, round, trunc(hx.Hex(vals[k]), 60), trunc(hx.Hex(got), 60), err):
							default:
							}
							return
						}
					}
				}(w)
			}
			wg2.Wait()
			close(bad2)
			for msg := range bad2 {
				r.Viol("C04:raw-storage-item-changed-later", msg)
				return "FAIL:raw-item-changed"
			}
		}
		held := make([][]byte, len(objs))
		for i, o := range objs {
			held[i] = recSerRaw(o)
		}
		for i := len(objs) - 1; i >= 0; i-- { // more encodings while the first results are still held
			recSerRaw(objs[i])
		}
		for i := range held {
			if !bytes.Equal(held[i], datas[i]) {
				r.Viol("C04:encoding-changed-later:"+rt.name, fmt.Sprintf("the bytes returned by encoding value %d (%s) read %s after later values were encoded", i, trunc(hx.Hex(datas[i]), 100), trunc(hx.Hex(held[i]), 100)))
				return "FAIL:changed"
			}
		}
		// two goroutines, each holding and re-checking its own results
		var wg sync.WaitGroup
		bad := make(chan string, 4)
		for w := 0; w < 2; w++ {
			wg.Add(1)
			go func(w int) {
				defer wg.Done()
				defer func() {
					if e := recover(); e != nil {
						select {
						case bad <- fmt.Sprintf("goroutine %d panics while encoding: %v", w, e):
						default:
						}
					}
				}()
				for round := 0; round < 40; round++ {
					k := (round + w) % len(objs)
					a := recSerRaw(objs[k])
					b := recSerRaw(objs[(k+1)%len(objs)])
					if !bytes.Equal(a, datas[k]) || !bytes.Equal(b, datas[(k+1)%len(objs)]) {
						select {
						case bad <- fmt.Sprintf("goroutine %d round %d: a held encoding of value %d changed while another value was encoded", w, round, k):
						default:
						}
						return
					}
				}
			}(w)
		}
		wg.Wait()
		close(bad)
		for msg := range bad {
			r.Viol("C04:encoding-changed-under-concurrent-encode:"+rt.name, msg)
			return "FAIL:concurrent"
		}
		return "ok"
	})
	if res == "panic" {
		r.Viol("C04:encoder-panic:"+rt.name, "holdenc panics: "+pm)
	}
	return res
}

// setListLens gives every list and map inside v exactly n elements (n small), so that the count fields of an encoding are
// recognisable bytes.
func setListLens(r *hx.Run, v reflect.Value, n int) {
	if v.Type() == bigIntPtr {
		return
	}
	switch v.Kind() {
	case reflect.Ptr:
		if !v.IsNil() {
			setListLens(r, v.Elem(), n)
		}
	case reflect.Struct:
		for i := 0; i < v.NumField(); i++ {
			if v.Type().Field(i).PkgPath == "" {
				setListLens(r, v.Field(i), n)
			}
		}
	case reflect.Slice:
		if v.Type().Elem().Kind() == reflect.Uint8 {
			return
		}
		s := reflect.MakeSlice(v.Type(), n, n)
		for i := 0; i < n; i++ {
			fillVal(r, s.Index(i), 2)
		}
		v.Set(s)
	case reflect.Map:
		for tries := 0; v.Len() != n && tries < 200; tries++ {
			tmp := reflect.New(v.Type()).Elem()
			fillVal(r, tmp, 2)
			for _, k := range tmp.MapKeys() {
				if v.Len() < n {
					if v.IsNil() {
						v.Set(reflect.MakeMap(v.Type()))
					}
					v.SetMapIndex(k, tmp.MapIndex(k))
				}
			}
			for v.Len() > n {
				v.SetMapIndex(v.MapKeys()[0], reflect.Value{})
			}
		}
	}
}

func min2(a, b int) int {
	if a < b {
		return a
	}
	return b
}

func hasList(t reflect.Type) bool {
	if t == bigIntPtr {
		return false
	}
	switch t.Kind() {
	case reflect.Ptr:
		return hasList(t.Elem())
	case reflect.Struct:
		for i := 0; i < t.NumField(); i++ {
			if t.Field(i).PkgPath == "" && hasList(t.Field(i).Type) {
				return true
			}
		}
	case reflect.Slice:
		return t.Elem().Kind() != reflect.Uint8
	case reflect.Map:
		return true
	}
	return false
}

// guardBreakers: declared counts n = ceil(k*2^64/w)+{0,1,2}: n*w wraps around 2^64 to a small number, so a guard of the form
// "n*w > remaining" computed in uint64 lets them through.
func guardBreakers() []uint64 {
	var out []uint64
	two64 := new(big.Int).Lsh(big.NewInt(1), 64)
	for _, w := range []int64{1, 2, 4, 8, 20, 21, 32, 33, 36, 40} {
		for k := int64(1); k < w; k++ {
			q := new(big.Int).Mul(big.NewInt(k), two64)
			q.Add(q, big.NewInt(w-1))
			q.Div(q, big.NewInt(w))
			for d := uint64(0); d < 3; d++ {
				if q.IsUint64() {
					out = append(out, q.Uint64()+d)
				}
			}
		}
	}
	return out
}

func (f *recordsFam) Exec(r *hx.Run, op []string) string {
	rt := recByName(op[1])
	if rt == nil {
		return "bad-op"
	}
	switch op[0] {
	case "dec", "decm":
		data := hx.UnHex(op[2])
		var obj interface{}
		var rest int
		var res string
		if op[0] == "decm" {
			n := allocatedBy(func() { obj, rest, res = f.decode(r, rt, data) })
			if n > allocLimit(len(data)) {
				r.Viol("C04:decoder-allocates-from-count:"+rt.name, fmt.Sprintf("%s.Deserialization of the %d-byte input %s allocates %d MB (outcome %s): memory is reserved from a declared count before the elements are read",
					rt.name, len(data), trunc(hx.Hex(data), 200), n>>20, res))
			}
		} else {
			obj, rest, res = f.decode(r, rt, data)
		}
		if res != "ok" {
			return res
		}
		rs := strconv.Itoa(rest)
		if rest < 0 {
			rs = "-"
		}
		return fmt.Sprintf("ok %s rest=%s", render(obj), rs)
	case "holdenc":
		return f.holdEnc(r, rt, op)
	case "redec":
		// redec <Type> <A> <B> <keys>: A is decoded into a receiver (it may fail: a truncated record), then B into the SAME receiver;
		// the result must be what decoding B into a fresh receiver gives (nothing of A, or of A's prefix, may survive)
		if len(op) != 5 {
			return "bad-op"
		}
		a, b := hx.UnHex(op[2]), hx.UnHex(op[3])
		res, pm := guarded(func() string {
			freshObj, _, ferr := recDeser(rt, b)
			used := rt.mk()
			recDeserInto(used, a)
			_, uerr := recDeserInto(used, b)
			if (ferr == nil) != (uerr == nil) {
				r.Viol("C04:decode-into-used-receiver-differs:"+rt.name, fmt.Sprintf("decoding %s into a fresh receiver: err=%v; into a receiver that first decoded %s: err=%v", trunc(hx.Hex(b), 120), ferr, trunc(hx.Hex(a), 120), uerr))
				return "FAIL:err-differs"
			}
			if ferr != nil {
				return "err"
			}
			if render(used) != render(freshObj) || !bytes.Equal(recSer(used), recSer(freshObj)) {
				r.Viol("C04:decode-into-used-receiver-differs:"+rt.name, fmt.Sprintf("decoding %s into a receiver that first decoded %s gives %s; a fresh receiver gives %s", trunc(hx.Hex(b), 120), trunc(hx.Hex(a), 120), trunc(render(used), 200), trunc(render(freshObj), 200)))
				return "FAIL:differs"
			}
			return "ok"
		})
		if res == "panic" {
			f.sawPanic[rt.name] = true
			r.Viol("C04:decoder-panic:"+rt.name+":"+panicSite(pm), "redec panics: "+pm)
		}
		return res
	case "rawitem":
		// rawitem StorageItem <len> <seed> <keys>: GenRawStorageItem of a value of exactly <len> bytes against the reference layout
		// (state version 0, var-uint length, value), read back with GetValueFromRawStorageItem and StorageItem.Deserialize
		if rt.name != "StorageItem" || len(op) != 5 {
			return "bad-op"
		}
		n, seed := int(pu(op[2], 31)), int(pu(op[3], 31))
		val := make([]byte, n)
		for i := range val {
			val[i] = byte((seed + i) % 251)
		}
		raw := cstates.GenRawStorageItem(val)
		want := append(append([]byte{0}, varuintBytes(uint64(n), 0)...), val...)
		ok := true
		if !bytes.Equal(raw, want) {
			ok = false
			r.Viol("C04:raw-storage-item-layout", fmt.Sprintf("GenRawStorageItem of a %d-byte value starts %s, reference layout starts %s", n, hx.Hex(raw[:min2(len(raw), 8)]), hx.Hex(want[:min2(len(want), 8)])))
		}
		if got, err := cstates.GetValueFromRawStorageItem(raw); err != nil || !bytes.Equal(got, val) {
			ok = false
			r.Viol("C04:raw-storage-item-roundtrip", fmt.Sprintf("GetValueFromRawStorageItem(GenRawStorageItem(v)) with len(v) = %d returns %d bytes, err %v", n, len(got), err))
		}
		res := "ok"
		if !ok {
			res = "FAIL"
		}
		return fmt.Sprintf("%s rawlen=%d head=%s", res, len(raw), hx.Hex(raw[:min2(len(raw), 6)]))
	case "rt":
		want, data := op[2], hx.UnHex(op[3])
		obj, rest, res := f.decode(r, rt, data)
		if res != "ok" {
			r.Viol("C04:valid-rejected:"+rt.name, fmt.Sprintf("the encoding %s of %s is not decoded (%s)", trunc(hx.Hex(data), 200), trunc(want, 200), res))
			return "FAIL:decode:" + res
		}
		var fails []string
		fail := func(k, d string) { fails = append(fails, k); r.Viol("C04:"+k+":"+rt.name, d) }
		if rest > 0 {
			fail("rest", fmt.Sprintf("%d bytes left unread", rest))
		}
		if got := render(obj); got != want {
			fail("roundtrip", fmt.Sprintf("encoded %s, decoded %s", trunc(want, 300), trunc(got, 300)))
		}
		for i := 0; i < 8; i++ {
			if re := recSer(obj); !bytes.Equal(re, data) {
				fail("reencode", fmt.Sprintf("the decoded value re-encodes to %s instead of %s (attempt %d: map iteration order?)", trunc(hx.Hex(re), 200), trunc(hx.Hex(data), 200), i))
				break
			}
		}
		for _, k := range cutPoints(len(data)) {
			if _, _, res := f.decode(r, rt, data[:k:k]); res == "ok" {
				fail("truncation-accepted", fmt.Sprintf("the first %d of %d bytes of %s decode without error", k, len(data), trunc(hx.Hex(data), 200)))
				break
			}
		}
		if len(fails) > 0 {
			return "FAIL:" + strings.Join(fails, ",")
		}
		return "ok"
	}
	return "bad-op"
}

func (f *recordsFam) Gen(r *hx.Run) {
	r.Rule("for each of the 50 parameter / state types: values filled by reflection (boundary integers, byte strings of length 0/0xFC/0xFD/0xFF/0x100, lists of 0-8 and 252-300 elements, maps of 0-40 entries " +
		"with keys sharing prefixes, big integers 0 / small / 320-bit) through the property op (decode = value, 8 re-encodings, every examined truncation); malformed: every byte offset replaced by huge declared counts " +
		"(var-uint ff..ff / 2^63 / 2^48, eight ff bytes) with the short remaining body, moderate counts (0xfd, 0xffff, 2^20), truncations, byte flips, insertions; distinct non-trivial = distinct (type, outcome class, size class)")
	id := 0
	newCase := func(kind string) {
		id++
		r.Case(fmt.Sprintf("%s-%d", kind, id))
	}
	outClass := func(out string) string { return strings.Fields(out)[0] }
	per := r.Pick(40, 1000)
	for ti := range recTypes {
		rt := &recTypes[ti]
		// a short valid encoding for the declared-count probes, which come first: once a decoder has panicked on a declared count
		// no random corruption is fed to it any more (an unpatched preallocating decoder may request hundreds of gigabytes)
		var firstEnc []byte
		for k := 0; k < 6; k++ {
			obj := rt.mk()
			fillVal(r, reflect.ValueOf(obj).Elem(), 0)
			if rt.fix != nil {
				rt.fix(r, obj)
			}
			if enc := recSer(obj); firstEnc == nil || (len(enc) < len(firstEnc) && len(enc) > 8) {
				firstEnc = enc
			}
		}
		// every offset of a (short) valid encoding replaced by a huge declared count, the rest of the body kept
		huge := [][]byte{varuintBytes(^uint64(0), 3), varuintBytes(1<<63, 3), varuintBytes(1<<63-1, 3), varuintBytes(1<<48, 3), bytes.Repeat([]byte{0xff}, 8),
			{0, 0, 0, 0, 0, 0, 0, 0x80}}
		moderate := [][]byte{varuintBytes(0xfd, 0), varuintBytes(0xffff, 0), varuintBytes(1<<20, 0), {0, 0, 0x10, 0, 0, 0, 0, 0}}
		newCase(rt.name + "-counts")
		limit := len(firstEnc)
		if limit > 120 {
			limit = 120
		}
		for _, c := range append(huge, moderate...) {
			for i := 0; i < limit; i++ {
				width := 1
				if len(c) == 8 {
					width = 8
				}
				if i+width > len(firstEnc) {
					continue
				}
				m := append(append(append([]byte{}, firstEnc[:i]...), c...), firstEnc[i+width:]...)
				out := r.Do(fmt.Sprintf("dec %s %s keys=-", rt.name, hx.Hex(m)))
				r.Hist("counts." + outClass(out))
				if out == "panic" {
					r.Nontrivial(fmt.Sprintf("%s-count-panic/%d", rt.name, i))
				}
			}
			if f.sawPanic[rt.name] {
				r.Hist("skipped.more-huge-counts-after-panic")
				break
			}
		}
		for i := 0; i < per; i++ {
			newCase(rt.name)
			obj := rt.mk()
			fillVal(r, reflect.ValueOf(obj).Elem(), 0)
			if rt.fix != nil {
				rt.fix(r, obj)
			}
			enc := recSer(obj)
			v := render(obj)
			out := r.Do(fmt.Sprintf("rt %s %s %s keys=-", rt.name, v, hx.Hex(enc)))
			if i == 0 {
				r.Sample(map[string]interface{}{"type": rt.name, "value": trunc(v, 100), "bytes": len(enc), "out": out})
			}
			r.Nontrivial(fmt.Sprintf("%s/%s/%d", rt.name, outClass(out), lenBucket(len(enc))))
			r.Do(fmt.Sprintf("dec %s %s keys=-", rt.name, hx.Hex(append(append([]byte{}, enc...), r.Rng.Bytes(r.Rng.Intn(4))...))))
			for j := 0; j < r.Pick(4, 10) && !f.sawPanic[rt.name]; j++ {
				m := mutate(r, enc)
				out := r.Do(fmt.Sprintf("dec %s %s keys=-", rt.name, hx.Hex(m)))
				r.Hist("malformed." + outClass(out))
				r.Nontrivial(fmt.Sprintf("%s-mut/%s/%d", rt.name, outClass(out), lenBucket(len(m))))
			}
		}
		// every byte-string field at the var-uint boundary lengths 252 / 253 / 254
		for _, n := range []int{252, 253, 254} {
			newCase(rt.name + "-len" + strconv.Itoa(n))
			forceBytesLen = n
			o := rt.mk()
			fillVal(r, reflect.ValueOf(o).Elem(), 0)
			forceBytesLen = -1
			if rt.fix != nil {
				rt.fix(r, o)
			}
			r.Do(fmt.Sprintf("rt %s %s %s keys=-", rt.name, render(o), hx.Hex(recSer(o))))
		}
		// a receiver that was already used (another value decoded into it, or a failed decode of a truncated record)
		for i := 0; i < r.Pick(3, 60); i++ {
			newCase(rt.name + "-redec")
			mkEnc := func() []byte {
				o := rt.mk()
				fillVal(r, reflect.ValueOf(o).Elem(), 0)
				if i%3 == 0 {
					setListLens(r, reflect.ValueOf(o).Elem(), 2)
				}
				if rt.fix != nil {
					rt.fix(r, o)
				}
				return recSer(o)
			}
			a, b := mkEnc(), mkEnc()
			if i%3 == 1 && len(a) > 2 {
				a = a[:len(a)-1-r.Rng.Intn(len(a)/2)] // truncated: the first decode fails half way
			}
			r.Do(fmt.Sprintf("redec %s %s %s keys=-", rt.name, hx.Hex(a), hx.Hex(b)))
		}
		// longer (non-minimal) var-uint forms of every byte below 0xFD of a short encoding: accepted wherever it is a length prefix
		if len(firstEnc) > 0 {
			newCase(rt.name + "-forms")
			lim := len(firstEnc)
			if lim > r.Pick(60, 120) {
				lim = r.Pick(60, 120)
			}
			for i := 0; i < lim; i++ {
				if firstEnc[i] >= 0xfd {
					continue
				}
				for _, form := range []int{1, 3} {
					m := append(append(append([]byte{}, firstEnc[:i]...), varuintBytes(uint64(firstEnc[i]), form)...), firstEnc[i+1:]...)
					out := r.Do(fmt.Sprintf("dec %s %s keys=-", rt.name, hx.Hex(m)))
					r.Hist("forms." + outClass(out))
				}
			}
		}
		if rt.name == "StorageItem" {
			for _, n := range []int{0, 1, 252, 253, 254, 255, 0xffff, 0x10000, 0x10001} {
				newCase("StorageItem-rawitem")
				r.Do(fmt.Sprintf("rawitem StorageItem %d %d keys=-", n, r.Rng.Intn(250)))
			}
		}
		// encoders hand out byte slices: three values encoded, results held, more encodings made, earlier results re-checked
		for i := 0; i < r.Pick(2, 40); i++ {
			newCase(rt.name + "-holdenc")
			var encs []string
			for j := 0; j < 3; j++ {
				o := rt.mk()
				fillVal(r, reflect.ValueOf(o).Elem(), 0)
				if rt.fix != nil {
					rt.fix(r, o)
				}
				encs = append(encs, hx.Hex(recSer(o)))
			}
			r.Do(fmt.Sprintf("holdenc %s %s keys=-", rt.name, strings.Join(encs, " ")))
		}
		// list / map counts replaced by overflow-guard breakers: counts n with n*w just above a multiple of 2^64
		if hasList(reflect.TypeOf(rt.mk()).Elem()) && !f.sawPanic[rt.name] {
			o := rt.mk()
			fillVal(r, reflect.ValueOf(o).Elem(), 0)
			setListLens(r, reflect.ValueOf(o).Elem(), 3)
			if rt.fix != nil {
				rt.fix(r, o)
			}
			enc := recSer(o)
			var cand [][2]int // (offset, width of the count field: 1 = var-uint byte, 8 = uint64)
			for i := 0; i < len(enc) && len(cand) < r.Pick(3, 8); i++ {
				if enc[i] != 3 {
					continue
				}
				if i+8 <= len(enc) && bytes.Equal(enc[i+1:i+8], make([]byte, 7)) {
					cand = append(cand, [2]int{i, 8})
				} else {
					cand = append(cand, [2]int{i, 1})
				}
			}
			newCase(rt.name + "-guardbreakers")
			for _, cw := range cand {
				for _, n := range guardBreakers() {
					var c []byte
					if cw[1] == 8 {
						c = varuintBytes(n, 3)[1:]
					} else {
						c = varuintBytes(n, 3)
					}
					m := append(append(append([]byte{}, enc[:cw[0]]...), c...), enc[cw[0]+cw[1]:]...)
					out := r.Do(fmt.Sprintf("dec %s %s keys=-", rt.name, hx.Hex(m)))
					r.Hist("guardbreaker." + outClass(out))
					if f.sawPanic[rt.name] {
						break
					}
				}
				if f.sawPanic[rt.name] {
					break
				}
			}
		}
		// maps: duplicate keys (the last one wins) and entries in a non-canonical order are accepted and canonicalised
		if cw, ok := trailingMapCountWidth[rt.name]; ok {
			for i := 0; i < r.Pick(12, 300); i++ {
				newCase(rt.name + "-mapkeys")
				mk1 := func(n int) (interface{}, []byte) {
					for {
						o := rt.mk()
						fillVal(r, reflect.ValueOf(o).Elem(), 0)
						mv := lastMapField(reflect.ValueOf(o).Elem())
						for mv.Len() > n {
							mv.SetMapIndex(mv.MapKeys()[0], reflect.Value{})
						}
						if rt.fix != nil {
							rt.fix(r, o)
						}
						if mv = lastMapField(reflect.ValueOf(o).Elem()); mv.Len() == n {
							return o, recSer(o)
						}
					}
				}
				o1, b1 := mk1(1)
				// same object with an empty map: the bytes before the entries
				mv := lastMapField(reflect.ValueOf(o1).Elem())
				key := mv.MapKeys()[0]
				val := mv.MapIndex(key)
				mv.SetMapIndex(key, reflect.Value{})
				b0 := recSer(o1)
				e1 := b1[len(b0):]
				// another value under the same key
				var e2 []byte
				if rt.name == "PeerPoolMap" {
					it := val.Interface().(*node_manager.PeerPoolItem)
					it2 := *it
					it2.Index ^= 0x55
					it2.Status ^= 1
					mv.SetMapIndex(key, reflect.ValueOf(&it2))
				} else {
					v2 := reflect.New(val.Type()).Elem()
					fillVal(r, v2, 1)
					mv.SetMapIndex(key, v2)
				}
				e2 = recSer(o1)[len(b0):]
				// and an entry under another key
				_, bo := mk1(1)
				_ = bo
				head := append([]byte{}, b0[:len(b0)-cw]...)
				cnt := func(n int) []byte {
					c := make([]byte, cw)
					c[0] = byte(n)
					return c
				}
				dup := append(append(append(append([]byte{}, head...), cnt(2)...), e1...), e2...)
				out := r.Do(fmt.Sprintf("dec %s %s keys=-", rt.name, hx.Hex(dup)))
				r.Nontrivial(fmt.Sprintf("%s-dupkey/%s", rt.name, outClass(out)))
				dup3 := append(append(append(append(append([]byte{}, head...), cnt(3)...), e2...), e1...), e2...)
				r.Do(fmt.Sprintf("dec %s %s keys=-", rt.name, hx.Hex(dup3)))
			}
			// entries of a valid map in reverse (ascending) order
			for i := 0; i < r.Pick(8, 200); i++ {
				newCase(rt.name + "-maporder")
				o := rt.mk()
				fillVal(r, reflect.ValueOf(o).Elem(), 0)
				if rt.fix != nil {
					rt.fix(r, o)
				}
				mv := lastMapField(reflect.ValueOf(o).Elem())
				if mv.Len() < 2 || mv.Len() > 250 {
					continue
				}
				full := recSer(o)
				// serialize the entries one by one: object with only that entry
				keys := mv.MapKeys()
				sort.Slice(keys, func(a, b int) bool { return keyGreater(keys[a], keys[b]) })
				vals := make([]reflect.Value, len(keys))
				for j, k := range keys {
					vals[j] = mv.MapIndex(k)
				}
				for _, k := range keys {
					mv.SetMapIndex(k, reflect.Value{})
				}
				b0 := recSer(o)
				var ents [][]byte
				for j, k := range keys {
					mv.SetMapIndex(k, vals[j])
					ents = append(ents, recSer(o)[len(b0):])
					mv.SetMapIndex(k, reflect.Value{})
				}
				rev := append([]byte{}, full[:len(b0)]...)
				for j := len(ents) - 1; j >= 0; j-- {
					rev = append(rev, ents[j]...)
				}
				out := r.Do(fmt.Sprintf("dec %s %s keys=-", rt.name, hx.Hex(rev)))
				r.Nontrivial(fmt.Sprintf("%s-revorder/%s/%d", rt.name, outClass(out), len(keys)))
			}
		}
		// a declared count of 2^22 at every offset, allocation measured: reserving memory for 4M elements from a dozen bytes
		if !f.sawPanic[rt.name] {
			for _, c := range [][]byte{varuintBytes(1<<22, 0), {0, 0, 0x40, 0, 0, 0, 0, 0}} {
				for i := 0; i < limit; i++ {
					width := 1
					if len(c) == 8 {
						width = 8
					}
					if i+width > len(firstEnc) {
						continue
					}
					m := append(append(append([]byte{}, firstEnc[:i]...), c...), firstEnc[i+width:]...)
					out := r.Do(fmt.Sprintf("decm %s %s keys=-", rt.name, hx.Hex(m)))
					r.Hist("measured." + outClass(out))
				}
			}
		}
	}
}
