package main

import (
	"crypto/elliptic"
	"strings"

	"github.com/btcsuite/btcd/btcec"
	"github.com/ontio/ontology-crypto/ec"
	"github.com/ontio/ontology-crypto/keypair"
	"github.com/ontio/ontology-crypto/sm2"
	"golang.org/x/crypto/ed25519"
	"polyverif/internal/hx"
)

// keyPool: deterministic public keys (derived from the run's PRNG, never from crypto/rand) of the schemes the key
// library serializes: P-256 (33-byte special form), secp256k1 / P-384 / P-521 ECDSA, SM2, Ed25519.
type keyPool struct {
	keys []keypair.PublicKey
	ser  [][]byte
}

func newKeyPool(rng *hx.Rng, n int) *keyPool {
	p := &keyPool{}
	curves := []struct {
		c   elliptic.Curve
		alg ec.ECAlgorithm
	}{{elliptic.P256(), ec.ECDSA}, {elliptic.P256(), ec.ECDSA}, {btcec.S256(), ec.ECDSA}, {sm2.SM2P256V1(), ec.SM2},
		{elliptic.P384(), ec.ECDSA}, {elliptic.P521(), ec.ECDSA}}
	// (P-224 is left out: its point decompression takes 5 ms per key, Tonelli-Shanks over big.Int)
	for i := 0; i < n; i++ {
		var pk keypair.PublicKey
		if i%8 == 7 {
			pk = ed25519.NewKeyFromSeed(rng.Bytes(32)).Public().(ed25519.PublicKey)
		} else {
			cv := curves[i%len(curves)]
			seed := rng.Bytes(28)
			seed[0] |= 1
			priv := ec.ConstructPrivateKey(seed, cv.c)
			pk = &ec.PublicKey{Algorithm: cv.alg, PublicKey: &priv.PublicKey}
		}
		p.keys = append(p.keys, pk)
		p.ser = append(p.ser, keypair.SerializePublicKey(pk))
	}
	return p
}

func (p *keyPool) pick(rng *hx.Rng) keypair.PublicKey { return p.keys[rng.Intn(len(p.keys))] }

// varuintAt decodes a var-uint (any of the four forms) at data[i:].
func varuintAt(data []byte, i int) (v uint64, hdr int, ok bool) {
	if i >= len(data) {
		return 0, 0, false
	}
	le := func(b []byte) uint64 {
		var x uint64
		for j := len(b) - 1; j >= 0; j-- {
			x = x<<8 | uint64(b[j])
		}
		return x
	}
	switch data[i] {
	case 0xfd:
		if i+3 > len(data) {
			return 0, 0, false
		}
		return le(data[i+1 : i+3]), 3, true
	case 0xfe:
		if i+5 > len(data) {
			return 0, 0, false
		}
		return le(data[i+1 : i+5]), 5, true
	case 0xff:
		if i+9 > len(data) {
			return 0, 0, false
		}
		return le(data[i+1 : i+9]), 9, true
	}
	return uint64(data[i]), 1, true
}

// keyOracle is the table passed to the model for its opaque public-key leaf: every var-bytes payload found at any
// offset of data that keypair.DeserializePublicKey accepts, with its canonical re-serialization
// ("keys=<wire>[:<canon>],..."). Every key a decoder can meet in data is the var-bytes at some offset, so the table is
// exact for this input.
func keyOracle(datas ...[]byte) string {
	seen := map[string]bool{}
	var parts []string
	for _, data := range datas {
		for i := range data {
			n, hdr, ok := varuintAt(data, i)
			if !ok || n <= 3 || uint64(i+hdr)+n > uint64(len(data)) || uint64(i+hdr)+n < n {
				continue
			}
			cand := data[i+hdr : uint64(i+hdr)+n]
			switch cand[0] {
			case 0x12, 0x13, 0x14, 0x02, 0x03, 0x04:
			default:
				continue
			}
			if seen[string(cand)] {
				continue
			}
			seen[string(cand)] = true
			canon, ok := canonKey(cand)
			if !ok {
				continue
			}
			if string(canon) == string(cand) {
				parts = append(parts, hx.Hex(cand))
			} else {
				parts = append(parts, hx.Hex(cand)+":"+hx.Hex(canon))
			}
		}
	}
	if len(parts) == 0 {
		return "keys=-"
	}
	return "keys=" + strings.Join(parts, ",")
}

func canonKey(b []byte) (canon []byte, ok bool) {
	defer func() {
		if recover() != nil {
			ok = false
		}
	}()
	pk, err := keypair.DeserializePublicKey(b)
	if err != nil {
		return nil, false
	}
	return keypair.SerializePublicKey(pk), true
}
