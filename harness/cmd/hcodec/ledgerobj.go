package main

import (
	"bytes"
	"crypto/sha256"
	"fmt"
	"strconv"
	"strings"
	"sync"

	"github.com/ontio/ontology-crypto/keypair"
	"github.com/polynetwork/poly/common"
	"github.com/polynetwork/poly/core/payload"
	"github.com/polynetwork/poly/core/types"
	"polyverif/internal/hx"
)

// Family ledgerobj (C02): Transaction / Header / Block codecs on the real code.
//
//	tx <B> <keys>                       TransactionFromRawBytes: "ok <V> hash=<h> raw=<len>" | "err" | "panic"
//	txm <B> <keys>                      tx with the decoder's allocation measured (no memory reserved from a declared count)
//	txprop <B> <altsigs> <trail> <keys> property of a valid encoding B: re-encodes to B, hash = dsha256(unsigned bytes),
//	                                    same hash with another signature section, B++trail decodes with Raw = B,
//	                                    every examined truncation is refused: "ok hash=<h>"
//	conc <g> <rounds> tx:<B>|blk:<B> ... <keys>   the items decoded from g goroutines at once: every identity = dsha256(unsigned bytes): "ok"
//	holdarr tx:<B>|hdr:<B>|blk:<B>|attr:<B> ... <keys>   ToArray()/GetMessage() results kept while more are produced, then re-checked: "ok"
//	txmut <B> <add|replace|m> <sig> <keys>   a change inside an existing Sig entry of the decoded tx survives re-encoding: "ok"
//	txbig <codelen> <fill> <nonce>      transaction with a code of codelen bytes: "len=<n> ok hash=<h>|err" (MAX_TX_SIZE)
//	hdr <B> <keys>                      Header.Deserialization (+ the streaming Deserialize must agree): "ok <V> hash=<h> rest=<n>"
//	hdrprop <B> <alttail> <keys>        property of a valid header encoding (hash ignores bookkeepers / sigData)
//	attr <B> <keys>                     TxAttribute.Deserialize (streaming): "ok <usage>,<data> rest=<n> canon|noncanon"
//	blk <B> <keys>                      Block.Deserialization: "ok <hdrV> hash=<h> txs=[h1;..] rest=<n>" | "err"
//	blkbad <dup|root> <B> <keys>        a block that repeats a transaction / whose root does not match: must be refused
//
// <keys> is the public-key oracle for the model (ignored here: the real key library decides).
type ledgerFam struct {
	pool     *keyPool
	sawPanic bool // a transaction / block decoder panicked on a declared count
	hdrPanic bool // the header decoder panicked on a declared count
}

func init() { families["ledgerobj"] = func() hx.Family { return &ledgerFam{} } }

func (f *ledgerFam) Reset(r *hx.Run) {}

func dsha256(b []byte) []byte {
	t := sha256.Sum256(b)
	s := sha256.Sum256(t[:])
	return s[:]
}

func hexList(items [][]byte) string {
	parts := make([]string, len(items))
	for i, b := range items {
		parts[i] = hx.Hex(b)
	}
	return "[" + strings.Join(parts, ";") + "]"
}

func keyList(keys []keypair.PublicKey) string {
	parts := make([]string, len(keys))
	for i, k := range keys {
		parts[i] = hx.Hex(keypair.SerializePublicKey(k))
	}
	return "[" + strings.Join(parts, ";") + "]"
}

func renderTx(tx *types.Transaction) string {
	code := []byte(nil)
	if pl, ok := tx.Payload.(*payload.InvokeCode); ok {
		code = pl.Code
	}
	sigs := make([]string, len(tx.Sigs))
	for i, s := range tx.Sigs {
		sigs[i] = fmt.Sprintf("%s,%s,%d", hexList(s.SigData), keyList(s.PubKeys), s.M)
	}
	return fmt.Sprintf("%d,%d,%d,%d,%d,%d,%s,%s,%s,%d,[%s]", tx.Version, byte(tx.TxType), tx.Nonce, tx.ChainID, tx.GasLimit, tx.GasPrice,
		hx.Hex(code), hx.Hex(tx.Attributes), hx.Hex(tx.Payer[:]), byte(tx.CoinType), strings.Join(sigs, ";"))
}

func renderHeader(h *types.Header) string {
	return fmt.Sprintf("%d,%d,%s,%s,%s,%s,%d,%d,%d,%s,%s,%s,%s", h.Version, h.ChainID, hx.Hex(h.PrevBlockHash[:]), hx.Hex(h.TransactionsRoot[:]),
		hx.Hex(h.CrossStateRoot[:]), hx.Hex(h.BlockRoot[:]), h.Timestamp, h.Height, h.ConsensusData, hx.Hex(h.ConsensusPayload),
		hx.Hex(h.NextBookkeeper[:]), keyList(h.Bookkeepers), hexList(h.SigData))
}

// guarded runs fn, turning a panic into ("panic", message).
func guarded(fn func() string) (res string, panicMsg string) {
	defer func() {
		if e := recover(); e != nil {
			res = "panic"
			panicMsg = fmt.Sprint(e)
		}
	}()
	return fn(), ""
}

func panicSite(msg string) string {
	switch {
	case strings.Contains(msg, "makeslice"):
		return "makeslice"
	case strings.Contains(msg, "slice bounds"):
		return "slice-bounds"
	case strings.Contains(msg, "index out of range"):
		return "index"
	case strings.Contains(msg, "nil pointer"):
		return "nil-deref"
	}
	return "other"
}

func decodeTx(raw []byte) (*types.Transaction, error) {
	return types.TransactionFromRawBytes(append([]byte{}, raw...))
}

func (f *ledgerFam) txOp(r *hx.Run, raw []byte) string {
	res, pm := guarded(func() string {
		tx, err := decodeTx(raw)
		if err != nil {
			return "err"
		}
		// identity = double SHA-256 of exactly the bytes the unsigned part consumed
		src := common.NewZeroCopySource(raw)
		var t2 types.Transaction
		if err := t2.DeserializationUnsigned(src); err == nil {
			h := tx.Hash()
			if !bytes.Equal(h[:], dsha256(raw[:src.Pos()])) {
				r.Viol("C02:tx-hash-not-over-unsigned-bytes", fmt.Sprintf("tx %x: Hash() = %x but dsha256 of the %d unsigned bytes = %x", raw, h[:], src.Pos(), dsha256(raw[:src.Pos()])))
			}
		}
		if len(tx.Raw) > len(raw) || !bytes.Equal(tx.Raw, raw[:len(tx.Raw)]) {
			r.Viol("C02:tx-raw-not-consumed-prefix", fmt.Sprintf("tx %x: Raw is not the consumed prefix", raw))
		}
		if len(raw) > types.MAX_TX_SIZE {
			r.Viol("C02:oversize-accepted", fmt.Sprintf("a %d-byte transaction was accepted (MAX_TX_SIZE %d)", len(raw), types.MAX_TX_SIZE))
		}
		h := tx.Hash()
		return fmt.Sprintf("ok %s hash=%s raw=%d", renderTx(tx), hx.Hex(h[:]), len(tx.Raw))
	})
	if res == "panic" {
		f.sawPanic = true
		r.Viol("C02:decoder-panic:Transaction:"+panicSite(pm), fmt.Sprintf("TransactionFromRawBytes(%s) panics: %s", trunc(hx.Hex(raw), 400), pm))
	}
	return res
}

func unsignedLen(raw []byte) (int, bool) {
	src := common.NewZeroCopySource(raw)
	var t types.Transaction
	if err := t.DeserializationUnsigned(src); err != nil {
		return 0, false
	}
	return int(src.Pos()), true
}

func (f *ledgerFam) txProp(r *hx.Run, raw, altsigs, trail []byte) string {
	res, pm := guarded(func() string {
		tx, err := decodeTx(raw)
		if err != nil {
			r.Viol("C02:valid-tx-rejected", fmt.Sprintf("valid transaction %s rejected: %v", trunc(hx.Hex(raw), 300), err))
			return "FAIL:decode:err"
		}
		var fails []string
		fail := func(k, d string) { fails = append(fails, k); r.Viol("C02:tx-"+k, d) }
		if re := tx.ToArray(); !bytes.Equal(re, raw) {
			fail("reencode", fmt.Sprintf("tx %s re-encodes to %s", trunc(hx.Hex(raw), 200), trunc(hx.Hex(re), 200)))
		}
		sink := common.NewZeroCopySink(nil)
		tx.SerializeUnsigned(sink)
		uenc := append([]byte{}, sink.Bytes()...)
		h := tx.Hash()
		if !bytes.Equal(h[:], dsha256(uenc)) {
			fail("hash-def", fmt.Sprintf("Hash() = %x, dsha256(SerializeUnsigned) = %x", h[:], dsha256(uenc)))
		}
		if !bytes.Equal(tx.Raw, raw) {
			fail("raw", "Raw differs from the encoding")
		}
		if t2, err := decodeTx(append(append([]byte{}, uenc...), altsigs...)); err != nil {
			fail("altsigs-rejected", fmt.Sprintf("same unsigned part with another signature section rejected: %v", err))
		} else if t2.Hash() != h {
			h2 := t2.Hash()
			fail("hash-depends-on-sigs", fmt.Sprintf("hash %x with the original signatures, %x with others", h[:], h2[:]))
		}
		if t3, err := decodeTx(append(append([]byte{}, raw...), trail...)); err != nil || !bytes.Equal(t3.Raw, raw) || t3.Hash() != h {
			fail("trailing", "followed by other bytes the transaction does not decode to the same Raw/hash")
		}
		for _, k := range cutPoints(len(raw)) {
			if _, err := decodeTx(raw[:k:k]); err == nil {
				fail("truncation-accepted", fmt.Sprintf("the first %d of %d bytes of %s decode without error", k, len(raw), trunc(hx.Hex(raw), 200)))
				break
			}
		}
		if len(fails) > 0 {
			return "FAIL:" + strings.Join(fails, ",")
		}
		return "ok hash=" + hx.Hex(h[:])
	})
	if res == "panic" {
		f.sawPanic = true
		r.Viol("C02:decoder-panic:Transaction:"+panicSite(pm), "txprop panics: "+pm)
	}
	return res
}

func decodeHeaderBoth(r *hx.Run, raw []byte) (*types.Header, uint64, bool) {
	h := &types.Header{}
	src := common.NewZeroCopySource(append([]byte{}, raw...))
	err := h.Deserialization(src)
	// the streaming codec must agree
	h2 := &types.Header{}
	err2 := h2.Deserialize(bytes.NewReader(raw))
	if (err == nil) != (err2 == nil) {
		r.Viol("C02:header-codecs-disagree", fmt.Sprintf("header %s: zero-copy err=%v, streaming err=%v", trunc(hx.Hex(raw), 300), err, err2))
	} else if err == nil && renderHeader(h) != renderHeader(h2) {
		r.Viol("C02:header-codecs-disagree", fmt.Sprintf("header %s decodes differently with the two codecs", trunc(hx.Hex(raw), 300)))
	}
	if err != nil {
		return nil, 0, false
	}
	return h, src.Len(), true
}

func (f *ledgerFam) hdrOp(r *hx.Run, raw []byte) string {
	res, pm := guarded(func() string {
		h, rest, ok := decodeHeaderBoth(r, raw)
		if !ok {
			return "err"
		}
		hh := h.Hash()
		return fmt.Sprintf("ok %s hash=%s rest=%d", renderHeader(h), hx.Hex(hh[:]), rest)
	})
	if res == "panic" {
		f.hdrPanic = true
		r.Viol("C02:decoder-panic:Header:"+panicSite(pm), fmt.Sprintf("Header.Deserialization(%s) panics: %s", trunc(hx.Hex(raw), 400), pm))
	}
	return res
}

func headerUnsigned(h *types.Header) []byte { return append([]byte{}, h.GetMessage()...) }

func (f *ledgerFam) hdrProp(r *hx.Run, raw, alttail []byte) string {
	res, pm := guarded(func() string {
		h, rest, ok := decodeHeaderBoth(r, raw)
		if !ok {
			r.Viol("C02:valid-header-rejected", "valid header rejected: "+trunc(hx.Hex(raw), 300))
			return "FAIL:decode:err"
		}
		var fails []string
		fail := func(k, d string) { fails = append(fails, k); r.Viol("C02:header-"+k, d) }
		if rest != 0 {
			fail("rest", "bytes left over")
		}
		if !bytes.Equal(h.ToArray(), raw) {
			fail("reencode", "header re-encodes differently (zero-copy)")
		}
		buf := new(bytes.Buffer)
		if err := h.Serialize(buf); err != nil || !bytes.Equal(buf.Bytes(), raw) {
			fail("reencode-stream", "header re-encodes differently (streaming)")
		}
		uenc := headerUnsigned(h)
		hh := h.Hash()
		if !bytes.Equal(hh[:], dsha256(uenc)) {
			fail("hash-def", "Hash() is not dsha256 of the unsigned bytes")
		}
		h2 := &types.Header{}
		if err := h2.Deserialization(common.NewZeroCopySource(append(append([]byte{}, uenc...), alttail...))); err != nil {
			fail("alttail-rejected", fmt.Sprintf("same unsigned part with other bookkeepers/signatures rejected: %v", err))
		} else if h2.Hash() != hh {
			fail("hash-depends-on-sigs", "header hash changes with bookkeepers / sigData")
		}
		for _, k := range cutPoints(len(raw)) {
			ht := &types.Header{}
			if err := ht.Deserialization(common.NewZeroCopySource(raw[:k:k])); err == nil {
				fail("truncation-accepted", fmt.Sprintf("the first %d of %d header bytes decode without error", k, len(raw)))
				break
			}
			hs := &types.Header{}
			if err := hs.Deserialize(bytes.NewReader(raw[:k:k])); err == nil {
				fail("stream-truncation-accepted", fmt.Sprintf("the first %d of %d header bytes decode without error (streaming)", k, len(raw)))
				break
			}
		}
		if len(fails) > 0 {
			return "FAIL:" + strings.Join(fails, ",")
		}
		return "ok hash=" + hx.Hex(hh[:])
	})
	if res == "panic" {
		f.hdrPanic = true
		r.Viol("C02:decoder-panic:Header:"+panicSite(pm), "hdrprop panics: "+pm)
	}
	return res
}

func (f *ledgerFam) blkOp(r *hx.Run, raw []byte, bad string) string {
	res, pm := guarded(func() string {
		blk := &types.Block{}
		src := common.NewZeroCopySource(append([]byte{}, raw...))
		if err := blk.Deserialization(src); err != nil {
			return "err"
		}
		if bad != "" {
			r.Viol("C02:block-"+bad+"-accepted", fmt.Sprintf("a block with a %s defect was decoded without error: %s", bad, trunc(hx.Hex(raw), 400)))
		}
		// independent checks of what an accepted block guarantees
		seen := map[common.Uint256]bool{}
		var hashes []common.Uint256
		hs := make([]string, len(blk.Transactions))
		for i, tx := range blk.Transactions {
			h := tx.Hash()
			if seen[h] {
				r.Viol("C02:block-dup-accepted", "an accepted block repeats transaction "+hx.Hex(h[:]))
			}
			seen[h] = true
			hashes = append(hashes, h)
			hs[i] = hx.Hex(h[:])
		}
		if root := refRootU(hashes); root != blk.Header.TransactionsRoot {
			r.Viol("C02:block-root-accepted", fmt.Sprintf("accepted block: header root %x, reference root of its transactions %x", blk.Header.TransactionsRoot[:], root[:]))
		}
		hh := blk.Hash()
		return fmt.Sprintf("ok %s hash=%s txs=[%s] rest=%d", renderHeader(blk.Header), hx.Hex(hh[:]), strings.Join(hs, ";"), src.Len())
	})
	if res == "panic" {
		f.sawPanic = true
		r.Viol("C02:decoder-panic:Block:"+panicSite(pm), fmt.Sprintf("Block.Deserialization(%s) panics: %s", trunc(hx.Hex(raw), 400), pm))
	}
	return res
}

// refRootU: independent recursive double-SHA256 Merkle root (odd node paired with itself, empty -> zero).
func refRootU(hs []common.Uint256) common.Uint256 {
	if len(hs) == 0 {
		return common.Uint256{}
	}
	if len(hs) == 1 {
		return hs[0]
	}
	var next []common.Uint256
	for i := 0; i < len(hs); i += 2 {
		j := i + 1
		if j >= len(hs) {
			j = i
		}
		var u common.Uint256
		copy(u[:], dsha256(append(append([]byte{}, hs[i][:]...), hs[j][:]...)))
		next = append(next, u)
	}
	return refRootU(next)
}

// concOp: conc <goroutines> <rounds> tx:<hex>|blk:<hex> ... <keys>. The same transactions and blocks are decoded from several
// goroutines at once, several rounds; every transaction identity must equal the double SHA-256 of its unsigned bytes computed
// here, sequentially, with crypto/sha256 (decoders share no state: a node decodes p2p messages, RPC input and blocks
// concurrently). A panic in a decoding goroutine is a violation as well. Outcome "ok".
func (f *ledgerFam) concOp(r *hx.Run, op []string) string {
	var g, rounds int
	fmt.Sscan(op[1], &g)
	fmt.Sscan(op[2], &rounds)
	if g < 1 || rounds < 1 || len(op) < 5 {
		return "bad-op"
	}
	type item struct {
		blk  bool
		raw  []byte
		want [][]byte // expected transaction hashes (one for a transaction, one per transaction for a block)
	}
	var items []item
	for _, t := range op[3 : len(op)-1] {
		var it item
		switch {
		case strings.HasPrefix(t, "tx:"):
			it.raw = hx.UnHex(t[3:])
			ul, ok := unsignedLen(it.raw)
			if !ok {
				return "bad-op"
			}
			it.want = [][]byte{dsha256(it.raw[:ul])}
		case strings.HasPrefix(t, "blk:"):
			it.blk = true
			it.raw = hx.UnHex(t[4:])
			b := &types.Block{}
			if err := b.Deserialization(common.NewZeroCopySource(append([]byte{}, it.raw...))); err != nil {
				return "bad-op"
			}
			for _, tx := range b.Transactions {
				ul, ok := unsignedLen(tx.Raw)
				if !ok {
					return "bad-op"
				}
				it.want = append(it.want, dsha256(tx.Raw[:ul]))
			}
		default:
			return "bad-op"
		}
		items = append(items, it)
	}
	type failure struct{ key, desc string }
	fails := make(chan failure, g*4)
	var wg sync.WaitGroup
	start := make(chan struct{})
	for w := 0; w < g; w++ {
		wg.Add(1)
		go func(w int) {
			defer wg.Done()
			defer func() {
				if e := recover(); e != nil {
					select {
					case fails <- failure{"C02:panic-under-concurrent-decode", fmt.Sprintf("goroutine %d of %d panics while decoding: %v", w, g, e)}:
					default:
					}
				}
			}()
			<-start
			for round := 0; round < rounds; round++ {
				for k := range items {
					it := &items[(k+w)%len(items)]
					var got [][]byte
					if it.blk {
						b := &types.Block{}
						if err := b.Deserialization(common.NewZeroCopySource(append([]byte{}, it.raw...))); err != nil {
							select {
							case fails <- failure{"C02:valid-block-rejected-under-concurrent-decode", fmt.Sprintf("goroutine %d: block rejected: %v", w, err)}:
							default:
							}
							continue
						}
						for _, tx := range b.Transactions {
							h := tx.Hash()
							got = append(got, append([]byte{}, h[:]...))
						}
					} else {
						tx, err := decodeTx(it.raw)
						if err != nil {
							select {
							case fails <- failure{"C02:valid-tx-rejected-under-concurrent-decode", fmt.Sprintf("goroutine %d: transaction rejected: %v", w, err)}:
							default:
							}
							continue
						}
						h := tx.Hash()
						got = [][]byte{append([]byte{}, h[:]...)}
					}
					for j := range it.want {
						if j >= len(got) || !bytes.Equal(got[j], it.want[j]) {
							var gj []byte
							if j < len(got) {
								gj = got[j]
							}
							select {
							case fails <- failure{"C02:tx-hash-differs-under-concurrent-decode", fmt.Sprintf("goroutine %d of %d, round %d: transaction %d of item %d has hash %x, double SHA-256 of its unsigned bytes is %x (one decode at a time gives the latter)", w, g, round, j, (k+w)%len(items), gj, it.want[j])}:
							default:
							}
							return
						}
					}
				}
			}
		}(w)
	}
	close(start)
	wg.Wait()
	close(fails)
	res := "ok"
	seen := map[string]bool{}
	for fl := range fails {
		if !seen[fl.key] {
			seen[fl.key] = true
			r.Viol(fl.key, fl.desc)
		}
		res = "FAIL:concurrent"
	}
	return res
}

// holdArr: holdarr tx:<B>|hdr:<B>|blk:<B>|attr:<B> ... <keys>. Every item is a canonical encoding; it is decoded, its ToArray()
// (and GetMessage() for headers) result is KEPT, then all arrays are produced again in reverse order and from two goroutines,
// and every kept slice must still equal the encoding. Outcome "ok".
func (f *ledgerFam) holdArr(r *hx.Run, op []string) string {
	type enc struct {
		name string
		want []byte
		make func() []byte
	}
	var encs []enc
	for _, t := range op[1 : len(op)-1] {
		i := strings.IndexByte(t, ':')
		if i < 0 {
			return "bad-op"
		}
		raw := hx.UnHex(t[i+1:])
		switch t[:i] {
		case "tx":
			tx, err := decodeTx(raw)
			if err != nil {
				return "bad-op"
			}
			encs = append(encs, enc{"Transaction.ToArray", raw, tx.ToArray})
		case "hdr":
			h := &types.Header{}
			if err := h.Deserialization(common.NewZeroCopySource(append([]byte{}, raw...))); err != nil {
				return "bad-op"
			}
			encs = append(encs, enc{"Header.ToArray", raw, h.ToArray})
			msg := append([]byte{}, h.GetMessage()...)
			encs = append(encs, enc{"Header.GetMessage", msg, h.GetMessage})
		case "blk":
			b := &types.Block{}
			if err := b.Deserialization(common.NewZeroCopySource(append([]byte{}, raw...))); err != nil {
				return "bad-op"
			}
			encs = append(encs, enc{"Block.ToArray", raw, b.ToArray})
		case "attr":
			var a types.TxAttribute
			if err := a.Deserialize(bytes.NewReader(raw)); err != nil {
				return "bad-op"
			}
			encs = append(encs, enc{"TxAttribute.ToArray", raw, a.ToArray})
		default:
			return "bad-op"
		}
	}
	res, pm := guarded(func() string {
		held := make([][]byte, len(encs))
		for i, e := range encs {
			held[i] = e.make()
		}
		for i := len(encs) - 1; i >= 0; i-- {
			encs[i].make()
		}
		for i, e := range encs {
			if !bytes.Equal(held[i], e.want) {
				r.Viol("C02:encoding-changed-later:"+e.name, fmt.Sprintf("the slice returned by %s (%s) reads %s after later encodings", e.name, trunc(hx.Hex(e.want), 100), trunc(hx.Hex(held[i]), 100)))
				return "FAIL:changed"
			}
		}
		var wg sync.WaitGroup
		bad := make(chan string, 4)
		for w := 0; w < 2; w++ {
			wg.Add(1)
			go func(w int) {
				defer wg.Done()
				defer func() {
					if e := recover(); e != nil {
						select {
						case bad <- fmt.Sprint("panic while encoding: ", e):
						default:
						}
					}
				}()
				for round := 0; round < 30; round++ {
					k := (round + w) % len(encs)
					a := encs[k].make()
					encs[(k+1)%len(encs)].make()
					if !bytes.Equal(a, encs[k].want) {
						select {
						case bad <- fmt.Sprintf("goroutine %d round %d: the slice returned by %s changed while another value was encoded", w, round, encs[k].name):
						default:
						}
						return
					}
				}
			}(w)
		}
		wg.Wait()
		close(bad)
		for msg := range bad {
			r.Viol("C02:encoding-changed-under-concurrent-encode", msg)
			return "FAIL:concurrent"
		}
		return "ok"
	})
	if res == "panic" {
		r.Viol("C02:encoder-panic", "holdarr panics: "+pm)
	}
	return res
}

// txMut: txmut <B> <add|replace|m|dropkeysig> <sig> <keys>. B decodes to a transaction with at least one Sig entry; the FIRST
// entry is changed in place (a signature appended / the first one replaced / M changed) keeping the number of entries, the
// transaction is re-encoded (Serialization and ToArray) and decoded again: the result must be the mutated transaction, and
// the bytes must be those of a fresh Transaction object carrying the same fields. Outcome "ok".
func (f *ledgerFam) txMut(r *hx.Run, op []string) string {
	if len(op) != 5 {
		return "bad-op"
	}
	raw, extra := hx.UnHex(op[1]), hx.UnHex(op[3])
	res, pm := guarded(func() string {
		tx, err := decodeTx(raw)
		if err != nil || len(tx.Sigs) == 0 {
			return "bad-op"
		}
		sg := &tx.Sigs[0]
		switch op[2] {
		case "add":
			sg.SigData = append(sg.SigData, extra)
		case "replace":
			if len(sg.SigData) == 0 {
				sg.SigData = append(sg.SigData, extra)
			} else {
				sg.SigData[0] = extra
			}
		case "m":
			sg.M++
		default:
			return "bad-op"
		}
		want := renderTx(tx)
		fresh := &types.Transaction{Version: tx.Version, TxType: tx.TxType, Nonce: tx.Nonce, ChainID: tx.ChainID, GasLimit: tx.GasLimit, GasPrice: tx.GasPrice,
			Payload: tx.Payload, Attributes: tx.Attributes, Payer: tx.Payer, CoinType: tx.CoinType, Sigs: tx.Sigs}
		expect := serTx(fresh)
		for name, re := range map[string][]byte{"Serialization": serTx(tx), "ToArray": tx.ToArray()} {
			if !bytes.Equal(re, expect) {
				r.Viol("C02:mutation-lost-on-reencode", fmt.Sprintf("after `%s` inside the first Sig entry of the decoded transaction, %s writes %s; a fresh Transaction with the same fields writes %s",
					op[2], name, trunc(hx.Hex(re), 160), trunc(hx.Hex(expect), 160)))
				return "FAIL:reencode"
			}
			back, err := decodeTx(re)
			if err != nil || renderTx(back) != want {
				r.Viol("C02:mutation-lost-on-reencode", fmt.Sprintf("after `%s` inside the first Sig entry, re-encoding (%s) and decoding gives %s, expected %s (%v)", op[2], name, trunc(renderTx(back), 200), trunc(want, 200), err))
				return "FAIL:roundtrip"
			}
		}
		return "ok"
	})
	if res == "panic" {
		r.Viol("C02:decoder-panic:Transaction:"+panicSite(pm), "txmut panics: "+pm)
	}
	return res
}

func bigTx(n int, fill byte, nonce uint32) []byte {
	tx := &types.Transaction{TxType: types.Invoke, Nonce: nonce, Payload: &payload.InvokeCode{Code: bytes.Repeat([]byte{fill}, n)}}
	sink := common.NewZeroCopySink(nil)
	if err := tx.Serialization(sink); err != nil {
		panic(err)
	}
	return sink.Bytes()
}

func (f *ledgerFam) Exec(r *hx.Run, op []string) string {
	switch op[0] {
	case "tx":
		return f.txOp(r, hx.UnHex(op[1]))
	case "txm": // tx, with the decoder's allocation measured
		raw := hx.UnHex(op[1])
		var out string
		if n := allocatedBy(func() { out = f.txOp(r, raw) }); n > allocLimit(len(raw)) {
			r.Viol("C02:decoder-allocates-from-count:Transaction", fmt.Sprintf("TransactionFromRawBytes of the %d-byte input %s allocates %d MB (outcome %s): memory is reserved from a declared count before the elements are read",
				len(raw), trunc(hx.Hex(raw), 200), n>>20, trunc(out, 20)))
		}
		return out
	case "txprop":
		return f.txProp(r, hx.UnHex(op[1]), hx.UnHex(op[2]), hx.UnHex(op[3]))
	case "conc":
		return f.concOp(r, op)
	case "holdarr":
		return f.holdArr(r, op)
	case "txmut":
		return f.txMut(r, op)
	case "txbig":
		n, _ := strconv.Atoi(op[1])
		nonce, _ := strconv.Atoi(op[3])
		raw := bigTx(n, hx.UnHex(op[2])[0], uint32(nonce))
		tx, err := decodeTx(raw)
		if (err == nil) != (len(raw) <= types.MAX_TX_SIZE) {
			r.Viol("C02:oversize-boundary", fmt.Sprintf("a %d-byte transaction: err=%v (MAX_TX_SIZE %d)", len(raw), err, types.MAX_TX_SIZE))
		}
		if err != nil {
			return fmt.Sprintf("len=%d err", len(raw))
		}
		h := tx.Hash()
		return fmt.Sprintf("len=%d ok hash=%s", len(raw), hx.Hex(h[:]))
	case "hdr":
		return f.hdrOp(r, hx.UnHex(op[1]))
	case "hdrprop":
		return f.hdrProp(r, hx.UnHex(op[1]), hx.UnHex(op[2]))
	case "attr":
		raw := hx.UnHex(op[1])
		res, pm := guarded(func() string {
			var a types.TxAttribute
			rd := bytes.NewReader(raw)
			if err := a.Deserialize(rd); err != nil {
				return "err"
			}
			canon := "noncanon"
			if bytes.Equal(a.ToArray(), raw[:len(raw)-rd.Len()]) {
				canon = "canon"
			}
			return fmt.Sprintf("ok %d,%s rest=%d %s", byte(a.Usage), hx.Hex(a.Data), rd.Len(), canon)
		})
		if res == "panic" {
			r.Viol("C02:decoder-panic:TxAttribute:"+panicSite(pm), "TxAttribute.Deserialize panics: "+pm)
		}
		return res
	case "blk":
		return f.blkOp(r, hx.UnHex(op[1]), "")
	case "blkbad":
		return f.blkOp(r, hx.UnHex(op[2]), op[1])
	}
	return "bad-op"
}

// ---------------------------------------------------------------------------------------------- generators

func (f *ledgerFam) genSig(r *hx.Run) types.Sig {
	var s types.Sig
	for i := r.Rng.Intn(4); i > 0; i-- {
		s.SigData = append(s.SigData, r.Rng.Bytes([]int{0, 1, 64, 65, 70, 0xfd}[r.Rng.Intn(6)]))
	}
	for i := 1 + r.Rng.Intn(4); i > 0; i-- {
		s.PubKeys = append(s.PubKeys, f.pool.pick(r.Rng))
	}
	s.M = uint16(r.Rng.U64B())
	return s
}

func (f *ledgerFam) genTx(r *hx.Run, maxSigs int) *types.Transaction {
	codeLen := []int{0, 1, 5, 40, 0xfc, 0xfd, 300}[r.Rng.Intn(7)]
	if r.Rng.Chance(1, 150) {
		codeLen = 0x10000 + r.Rng.Intn(3)
	}
	tx := &types.Transaction{Version: 0, TxType: types.Invoke, Nonce: uint32(r.Rng.U64B()), ChainID: r.Rng.U64B(), GasLimit: r.Rng.U64B(),
		GasPrice: r.Rng.U64B(), Payload: &payload.InvokeCode{Code: r.Rng.Bytes(codeLen)}, Attributes: []byte{}}
	copy(tx.Payer[:], r.Rng.Bytes(20))
	n := r.Rng.Intn(4)
	if r.Rng.Chance(1, 10) {
		n = maxSigs - r.Rng.Intn(2)
	}
	for i := 0; i < n; i++ {
		tx.Sigs = append(tx.Sigs, f.genSig(r))
	}
	return tx
}

func serTx(tx *types.Transaction) []byte {
	sink := common.NewZeroCopySink(nil)
	if err := tx.Serialization(sink); err != nil {
		panic(err)
	}
	return append([]byte{}, sink.Bytes()...)
}

// vuForm writes v as a var-uint in a randomly chosen, possibly non-minimal, form that can hold it (NextVarUint accepts all).
func vuForm(r *hx.Run, sink *common.ZeroCopySink, v uint64) {
	forms := []int{0, 3}
	if v <= 0xffff {
		forms = append(forms, 1)
	}
	if v <= 0xffffffff {
		forms = append(forms, 2)
	}
	sink.WriteBytes(varuintBytes(v, forms[r.Rng.Intn(len(forms))]))
}

func vbForm(r *hx.Run, sink *common.ZeroCopySink, b []byte) {
	vuForm(r, sink, uint64(len(b)))
	sink.WriteBytes(b)
}

// serTxForms: the wire format of Transaction.Serialization with every length prefix / count in a random var-uint form.
func serTxForms(r *hx.Run, tx *types.Transaction) []byte {
	s := common.NewZeroCopySink(nil)
	s.WriteByte(tx.Version)
	s.WriteByte(byte(tx.TxType))
	s.WriteUint32(tx.Nonce)
	s.WriteUint64(tx.ChainID)
	s.WriteUint64(tx.GasLimit)
	s.WriteUint64(tx.GasPrice)
	vbForm(r, s, tx.Payload.(*payload.InvokeCode).Code)
	vbForm(r, s, tx.Attributes)
	s.WriteAddress(tx.Payer)
	s.WriteByte(byte(tx.CoinType))
	vuForm(r, s, uint64(len(tx.Sigs)))
	for _, sg := range tx.Sigs {
		s.WriteUint16(uint16(len(sg.SigData)))
		for _, d := range sg.SigData {
			vbForm(r, s, d)
		}
		s.WriteUint16(uint16(len(sg.PubKeys)))
		for _, k := range sg.PubKeys {
			vbForm(r, s, keypair.SerializePublicKey(k))
		}
		s.WriteUint16(sg.M)
	}
	return append([]byte{}, s.Bytes()...)
}

// serHeaderForms: Header.Serialization with every length prefix / count in a random var-uint form.
func serHeaderForms(r *hx.Run, h *types.Header) []byte {
	s := common.NewZeroCopySink(nil)
	msg := h.GetMessage() // unsigned part; its ConsensusPayload prefix is re-written below
	tail := 20            // NextBookkeeper
	cp := h.ConsensusPayload
	canonPrefix := len(varuintBytes(uint64(len(cp)), 0))
	s.WriteBytes(msg[:len(msg)-tail-len(cp)-canonPrefix])
	vbForm(r, s, cp)
	s.WriteBytes(msg[len(msg)-tail:])
	vuForm(r, s, uint64(len(h.Bookkeepers)))
	for _, k := range h.Bookkeepers {
		vbForm(r, s, keypair.SerializePublicKey(k))
	}
	vuForm(r, s, uint64(len(h.SigData)))
	for _, d := range h.SigData {
		vbForm(r, s, d)
	}
	return append([]byte{}, s.Bytes()...)
}

func serSigs(sigs []types.Sig) []byte {
	sink := common.NewZeroCopySink(nil)
	sink.WriteVarUint(uint64(len(sigs)))
	for _, s := range sigs {
		if err := s.Serialize(sink); err != nil {
			panic(err)
		}
	}
	return append([]byte{}, sink.Bytes()...)
}

func (f *ledgerFam) genHeader(r *hx.Run) *types.Header {
	h := &types.Header{Version: 0, ChainID: r.Rng.U64B(), Timestamp: uint32(r.Rng.U64B()), Height: uint32(r.Rng.U64B()),
		ConsensusData: r.Rng.U64B(), ConsensusPayload: r.Rng.Bytes([]int{0, 1, 30, 0xfc, 0xfd, 400}[r.Rng.Intn(6)])}
	copy(h.PrevBlockHash[:], r.Rng.Bytes(32))
	copy(h.TransactionsRoot[:], r.Rng.Bytes(32))
	copy(h.CrossStateRoot[:], r.Rng.Bytes(32))
	copy(h.BlockRoot[:], r.Rng.Bytes(32))
	copy(h.NextBookkeeper[:], r.Rng.Bytes(20))
	for i := r.Rng.Intn(8); i > 0; i-- {
		h.Bookkeepers = append(h.Bookkeepers, f.pool.pick(r.Rng))
	}
	for i := r.Rng.Intn(8); i > 0; i-- {
		h.SigData = append(h.SigData, r.Rng.Bytes([]int{0, 64, 65, 70}[r.Rng.Intn(4)]))
	}
	return h
}

func headerTail(h *types.Header) []byte {
	full := h.ToArray()
	return append([]byte{}, full[len(h.GetMessage()):]...)
}

// counts that make an unbounded make([]T, n) panic (recoverable) or are small enough to be allocated; the range in between
// (2^21 .. 2^47) would make an unpatched preallocating decoder request terabytes and kill the process, so it is left to the
// crash probe.
var bigCounts = []uint64{^uint64(0), 1 << 63, 1<<63 - 1, 1 << 48, 1 << 20, 0x10000, 0xffff, 0xfd, 0xfc, 17, 16}

func varuintBytes(v uint64, form int) []byte {
	s := common.NewZeroCopySink(nil)
	switch form {
	case 1:
		s.WriteUint8(0xfd)
		s.WriteUint16(uint16(v))
	case 2:
		s.WriteUint8(0xfe)
		s.WriteUint32(uint32(v))
	case 3:
		s.WriteUint8(0xff)
		s.WriteUint64(v)
	default:
		s.WriteVarUint(v)
	}
	return append([]byte{}, s.Bytes()...)
}

// mutate returns a malformed variant of a valid encoding.
func mutate(r *hx.Run, b []byte) []byte {
	m := append([]byte{}, b...)
	switch r.Rng.Intn(6) {
	case 0:
		if len(m) > 0 {
			m = m[:r.Rng.Intn(len(m))]
		}
	case 1, 2:
		for i := 1 + r.Rng.Intn(3); i > 0 && len(m) > 0; i-- {
			m[r.Rng.Intn(len(m))] = byte(r.Rng.U64())
		}
	case 3:
		if len(m) > 0 {
			i := r.Rng.Intn(len(m))
			m[i] = []byte{0, 1, 0xfc, 0xfd, 0xfe, 0xff, 0x80, 0x7f}[r.Rng.Intn(8)]
		}
	case 4:
		if len(m) > 0 {
			i := r.Rng.Intn(len(m))
			ins := varuintBytes(bigCounts[r.Rng.Intn(len(bigCounts))], r.Rng.Intn(4))
			m = append(append(append([]byte{}, m[:i]...), ins...), m[i:]...)
		}
	default:
		m = append(m, r.Rng.Bytes(1+r.Rng.Intn(8))...)
	}
	return m
}

func (f *ledgerFam) Gen(r *hx.Run) {
	r.Rule("valid transactions (0-16 signatures, 1-4 keys of 6 schemes each, code lengths around 0xFC/0xFD/0x10000), headers (0-7 bookkeepers/signatures), " +
		"blocks (0-6 transactions) through the property ops; malformed: every declared-count position replaced by boundary counts (16/17/0xFC/0xFD/0xFFFF/2^31/2^32/2^40/2^48/2^63/2^64-1, all var-uint forms) with short bodies, " +
		"truncations, byte flips, insertions, non-canonical keys, version/type/coin/attribute violations; sizes at MAX_TX_SIZE-1/MAX/MAX+1; distinct non-trivial = distinct (kind, outcome class, size class)")
	f.pool = newKeyPool(r.Rng, 16)
	const maxSigs = 16
	id := 0
	newCase := func(kind string) {
		id++
		r.Case(fmt.Sprintf("%s-%d", kind, id))
	}
	outClass := func(out string) string {
		if strings.HasPrefix(out, "ok") {
			return "ok"
		}
		return strings.Fields(out)[0]
	}
	// 1. the signature count of a transaction replaced by boundary counts (short body)
	base := &types.Transaction{TxType: types.Invoke, Nonce: 7, Payload: &payload.InvokeCode{Code: []byte{1, 2, 3}}}
	unsigned := serTx(base)
	unsigned = unsigned[:len(unsigned)-1]
	for _, c := range bigCounts {
		if f.sawPanic && c > 1<<20 {
			r.Hist("skipped.huge-count-after-panic") // same defect; mid-range counts make the unpatched decoder allocate terabytes
			continue
		}
		for form := 0; form < 4; form++ {
			if (form == 1 && c > 0xffff) || (form == 2 && c > 0xffffffff) {
				continue
			}
			newCase("tx-sigcount")
			raw := append(append([]byte{}, unsigned...), varuintBytes(c, form)...)
			raw = append(raw, r.Rng.Bytes(r.Rng.Intn(4))...)
			out := r.Do(fmt.Sprintf("tx %s %s", hx.Hex(raw), keyOracle(raw)))
			r.Nontrivial(fmt.Sprintf("tx-sigcount/%d/%s", c, outClass(out)))
			if f.sawPanic && c > 1<<20 {
				break
			}
		}
	}
	// a declared count of 2^22 signatures / 65535 signature items with an empty body, allocation measured
	if !f.sawPanic {
		for form := 0; form < 4; form++ {
			if form == 1 {
				continue
			}
			newCase("tx-sigcount-measured")
			raw := append(append([]byte{}, unsigned...), varuintBytes(1<<22, form)...)
			r.Do(fmt.Sprintf("txm %s keys=-", hx.Hex(raw)))
			raw2 := append(append(append([]byte{}, unsigned...), 1), 0xff, 0xff)
			r.Do(fmt.Sprintf("txm %s keys=-", hx.Hex(raw2)))
		}
	}
	// 1b. bookkeeper / signature counts of a header replaced by huge declared counts (a decoder must not panic, whatever it
	// reserves from the count): these come before any random corruption of headers
	{
		h0 := f.genHeader(r)
		h0.Bookkeepers, h0.SigData = nil, nil
		full := h0.ToArray() // unsigned part, then the two zero counts
		ul := len(full) - 2
		for _, c := range []uint64{^uint64(0), 1 << 63, 1<<63 - 1, 1 << 62, 1 << 60, 1 << 48} {
			for pos := 0; pos < 2 && !f.hdrPanic; pos++ {
				newCase("hdr-count")
				m := append([]byte{}, full[:ul]...)
				if pos == 1 {
					m = append(m, 0) // no bookkeepers, huge signature count
				}
				m = append(append(m, varuintBytes(c, 3)...), r.Rng.Bytes(r.Rng.Intn(40))...)
				out := r.Do(fmt.Sprintf("hdr %s %s", hx.Hex(m), keyOracle(m)))
				r.Nontrivial(fmt.Sprintf("hdr-count/%d/%d/%s", c, pos, outClass(out)))
			}
		}
	}
	// 2. valid transactions
	ntx := r.Pick(500, 5000)
	for i := 0; i < ntx; i++ {
		newCase("tx")
		tx := f.genTx(r, maxSigs)
		raw := serTx(tx)
		var alt []types.Sig
		for j := r.Rng.Intn(4); j > 0; j-- {
			alt = append(alt, f.genSig(r))
		}
		altb := serSigs(alt)
		trail := r.Rng.Bytes(1 + r.Rng.Intn(5))
		keys := keyOracle(raw, altb)
		out := r.Do(fmt.Sprintf("tx %s %s", hx.Hex(raw), keys))
		if i < 2 {
			r.Sample(map[string]interface{}{"op": "tx", "bytes": len(raw), "out": trunc(out, 160)})
		}
		r.Do(fmt.Sprintf("txprop %s %s %s %s", hx.Hex(raw), hx.Hex(altb), hx.Hex(trail), keys))
		r.Nontrivial(fmt.Sprintf("tx/%d/%d/%s", len(tx.Sigs), lenBucket(len(raw)), outClass(out)))
		r.Hist("tx.sigs." + strconv.Itoa(len(tx.Sigs)))
		// malformed variants of this transaction
		nmut := r.Pick(6, 12)
		if len(raw) > 20000 {
			nmut = 1
		}
		if f.sawPanic {
			// the decoder already panicked on a declared count: random corruptions of an unpatched preallocating decoder can
			// request hundreds of gigabytes (fe xx xx xx xx as signature count) and kill the process, losing the finding
			nmut = 0
			r.Hist("skipped.tx-mutations-after-panic")
		}
		for j := 0; j < nmut; j++ {
			m := mutate(r, raw)
			out := r.Do(fmt.Sprintf("tx %s %s", hx.Hex(m), keyOracle(m)))
			r.Hist("tx.malformed." + outClass(out))
			r.Nontrivial(fmt.Sprintf("txm/%s/%d", outClass(out), lenBucket(len(m))))
		}
		// guard violations: version / type / attributes / coin type
		if i%5 == 0 {
			m := append([]byte{}, raw...)
			switch r.Rng.Intn(4) {
			case 0:
				m[0] = byte(1 + r.Rng.Intn(255))
			case 1:
				m[1] = []byte{0xd0, 0xd2, 0, 0xff}[r.Rng.Intn(4)]
			case 2:
				if ul, ok := unsignedLen(raw); ok {
					m[ul-1] = byte(1 + r.Rng.Intn(255)) // coin type
				}
			case 3:
				if ul, ok := unsignedLen(raw); ok { // attributes: length 1 instead of 0
					at := ul - 22
					m = append(append(append([]byte{}, raw[:at]...), 1, 0xaa), raw[at+1:]...)
				}
			}
			out := r.Do(fmt.Sprintf("tx %s %s", hx.Hex(m), keyOracle(m)))
			r.Hist("tx.guard." + outClass(out))
		}
	}
	// non-canonical public keys: uncompressed / labelled P-256 forms and trailing bytes decode, re-encode canonically
	for i := 0; i < r.Pick(40, 400); i++ {
		newCase("tx-noncanon-key")
		tx := f.genTx(r, 3)
		tx.Sigs = []types.Sig{{SigData: [][]byte{r.Rng.Bytes(64)}, PubKeys: []keypair.PublicKey{f.pool.keys[0]}, M: 1}}
		raw := serTx(tx)
		canon := f.pool.ser[0] // P-256 33 bytes
		var wire []byte
		switch r.Rng.Intn(3) {
		case 0:
			wire = append([]byte{0x12, 0x02}, canon...) // ECDSA label + curve label
		case 1:
			wire = append(append([]byte{}, canon...), r.Rng.Bytes(1+r.Rng.Intn(4))...) // trailing bytes
		default:
			wire = append([]byte{0x13, 0x02}, canon...) // SM2 algorithm over P-256: another key object
		}
		at := bytes.LastIndex(raw, append([]byte{byte(len(canon))}, canon...))
		m := append(append(append([]byte{}, raw[:at]...), append([]byte{byte(len(wire))}, wire...)...), raw[at+1+len(canon):]...)
		out := r.Do(fmt.Sprintf("tx %s %s", hx.Hex(m), keyOracle(m)))
		r.Nontrivial("tx-noncanon-key/" + outClass(out))
	}
	// concurrent decoding: decoders must not share state
	for i := 0; i < r.Pick(5, 60); i++ {
		newCase("conc")
		var toks []string
		var all [][]byte
		for j := 0; j < 8; j++ {
			tx := f.genTx(r, 3)
			tx.Payload = &payload.InvokeCode{Code: r.Rng.Bytes([]int{10, 300, 2000, 9000}[r.Rng.Intn(4)])}
			raw := serTx(tx)
			all = append(all, raw)
			toks = append(toks, "tx:"+hx.Hex(raw))
		}
		for j := 0; j < 2; j++ {
			blk := &types.Block{Header: f.genHeader(r)}
			for k := 0; k < 3; k++ {
				if t, err := decodeTx(serTx(f.genTx(r, 2))); err == nil {
					blk.Transactions = append(blk.Transactions, t)
				}
			}
			blk.RebuildMerkleRoot()
			raw := blk.ToArray()
			all = append(all, raw)
			toks = append(toks, "blk:"+hx.Hex(raw))
		}
		r.Do(fmt.Sprintf("conc %d %d %s %s", []int{4, 6, 8}[r.Rng.Intn(3)], r.Pick(25, 60), strings.Join(toks, " "), keyOracle(all...)))
		r.Nontrivial(fmt.Sprintf("conc/%d", i))
	}
	// non-minimal var-uint forms at every length prefix / count of valid transactions and headers: the identity stays the
	// double SHA-256 of the exact unsigned bytes on the wire
	for i := 0; i < r.Pick(150, 5000); i++ {
		newCase("tx-forms")
		tx := f.genTx(r, 3)
		raw := serTxForms(r, tx)
		out := r.Do(fmt.Sprintf("tx %s %s", hx.Hex(raw), keyOracle(raw)))
		r.Nontrivial(fmt.Sprintf("tx-forms/%s/%d", outClass(out), len(tx.Sigs)))
		if !strings.HasPrefix(out, "ok") {
			r.Viol("C02:noncanonical-length-prefix-rejected:Transaction", "a transaction whose length prefixes use longer var-uint forms is rejected: "+trunc(hx.Hex(raw), 300))
		}
		if i%2 == 0 {
			h := f.genHeader(r)
			hraw := serHeaderForms(r, h)
			r.Do(fmt.Sprintf("hdr %s %s", hx.Hex(hraw), keyOracle(hraw)))
		}
	}
	// a signature added / replaced / M changed INSIDE an existing Sig entry of a decoded transaction survives re-encoding
	for i := 0; i < r.Pick(60, 2000); i++ {
		newCase("txmut")
		tx := f.genTx(r, 3)
		if len(tx.Sigs) == 0 {
			tx.Sigs = append(tx.Sigs, f.genSig(r))
		}
		raw := serTx(tx)
		mode := []string{"add", "replace", "m"}[r.Rng.Intn(3)]
		r.Do(fmt.Sprintf("txmut %s %s %s %s", hx.Hex(raw), mode, hx.Hex(r.Rng.Bytes(1+r.Rng.Intn(70))), keyOracle(raw)))
		r.Nontrivial("txmut/" + mode)
	}
	// encoders hand out byte slices: results held while more are produced (also from two goroutines), then re-checked
	for i := 0; i < r.Pick(6, 100); i++ {
		newCase("holdarr")
		var toks []string
		var all [][]byte
		for j := 0; j < 3; j++ {
			raw := serTx(f.genTx(r, 3))
			all = append(all, raw)
			toks = append(toks, "tx:"+hx.Hex(raw))
		}
		for j := 0; j < 2; j++ {
			raw := f.genHeader(r).ToArray()
			all = append(all, raw)
			toks = append(toks, "hdr:"+hx.Hex(raw))
		}
		blk := &types.Block{Header: f.genHeader(r)}
		for k := 0; k < 2; k++ {
			if t, err := decodeTx(serTx(f.genTx(r, 2))); err == nil {
				blk.Transactions = append(blk.Transactions, t)
			}
		}
		blk.RebuildMerkleRoot()
		braw := blk.ToArray()
		all = append(all, braw)
		toks = append(toks, "blk:"+hx.Hex(braw))
		for j := 0; j < 2; j++ {
			a := types.NewTxAttribute(types.Script, r.Rng.Bytes(1+r.Rng.Intn(40)))
			toks = append(toks, "attr:"+hx.Hex(a.ToArray()))
		}
		r.Do(fmt.Sprintf("holdarr %s %s", strings.Join(toks, " "), keyOracle(all...)))
	}
	// 3. sizes around MAX_TX_SIZE (the empty-signature transaction has 54 bytes + code + its var-uint length)
	for _, total := range []int{types.MAX_TX_SIZE - 1, types.MAX_TX_SIZE, types.MAX_TX_SIZE + 1} {
		newCase("tx-size")
		codeLen := total - len(bigTx(0, 0, 0)) + 1 - 5
		r.Do(fmt.Sprintf("txbig %d %02x %d", codeLen, byte(r.Rng.U64()), r.Rng.Intn(1000)))
		r.Nontrivial(fmt.Sprintf("tx-size/%d", total))
	}
	// transaction attributes (streaming codec; transactions themselves must carry none)
	for i := 0; i < r.Pick(200, 5000); i++ {
		newCase("attr")
		a := types.NewTxAttribute([]types.TransactionAttributeUsage{types.Nonce, types.Script, types.DescriptionUrl, types.Description}[r.Rng.Intn(4)], r.Rng.Bytes(genLen(r)))
		raw := a.ToArray()
		switch r.Rng.Intn(4) {
		case 0:
			raw = mutate(r, raw)
		case 1:
			raw[0] = byte(r.Rng.U64())
		}
		out := r.Do(fmt.Sprintf("attr %s keys=-", hx.Hex(raw)))
		r.Nontrivial(fmt.Sprintf("attr/%s/%d", outClass(out), lenBucket(len(raw))))
	}
	// 4. headers
	nh := r.Pick(300, 4000)
	for i := 0; i < nh; i++ {
		newCase("hdr")
		h := f.genHeader(r)
		raw := h.ToArray()
		alt := f.genHeader(r)
		alttail := headerTail(alt)
		keys := keyOracle(raw, alttail)
		out := r.Do(fmt.Sprintf("hdr %s %s", hx.Hex(raw), keys))
		if i < 1 {
			r.Sample(map[string]interface{}{"op": "hdr", "bytes": len(raw), "out": trunc(out, 160)})
		}
		r.Do(fmt.Sprintf("hdrprop %s %s %s", hx.Hex(raw), hx.Hex(alttail), keys))
		r.Nontrivial(fmt.Sprintf("hdr/%d/%d/%s", len(h.Bookkeepers), len(h.SigData), outClass(out)))
		for j := 0; j < r.Pick(5, 10) && !f.hdrPanic; j++ { // (no random corruption of a decoder that already panicked on a count)
			m := mutate(r, raw)
			out := r.Do(fmt.Sprintf("hdr %s %s", hx.Hex(m), keyOracle(m)))
			r.Hist("hdr.malformed." + outClass(out))
			r.Nontrivial(fmt.Sprintf("hdrm/%s/%d", outClass(out), lenBucket(len(m))))
		}
		if i%4 == 0 && !f.hdrPanic { // bookkeeper / signature counts replaced by boundary counts
			ul := len(h.GetMessage())
			c := bigCounts[r.Rng.Intn(len(bigCounts))]
			m := append(append(append([]byte{}, raw[:ul]...), varuintBytes(c, r.Rng.Intn(4))...), r.Rng.Bytes(r.Rng.Intn(40))...)
			out := r.Do(fmt.Sprintf("hdr %s %s", hx.Hex(m), keyOracle(m)))
			r.Hist("hdr.bigcount." + outClass(out))
		}
		if i%7 == 0 { // version guard
			m := append([]byte{}, raw...)
			m[r.Rng.Intn(4)] = byte(1 + r.Rng.Intn(255))
			r.Do(fmt.Sprintf("hdr %s %s", hx.Hex(m), keyOracle(m)))
		}
	}
	// 5. blocks
	nb := r.Pick(120, 1000)
	for i := 0; i < nb; i++ {
		newCase("blk")
		blk := &types.Block{Header: f.genHeader(r)}
		ntx := r.Rng.Intn(7)
		for j := 0; j < ntx; j++ {
			traw := serTx(f.genTx(r, 3))
			t, err := decodeTx(traw)
			if err != nil { // reported with its input by the tx ops; here the block simply gets one transaction less
				r.Viol("C02:valid-tx-rejected", fmt.Sprintf("valid transaction %s rejected: %v", trunc(hx.Hex(traw), 300), err))
				continue
			}
			blk.Transactions = append(blk.Transactions, t)
		}
		ntx = len(blk.Transactions)
		blk.RebuildMerkleRoot()
		raw := blk.ToArray()
		keys := keyOracle(raw)
		out := r.Do(fmt.Sprintf("blk %s %s", hx.Hex(raw), keys))
		if !strings.HasPrefix(out, "ok") {
			r.Viol("C02:valid-block-rejected", "a well-formed block with a rebuilt root was rejected")
		}
		r.Nontrivial(fmt.Sprintf("blk/%d/%s", ntx, outClass(out)))
		if ntx > 0 {
			// duplicate one transaction (root rebuilt: only the duplicate check can refuse it)
			dup := &types.Block{Header: blk.Header, Transactions: append([]*types.Transaction{}, blk.Transactions...)}
			k := r.Rng.Intn(ntx)
			pos := r.Rng.Intn(ntx + 1)
			dup.Transactions = append(dup.Transactions[:pos], append([]*types.Transaction{blk.Transactions[k]}, dup.Transactions[pos:]...)...)
			hcopy := *blk.Header
			dup.Header = &hcopy
			dup.RebuildMerkleRoot()
			draw := dup.ToArray()
			r.Do(fmt.Sprintf("blkbad dup %s %s", hx.Hex(draw), keyOracle(draw)))
			r.Nontrivial(fmt.Sprintf("blkdup/%d/%d/%d", ntx, k, pos))
		}
		// wrong root: flip one bit of the header's TransactionsRoot
		bad := append([]byte{}, raw...)
		bad[12+32+r.Rng.Intn(32)] ^= 1 << uint(r.Rng.Intn(8))
		r.Do(fmt.Sprintf("blkbad root %s %s", hx.Hex(bad), keyOracle(bad)))
		// drop / reorder a transaction without touching the root
		if ntx >= 2 {
			re := &types.Block{Header: blk.Header, Transactions: append([]*types.Transaction{}, blk.Transactions...)}
			re.Transactions[0], re.Transactions[ntx-1] = re.Transactions[ntx-1], re.Transactions[0]
			rraw := re.ToArray()
			r.Do(fmt.Sprintf("blkbad root %s %s", hx.Hex(rraw), keyOracle(rraw)))
		}
		for j := 0; j < r.Pick(4, 8) && !f.sawPanic && !f.hdrPanic; j++ {
			m := mutate(r, raw)
			out := r.Do(fmt.Sprintf("blk %s %s", hx.Hex(m), keyOracle(m)))
			r.Hist("blk.malformed." + outClass(out))
			r.Nontrivial(fmt.Sprintf("blkm/%s/%d", outClass(out), lenBucket(len(m))))
		}
		if i%3 == 0 { // transaction count replaced by a boundary u32
			hl := len(blk.Header.ToArray())
			m := append([]byte{}, raw...)
			c := []uint32{0xffffffff, 0x80000000, 0x10000, uint32(ntx + 1), 0}[r.Rng.Intn(5)]
			m[hl], m[hl+1], m[hl+2], m[hl+3] = byte(c), byte(c>>8), byte(c>>16), byte(c>>24)
			out := r.Do(fmt.Sprintf("blk %s %s", hx.Hex(m), keyOracle(m)))
			r.Hist("blk.bigcount." + outClass(out))
		}
	}
}

func lenBucket(n int) int {
	b := 0
	for n > 0 {
		n >>= 1
		b++
	}
	return b
}
