package main

import (
	"bytes"
	"encoding/hex"
	"fmt"
	"io"
	"math/big"
	"strconv"
	"strings"

	"github.com/polynetwork/poly/common"
	"github.com/polynetwork/poly/common/serialization"
	"polyverif/internal/hx"
)

// Family codec (C01): the primitives of ZeroCopySink / ZeroCopySource / serialization.* on the real code.
//
//	w <prim> <val>          append to the case's sink (and encode with the streaming writer): "<hex> size=<n> stream=<same|hex|na>"
//	load | src <hex>        point the ZeroCopySource at the sink bytes / at the given bytes: "len=<n>"
//	r <prim> [n]            ZeroCopySource.NextX: "<val> eof=<0|1> pos=<Pos()> len=<Len()>" (or "panic")
//	backup <n> | skip <n>   "pos=<p>" | "eof=<b> pos=<p>"
//	sload | ssrc <hex> | srep <n> <byte>    set / extend the io.Reader of the streaming codec
//	sr <prim> [arg]         serialization.ReadX: "<val> rem=<n>" or "err:<class> rem=<n>"
//	rt <prim> <val> <suffix>   property op: both encoders agree, both decoders return the value and consume exactly the
//	                        encoding when followed by <suffix>, every examined truncation is eof / error: "<hex> ok"
//	reuse <mode> <junk> <prim> <val> ...   fields written into a sink that already held junk (Reset / BackUp / dirty caller buffer / prefix)
//	holdsink <prim> <val> ...  every value written into its own sink / serialization.ToArray, results kept and re-checked at the end
//	sbig <n>:<fill> ...     large var-bytes fields read back-to-back (streaming), all values compared after the last read
//	check                   the same for the concatenation of everything written in this case: "ok n=<fields> len=<L>"
//	safe <add|sub|mul> x y  "<result> <overflow>"
//	varsize <v>             serialization.GetVarUintSize
type codecFam struct {
	sink    *common.ZeroCopySink
	written [][2]string
	src     *common.ZeroCopySource
	sbuf    *bytes.Reader
	sdata   []byte
}

func init() { families["codec"] = func() hx.Family { return &codecFam{} } }

func (f *codecFam) Reset(r *hx.Run) {
	f.sink = common.NewZeroCopySink(nil)
	f.written = nil
	f.src = common.NewZeroCopySource(nil)
	f.sbuf = bytes.NewReader(nil)
	f.sdata = nil
}

func b01(b bool) string {
	if b {
		return "1"
	}
	return "0"
}

func pu(s string, bits int) uint64 {
	v, err := strconv.ParseUint(s, 10, bits)
	if err != nil {
		panic("bad uint token " + s)
	}
	return v
}

func pi(s string, bits int) int64 {
	v, err := strconv.ParseInt(s, 10, bits)
	if err != nil {
		panic("bad int token " + s)
	}
	return v
}

// sinkWrite performs ZeroCopySink.WriteX; returns the size the call reports (returned size or appended length).
func sinkWrite(sink *common.ZeroCopySink, prim, val string) (size uint64, ok bool) {
	before := sink.Size()
	switch prim {
	case "u8":
		sink.WriteUint8(uint8(pu(val, 8)))
	case "u16":
		sink.WriteUint16(uint16(pu(val, 16)))
	case "u32":
		sink.WriteUint32(uint32(pu(val, 32)))
	case "u64":
		sink.WriteUint64(pu(val, 64))
	case "i16":
		sink.WriteInt16(int16(pi(val, 16)))
	case "i32":
		sink.WriteInt32(int32(pi(val, 32)))
	case "i64":
		sink.WriteInt64(pi(val, 64))
	case "bool":
		sink.WriteBool(val == "true")
	case "varuint":
		return sink.WriteVarUint(pu(val, 64)), true
	case "varbytes":
		return sink.WriteVarBytes(hx.UnHex(val)), true
	case "string":
		return sink.WriteString(string(hx.UnHex(val))), true
	case "addr":
		var a common.Address
		b := hx.UnHex(val)
		if len(b) != common.ADDR_LEN {
			return 0, false
		}
		copy(a[:], b)
		sink.WriteAddress(a)
	case "hash":
		var h common.Uint256
		b := hx.UnHex(val)
		if len(b) != common.UINT256_SIZE {
			return 0, false
		}
		copy(h[:], b)
		sink.WriteHash(h)
	case "bytes":
		sink.WriteBytes(hx.UnHex(val))
	default:
		return 0, false
	}
	return sink.Size() - before, true
}

// streamWrite performs serialization.WriteX (nil, false when the streaming codec has no such writer).
func streamWrite(prim, val string) ([]byte, bool) {
	w := new(bytes.Buffer)
	var err error
	switch prim {
	case "u8":
		err = serialization.WriteUint8(w, uint8(pu(val, 8)))
	case "u16":
		err = serialization.WriteUint16(w, uint16(pu(val, 16)))
	case "u32":
		err = serialization.WriteUint32(w, uint32(pu(val, 32)))
	case "u64":
		err = serialization.WriteUint64(w, pu(val, 64))
	case "bool":
		err = serialization.WriteBool(w, val == "true")
	case "varuint":
		err = serialization.WriteVarUint(w, pu(val, 64))
	case "varbytes":
		err = serialization.WriteVarBytes(w, hx.UnHex(val))
	case "string":
		err = serialization.WriteString(w, string(hx.UnHex(val)))
	case "addr":
		var a common.Address
		copy(a[:], hx.UnHex(val))
		err = a.Serialize(w)
	case "hash":
		var h common.Uint256
		copy(h[:], hx.UnHex(val))
		err = h.Serialize(w)
	case "bytes":
		err = serialization.WriteBytes(w, hx.UnHex(val))
	default:
		return nil, false
	}
	if err != nil {
		panic(err)
	}
	return w.Bytes(), true
}

// srcRead performs ZeroCopySource.NextX and renders the value as its op-line token.
func srcRead(src *common.ZeroCopySource, prim, arg string) (val string, eof bool, ok bool) {
	ok = true
	switch prim {
	case "u8":
		var v uint8
		v, eof = src.NextUint8()
		val = strconv.FormatUint(uint64(v), 10)
	case "u16":
		var v uint16
		v, eof = src.NextUint16()
		val = strconv.FormatUint(uint64(v), 10)
	case "u32":
		var v uint32
		v, eof = src.NextUint32()
		val = strconv.FormatUint(uint64(v), 10)
	case "u64":
		var v uint64
		v, eof = src.NextUint64()
		val = strconv.FormatUint(v, 10)
	case "i16":
		var v int16
		v, eof = src.NextInt16()
		val = strconv.FormatInt(int64(v), 10)
	case "i32":
		var v int32
		v, eof = src.NextInt32()
		val = strconv.FormatInt(int64(v), 10)
	case "i64":
		var v int64
		v, eof = src.NextInt64()
		val = strconv.FormatInt(v, 10)
	case "bool":
		var v bool
		v, eof = src.NextBool()
		val = strconv.FormatBool(v)
	case "varuint":
		var v uint64
		v, eof = src.NextVarUint()
		val = strconv.FormatUint(v, 10)
	case "varbytes":
		var v []byte
		v, eof = src.NextVarBytes()
		val = hx.Hex(v)
	case "string":
		var v string
		v, eof = src.NextString()
		val = hx.Hex([]byte(v))
	case "addr":
		var v common.Address
		v, eof = src.NextAddress()
		val = hx.Hex(v[:])
	case "hash":
		var v common.Uint256
		v, eof = src.NextHash()
		val = hx.Hex(v[:])
	case "bytes":
		var v []byte
		v, eof = src.NextBytes(pu(arg, 64))
		val = hx.Hex(v)
	default:
		ok = false
	}
	return
}

func errClass(err error) string {
	switch err {
	case io.EOF:
		return "err:eof"
	case io.ErrUnexpectedEOF:
		return "err:ueof"
	case serialization.ErrEof:
		return "err:erreof"
	case serialization.ErrRange:
		return "err:range"
	}
	return "err:other(" + err.Error() + ")"
}

// streamRead performs serialization.ReadX.
func streamRead(rd io.Reader, prim, arg string) string {
	var err error
	var val string
	switch prim {
	case "u8":
		var v uint8
		v, err = serialization.ReadUint8(rd)
		val = strconv.FormatUint(uint64(v), 10)
	case "u16":
		var v uint16
		v, err = serialization.ReadUint16(rd)
		val = strconv.FormatUint(uint64(v), 10)
	case "u32":
		var v uint32
		v, err = serialization.ReadUint32(rd)
		val = strconv.FormatUint(uint64(v), 10)
	case "u64":
		var v uint64
		v, err = serialization.ReadUint64(rd)
		val = strconv.FormatUint(v, 10)
	case "bool":
		var v bool
		v, err = serialization.ReadBool(rd)
		val = strconv.FormatBool(v)
	case "byte":
		var v byte
		v, err = serialization.ReadByte(rd)
		val = strconv.FormatUint(uint64(v), 10)
	case "varuint":
		var v uint64
		v, err = serialization.ReadVarUint(rd, pu(arg, 64))
		val = strconv.FormatUint(v, 10)
	case "varbytes":
		var v []byte
		v, err = serialization.ReadVarBytes(rd)
		val = hx.Hex(v)
	case "string":
		var v string
		v, err = serialization.ReadString(rd)
		val = hx.Hex([]byte(v))
	case "addr":
		var v common.Address
		v, err = serialization.ReadAddress(rd)
		val = hx.Hex(v[:])
	case "hash":
		var v common.Uint256
		v, err = serialization.ReadHash(rd)
		val = hx.Hex(v[:])
	case "bytes":
		var v []byte
		v, err = serialization.ReadBytes(rd, pu(arg, 64))
		val = hx.Hex(v)
	default:
		return "bad-op"
	}
	if err != nil {
		return errClass(err)
	}
	return val
}

func hasStream(prim string) bool {
	switch prim {
	case "u8", "u16", "u32", "u64", "bool", "varuint", "varbytes", "string", "addr", "hash":
		return true
	}
	return false
}

func cutPoints(n int) []int {
	var ks []int
	for k := 0; k < n; k++ {
		if n <= 300 || k < 40 || k+40 >= n || k%9973 == 0 {
			ks = append(ks, k)
		}
	}
	return ks
}

func encLen(prim, val string) int {
	s := common.NewZeroCopySink(nil)
	sinkWrite(s, prim, val)
	return len(s.Bytes())
}

// readSeq reads the written fields back in order; returns how many decoded to their value without eof and whether
// the field after them reported eof (or there is none).
func readSeq(fields [][2]string, data []byte) (int, bool) {
	src := common.NewZeroCopySource(data)
	n := 0
	for _, pv := range fields {
		v, eof, _ := srcRead(src, pv[0], strconv.Itoa(encLen(pv[0], pv[1])))
		if eof {
			return n, true
		}
		if v != pv[1] {
			return n, false
		}
		n++
	}
	return n, true
}

func (f *codecFam) Exec(r *hx.Run, op []string) string {
	switch op[0] {
	case "w":
		if len(op) != 3 {
			return "bad-op"
		}
		before := len(f.sink.Bytes())
		size, ok := sinkWrite(f.sink, op[1], op[2])
		if !ok {
			return "bad-op"
		}
		enc := append([]byte{}, f.sink.Bytes()[before:]...)
		f.written = append(f.written, [2]string{op[1], op[2]})
		s := "na"
		if e2, ok := streamWrite(op[1], op[2]); ok {
			if bytes.Equal(e2, enc) {
				s = "same"
			} else {
				s = hx.Hex(e2)
				r.Viol("C01:stream-differs:"+op[1], fmt.Sprintf("serialization.Write%s(%s) = %x but ZeroCopySink wrote %x", op[1], op[2], e2, enc))
			}
		}
		if size != uint64(len(enc)) {
			r.Viol("C01:size-result:"+op[1], fmt.Sprintf("Write %s %s reported size %d but appended %d bytes", op[1], op[2], size, len(enc)))
		}
		return fmt.Sprintf("%s size=%d stream=%s", hx.Hex(enc), size, s)
	case "load":
		f.src = common.NewZeroCopySource(append([]byte{}, f.sink.Bytes()...))
		return fmt.Sprintf("len=%d", f.src.Size())
	case "src":
		f.src = common.NewZeroCopySource(hx.UnHex(op[1]))
		return fmt.Sprintf("len=%d", f.src.Size())
	case "r":
		arg := "0"
		if len(op) > 2 {
			arg = op[2]
		}
		before := f.src.Pos()
		size := f.src.Size()
		inBounds := before <= size
		// independent oracle: the declared length of this read, when it can be determined from the bytes themselves
		declared, known := uint64(0), false
		remaining := uint64(0)
		if inBounds {
			remaining = size - before
			switch op[1] {
			case "bytes":
				declared, known = pu(arg, 64), true
			case "varbytes", "string":
				if l, hdr, ok := varuintAt(f.src.Bytes(), int(before)); ok {
					declared, known = l, true
					remaining -= uint64(hdr)
				}
			}
		}
		var v string
		var eof, ok bool
		pm := ""
		func() {
			defer func() {
				if e := recover(); e != nil {
					pm = fmt.Sprint(e)
				}
			}()
			v, eof, ok = srcRead(f.src, op[1], arg)
		}()
		if pm != "" {
			if inBounds {
				r.Viol("C01:read-panic:"+op[1], fmt.Sprintf("Next %s at offset %d of the %d-byte source %s panics: %s", op[1], before, size, trunc(hx.Hex(f.src.Bytes()), 200), pm))
			}
			return "panic"
		}
		if !ok {
			return "bad-op"
		}
		if known && declared > remaining && !eof {
			r.Viol("C01:length-beyond-data-accepted:"+op[1], fmt.Sprintf("Next %s at offset %d of the %d-byte source %s: declared length %d exceeds the %d remaining bytes but no eof is reported (value %s, new offset %d)",
				op[1], before, size, trunc(hx.Hex(f.src.Bytes()), 200), declared, remaining, trunc(v, 60), f.src.Pos()))
		}
		// reads never move backwards nor past the end when the offset was inside the slice
		if inBounds && (f.src.Pos() < before || f.src.Pos() > f.src.Size()) {
			r.Viol("C01:offset-out-of-bounds:"+op[1], fmt.Sprintf("offset moved from %d to %d on a %d-byte source", before, f.src.Pos(), f.src.Size()))
		}
		return fmt.Sprintf("%s eof=%s pos=%d len=%d", v, b01(eof), f.src.Pos(), f.src.Len())
	case "backup":
		f.src.BackUp(pu(op[1], 64))
		return fmt.Sprintf("pos=%d", f.src.Pos())
	case "skip":
		before, size, n := f.src.Pos(), f.src.Size(), pu(op[1], 64)
		eof := f.src.Skip(n)
		if before <= size && ((n > size-before) != eof || f.src.Pos() < before || f.src.Pos() > size) {
			r.Viol("C01:skip-beyond-data", fmt.Sprintf("Skip(%d) at offset %d of a %d-byte source: eof=%v, new offset %d", n, before, size, eof, f.src.Pos()))
		}
		return fmt.Sprintf("eof=%s pos=%d", b01(eof), f.src.Pos())
	case "sload":
		f.sdata = append([]byte{}, f.sink.Bytes()...)
		f.sbuf = bytes.NewReader(f.sdata)
		return fmt.Sprintf("len=%d", f.sbuf.Len())
	case "ssrc":
		f.sdata = hx.UnHex(op[1])
		f.sbuf = bytes.NewReader(f.sdata)
		return fmt.Sprintf("len=%d", f.sbuf.Len())
	case "srep":
		n := int(pu(op[1], 31))
		b := hx.UnHex(op[2])
		if len(b) != 1 {
			return "bad-op"
		}
		rest := make([]byte, f.sbuf.Len())
		io.ReadFull(f.sbuf, rest)
		f.sdata = append(rest, bytes.Repeat(b, n)...)
		f.sbuf = bytes.NewReader(f.sdata)
		return fmt.Sprintf("len=%d", f.sbuf.Len())
	case "sr":
		arg := "0"
		if len(op) > 2 {
			arg = op[2]
		}
		remBefore := uint64(f.sbuf.Len())
		declared, known := uint64(0), false
		switch op[1] {
		case "bytes":
			declared, known = pu(arg, 64), true
		case "varbytes", "string":
			if l, hdr, ok := varuintAt(f.sdata, len(f.sdata)-f.sbuf.Len()); ok {
				declared, known = l, true
				remBefore -= uint64(hdr)
			}
		}
		v := streamRead(f.sbuf, op[1], arg)
		if known && declared > remBefore && !strings.HasPrefix(v, "err:") {
			r.Viol("C01:stream-length-beyond-data-accepted:"+op[1], fmt.Sprintf("serialization.Read %s: declared length %d exceeds the %d remaining bytes but %s is returned", op[1], declared, remBefore, trunc(v, 60)))
		}
		return fmt.Sprintf("%s rem=%d", v, f.sbuf.Len())
	case "reuse":
		// reuse <reset|backup|dirty|prefix> <junk> <prim> <val> ...: the fields are written into a sink that already held <junk>
		// (written then Reset(); written then BackUp(len); NewZeroCopySink over junk[:0], i.e. dirty spare capacity; NewZeroCopySink
		// over junk itself). The bytes must be those of a fresh sink (after the junk prefix in the last mode).
		if len(op) < 5 || len(op)%2 != 1 {
			return "bad-op"
		}
		junk := hx.UnHex(op[2])
		var sink *common.ZeroCopySink
		prefix := 0
		switch op[1] {
		case "reset":
			sink = common.NewZeroCopySink(nil)
			sink.WriteBytes(junk)
			sink.Reset()
		case "backup":
			sink = common.NewZeroCopySink(nil)
			sink.WriteBytes(junk)
			sink.BackUp(uint64(len(junk)))
		case "dirty":
			sink = common.NewZeroCopySink(append([]byte{}, junk...)[:0])
		case "prefix":
			sink = common.NewZeroCopySink(append(make([]byte, 0, 2*len(junk)+64), junk...))
			for i := len(junk); i < cap(sink.Bytes()); i++ { // dirty spare capacity behind the prefix as well
				sink.Bytes()[:cap(sink.Bytes())][i] = 0xA5
			}
			prefix = len(junk)
		default:
			return "bad-op"
		}
		fresh := common.NewZeroCopySink(nil)
		firstBad := ""
		for i := 3; i+1 < len(op); i += 2 {
			if _, ok := sinkWrite(sink, op[i], op[i+1]); !ok {
				return "bad-op"
			}
			sinkWrite(fresh, op[i], op[i+1])
			if firstBad == "" && !bytes.Equal(sink.Bytes()[prefix:], fresh.Bytes()) {
				firstBad = op[i]
			}
		}
		got := append([]byte{}, sink.Bytes()...)
		if firstBad != "" || !bytes.Equal(got[:prefix], junk[:prefix]) {
			r.Viol("C01:sink-reuse-differs:"+op[1]+":"+firstBad, fmt.Sprintf("fields %s written into a %s sink that held %x give %x, a fresh sink gives %x", strings.Join(op[3:], " "), op[1], junk, got[prefix:], fresh.Bytes()))
			return hx.Hex(got) + " FAIL"
		}
		return hx.Hex(got) + " ok"
	case "holdsink":
		// holdsink <prim> <val> <prim> <val> ...: each value is written into its own fresh ZeroCopySink and with the streaming
		// writer; the slices returned by Bytes() / serialization.ToArray are kept while the others are produced, then re-checked
		if len(op) < 3 || len(op)%2 != 1 {
			return "bad-op"
		}
		type pv struct{ p, v string }
		var pvs []pv
		for i := 1; i+1 < len(op); i += 2 {
			pvs = append(pvs, pv{op[i], op[i+1]})
		}
		var held, want [][]byte
		var names []string
		for _, x := range pvs {
			sink := common.NewZeroCopySink(nil)
			if _, ok := sinkWrite(sink, x.p, x.v); !ok {
				return "bad-op"
			}
			held = append(held, sink.Bytes())
			want = append(want, append([]byte{}, sink.Bytes()...))
			names = append(names, "ZeroCopySink.Bytes:"+x.p)
			if x.p == "hash" {
				var h common.Uint256
				copy(h[:], hx.UnHex(x.v))
				held = append(held, serialization.ToArray(&h))
				want = append(want, append([]byte{}, h[:]...))
				names = append(names, "serialization.ToArray:hash")
			}
			if x.p == "addr" {
				var a common.Address
				copy(a[:], hx.UnHex(x.v))
				held = append(held, serialization.ToArray(&a))
				want = append(want, append([]byte{}, a[:]...))
				names = append(names, "serialization.ToArray:addr")
			}
		}
		for i := len(pvs) - 1; i >= 0; i-- { // more sinks and arrays while the first results are held
			sink := common.NewZeroCopySink(nil)
			sinkWrite(sink, pvs[i].p, pvs[i].v)
			var h common.Uint256
			serialization.ToArray(&h)
		}
		for i := range held {
			if !bytes.Equal(held[i], want[i]) {
				r.Viol("C01:encoded-bytes-changed-later:"+names[i], fmt.Sprintf("the slice returned by %s (%x) reads %x after later values were encoded", names[i], want[i], held[i]))
				return "FAIL:changed"
			}
		}
		return fmt.Sprintf("ok k=%d", len(pvs))
	case "sbig":
		// several large var-bytes fields written and read back-to-back with the streaming codec; every returned value is
		// kept and compared with what was written only after all reads are done
		type fld struct {
			n    int
			fill byte
		}
		var flds []fld
		buf := new(bytes.Buffer)
		for _, t := range op[1:] {
			parts := strings.Split(t, ":")
			if len(parts) != 2 {
				return "bad-op"
			}
			n := int(pu(parts[0], 31))
			fb := hx.UnHex(parts[1])
			if len(fb) != 1 {
				return "bad-op"
			}
			flds = append(flds, fld{n, fb[0]})
			if err := serialization.WriteVarBytes(buf, bytes.Repeat(fb, n)); err != nil {
				panic(err)
			}
		}
		rd := bytes.NewReader(buf.Bytes())
		got := make([][]byte, 0, len(flds))
		for i := range flds {
			v, err := serialization.ReadVarBytes(rd)
			if err != nil {
				r.Viol("C01:stream-roundtrip:varbytes", fmt.Sprintf("field %d of %d bytes is not read back: %v", i, flds[i].n, err))
				return "FAIL:read"
			}
			got = append(got, v)
		}
		res := "ok"
		for i, v := range got {
			if len(v) != flds[i].n || !bytes.Equal(v, bytes.Repeat([]byte{flds[i].fill}, flds[i].n)) {
				bad := 0
				for bad < len(v) && bad < flds[i].n && v[bad] == flds[i].fill {
					bad++
				}
				r.Viol("C01:stream-read-value-changed-later", fmt.Sprintf("field %d (%d bytes of %#02x) returned by ReadVarBytes without error no longer holds its value after the later reads (length %d, first differing byte at %d); fields: %s",
					i, flds[i].n, flds[i].fill, len(v), bad, strings.Join(op[1:], " ")))
				res = "FAIL:value-changed-later"
				break
			}
		}
		return fmt.Sprintf("%s k=%d rem=%d", res, len(flds), rd.Len())
	case "rt":
		if len(op) != 4 {
			return "bad-op"
		}
		prim, val, suffix := op[1], op[2], hx.UnHex(op[3])
		sink := common.NewZeroCopySink(nil)
		if _, ok := sinkWrite(sink, prim, val); !ok {
			return "bad-op"
		}
		enc := append([]byte{}, sink.Bytes()...)
		var fails []string
		fail := func(kind, desc string) {
			for _, k := range fails {
				if k == kind {
					return
				}
			}
			fails = append(fails, kind)
			r.Viol("C01:"+kind+":"+prim, desc)
		}
		if e2, ok := streamWrite(prim, val); ok && !bytes.Equal(e2, enc) {
			fail("stream-differs", fmt.Sprintf("streaming encoder wrote %x, zero-copy encoder wrote %x for %s %s", e2, enc, prim, val))
		}
		arg := strconv.Itoa(len(enc))
		full := append(append([]byte{}, enc...), suffix...)
		src := common.NewZeroCopySource(full)
		v, eof, _ := srcRead(src, prim, arg)
		if v != val || eof || src.Pos() != uint64(len(enc)) {
			fail("roundtrip", fmt.Sprintf("%s %s encoded as %x decodes to %s eof=%v pos=%d (expected pos %d)", prim, val, enc, v, eof, src.Pos(), len(enc)))
		}
		if hasStream(prim) {
			rd := bytes.NewReader(full)
			v := streamRead(rd, prim, "0")
			if v != val || rd.Len() != len(suffix) {
				fail("stream-roundtrip", fmt.Sprintf("%s %s encoded as %x: streaming reader returns %s leaving %d bytes (expected %d)", prim, val, enc, v, rd.Len(), len(suffix)))
			}
		}
		for _, k := range cutPoints(len(enc)) {
			src := common.NewZeroCopySource(enc[:k:k])
			v, eof, _ := srcRead(src, prim, arg)
			if !eof {
				fail("truncation-accepted", fmt.Sprintf("%s %s: the first %d of %d bytes decode to %s without eof", prim, val, k, len(enc), v))
			}
			if src.Pos() > uint64(k) {
				fail("read-out-of-bounds", fmt.Sprintf("%s: offset %d after reading a %d-byte source", prim, src.Pos(), k))
			}
			if hasStream(prim) {
				v := streamRead(bytes.NewReader(enc[:k:k]), prim, "0")
				if !strings.HasPrefix(v, "err:") {
					fail("stream-truncation-accepted", fmt.Sprintf("%s %s: streaming reader accepts the first %d of %d bytes as %s", prim, val, k, len(enc), v))
				}
			}
		}
		verdict := "ok"
		if len(fails) > 0 {
			verdict = "FAIL:" + strings.Join(fails, ",")
		}
		return hx.Hex(enc) + " " + verdict
	case "check":
		data := f.sink.Bytes()
		ends := []int{}
		e := 0
		for _, pv := range f.written {
			e += encLen(pv[0], pv[1])
			ends = append(ends, e)
		}
		ok := true
		if n, _ := readSeq(f.written, data); n != len(f.written) {
			ok = false
			r.Viol("C01:concat-roundtrip", fmt.Sprintf("only %d of %d concatenated fields decode back from %x", n, len(f.written), data))
		}
		for _, k := range cutPoints(len(data)) {
			n, eofNext := readSeq(f.written, data[:k:k])
			expect := 0
			for _, e := range ends {
				if e <= k {
					expect++
				}
			}
			if n != expect || !eofNext {
				ok = false
				r.Viol("C01:concat-truncation", fmt.Sprintf("cut at %d of %d: %d fields decoded (expected %d), next field eof=%v", k, len(data), n, expect, eofNext))
				break
			}
		}
		res := "ok"
		if !ok {
			res = "FAIL"
		}
		return fmt.Sprintf("%s n=%d len=%d", res, len(f.written), len(data))
	case "safe":
		x, y := pu(op[2], 64), pu(op[3], 64)
		var res uint64
		var ovf bool
		bx, by := new(big.Int).SetUint64(x), new(big.Int).SetUint64(y)
		var exact *big.Int
		switch op[1] {
		case "add":
			res, ovf = common.SafeAdd(x, y)
			exact = new(big.Int).Add(bx, by)
		case "sub":
			res, ovf = common.SafeSub(x, y)
			exact = new(big.Int).Sub(bx, by)
		case "mul":
			res, ovf = common.SafeMul(x, y)
			exact = new(big.Int).Mul(bx, by)
		default:
			return "bad-op"
		}
		fits := exact.Sign() >= 0 && exact.IsUint64()
		if ovf == fits || (fits && exact.Uint64() != res) {
			r.Viol("C01:safemath:"+op[1], fmt.Sprintf("Safe%s(%d,%d) = (%d,%v) but the exact result is %s", op[1], x, y, res, ovf, exact))
		}
		return fmt.Sprintf("%d %s", res, b01(ovf))
	case "varsize":
		return strconv.Itoa(serialization.GetVarUintSize(pu(op[1], 64)))
	}
	return "bad-op"
}

// ---------------------------------------------------------------------------------------------- generator

var prims = []string{"u8", "u16", "u32", "u64", "i16", "i32", "i64", "bool", "varuint", "varbytes", "string", "addr", "hash", "bytes"}

func genLen(r *hx.Run) int {
	b := []int{0, 1, 2, 0x7f, 0xfc, 0xfd, 0xfe, 0xff, 0x100}
	switch r.Rng.Intn(10) {
	case 0, 1, 2:
		return b[r.Rng.Intn(len(b))]
	case 3:
		return r.Rng.Intn(600)
	default:
		return r.Rng.Intn(40)
	}
}

func genVal(r *hx.Run, prim string) string {
	mask := func(bits uint) uint64 {
		v := r.Rng.U64B()
		if bits < 64 {
			if r.Rng.Chance(1, 3) {
				b := []uint64{0, 1, (1 << (bits - 1)) - 1, 1 << (bits - 1), (1 << bits) - 2, (1 << bits) - 1, 0xfc, 0xfd, 0xff}
				v = b[r.Rng.Intn(len(b))]
			}
			v &= (1 << bits) - 1
		}
		return v
	}
	switch prim {
	case "u8":
		return strconv.FormatUint(mask(8), 10)
	case "u16":
		return strconv.FormatUint(mask(16), 10)
	case "u32":
		return strconv.FormatUint(mask(32), 10)
	case "u64", "varuint":
		return strconv.FormatUint(r.Rng.U64B(), 10)
	case "i16":
		return strconv.FormatInt(int64(int16(mask(16))), 10)
	case "i32":
		return strconv.FormatInt(int64(int32(mask(32))), 10)
	case "i64":
		return strconv.FormatInt(int64(r.Rng.U64B()), 10)
	case "bool":
		return strconv.FormatBool(r.Rng.Bool())
	case "varbytes", "string", "bytes":
		return hx.Hex(r.Rng.Bytes(genLen(r)))
	case "addr":
		return hx.Hex(r.Rng.Bytes(20))
	case "hash":
		return hx.Hex(r.Rng.Bytes(32))
	}
	return "0"
}

func (f *codecFam) Gen(r *hx.Run) {
	r.Rule("per primitive: boundary-heavy values (0xFC/0xFD/0xFFFF/0x10000/2^32-1/2^32/2^63/2^64-1, lengths 0/0xFC/0xFD/0xFF/0x100/65535/65536/70000) " +
		"through the property op `rt` (both encoders, both decoders, every examined truncation); random concatenations of 1-12 fields written, " +
		"read back and cut at every point; raw reader state machines on garbage / corrupted / huge-declared-length inputs incl. BackUp beyond 0; " +
		"streaming reader on the same; SafeAdd/Sub/Mul on boundary pairs; distinct non-trivial = distinct (primitive, size class, outcome class)")
	id := 0
	newCase := func(kind string) {
		id++
		r.Case(fmt.Sprintf("%s-%d", kind, id))
	}
	// 1. property op per primitive
	nrt := r.Pick(220, 6000)
	for _, p := range prims {
		for i := 0; i < nrt; i++ {
			newCase("rt-" + p)
			val := genVal(r, p)
			suffix := r.Rng.Bytes(r.Rng.Intn(6))
			out := r.Do(fmt.Sprintf("rt %s %s %s", p, val, hx.Hex(suffix)))
			encHex := strings.Fields(out)[0]
			r.Nontrivial(fmt.Sprintf("rt/%s/%d", p, len(encHex)/2))
			r.Hist("rt.enclen." + lenClass(len(encHex)/2))
			if i == 0 {
				r.Sample(map[string]interface{}{"op": "rt " + p + " " + trunc(val, 40), "out": trunc(out, 80)})
			}
		}
	}
	// exact var-uint boundaries
	for _, v := range []uint64{0, 1, 0xfc, 0xfd, 0xfe, 0xff, 0x100, 0xfffe, 0xffff, 0x10000, 0x10001, 0xfffffffe, 0xffffffff, 0x100000000, 0x100000001, 1 << 63, ^uint64(0) - 1, ^uint64(0)} {
		newCase("rt-varuint-boundary")
		r.Do(fmt.Sprintf("rt varuint %d -", v))
		r.Do(fmt.Sprintf("varsize %d", v))
		r.Nontrivial(fmt.Sprintf("varuint-boundary/%d", v))
	}
	// long byte strings across the 0xFFFF / 0x10000 length boundary
	longs := []int{0xffff, 0x10000}
	if r.Thorough() {
		longs = []int{0xfffe, 0xffff, 0x10000, 0x10001, 70000, 200000}
	}
	for _, n := range longs {
		for _, p := range []string{"varbytes", "string"} {
			newCase("rt-long")
			r.Do(fmt.Sprintf("rt %s %s %s", p, hx.Hex(r.Rng.Bytes(n)), hx.Hex(r.Rng.Bytes(3))))
			r.Nontrivial(fmt.Sprintf("rt-long/%s/%d", p, n))
		}
	}
	// 2. concatenations
	ncat := r.Pick(400, 20000)
	for i := 0; i < ncat; i++ {
		newCase("concat")
		nf := 1 + r.Rng.Intn(12)
		sig := []string{}
		for j := 0; j < nf; j++ {
			p := prims[r.Rng.Intn(len(prims))]
			v := genVal(r, p)
			if (p == "varbytes" || p == "string" || p == "bytes") && len(v) > 120 {
				v = v[:120]
			}
			r.Do(fmt.Sprintf("w %s %s", p, v))
			sig = append(sig, p)
		}
		r.Do("check")
		r.Do("load")
		// read back with the "wrong" primitive sequence as well: state machine correspondence
		for j := 0; j < nf+2; j++ {
			p := prims[r.Rng.Intn(len(prims))]
			if p == "bytes" {
				r.Do(fmt.Sprintf("r bytes %d", r.Rng.Intn(20)))
			} else {
				r.Do("r " + p)
			}
		}
		r.Do("sload")
		for j := 0; j < nf+2; j++ {
			p := prims[r.Rng.Intn(len(prims))]
			if !hasStream(p) {
				p = "byte"
			}
			if p == "varuint" {
				r.Do(fmt.Sprintf("sr varuint %d", []uint64{0, 0, 0xfc, 0xffff, 1 << 32}[r.Rng.Intn(5)]))
			} else {
				r.Do("sr " + p)
			}
		}
		r.Nontrivial("concat/" + strings.Join(sig, ","))
	}
	// 3. raw reader state machines on crafted / garbage input
	nraw := r.Pick(1500, 60000)
	for i := 0; i < nraw; i++ {
		newCase("raw")
		var data []byte
		switch r.Rng.Intn(5) {
		case 0: // garbage
			data = r.Rng.Bytes(r.Rng.Intn(40))
		case 1: // huge declared length, short body
			pre := [][]byte{{0xfd, 0xff, 0xff}, {0xfe, 0xff, 0xff, 0xff, 0xff}, {0xfe, 0, 0, 0, 0x80}, {0xff, 0, 0, 0, 0, 1, 0, 0, 0},
				{0xff, 0, 0, 0, 0, 0, 0, 0, 0x80}, {0xff, 0xff, 0xff, 0xff, 0xff, 0xff, 0xff, 0xff, 0xff}, {0xff, 0xff, 0xff, 0xff, 0xff, 0xff, 0xff, 0xff, 0x7f},
				{0xfd, 5, 0}, {0xfe, 5, 0, 0, 0}, {0xff, 5, 0, 0, 0, 0, 0, 0, 0}, {0xfd}, {0xfe, 1}, {0xff, 1, 2, 3}}
			data = append(append([]byte{}, pre[r.Rng.Intn(len(pre))]...), r.Rng.Bytes(r.Rng.Intn(8))...)
		case 2: // valid field then corruption
			s := common.NewZeroCopySink(nil)
			for j := 0; j < 1+r.Rng.Intn(4); j++ {
				p := prims[r.Rng.Intn(len(prims))]
				v := genVal(r, p)
				if len(v) > 60 && (p == "varbytes" || p == "string" || p == "bytes") {
					v = v[:60]
				}
				sinkWrite(s, p, v)
			}
			data = append([]byte{}, s.Bytes()...)
			if len(data) > 0 {
				for j := 0; j < 1+r.Rng.Intn(2); j++ {
					data[r.Rng.Intn(len(data))] = byte(r.Rng.U64())
				}
			}
			if r.Rng.Bool() && len(data) > 0 {
				data = data[:r.Rng.Intn(len(data))]
			}
		case 3: // bool bytes and fd/fe/ff prefixes
			data = make([]byte, 1+r.Rng.Intn(12))
			for j := range data {
				data[j] = []byte{0, 1, 2, 0xfc, 0xfd, 0xfe, 0xff, 0x80}[r.Rng.Intn(8)]
			}
		default:
			data = r.Rng.Bytes(r.Rng.Intn(12))
		}
		r.Do("src " + hx.Hex(data))
		steps := 2 + r.Rng.Intn(8)
		sig := ""
		for j := 0; j < steps; j++ {
			var out string
			switch c := r.Rng.Intn(20); {
			case c == 0:
				out = r.Do(fmt.Sprintf("skip %d", r.Rng.U64B()))
			case c == 1:
				// BackUp within what was consumed, or (rarely) beyond: the offset wraps, the next slice may panic
				n := uint64(r.Rng.Intn(6))
				if r.Rng.Chance(1, 4) {
					n = r.Rng.U64B()
				}
				out = r.Do(fmt.Sprintf("backup %d", n))
			case c == 2:
				out = r.Do(fmt.Sprintf("r bytes %d", r.Rng.U64B()))
			default:
				p := prims[r.Rng.Intn(len(prims))]
				if p == "bytes" {
					out = r.Do(fmt.Sprintf("r bytes %d", r.Rng.Intn(12)))
				} else {
					out = r.Do("r " + p)
				}
			}
			if out == "panic" {
				sig += "P"
				r.Hist("raw.panic-after-backup-beyond-zero")
				break
			}
			if strings.Contains(out, "eof=1") {
				sig += "E"
			} else {
				sig += "."
			}
		}
		r.Nontrivial(fmt.Sprintf("raw/%d/%s", len(data), sig))
		// the streaming codec on the same bytes
		r.Do("ssrc " + hx.Hex(data))
		for j := 0; j < 1+r.Rng.Intn(5); j++ {
			ps := []string{"u8", "u16", "u32", "u64", "bool", "byte", "varuint", "varbytes", "string", "addr", "hash", "bytes"}
			p := ps[r.Rng.Intn(len(ps))]
			var out string
			switch p {
			case "varuint":
				out = r.Do(fmt.Sprintf("sr varuint %d", []uint64{0, 0, 1, 0xfc, 0xffff, 1 << 32, ^uint64(0)}[r.Rng.Intn(7)]))
			case "bytes":
				out = r.Do(fmt.Sprintf("sr bytes %d", []uint64{0, 1, 2, 5, 33, 2*1024*1024 - 1, 2 * 1024 * 1024, 1 << 31, 1<<63 - 1, 1 << 63, ^uint64(0)}[r.Rng.Intn(11)]))
			default:
				out = r.Do("sr " + p)
			}
			if strings.HasPrefix(out, "err:") {
				r.Hist("stream." + strings.Fields(out)[0])
			} else {
				r.Hist("stream.ok")
			}
		}
	}
	// 4. the 2 MiB paths of byteXReader (fast path below, LimitReader path at and above)
	for _, n := range []int{2*1024*1024 - 1, 2 * 1024 * 1024, 2*1024*1024 + 1} {
		for hi, have := range []int{n, n - 1, n + 3} {
			if !r.Thorough() && hi != (n&3)%3 && !(n == 2*1024*1024 && hi < 2) {
				continue
			}
			newCase("bytex")
			r.Do(fmt.Sprintf("srep %d %02x", have, byte(r.Rng.U64())))
			r.Do(fmt.Sprintf("sr bytes %d", n))
			r.Do("sr byte")
			r.Nontrivial(fmt.Sprintf("bytex/%d/%d", n, have))
		}
	}
	// 4b. several large fields in one stream: a value returned by an earlier read must still be intact after the later reads
	M := 2 * 1024 * 1024
	big := [][]int{{M, M + 1}, {M - 1, M, 3 * M}}
	if r.Thorough() {
		big = append(big, []int{M + 1, M - 1, M, M}, []int{5 * M, M, 2*M + 7}, []int{M, 10, M, 0, M + 3})
	}
	for _, sizes := range big {
		newCase("sbig")
		var toks []string
		for i, n := range sizes {
			toks = append(toks, fmt.Sprintf("%d:%02x", n, byte(0x11*(i+1))+byte(r.Rng.Intn(8))))
		}
		r.Do("sbig " + strings.Join(toks, " "))
		r.Nontrivial(fmt.Sprintf("sbig/%v", sizes))
	}
	// 4b'. encoders hand out byte slices: held while other values are encoded, then re-checked
	for i := 0; i < r.Pick(60, 3000); i++ {
		newCase("holdsink")
		var toks []string
		for j := 0; j < 2+r.Rng.Intn(4); j++ {
			p := []string{"varbytes", "string", "hash", "addr", "u64", "varuint", "bytes"}[r.Rng.Intn(7)]
			toks = append(toks, p, genVal(r, p))
		}
		r.Do("holdsink " + strings.Join(toks, " "))
	}
	// 4b''. reused sinks: junk written first, then Reset / BackUp / a dirty caller buffer, then every kind of field
	for i := 0; i < r.Pick(400, 20000); i++ {
		newCase("reuse")
		junk := r.Rng.Bytes(1 + r.Rng.Intn(40))
		for j := range junk {
			if junk[j] == 0 || r.Rng.Chance(1, 3) {
				junk[j] = []byte{0xff, 0x01, 0xfd, 0x80, 0xa5}[r.Rng.Intn(5)]
			}
		}
		mode := []string{"reset", "backup", "dirty", "prefix"}[r.Rng.Intn(4)]
		var toks []string
		for j := 0; j < 1+r.Rng.Intn(6); j++ {
			p := prims[r.Rng.Intn(len(prims))]
			v := genVal(r, p)
			if p == "bool" && r.Rng.Chance(2, 3) {
				v = "false"
			}
			if p == "varuint" && r.Rng.Bool() {
				v = strconv.Itoa(r.Rng.Intn(0xfd))
			}
			if len(v) > 80 && (p == "varbytes" || p == "string" || p == "bytes") {
				v = v[:80]
			}
			toks = append(toks, p, v)
		}
		r.Do(fmt.Sprintf("reuse %s %s %s", mode, hx.Hex(junk), strings.Join(toks, " ")))
		r.Nontrivial("reuse/" + mode + "/" + toks[0])
	}
	// 4c. declared lengths that wrap the uint64 offset arithmetic: at a non-zero offset `off`, a length n >= 2^64 - off
	for i := 0; i < r.Pick(120, 5000); i++ {
		newCase("wrap")
		pre := 1 + r.Rng.Intn(12)
		post := r.Rng.Intn(12)
		delta := uint64(r.Rng.Intn(pre + post + 3))
		n := -uint64(pre) + delta // 2^64 - pre + delta
		if r.Rng.Chance(1, 4) {
			n = ^uint64(0) - uint64(r.Rng.Intn(3))
		}
		lenb := varuintBytes(n, 3)
		data := append(append(r.Rng.Bytes(pre), lenb...), r.Rng.Bytes(post)...)
		r.Do("src " + hx.Hex(data))
		r.Do(fmt.Sprintf("r bytes %d", pre))
		switch r.Rng.Intn(4) {
		case 0:
			r.Do("r varbytes")
		case 1:
			r.Do("r string")
		case 2:
			r.Do(fmt.Sprintf("r bytes %d", n))
		default:
			r.Do(fmt.Sprintf("skip %d", n))
		}
		r.Do("r u8")
		r.Do("ssrc " + hx.Hex(data))
		r.Do(fmt.Sprintf("sr bytes %d", pre))
		r.Do("sr varbytes")
		r.Nontrivial(fmt.Sprintf("wrap/%d/%d", pre, delta))
	}
	// 5. safe math
	nsafe := r.Pick(1500, 100000)
	for i := 0; i < nsafe; i++ {
		if i%50 == 0 {
			newCase("safe")
		}
		op := []string{"add", "sub", "mul"}[r.Rng.Intn(3)]
		x, y := r.Rng.U64B(), r.Rng.U64B()
		if op == "mul" && r.Rng.Bool() {
			// products around 2^64
			x = 1 + r.Rng.U64()>>uint(1+r.Rng.Intn(63))
			y = ^uint64(0)/x + uint64(r.Rng.Intn(3)) - 1
		}
		out := r.Do(fmt.Sprintf("safe %s %d %d", op, x, y))
		r.Nontrivial("safe/" + op + "/" + out[len(out)-1:] + "/" + lenClass(int(x>>58)))
	}
}

func lenClass(n int) string {
	switch {
	case n == 0:
		return "0"
	case n <= 1:
		return "1"
	case n <= 9:
		return "2-9"
	case n < 0xfd:
		return "10-252"
	case n < 0x10000:
		return "253-65535"
	default:
		return ">=65536"
	}
}

func trunc(s string, n int) string {
	if len(s) > n {
		return s[:n] + "..."
	}
	return s
}

var _ = hex.EncodeToString
