// hcodec: correspondence harness for the codec layer (C01 primitives, C02 ledger objects, C04 native
// parameter/state records, C05 p2p frames). Each family lives in its own file and registers itself in `families`.
package main

import "polyverif/internal/hx"

var families = map[string]func() hx.Family{}

func main() { hx.Main(families) }
