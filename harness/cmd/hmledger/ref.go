package main

import (
	"crypto/sha256"

	"github.com/polynetwork/poly/common"
)

// Independent RFC 6962 reference (same text as hmerkle/ref.go; shares no code with /repo/merkle).

func refLeaf(d []byte) common.Uint256 { return sha256.Sum256(append([]byte{0}, d...)) }

func refNode(l, r common.Uint256) common.Uint256 {
	b := make([]byte, 0, 65)
	b = append(b, 1)
	b = append(b, l[:]...)
	b = append(b, r[:]...)
	return sha256.Sum256(b)
}

func refSplit(n int) int {
	k := 1
	for k*2 < n {
		k *= 2
	}
	return k
}

func refMTH(hs []common.Uint256) common.Uint256 {
	switch len(hs) {
	case 0:
		return sha256.Sum256(nil)
	case 1:
		return hs[0]
	}
	k := refSplit(len(hs))
	return refNode(refMTH(hs[:k]), refMTH(hs[k:]))
}

func sizeClass(n int) string {
	switch {
	case n == 0:
		return "0"
	case n == 1:
		return "1"
	case n&(n-1) == 0:
		return "pow2"
	case (n-1)&(n-2) == 0:
		return "pow2+1"
	case (n+1)&n == 0:
		return "pow2-1"
	case n%2 == 1:
		return "odd"
	default:
		return "even"
	}
}

func genErr(err error) string {
	switch err.Error() {
	case "wrong parameters":
		return "reject:wrong-params"
	case "not available yet":
		return "reject:not-available"
	case "hash store not available":
		return "reject:no-store"
	}
	return "reject:other"
}
