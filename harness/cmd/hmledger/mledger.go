package main

import (
	"bytes"
	"crypto/elliptic"
	"crypto/sha256"
	"encoding/json"
	"errors"
	"fmt"
	"os"
	"strconv"
	"strings"

	"github.com/ontio/ontology-crypto/ec"
	"github.com/ontio/ontology-crypto/keypair"
	osig "github.com/ontio/ontology-crypto/signature"
	"github.com/polynetwork/poly/account"
	"github.com/polynetwork/poly/common"
	"github.com/polynetwork/poly/common/config"
	"github.com/polynetwork/poly/common/log"
	"github.com/polynetwork/poly/consensus/vbft"
	vconfig "github.com/polynetwork/poly/consensus/vbft/config"
	"github.com/polynetwork/poly/core/ledger"
	"github.com/polynetwork/poly/core/payload"
	"github.com/polynetwork/poly/core/types"
	"github.com/polynetwork/poly/merkle"
	"github.com/polynetwork/poly/native"
	_ "github.com/polynetwork/poly/native/service" // registers the real native contracts (cross chain manager, ...)
	ccm "github.com/polynetwork/poly/native/service/cross_chain_manager"
	scom "github.com/polynetwork/poly/native/service/cross_chain_manager/common"
	"github.com/polynetwork/poly/native/service/governance/node_manager"
	"github.com/polynetwork/poly/native/service/governance/side_chain_manager"
	"github.com/polynetwork/poly/native/service/utils"
	"github.com/polynetwork/poly/native/states"
	"polyverif/internal/hx"
)

// Family mledger (C08, ledger glue): a real core/ledger.Ledger (LedgerStoreImp on a temp dir) fed with
// blocks whose transactions emit cross-chain records, then asked for the proofs it serves to relayers.
//
//	genesis <hash>                                   -> ok
//	block <height> <ts> <hash> <txs>                 -> ok <BlockRoot of the header> <stored cross-state root> <#cross hashes>
//	      txs = tx/tx/... | -      tx = <kind>.<fail>.<nonce>.<input>.<recs>     recs = key:value,key:value | -
//	      kind e: test contract, input = varbytes(key) varbytes(value) ... ; every pair is stored under
//	              testAddr||key (utils.PutBytes) and committed with PutMerkleVal(value); fail=1: the handler
//	              then returns an error (nothing of the transaction may be committed)
//	      kind m: test contract calling the real cross_chain_manager.MakeTransaction(params, fromChain);
//	              input = varbytes(txHash) varbytes(crossChainID) varbytes(fromContract) u64 toChain
//	              varbytes(toContract) varbytes(method) varbytes(args) u64 fromChain
//	      recs: the (storage key, record) pairs the transaction must commit (checked against the storage)
//	xproof <height> <key>                            -> GetCrossStatesProof(height, key) | reject:<class>
//	bproof <h> <r>                                   -> Ledger.GetMerkleProof(h, r) | reject:<class>
//	reopen                                           -> ok   (stores closed, ledger reopened from disk)
//
// The harness plays the consensus when it builds headers: BlockRoot = GetBlockRootWithPreBlockHashes
// (checked by submitBlock), CrossStateRoot = GetCrossStateRoot(height-1) as vbft's msg_builder does.
// Property oracles (r.Viol): every record committed by a block has a served proof that MerkleProve
// accepts against the stored cross-state root of that block (= CrossStateRoot of the next header) and that
// yields exactly the record; every (h < r) block proof verifies against header r's BlockRoot and yields
// block h's hash.
type mledger struct {
	dir    string
	lg     *ledger.Ledger
	gen    *types.Block
	hashes []common.Uint256 // block hash by height
	blocks []*lblock
	last   map[string]int // storage key -> height of the last write
	held   [][2][]byte    // proofs served earlier: the returned slice (kept alive) and a copy taken then
	nheld  int
}

// holdProof keeps a served proof alive and checks that every proof served earlier still reads as it did.
func (f *mledger) holdProof(r *hx.Run, what string, p []byte) {
	for _, h := range f.held {
		if !bytes.Equal(h[0], h[1]) {
			r.Viol("C08:served-proof-changed-later:"+what, "a proof served earlier reads differently after later requests to the same node")
			break
		}
	}
	f.nheld++
	it := [2][]byte{p, append([]byte{}, p...)}
	if len(f.held) < 64 {
		f.held = append(f.held, it)
	} else {
		f.held[f.nheld%64] = it
	}
}

type lrec struct{ key, val []byte }

type ltx struct {
	kind  string
	fail  bool
	nonce uint32
	input []byte
	recs  []lrec
}

type lblock struct {
	height, ts uint32
	txs        []ltx
}

func init() { families["mledger"] = func() hx.Family { return &mledger{} } }

const nValidators = 4

var (
	lkeys      []*lkey
	lsetupDone bool
	ltestAddr  common.Address
	nLedgers   int
)

type lkey struct {
	priv *ec.PrivateKey
	pub  keypair.PublicKey
	id   string
	addr common.Address
}

func lsetup() {
	if lsetupDone {
		return
	}
	lsetupDone = true
	log.InitLog(log.MaxLevelLog)
	config.DefConfig.P2PNode.NetworkId = config.NETWORK_ID_TEST_NET
	config.DefConfig.Genesis.ConsensusType = config.CONSENSUS_TYPE_VBFT
	for i := 0; i < nValidators; i++ {
		d := sha256.Sum256([]byte(fmt.Sprintf("polyverif-merkle-ledger-key-%d", i)))
		d[0] &= 0x7f
		pk := ec.ConstructPrivateKey(d[:], elliptic.P256())
		priv := &ec.PrivateKey{Algorithm: ec.ECDSA, PrivateKey: pk}
		pub := &ec.PublicKey{Algorithm: ec.ECDSA, PublicKey: &pk.PublicKey}
		lkeys = append(lkeys, &lkey{priv: priv, pub: pub, id: vconfig.PubkeyID(pub), addr: types.AddressFromPubKey(pub)})
	}
	for i := range ltestAddr {
		ltestAddr[i] = 0xED
	}
	native.Contracts[ltestAddr] = func(s *native.NativeService) {
		s.Register("e", emitRecords)
		s.Register("ef", emitRecordsFail)
		s.Register("m", makeTx)
		s.Register("s", plantGovernance)
	}
}

func emitRecords(s *native.NativeService) ([]byte, error) {
	src := common.NewZeroCopySource(s.GetInput())
	for src.Len() > 0 {
		k, eof := src.NextVarBytes()
		if eof {
			return nil, errors.New("bad input")
		}
		v, eof := src.NextVarBytes()
		if eof {
			return nil, errors.New("bad input")
		}
		utils.PutBytes(s, utils.ConcatKey(ltestAddr, k), v)
		s.PutMerkleVal(v)
	}
	return []byte{1}, nil
}

func emitRecordsFail(s *native.NativeService) ([]byte, error) {
	if _, err := emitRecords(s); err != nil {
		return nil, err
	}
	return nil, errors.New("scripted failure after emitting records")
}

func makeTx(s *native.NativeService) ([]byte, error) {
	src := common.NewZeroCopySource(s.GetInput())
	p := &scom.MakeTxParam{}
	if err := p.Deserialization(src); err != nil {
		return nil, err
	}
	from, eof := src.NextUint64()
	if eof {
		return nil, errors.New("bad input")
	}
	if err := ccm.MakeTransaction(s, p, from); err != nil {
		return nil, err
	}
	return []byte{1}, nil
}

const (
	srcChain = uint64(7) // side chain whose deposits are approved by validator votes (VOTE_ROUTER)
	dstChain = uint64(2) // target side chain (ETH_ROUTER record)
)

// plantGovernance writes what ImportOuterTransfer over the vote router reads: the governance view, the peer pool
// of the current view (the four validators, consensus status) and the two side-chain records, in the node
// manager's / side-chain manager's own storage format (their exported serializers and PutSideChain).
func plantGovernance(s *native.NativeService) ([]byte, error) {
	var view uint32 = 1
	gv := &node_manager.GovernanceView{View: view, Height: 1, TxHash: common.Uint256{}}
	sink := common.NewZeroCopySink(nil)
	gv.Serialization(sink)
	utils.PutBytes(s, utils.ConcatKey(utils.NodeManagerContractAddress, []byte(node_manager.GOVERNANCE_VIEW)), sink.Bytes())
	pm := &node_manager.PeerPoolMap{PeerPoolMap: map[string]*node_manager.PeerPoolItem{}}
	for i, k := range lkeys {
		pm.PeerPoolMap[k.id] = &node_manager.PeerPoolItem{Index: uint32(i + 1), PeerPubkey: k.id, Address: k.addr, Status: node_manager.ConsensusStatus}
	}
	sink = common.NewZeroCopySink(nil)
	pm.Serialization(sink)
	utils.PutBytes(s, utils.ConcatKey(utils.NodeManagerContractAddress, []byte(node_manager.PEER_POOL), utils.GetUint32Bytes(view)), sink.Bytes())
	for _, sc := range []*side_chain_manager.SideChain{
		{Address: lkeys[0].addr, ChainId: srcChain, Router: utils.VOTE_ROUTER, Name: "votechain", BlocksToWait: 1},
		{Address: lkeys[0].addr, ChainId: dstChain, Router: utils.ETH_ROUTER, Name: "target", BlocksToWait: 1, CCMCAddress: make([]byte, 20)},
	} {
		if err := side_chain_manager.PutSideChain(s, sc); err != nil {
			return nil, err
		}
	}
	return []byte{1}, nil
}

func lchainID() uint64 { return config.GetChainIdByNetId(config.DefConfig.P2PNode.NetworkId) }

func lpayload(withCfg bool) []byte {
	info := &vconfig.VbftBlockInfo{Proposer: 0, LastConfigBlockNum: 0}
	if withCfg {
		cc := &vconfig.ChainConfig{Version: 1, View: 1, N: nValidators, C: nValidators / 3, Peers: []*vconfig.PeerConfig{}}
		for i, k := range lkeys {
			cc.Peers = append(cc.Peers, &vconfig.PeerConfig{Index: uint32(i + 1), ID: k.id})
		}
		info.NewChainConfig = cc
	}
	b, _ := json.Marshal(info)
	return b
}

func lgenesis() *types.Block {
	hdr := &types.Header{Version: 0, ChainID: lchainID(), Timestamp: 1000, Height: 0, ConsensusData: 7, ConsensusPayload: lpayload(true)}
	blk := &types.Block{Header: hdr}
	blk.RebuildMerkleRoot()
	return blk
}

func lbuildTx(t *ltx) (*types.Transaction, error) {
	method, addr := t.kind, ltestAddr
	signer := -1
	switch {
	case t.kind == "e" && t.fail:
		method = "ef"
	case strings.HasPrefix(t.kind, "v"):
		// the real cross chain manager entrance, signed by validator i
		i, err := strconv.Atoi(t.kind[1:])
		if err != nil || i < 0 || i >= nValidators {
			return nil, errors.New("bad signer")
		}
		signer, method, addr = i, scom.IMPORT_OUTER_TRANSFER_NAME, utils.CrossChainManagerContractAddress
	}
	ip := &states.ContractInvokeParam{Address: addr, Method: method, Args: t.input}
	code := common.NewZeroCopySink(nil)
	ip.Serialization(code)
	tx := &types.Transaction{Version: types.CURR_TX_VERSION, TxType: types.Invoke, Nonce: t.nonce, ChainID: lchainID(),
		Payload: &payload.InvokeCode{Code: code.Bytes()}}
	sink := common.NewZeroCopySink(nil)
	if err := tx.Serialization(sink); err != nil {
		return nil, err
	}
	tx, err := types.TransactionFromRawBytes(sink.Bytes())
	if err != nil || signer < 0 {
		return tx, err
	}
	h := tx.Hash()
	sg, err := osig.Sign(osig.SHA256withECDSA, lkeys[signer].priv, h[:], nil)
	if err != nil {
		return nil, err
	}
	raw, err := osig.Serialize(sg)
	if err != nil {
		return nil, err
	}
	tx.Sigs = []types.Sig{{SigData: [][]byte{raw}, PubKeys: []keypair.PublicKey{lkeys[signer].pub}, M: 1}}
	sink = common.NewZeroCopySink(nil)
	if err := tx.Serialization(sink); err != nil {
		return nil, err
	}
	return types.TransactionFromRawBytes(sink.Bytes())
}

// buildBlockVbft lets the proposer code of the vbft consensus (constructBlock, through the build-tag hook) build
// and sign the next block on the current tip. The header carries a random nonce, so the block is recorded in
// the op line as bytes.
func (f *mledger) buildBlockVbft(b *lblock) (*types.Block, error) {
	cur := f.lg.GetCurrentBlockHeight()
	if b.height != cur+1 {
		return nil, fmt.Errorf("not the next height")
	}
	var txs []*types.Transaction
	for i := range b.txs {
		tx, err := lbuildTx(&b.txs[i])
		if err != nil {
			return nil, err
		}
		txs = append(txs, tx)
	}
	k := lkeys[int(b.height)%nValidators]
	acct := &account.Account{PrivateKey: k.priv, PublicKey: k.pub, Address: k.addr, SigScheme: osig.SHA256withECDSA}
	return vbft.VerifConstructBlock(f.lg, acct, b.height, f.lg.GetCurrentBlockHash(), txs, lpayload(false), b.ts)
}

// buildBlock builds the next block on the current tip (the harness in the role of the consensus).
func (f *mledger) buildBlock(b *lblock) (*types.Block, error) {
	cur := f.lg.GetCurrentBlockHeight()
	if b.height != cur+1 {
		return nil, fmt.Errorf("not the next height")
	}
	prev := f.lg.GetCurrentBlockHash()
	xroot, err := f.lg.GetCrossStateRoot(cur)
	if err != nil {
		return nil, err
	}
	hdr := &types.Header{Version: 0, ChainID: lchainID(), PrevBlockHash: prev, Timestamp: b.ts, Height: b.height,
		ConsensusData: uint64(b.height) + 7, ConsensusPayload: lpayload(false),
		BlockRoot:      f.lg.GetBlockRootWithPreBlockHashes(b.height, []common.Uint256{prev}),
		CrossStateRoot: xroot}
	blk := &types.Block{Header: hdr}
	for i := range b.txs {
		tx, err := lbuildTx(&b.txs[i])
		if err != nil {
			return nil, err
		}
		blk.Transactions = append(blk.Transactions, tx)
	}
	blk.RebuildMerkleRoot()
	h := hdr.Hash()
	for _, k := range lkeys {
		hdr.Bookkeepers = append(hdr.Bookkeepers, k.pub)
		sg, err := osig.Sign(osig.SHA256withECDSA, k.priv, h[:], nil)
		if err != nil {
			return nil, err
		}
		raw, err := osig.Serialize(sg)
		if err != nil {
			return nil, err
		}
		hdr.SigData = append(hdr.SigData, raw)
	}
	return blk, nil
}

func (f *mledger) closeLedger() {
	if f.lg != nil {
		func() {
			defer func() { recover() }()
			f.lg.GetStore().Close()
		}()
		f.lg = nil
	}
}

func (f *mledger) Reset(r *hx.Run) {
	lsetup()
	f.closeLedger()
	if f.dir != "" {
		os.RemoveAll(f.dir)
	}
	f.dir, f.gen, f.hashes, f.blocks, f.last = "", nil, nil, nil, map[string]int{}
	f.held, f.nheld = nil, 0
}

func (f *mledger) open() error {
	lg, err := ledger.NewLedger(f.dir)
	if err != nil {
		return err
	}
	pubs := []keypair.PublicKey{}
	for _, k := range lkeys {
		pubs = append(pubs, k.pub)
	}
	if err := lg.Init(pubs, f.gen); err != nil {
		lg.GetStore().Close()
		return err
	}
	f.lg = lg
	ledger.DefLedger = lg // SideChain (de)serialization consults the default ledger for a fork height
	return nil
}

func parseRecs(tok string) ([]lrec, bool) {
	if tok == "-" {
		return nil, true
	}
	var out []lrec
	for _, p := range strings.Split(tok, ",") {
		kv := strings.Split(p, ":")
		if len(kv) != 2 {
			return nil, false
		}
		out = append(out, lrec{key: hx.UnHex(kv[0]), val: hx.UnHex(kv[1])})
	}
	return out, true
}

func recsToken(rs []lrec) string {
	if len(rs) == 0 {
		return "-"
	}
	parts := make([]string, len(rs))
	for i, r := range rs {
		parts[i] = hx.Hex(r.key) + ":" + hx.Hex(r.val)
	}
	return strings.Join(parts, ",")
}

func parseLTxs(tok string) ([]ltx, bool) {
	if tok == "-" {
		return nil, true
	}
	var out []ltx
	for _, t := range strings.Split(tok, "/") {
		f := strings.Split(t, ".")
		if len(f) != 5 || !(f[0] == "e" || f[0] == "m" || f[0] == "s" || (len(f[0]) == 2 && f[0][0] == 'v')) {
			return nil, false
		}
		n, err := strconv.ParseUint(f[2], 10, 32)
		if err != nil {
			return nil, false
		}
		recs, ok := parseRecs(f[4])
		if !ok {
			return nil, false
		}
		out = append(out, ltx{kind: f[0], fail: f[1] == "1", nonce: uint32(n), input: hx.UnHex(f[3]), recs: recs})
	}
	return out, true
}

func txsToken(txs []ltx) string {
	if len(txs) == 0 {
		return "-"
	}
	parts := make([]string, len(txs))
	for i, t := range txs {
		fl := "0"
		if t.fail {
			fl = "1"
		}
		parts[i] = fmt.Sprintf("%s.%s.%d.%s.%s", t.kind, fl, t.nonce, hx.Hex(t.input), recsToken(t.recs))
	}
	return strings.Join(parts, "/")
}

func xproofErr(err error) string {
	m := err.Error()
	switch {
	case strings.HasPrefix(m, "GetCrossStates:"):
		return "reject:no-cross-states"
	case strings.HasPrefix(m, "GetStorageState"):
		return "reject:no-storage"
	case strings.HasPrefix(m, "data length over max value"):
		return "reject:too-big"
	case strings.HasPrefix(m, "values doesn't exist"):
		return "reject:not-found"
	}
	return "reject:other"
}

func bproofErr(err error) string {
	m := err.Error()
	switch {
	case strings.HasPrefix(m, "GetBlockHash("):
		return "reject:no-block"
	}
	return genErr(err)
}

// proveOther re-verifies an accepted proof against roots that differ from the committed one (one flipped
// bit, the zero hash); returns the hex of a root that is wrongly accepted, "" when all are rejected.
func proveOther(proof, root []byte) string {
	f := append([]byte{}, root...)
	f[13] ^= 0x20
	for _, o := range [][]byte{f, make([]byte, 32)} {
		if bytes.Equal(o, root) {
			continue
		}
		if _, err := merkle.MerkleProve(proof, o); err == nil {
			return hx.Hex(o)
		}
	}
	return ""
}

// committed returns the records block `height` committed (successful transactions, in order).
func (f *mledger) committed(height int) []lrec {
	if height < 1 || height > len(f.blocks) {
		return nil
	}
	var out []lrec
	for _, t := range f.blocks[height-1].txs {
		if !t.fail {
			out = append(out, t.recs...)
		}
	}
	return out
}

func (f *mledger) Exec(r *hx.Run, op []string) string {
	lsetup()
	switch op[0] {
	case "genesis":
		f.Reset(r)
		f.gen = lgenesis()
		if h := f.gen.Hash(); hx.Hex(h[:]) != op[1] {
			return "bad-op:genesis-hash"
		}
		nLedgers++
		dir, err := os.MkdirTemp("", fmt.Sprintf("mledger-%d-", nLedgers))
		if err != nil {
			return "err-tmp"
		}
		f.dir = dir
		if err := f.open(); err != nil {
			return "err-open:" + err.Error()
		}
		f.hashes = []common.Uint256{f.gen.Hash()}
		return "ok"
	}
	if f.lg == nil {
		return "bad-op:no-ledger"
	}
	switch op[0] {
	case "block", "blockraw":
		if len(op) != 5 {
			return "bad-op"
		}
		h, _ := strconv.ParseUint(op[1], 10, 32)
		txs, ok := parseLTxs(op[4])
		if !ok {
			return "bad-op"
		}
		var b *lblock
		var blk *types.Block
		if op[0] == "block" {
			ts, _ := strconv.ParseUint(op[2], 10, 32)
			b = &lblock{height: uint32(h), ts: uint32(ts), txs: txs}
			var err error
			if blk, err = f.buildBlock(b); err != nil {
				return "bad-op:" + err.Error()
			}
			if hh := blk.Hash(); hx.Hex(hh[:]) != op[3] {
				return "bad-op:block-hash"
			}
		} else {
			// a block built and signed by the vbft proposer code, recorded as bytes
			blk = &types.Block{}
			if err := blk.Deserialization(common.NewZeroCopySource(hx.UnHex(op[3]))); err != nil {
				return "bad-op:block-bytes"
			}
			if hh := blk.Hash(); hx.Hex(hh[:]) != op[2] || blk.Header.Height != uint32(h) || len(blk.Transactions) != len(txs) {
				return "bad-op:block-hash"
			}
			for i := range txs {
				tx, err := lbuildTx(&txs[i])
				if err != nil || tx.Hash() != blk.Transactions[i].Hash() {
					return "bad-op:block-txs"
				}
			}
			b = &lblock{height: uint32(h), ts: blk.Header.Timestamp, txs: txs}
			// what the proposer must have put into the header
			want, _ := f.lg.GetCrossStateRoot(uint32(h) - 1)
			if blk.Header.CrossStateRoot != want {
				r.Viol(fmt.Sprintf("C08:vbft-header-cross-root-differs:height=%d", h),
					fmt.Sprintf("constructBlock put CrossStateRoot %x into header %d, the stored cross-state root of block %d is %x", blk.Header.CrossStateRoot[:], h, h-1, want[:]))
			}
		}
		res, err := f.lg.ExecuteBlock(blk)
		if err != nil {
			return "err-exec"
		}
		if h%2 == 0 {
			err = f.lg.SubmitBlock(blk, res)
		} else {
			err = f.lg.AddBlock(blk, res.MerkleRoot)
		}
		if err != nil {
			if op[0] == "blockraw" {
				r.Viol(fmt.Sprintf("C08:vbft-built-block-refused:height=%d", h), "the ledger refuses a block built by the proposer code on its own tip: "+err.Error())
			}
			return "err-commit:" + err.Error()
		}
		f.blocks = append(f.blocks, b)
		f.hashes = append(f.hashes, blk.Hash())
		// the records the op line announces must be what the transactions stored
		bad := ""
		for _, t := range txs {
			for _, rc := range t.recs {
				if !t.fail {
					f.last[string(rc.key)] = int(h)
				}
			}
		}
		hashes := []common.Uint256{}
		for _, rc := range f.committed(int(h)) {
			hashes = append(hashes, refLeaf(rc.val))
		}
		if len(res.CrossHashes) != len(hashes) {
			bad = " BAD-RECORDS"
		} else {
			for i := range hashes {
				if hashes[i] != res.CrossHashes[i] {
					bad = " BAD-RECORDS"
				}
			}
		}
		stored, err := f.lg.GetCrossStateRoot(uint32(h))
		if err != nil {
			return "err-crossroot"
		}
		hdr, err := f.lg.GetHeaderByHeight(uint32(h))
		if err != nil {
			return "err-header"
		}
		// oracle: committed root = independent RFC reference over the leaf hashes of the committed records
		want := common.UINT256_EMPTY
		if len(hashes) > 0 {
			want = refMTH(hashes)
		}
		if stored != want {
			r.Viol(fmt.Sprintf("C08:stored-cross-root-differs-from-rfc6962:records=%d", len(hashes)),
				fmt.Sprintf("block %d committed %d records; stored cross-state root %x, RFC 6962 root of their leaf hashes %x", h, len(hashes), stored[:], want[:]))
		}
		return fmt.Sprintf("ok %s %s %d%s", hx.Hex(hdr.BlockRoot[:]), hx.Hex(stored[:]), len(res.CrossHashes), bad)
	case "xproof":
		h, _ := strconv.ParseUint(op[1], 10, 32)
		key := hx.UnHex(op[2])
		proof, err := f.lg.GetCrossStatesProof(uint32(h), key)
		// which record of block h lives under this key (and has not been overwritten since)
		var rec *lrec
		for _, rc := range f.committed(int(h)) {
			rc := rc
			if bytes.Equal(rc.key, key) && f.last[string(key)] == int(h) {
				rec = &rc
			}
		}
		if err != nil {
			res := xproofErr(err)
			if rec != nil && res != "reject:too-big" {
				r.Viol(fmt.Sprintf("C08:no-proof-for-committed-record:height=%d", h),
					fmt.Sprintf("GetCrossStatesProof(%d, %x) fails for a record committed by that block: %v", h, key, err))
			}
			return res
		}
		f.holdProof(r, "cross-state", proof)
		root, _ := f.lg.GetCrossStateRoot(uint32(h))
		if int(h)+1 < len(f.hashes) {
			// the root relayers see: CrossStateRoot of header h+1
			if hdr, e := f.lg.GetHeaderByHeight(uint32(h) + 1); e == nil && hdr.CrossStateRoot != root {
				r.Viol(fmt.Sprintf("C08:header-cross-root-differs:height=%d", h), "header h+1 does not carry the stored cross-state root of block h")
			}
		}
		v, e := merkle.MerkleProve(proof, root[:])
		if e == nil {
			if e2 := proveOther(proof, root[:]); e2 != "" {
				r.Viol(fmt.Sprintf("C08:served-cross-proof-verifies-against-another-root:height=%d", h),
					fmt.Sprintf("the cross-state proof served for key %x of block %d, accepted for the committed root %x, is also accepted for root %s", key, h, root[:], e2))
			}
		}
		if rec != nil && (e != nil || !bytes.Equal(v, rec.val)) {
			r.Viol(fmt.Sprintf("C08:served-cross-proof-does-not-verify:height=%d", h),
				fmt.Sprintf("the proof served for key %x of block %d does not verify against the committed cross-state root %x (err=%v, value=%x, record=%x)", key, h, root[:], e, v, rec.val))
		}
		return hx.Hex(proof)
	case "bproof":
		h, _ := strconv.ParseUint(op[1], 10, 32)
		rr, _ := strconv.ParseUint(op[2], 10, 32)
		proof, err := f.lg.GetMerkleProof(uint32(h), uint32(rr))
		valid := h < rr && int(rr) < len(f.hashes)
		if err != nil {
			if valid {
				r.Viol(fmt.Sprintf("C08:no-block-proof:h=%d:r=%d", h, rr), fmt.Sprintf("GetMerkleProof(%d,%d) fails: %v", h, rr, err))
			}
			return bproofErr(err)
		}
		f.holdProof(r, "block", proof)
		if valid {
			hdr, e := f.lg.GetHeaderByHeight(uint32(rr))
			if e != nil {
				return "err-header"
			}
			v, e := merkle.MerkleProve(proof, hdr.BlockRoot[:])
			if e == nil {
				if e2 := proveOther(proof, hdr.BlockRoot[:]); e2 != "" {
					r.Viol(fmt.Sprintf("C08:served-block-proof-verifies-against-another-root:h=%d:r=%d", h, rr),
						fmt.Sprintf("the block proof served for (%d,%d), accepted for BlockRoot %x, is also accepted for root %s", h, rr, hdr.BlockRoot[:], e2))
				}
			}
			if e != nil || !bytes.Equal(v, f.hashes[h][:]) {
				r.Viol(fmt.Sprintf("C08:served-block-proof-does-not-verify:h=%d:r=%d", h, rr),
					fmt.Sprintf("the block proof served for (%d,%d) does not verify against BlockRoot %x of header %d (err=%v, value=%x, block hash %x)", h, rr, hdr.BlockRoot[:], rr, e, v, f.hashes[h][:]))
			}
		}
		return hx.Hex(proof)
	case "reopen":
		f.closeLedger()
		if err := f.open(); err != nil {
			return "err-open"
		}
		return "ok"
	}
	return "bad-op"
}

// ---- generation

func (f *mledger) Gen(r *hx.Run) {
	r.Rule("chains of committed blocks on a real ledger, 0..N cross-chain records per block (several transactions per block, failing transactions, the same record twice in one block, empty and long records, records written by the real MakeTransaction), every record's served proof and every (h,r) block proof, reopen in the middle; distinct non-trivial = distinct (records in block, record index) and (h, r) pairs")
	lsetup()
	nonce := uint32(1)
	chain := func(name string, nblocks int, recCount func(b int) int, reopenMid bool, sweep bool, raw bool, entrance bool) {
		r.Case(name)
		g := lgenesis()
		gh := g.Hash()
		r.Do("genesis " + hx.Hex(gh[:]))
		type placed struct {
			height int
			key    []byte
		}
		var all []placed
		ctr := 0
		// votes cast so far for a pending deposit (entrance path): the deposit and who voted
		type deposit struct {
			height uint32
			p      *scom.MakeTxParam
			voted  []int
		}
		var pending *deposit
		vote := func(d *deposit, i int) ltx {
			nonce++
			ep := &scom.EntranceParam{SourceChainID: srcChain, Height: d.height, RelayerAddress: lkeys[i].addr[:]}
			ex := common.NewZeroCopySink(nil)
			d.p.Serialization(ex)
			ep.Extra = ex.Bytes()
			in := common.NewZeroCopySink(nil)
			ep.Serialization(in)
			t := ltx{kind: fmt.Sprintf("v%d", i), nonce: nonce, input: in.Bytes()}
			fresh := true
			for _, v := range d.voted {
				if v == i {
					fresh = false
				}
			}
			if fresh {
				d.voted = append(d.voted, i)
			}
			if fresh && len(d.voted) == 3 { // (2*4+2)/3 = 3 distinct validators: this vote makes the target-chain transaction
				tx, err := lbuildTx(&t)
				if err != nil {
					panic(err)
				}
				th := tx.Hash()
				mv := &scom.ToMerkleValue{TxHash: th.ToArray(), FromChainID: srcChain, MakeTxParam: d.p}
				ms := common.NewZeroCopySink(nil)
				mv.Serialization(ms)
				key := utils.ConcatKey(utils.CrossChainManagerContractAddress, []byte(scom.REQUEST), utils.GetUint64Bytes(dstChain), mv.TxHash)
				t.recs = []lrec{{key: key, val: ms.Bytes()}}
			}
			return t
		}
		for b := 1; b <= nblocks; b++ {
			nrec := recCount(b)
			var txs []ltx
			var vals [][]byte
			left := nrec
			if entrance && b == 1 {
				nonce++
				txs = append(txs, ltx{kind: "s", nonce: nonce})
			}
			if entrance && b >= 2 {
				// deposits approved by validator votes through the real ImportOuterTransfer
				for left > 0 && r.Rng.Chance(2, 3) {
					d := pending
					pending = nil
					if d == nil {
						d = &deposit{height: uint32(100 + b*10 + left), p: &scom.MakeTxParam{TxHash: r.Rng.Bytes(32), CrossChainID: r.Rng.Bytes(8),
							FromContractAddress: r.Rng.Bytes(20), ToChainID: dstChain, ToContractAddress: r.Rng.Bytes(20), Method: "unlock", Args: r.Rng.Bytes(r.Rng.Intn(60))}}
					}
					order := r.Rng.Perm(nValidators)
					for _, i := range order {
						if len(d.voted) >= 3 {
							break
						}
						if len(d.voted) == 1 && r.Rng.Chance(1, 4) {
							txs = append(txs, vote(d, d.voted[0])) // the same validator votes twice: counted once
						}
						t := vote(d, i)
						txs = append(txs, t)
						if len(t.recs) > 0 {
							all = append(all, placed{b, t.recs[0].key})
							vals = append(vals, t.recs[0].val)
						}
					}
					if r.Rng.Chance(1, 3) {
						txs = append(txs, vote(d, order[nValidators-1])) // a late vote after the deposit is done: no second record
					}
					left--
				}
				if pending == nil && r.Rng.Chance(1, 3) {
					// a deposit that gets two votes in this block and the deciding one in a later block
					pending = &deposit{height: uint32(5000 + b), p: &scom.MakeTxParam{TxHash: r.Rng.Bytes(32), CrossChainID: r.Rng.Bytes(8),
						FromContractAddress: r.Rng.Bytes(20), ToChainID: dstChain, ToContractAddress: r.Rng.Bytes(20), Method: "unlock", Args: r.Rng.Bytes(9)}}
					txs = append(txs, vote(pending, 0), vote(pending, 2))
				}
			}
			for left > 0 || (len(txs) == 0 && r.Rng.Chance(1, 3)) {
				k := 1 + r.Rng.Intn(3)
				if k > left {
					k = left
				}
				nonce++
				if k >= 1 && r.Rng.Chance(1, 5) {
					// one record through the real MakeTransaction
					p := &scom.MakeTxParam{TxHash: r.Rng.Bytes(32), CrossChainID: r.Rng.Bytes(8), FromContractAddress: r.Rng.Bytes(20),
						ToChainID: uint64(2 + r.Rng.Intn(5)), ToContractAddress: r.Rng.Bytes(20), Method: "unlock", Args: r.Rng.Bytes(r.Rng.Intn(80))}
					from := uint64(1 + r.Rng.Intn(5))
					in := common.NewZeroCopySink(nil)
					p.Serialization(in)
					in.WriteUint64(from)
					t := ltx{kind: "m", nonce: nonce, input: in.Bytes()}
					tx, err := lbuildTx(&t)
					if err != nil {
						panic(err)
					}
					th := tx.Hash()
					mv := &scom.ToMerkleValue{TxHash: th.ToArray(), FromChainID: from, MakeTxParam: p}
					ms := common.NewZeroCopySink(nil)
					mv.Serialization(ms)
					key := utils.ConcatKey(utils.CrossChainManagerContractAddress, []byte(scom.REQUEST), utils.GetUint64Bytes(p.ToChainID), mv.TxHash)
					t.recs = []lrec{{key: key, val: ms.Bytes()}}
					txs = append(txs, t)
					all = append(all, placed{b, key})
					left--
					continue
				}
				fail := r.Rng.Chance(1, 8)
				in := common.NewZeroCopySink(nil)
				t := ltx{kind: "e", fail: fail, nonce: nonce}
				for j := 0; j < k; j++ {
					ctr++
					kk := []byte(fmt.Sprintf("k%d", ctr))
					var v []byte
					switch r.Rng.Intn(9) {
					case 0:
						v = []byte{}
					case 1:
						v = r.Rng.Bytes(0xfd + r.Rng.Intn(3))
					case 2:
						if len(vals) > 0 {
							v = vals[r.Rng.Intn(len(vals))] // the same record bytes twice in one block
						} else {
							v = r.Rng.Bytes(9)
						}
					default:
						v = r.Rng.Bytes(1 + r.Rng.Intn(50))
					}
					in.WriteVarBytes(kk)
					in.WriteVarBytes(v)
					t.recs = append(t.recs, lrec{key: utils.ConcatKey(ltestAddr, kk), val: v})
					if !fail {
						vals = append(vals, v)
						all = append(all, placed{b, utils.ConcatKey(ltestAddr, kk)})
					}
				}
				t.input = in.Bytes()
				txs = append(txs, t)
				if !fail {
					left -= k
				}
			}
			lb := &lblock{height: uint32(b), ts: uint32(1000 + 10*b), txs: txs}
			if raw {
				blk, err := f.buildBlockVbft(lb)
				if err != nil {
					panic(err)
				}
				bh := blk.Hash()
				r.Do(fmt.Sprintf("blockraw %d %s %s %s", b, hx.Hex(bh[:]), hx.Hex(blk.ToArray()), txsToken(txs)))
			} else {
				blk, err := f.buildBlock(lb)
				if err != nil {
					panic(err)
				}
				bh := blk.Hash()
				r.Do(fmt.Sprintf("block %d %d %s %s", b, lb.ts, hx.Hex(bh[:]), txsToken(txs)))
			}
			r.Hist(fmt.Sprintf("records.%s", sizeClass(nrec)))
			if reopenMid && b == nblocks/2 {
				r.Do("reopen")
			}
			// proofs of this block's records right after the commit
			for i, rc := range f.committed(b) {
				if nrec <= 12 || i%5 == 0 || i == nrec-1 {
					r.Do(fmt.Sprintf("xproof %d %s", b, hx.Hex(rc.key)))
					if nrec >= 2 {
						r.Nontrivial(fmt.Sprintf("x/%d/%d", nrec, i))
					}
				}
			}
			// keys of failed transactions and unknown keys
			for _, t := range txs {
				if t.fail && len(t.recs) > 0 {
					r.Do(fmt.Sprintf("xproof %d %s", b, hx.Hex(t.recs[0].key)))
				}
			}
			if b%4 == 1 {
				r.Do(fmt.Sprintf("xproof %d %s", b, hx.Hex([]byte("nokey"))))
			}
			// block proofs for every h < r = b on short chains, sampled on long ones
			for h := 0; h < b; h++ {
				if nblocks <= 24 || h < 2 || h+2 >= b || r.Rng.Chance(1, 6) {
					r.Do(fmt.Sprintf("bproof %d %d", h, b))
					r.Nontrivial(fmt.Sprintf("b/%d/%d", h, b))
				}
			}
		}
		// earlier roots from the final state; records of earlier blocks; a record asked at the wrong height
		for k := 0; k < r.Pick(60, 600) && nblocks >= 2; k++ {
			rr := 1 + r.Rng.Intn(nblocks)
			r.Do(fmt.Sprintf("bproof %d %d", r.Rng.Intn(rr), rr))
		}
		for k := 0; k < r.Pick(30, 300) && len(all) > 0; k++ {
			p := all[r.Rng.Intn(len(all))]
			r.Do(fmt.Sprintf("xproof %d %s", p.height, hx.Hex(p.key)))
			if k%7 == 0 {
				r.Do(fmt.Sprintf("xproof %d %s", 1+r.Rng.Intn(nblocks), hx.Hex(p.key)))
			}
		}
		if sweep {
			// one running node serving block proofs for many (h, r) pairs in varying orders: every ordered
			// pair of root heights (r1, r2), then descending and interleaved sweeps
			for r1 := 1; r1 <= nblocks; r1++ {
				for r2 := 1; r2 <= nblocks; r2++ {
					r.Do(fmt.Sprintf("bproof %d %d", r.Rng.Intn(r1), r1))
					r.Do(fmt.Sprintf("bproof %d %d", r.Rng.Intn(r2), r2))
					r.Do(fmt.Sprintf("bproof %d %d", r2-1, r2))
				}
			}
			for rr := nblocks; rr >= 1; rr-- {
				for h := rr - 1; h >= 0; h-- {
					r.Do(fmt.Sprintf("bproof %d %d", h, rr))
				}
			}
			for h := 0; h < nblocks; h++ {
				for rr := h + 1; rr <= nblocks; rr++ {
					r.Do(fmt.Sprintf("bproof %d %d", h, rr))
				}
			}
		}
		r.Do(fmt.Sprintf("bproof %d %d", nblocks, nblocks))
		r.Do(fmt.Sprintf("bproof %d %d", nblocks+1, nblocks+2))
		r.Do(fmt.Sprintf("bproof %d %d", 0, nblocks+1))
		r.Do(fmt.Sprintf("bproof %d %d", 3, 1))
		r.Do("reopen")
		r.Do(fmt.Sprintf("bproof %d %d", 0, nblocks))
	}
	chain("chain-small", r.Pick(14, 40), func(b int) int { return r.Rng.Intn(10) }, true, false, false, false)
	chain("chain-sizes", r.Pick(20, 130), func(b int) int { return b - 1 }, true, false, false, false) // every record count 0..N once
	chain("chain-orders", r.Pick(19, 70), func(b int) int { return r.Rng.Intn(3) }, false, true, true, false)
	// headers built by the vbft proposer code; deposits entering through the real ImportOuterTransfer (vote router)
	chain("chain-entrance", r.Pick(16, 60), func(b int) int { return r.Rng.Intn(6) }, true, false, true, true)
	if r.Thorough() {
		chain("chain-long", 200, func(b int) int {
			if b%10 == 0 {
				return 40 + r.Rng.Intn(31)
			}
			return r.Rng.Intn(6)
		}, true, false, true, false)
	}
	f.Reset(r)
}
