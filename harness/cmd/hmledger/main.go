// hmledger: correspondence harness for the ledger glue that serves Merkle proofs to relayers (C08):
// a real core/ledger.Ledger on a temp dir. Kept apart from hmerkle because it links the whole native
// service tree (cross_chain_manager), which hmerkle's tree/verifier families do not need.
package main

import "polyverif/internal/hx"

var families = map[string]func() hx.Family{}

func main() { hx.Main(families) }
