// hthr: behavioural measurement of the quorum thresholds the node applies (C42): for a pool of N consensus
// validators, after how many distinct approvals does each governance / vote ledger fire, and which m does the
// consensus operator address use. Ties the formulas of C42 to the running code (not only to source expressions).
package main

import (
	"encoding/hex"
	"fmt"

	"github.com/ontio/ontology-crypto/keypair"
	"github.com/polynetwork/poly/account"
	"github.com/polynetwork/poly/common"
	cstates "github.com/polynetwork/poly/core/states"
	"github.com/polynetwork/poly/core/store/leveldbstore"
	"github.com/polynetwork/poly/core/store/overlaydb"
	"github.com/polynetwork/poly/core/types"
	"github.com/polynetwork/poly/native"
	"github.com/polynetwork/poly/native/service/cross_chain_manager/consensus_vote"
	"github.com/polynetwork/poly/native/service/governance/node_manager"
	"github.com/polynetwork/poly/native/service/governance/signature_manager"
	"github.com/polynetwork/poly/native/service/utils"
	"github.com/polynetwork/poly/native/storage"
	"polyverif/internal/hx"
)

type quorum struct {
	pool      []*account.Account
	candidate *account.Account
}

func main() {
	hx.Main(map[string]func() hx.Family{"quorum": func() hx.Family { return &quorum{} }})
}

func (q *quorum) Reset(r *hx.Run) {}

func (q *quorum) accounts(n int) []*account.Account {
	for len(q.pool) < n {
		q.pool = append(q.pool, account.NewAccount(""))
	}
	if q.candidate == nil {
		q.candidate = account.NewAccount("")
	}
	return q.pool[:n]
}

func (q *quorum) newDB(consensus []*account.Account) *storage.CacheDB {
	store, _ := leveldbstore.NewMemLevelDBStore()
	db := storage.NewCacheDB(overlaydb.NewOverlayDB(store))
	var view uint32 = 1
	contract := utils.NodeManagerContractAddress
	gv := &node_manager.GovernanceView{View: view, Height: 1, TxHash: common.Uint256{}}
	sink := common.NewZeroCopySink(nil)
	gv.Serialization(sink)
	db.Put(utils.ConcatKey(contract, []byte(node_manager.GOVERNANCE_VIEW)), cstates.GenRawStorageItem(sink.Bytes()))
	pm := &node_manager.PeerPoolMap{PeerPoolMap: make(map[string]*node_manager.PeerPoolItem)}
	for i, a := range consensus {
		pk := hex.EncodeToString(keypair.SerializePublicKey(a.PublicKey))
		pm.PeerPoolMap[pk] = &node_manager.PeerPoolItem{Index: uint32(i + 1), PeerPubkey: pk, Address: a.Address, Status: node_manager.ConsensusStatus}
	}
	// a candidate (non-consensus) member that must not be counted
	pk := hex.EncodeToString(keypair.SerializePublicKey(q.candidate.PublicKey))
	pm.PeerPoolMap[pk] = &node_manager.PeerPoolItem{Index: uint32(len(consensus) + 1), PeerPubkey: pk, Address: q.candidate.Address, Status: node_manager.CandidateStatus}
	sink = common.NewZeroCopySink(nil)
	pm.Serialization(sink)
	db.Put(utils.ConcatKey(contract, []byte(node_manager.PEER_POOL), utils.GetUint32Bytes(view)), cstates.GenRawStorageItem(sink.Bytes()))
	return db
}

// observed returns after how many distinct approvals the ledger first fires (-1: never), or an error class.
func (q *quorum) observed(site string, n int) (int, string) {
	accts := q.accounts(n)
	db := q.newDB(accts)
	for i, a := range accts {
		tx := &types.Transaction{SignedAddr: []common.Address{a.Address}}
		switch site {
		case "nodemgr":
			ns, err := native.NewNativeService(db, tx, 0, 0, common.Uint256{}, 0, nil, false)
			if err != nil {
				return 0, "err-service"
			}
			ok, err := node_manager.CheckConsensusSigns(ns, "verifMethod", []byte("verif-input"), a.Address)
			if err != nil {
				return 0, "err-call"
			}
			if ok {
				return i + 1, ""
			}
		case "vote":
			ns, err := native.NewNativeService(db, tx, 0, 0, common.Uint256{}, 0, nil, false)
			if err != nil {
				return 0, "err-service"
			}
			ok, err := consensus_vote.CheckVotes(ns, []byte("verif-vote-id"), a.Address)
			if err != nil {
				return 0, "err-call"
			}
			if ok {
				return i + 1, ""
			}
		case "sigmgr":
			p := signature_manager.AddSignatureParam{Address: a.Address, Subject: []byte("verif-subject"), Signature: []byte{byte(i), byte(i >> 8), 7}}
			sink := common.NewZeroCopySink(nil)
			p.Serialization(sink)
			ns, err := native.NewNativeService(db, tx, 0, 0, common.Uint256{}, 0, sink.Bytes(), false)
			if err != nil {
				return 0, "err-service"
			}
			if _, err := signature_manager.AddSignature(ns); err != nil {
				return 0, "err-call"
			}
			if len(ns.GetNotify()) > 0 {
				return i + 1, ""
			}
		}
	}
	return -1, ""
}

func (q *quorum) Exec(r *hx.Run, op []string) string {
	var n int
	fmt.Sscan(op[2], &n)
	switch op[0] {
	case "fire":
		k, e := q.observed(op[1], n)
		if e != "" {
			return e
		}
		want := (2*n + 2) / 3
		f := (n - 1) / 3
		if k != want {
			r.Viol("C42:behavioural-threshold:"+op[1], fmt.Sprintf("with %d consensus validators the %s ledger fires after %d distinct approvals; ceil(2N/3) = %d", n, op[1], k, want))
		} else if 2*k-n <= f {
			r.Viol("C42:intersection:"+op[1], fmt.Sprintf("N=%d: two approving sets of size %d may share only %d <= f=%d validators", n, k, 2*k-n, f))
		}
		return fmt.Sprint(k)
	case "opaddr":
		// which m does the consensus operator address use for n bookkeepers
		accts := q.accounts(n)
		keys := make([]keypair.PublicKey, n)
		for i, a := range accts {
			keys[i] = a.PublicKey
		}
		addr, err := types.AddressFromBookkeepers(keys)
		if err != nil {
			return "err"
		}
		got := -1
		if addr == common.ADDRESS_EMPTY {
			// more keys than a multi-signature program may hold: the code returns the empty address
			return "empty-address"
		}
		if n == 1 {
			if addr == types.AddressFromPubKey(keys[0]) {
				got = 1
			}
		} else {
			for m := 1; m <= n; m++ {
				a2, err := types.AddressFromMultiPubKeys(keys, m)
				if err == nil && a2 == addr {
					got = m
					break
				}
			}
		}
		want := n - (n-1)/3
		if got != want {
			r.Viol("C42:behavioural-threshold:opaddr", fmt.Sprintf("operator address for %d bookkeepers is the %d-of-%d multisig address; N - floor((N-1)/3) = %d", n, got, n, want))
		}
		return fmt.Sprint(got)
	}
	return "bad-op"
}

func (q *quorum) Gen(r *hx.Run) {
	r.Rule("for each N the real CheckConsensusSigns / CheckVotes / AddSignature are driven by N distinct consensus validators (plus one non-consensus candidate in the pool) until they fire; operator address m recovered by comparing with every m-of-N address; distinct = (site, N)")
	var ns []int
	for n := 1; n <= r.Pick(25, 130); n++ {
		ns = append(ns, n)
	}
	ns = append(ns, 49, 50, 51, 52, 53, 64, 100)
	if r.Thorough() {
		ns = append(ns, 99, 101, 150, 199, 200, 256, 300)
	}
	for i := 0; i < r.Pick(2, 6); i++ {
		ns = append(ns, 26+r.Rng.Intn(r.Pick(60, 250)))
	}
	for _, n := range ns {
		r.Case(fmt.Sprintf("N%d", n))
		for _, site := range []string{"nodemgr", "vote", "sigmgr"} {
			r.Do(fmt.Sprintf("fire %s %d", site, n))
			r.Nontrivial(fmt.Sprintf("%s/%d", site, n))
		}
		if n <= 20 { // beyond 16 keys the code yields the empty address (outcome compared with the model)
			r.Do(fmt.Sprintf("opaddr x %d", n))
			r.Nontrivial(fmt.Sprintf("opaddr/%d", n))
		}
		r.Hist(fmt.Sprintf("Nmod3.%d", n%3))
	}
	r.Sample(map[string]interface{}{"N": ns[:8]})
}
