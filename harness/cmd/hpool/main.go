// hpool: correspondence harness (transaction pool, C37).
// Each family lives in its own file and registers itself in `families`.
package main

import "polyverif/internal/hx"

var families = map[string]func() hx.Family{}

func main() { hx.Main(families) }
