package main

import (
	"fmt"
	"runtime"
	"sort"
	"strconv"
	"strings"
	"sync"
	"sync/atomic"

	"github.com/polynetwork/poly/common/config"
	"github.com/polynetwork/poly/common/log"
	"github.com/polynetwork/poly/core/types"
	"github.com/polynetwork/poly/errors"
	tc "github.com/polynetwork/poly/txnpool/common"
	vt "github.com/polynetwork/poly/validator/types"
	"polyverif/internal/hx"
)

// Family poolconc (C37, "under concurrent use"): 8..16 real goroutines call the real TXPool methods at the same
// time; every call is recorded with a logical call/return time and its result. The harness searches a
// linearization of the history (an order of the calls that respects real time — a call that returned before
// another was issued comes first — and in which every recorded result is what the sequential specification
// gives), and writes it out as op lines
//
//	<op of family pool> => <recorded result>
//
// Exec echoes the recorded result; the Lean driver executes the op on the sequential model in that order and must
// print the same. So the model, not the harness, has the last word on the witness. If no linearization exists the
// history is reported (r.Viol) and written in call order. Schedules are whatever the Go runtime produced: sampled.
type concFam struct{}

func init() { families["poolconc"] = func() hx.Family { return &concFam{} } }

func (f *concFam) Reset(r *hx.Run) { log.InitLog(log.ErrorLog, log.Stdout) }

func (f *concFam) Exec(r *hx.Run, op []string) string {
	for i, t := range op {
		if t == "=>" {
			return strings.Join(op[i+1:], " ")
		}
	}
	return "bad-op"
}

type cop struct {
	kind      string
	id        int
	ids       []int
	attrs     string
	byCount   bool
	height    int
	res       string // recorded result in the format of the sequential family (without the size suffix)
	tx, old   []int  // recorded GetTxPool lists
	call, ret int64
	g         int
}

func (o *cop) line(maxTx int) string {
	switch o.kind {
	case "add":
		return fmt.Sprintf("add %d %s => %s", o.id, o.attrs, o.res)
	case "del":
		return fmt.Sprintf("del %d => %s", o.id, o.res)
	case "has":
		return fmt.Sprintf("has %d => %s", o.id, o.res)
	case "count":
		return "count => " + o.res
	case "clean":
		return strings.TrimSpace("clean "+joinInts(o.ids, " ")) + " => ok"
	case "remain":
		return "remain => " + o.res
	case "unv":
		return strings.TrimSpace(fmt.Sprintf("unv %d %s", o.height, joinInts(o.ids, " "))) + " => " + o.res
	case "get":
		b := 0
		if o.byCount {
			b = 1
		}
		return fmt.Sprintf("getobs %d %d %d tx=%s old=%s => ok", b, o.height, maxTx, showIds(o.tx), showIds(o.old))
	}
	return "bad"
}

func joinInts(l []int, sep string) string {
	var p []string
	for _, x := range l {
		p = append(p, strconv.Itoa(x))
	}
	return strings.Join(p, sep)
}

// ---- sequential specification (reference finite map) used by the search

type refState map[int][]attr

func (s refState) clone() refState {
	c := make(refState, len(s))
	for k, v := range s {
		c[k] = v
	}
	return c
}

func (s refState) key() string {
	ks := make([]int, 0, len(s))
	for k := range s {
		ks = append(ks, k)
	}
	sort.Ints(ks)
	var sb strings.Builder
	for _, k := range ks {
		fmt.Fprintf(&sb, "%d:", k)
		for _, a := range s[k] {
			fmt.Fprintf(&sb, "%d.%d.%d,", a.kind, a.height, a.err)
		}
		sb.WriteByte(';')
	}
	return sb.String()
}

// apply checks the recorded result of o against the specification in state s and returns the next state.
func apply(s refState, o *cop, maxTx int) (refState, bool) {
	switch o.kind {
	case "add":
		_, present := s[o.id]
		if (o.res == "true") == present {
			return nil, false
		}
		if present {
			return s, true
		}
		n := s.clone()
		n[o.id] = parseAttrs(o.attrs)
		return n, true
	case "del":
		_, present := s[o.id]
		if (o.res == "true") != present {
			return nil, false
		}
		if !present {
			return s, true
		}
		n := s.clone()
		delete(n, o.id)
		return n, true
	case "has":
		_, present := s[o.id]
		return s, (o.res == "true") == present
	case "count":
		return s, o.res == strconv.Itoa(len(s))
	case "clean":
		n := s.clone()
		for _, id := range o.ids {
			delete(n, id)
		}
		return n, true
	case "remain":
		ks := make([]int, 0, len(s))
		for k := range s {
			ks = append(ks, k)
		}
		sort.Ints(ks)
		if o.res != "r="+showIds(ks) {
			return nil, false
		}
		return refState{}, true
	case "unv":
		n := s.clone()
		var ver, unv, old []string
		for _, id := range o.ids {
			as, ok := n[id]
			if !ok {
				unv = append(unv, strconv.Itoa(id))
				continue
			}
			if stale(as, o.height) {
				old = append(old, strconv.Itoa(id))
				delete(n, id)
				continue
			}
			for _, a := range as {
				if a.kind == int(vt.Stateful) {
					ver = append(ver, fmt.Sprintf("%d:%d:%d", id, a.height, a.err))
					break
				}
			}
		}
		j := func(l []string) string {
			if len(l) == 0 {
				return "-"
			}
			return strings.Join(l, ",")
		}
		want := fmt.Sprintf("ver=%s unv=%s old=%s", j(ver), j(unv), j(old))
		return n, want == o.res
	case "get":
		limit := len(s)
		if o.byCount && maxTx > 0 && maxTx < limit {
			limit = maxTx
		}
		nEl, nSt := 0, 0
		for _, as := range s {
			if stale(as, o.height) {
				nSt++
			} else {
				nEl++
			}
		}
		seen := map[int]bool{}
		for _, id := range o.tx {
			as, ok := s[id]
			if !ok || seen[id] || stale(as, o.height) {
				return nil, false
			}
			seen[id] = true
		}
		for _, id := range o.old {
			as, ok := s[id]
			if !ok || seen[id] || !stale(as, o.height) {
				return nil, false
			}
			seen[id] = true
		}
		want := limit
		if nEl < want {
			want = nEl
		}
		if len(o.tx) != want {
			return nil, false
		}
		if len(o.tx) < limit && len(o.old) != nSt {
			return nil, false
		}
		return s, true
	}
	return nil, false
}

// linearize searches an order of ops (indices) consistent with real time and the specification.
func linearize(ops []*cop, init refState, maxTx int) ([]int, bool, int) {
	n := len(ops)
	done := make([]bool, n)
	order := make([]int, 0, n)
	seen := map[string]bool{}
	steps := 0
	var rec func(s refState, cnt int) bool
	rec = func(s refState, cnt int) bool {
		if cnt == n {
			return true
		}
		steps++
		if steps > 3000000 {
			return false
		}
		var mk strings.Builder
		for i := 0; i < n; i++ {
			if done[i] {
				mk.WriteByte('1')
			} else {
				mk.WriteByte('0')
			}
		}
		mk.WriteString(s.key())
		if seen[mk.String()] {
			return false
		}
		seen[mk.String()] = true
		// minimal return time among the remaining calls: a candidate must have been issued before it
		minRet := int64(1) << 62
		for i := 0; i < n; i++ {
			if !done[i] && ops[i].ret < minRet {
				minRet = ops[i].ret
			}
		}
		for i := 0; i < n; i++ {
			if done[i] || ops[i].call > minRet {
				continue
			}
			ns, ok := apply(s, ops[i], maxTx)
			if !ok {
				continue
			}
			done[i] = true
			order = append(order, i)
			if rec(ns, cnt+1) {
				return true
			}
			order = order[:len(order)-1]
			done[i] = false
		}
		return false
	}
	ok := rec(init, 0)
	return order, ok, steps
}

func (f *concFam) Gen(r *hx.Run) {
	r.Rule("per case: a pool pre-filled sequentially, then 8..16 goroutines x 3..7 calls (add/del/has/count/clean/get/unv, rarely remain) on 4..9 transaction ids released together; history linearized by a memoised search against the reference map, witness re-executed by the Lean model; distinct non-trivial = histories with at least two overlapping calls on the same id of which one is a successful mutation, keyed by (goroutines, ops, overlaps class)")
	g := r.Rng
	nCases := r.Pick(250, 12000)
	for c := 0; c < nCases; c++ {
		r.Case(fmt.Sprintf("conc-%d", c))
		tp := &tc.TXPool{}
		tp.Init()
		nIds := 4 + g.Intn(6)
		hBase := g.Intn(5)
		maxTx := []int{0, 1, 2, 3, 50000}[g.Intn(5)]
		config.DefConfig.Consensus.MaxTxInBlock = uint(maxTx)
		genAttrs := func() string {
			switch g.Intn(6) {
			case 0:
				return "-"
			case 1:
				return fmt.Sprintf("0:%d:0", g.Intn(5))
			default:
				return fmt.Sprintf("0:0:0,1:%d:%d", hBase+g.Intn(4), []int{0, 0, 7}[g.Intn(3)])
			}
		}
		mkEntry := func(id int, attrs string) *tc.TXEntry {
			e := &tc.TXEntry{Tx: mkTx(id)}
			for _, a := range parseAttrs(attrs) {
				e.Attrs = append(e.Attrs, &tc.TXAttr{Height: uint32(a.height), Type: vt.VerifyType(a.kind), ErrCode: errors.ErrCode(a.err)})
			}
			return e
		}
		init := refState{}
		// sequential prefix
		for i := 0; i < g.Intn(nIds+1); i++ {
			id := g.Intn(nIds)
			at := genAttrs()
			ok := tp.AddTxList(mkEntry(id, at))
			r.Do(fmt.Sprintf("add %d %s => %v", id, at, ok))
			if ok {
				init[id] = parseAttrs(at)
			}
		}
		G := 8 + g.Intn(9)
		var ops []*cop
		perG := make([][]*cop, G)
		for gi := 0; gi < G; gi++ {
			k := 3 + g.Intn(5)
			for j := 0; j < k; j++ {
				o := &cop{g: gi}
				switch x := g.Intn(20); {
				case x < 7:
					o.kind, o.id, o.attrs = "add", g.Intn(nIds), genAttrs()
				case x < 10:
					o.kind, o.id = "del", g.Intn(nIds)
				case x < 12:
					o.kind, o.id = "has", g.Intn(nIds)
				case x < 13:
					o.kind = "count"
				case x < 15:
					o.kind = "clean"
					for i := 0; i < g.Intn(4); i++ {
						o.ids = append(o.ids, g.Intn(nIds))
					}
				case x < 18:
					o.kind, o.byCount, o.height = "get", g.Bool(), hBase+g.Intn(5)
				case x < 19 || g.Intn(3) > 0:
					o.kind, o.height = "unv", hBase+g.Intn(5)
					seen := map[int]bool{}
					for i := 0; i < g.Intn(4); i++ { // verifyBlock rejects duplicates before calling GetUnverifiedTxs
						id := g.Intn(nIds)
						if !seen[id] {
							seen[id] = true
							o.ids = append(o.ids, id)
						}
					}
				default:
					o.kind = "remain"
				}
				perG[gi] = append(perG[gi], o)
				ops = append(ops, o)
			}
		}
		// run
		var clock int64
		var wg sync.WaitGroup
		start := make(chan struct{})
		// round barrier: the j-th calls of all goroutines are issued together, so that calls really overlap
		var arrived int64
		barrierWait := func(round int) {
			atomic.AddInt64(&arrived, 1)
			target := int64((round + 1) * G)
			for spins := 0; atomic.LoadInt64(&arrived) < target && spins < 200000; spins++ {
				if spins%64 == 63 {
					runtime.Gosched()
				}
			}
		}
		maxLen := 0
		for _, l := range perG {
			if len(l) > maxLen {
				maxLen = len(l)
			}
		}
		for gi := 0; gi < G; gi++ {
			wg.Add(1)
			go func(list []*cop) {
				defer wg.Done()
				<-start
				for j := 0; j < maxLen; j++ {
					if j >= len(list) {
						barrierWait(j)
						continue
					}
					o := list[j]
					// everything that is not the call itself is prepared outside the timed interval
					var entry *tc.TXEntry
					var tx *types.Transaction
					var txs []*types.Transaction
					switch o.kind {
					case "add":
						entry = mkEntrySafe(o.id, o.attrs)
					case "del", "has":
						tx = mkTxSafe(o.id)
					case "clean", "unv":
						for _, id := range o.ids {
							txs = append(txs, mkTxSafe(id))
						}
					}
					barrierWait(j)
					o.call = atomic.AddInt64(&clock, 1)
					switch o.kind {
					case "add":
						o.res = fmt.Sprint(tp.AddTxList(entry))
					case "del":
						o.res = fmt.Sprint(tp.DelTxList(tx))
					case "has":
						o.res = fmt.Sprint(tp.GetTransaction(tx.Hash()) != nil)
					case "count":
						o.res = strconv.Itoa(tp.GetTransactionCount())
					case "clean":
						tp.CleanTransactionList(txs)
						o.res = "ok"
					case "remain":
						l := tp.Remain()
						o.ret = atomic.AddInt64(&clock, 1)
						ids := idsOf(l)
						sort.Ints(ids)
						o.res = "r=" + showIds(ids)
						continue
					case "unv":
						res := tp.GetUnverifiedTxs(txs, uint32(o.height))
						o.ret = atomic.AddInt64(&clock, 1)
						var ver []string
						for _, v := range res.VerifiedTxs {
							ver = append(ver, fmt.Sprintf("%d:%d:%d", idOfTx(v.Tx), v.Height, v.ErrCode))
						}
						vs := "-"
						if len(ver) > 0 {
							vs = strings.Join(ver, ",")
						}
						o.res = fmt.Sprintf("ver=%s unv=%s old=%s", vs, showIds(idsOf(res.UnverifiedTxs)), showIds(idsOf(res.OldTxs)))
						continue
					case "get":
						txl, old := tp.GetTxPool(o.byCount, uint32(o.height))
						o.ret = atomic.AddInt64(&clock, 1)
						for _, e := range txl {
							o.tx = append(o.tx, idOfTx(e.Tx))
						}
						o.old = idsOf(old)
						continue
					}
					o.ret = atomic.AddInt64(&clock, 1)
				}
			}(perG[gi])
		}
		close(start)
		wg.Wait()
		// the final content of the pool is part of the history: two calls issued after everything returned
		{
			fc := &cop{kind: "count", g: -1}
			fc.call = atomic.AddInt64(&clock, 1)
			fc.res = strconv.Itoa(tp.GetTransactionCount())
			fc.ret = atomic.AddInt64(&clock, 1)
			fr := &cop{kind: "remain", g: -1}
			fr.call = atomic.AddInt64(&clock, 1)
			ids := idsOf(tp.Remain())
			sort.Ints(ids)
			fr.res = "r=" + showIds(ids)
			fr.ret = atomic.AddInt64(&clock, 1)
			ops = append(ops, fc, fr)
		}
		// overlap statistics
		overl := 0
		for i, a := range ops {
			for _, b := range ops[i+1:] {
				if a.g != b.g && a.call < b.ret && b.call < a.ret && (a.kind == "add" || a.kind == "del") && (b.kind == "add" || b.kind == "del") && a.id == b.id && (a.res == "true" || b.res == "true") {
					overl++
				}
			}
		}
		order, ok, steps := linearize(ops, init, maxTx)
		r.Hist(fmt.Sprintf("search-steps.%s", magnitude(steps)))
		if !ok {
			byCall := append([]*cop{}, ops...)
			sort.Slice(byCall, func(i, j int) bool { return byCall[i].call < byCall[j].call })
			var dump []string
			for _, o := range byCall {
				dump = append(dump, fmt.Sprintf("[g%d %d..%d] %s", o.g, o.call, o.ret, o.line(maxTx)))
			}
			r.Viol("C37:history-not-linearizable", fmt.Sprintf("no order of the %d concurrent TXPool calls that respects real time reproduces the recorded results on the sequential specification (%d search steps): %s", len(ops), steps, strings.Join(dump, " | ")))
			for _, o := range byCall {
				r.Do(o.line(maxTx))
			}
			continue
		}
		for _, i := range order {
			r.Do(ops[i].line(maxTx))
		}
		if overl > 0 {
			oc := "1"
			if overl > 3 {
				oc = "4+"
			} else if overl > 1 {
				oc = "2-3"
			}
			r.Nontrivial(fmt.Sprintf("g=%d/ops=%d/overlaps=%s/max=%d", G, len(ops), oc, maxTx))
		}
		if c < 4 {
			r.Sample(map[string]interface{}{"case": c, "goroutines": G, "calls": len(ops), "conflicting-overlaps": overl, "search-steps": steps})
		}
	}
}

func magnitude(n int) string {
	switch {
	case n < 100:
		return "<100"
	case n < 1000:
		return "<1e3"
	case n < 100000:
		return "<1e5"
	}
	return ">=1e5"
}

var txMu sync.Mutex

func mkTxSafe(id int) *types.Transaction {
	txMu.Lock()
	defer txMu.Unlock()
	return mkTx(id)
}

func mkEntrySafe(id int, attrs string) *tc.TXEntry {
	e := &tc.TXEntry{Tx: mkTxSafe(id)}
	for _, a := range parseAttrs(attrs) {
		e.Attrs = append(e.Attrs, &tc.TXAttr{Height: uint32(a.height), Type: vt.VerifyType(a.kind), ErrCode: errors.ErrCode(a.err)})
	}
	return e
}

func idOfTx(t *types.Transaction) int {
	txMu.Lock()
	defer txMu.Unlock()
	if id, ok := txIdOf[t.Hash()]; ok {
		return id
	}
	return -1
}

func idsOf(l []*types.Transaction) []int {
	var r []int
	for _, t := range l {
		r = append(r, idOfTx(t))
	}
	return r
}
