package main

import (
	"fmt"
	"sort"
	"strconv"
	"strings"

	"github.com/polynetwork/poly/common"
	"github.com/polynetwork/poly/common/config"
	"github.com/polynetwork/poly/common/log"
	"github.com/polynetwork/poly/core/payload"
	"github.com/polynetwork/poly/core/types"
	"github.com/polynetwork/poly/errors"
	tc "github.com/polynetwork/poly/txnpool/common"
	vt "github.com/polynetwork/poly/validator/types"
	"polyverif/internal/hx"
)

// Family pool (C37, sequential part): the real txnpool/common.TXPool driven by op sequences over a small
// alphabet of transactions. Transaction <id> is a real Invoke transaction with Nonce=id (re-created from its
// raw bytes for every op, so equality is by hash, never by pointer).
//
//	add <id> <attrs>            -> true|false n=<count>      attrs = kind:height:err,... | -
//	del <id>                    -> true|false n=<count>
//	clean <id>*                 -> ok n=<count>
//	get <byCount> <height> <maxTx>   -> ntx=<k>              (the lists depend on Go's map order; see getobs)
//	getobs <byCount> <height> <maxTx> tx=<ids> old=<ids> -> ok   (op line written from the observation of the
//	                               preceding get; the model checks that some iteration order produces it)
//	unv <height> <id>*          -> ver=<id:h:e,..> unv=<ids> old=<ids> n=<count>
//	remain                      -> r=<sorted ids> n=0
//	has <id> | status <id> | count
//
// Besides the outcome compared with the Lean model, Exec evaluates the property on the implementation's outputs
// against a plain Go map kept by the harness (r.Viol).
type poolFam struct {
	tp     *tc.TXPool
	shadow map[int][]attr // reference finite map id -> attrs
	obs    string // observation of the last get, rendered as the tail of a getobs op
}

type attr struct{ kind, height, err int }

func init() {
	families["pool"] = func() hx.Family { return &poolFam{} }
}

var txCache = map[int][]byte{}

func mkTx(id int) *types.Transaction {
	raw, ok := txCache[id]
	if !ok {
		tx := &types.Transaction{Version: 0, TxType: types.Invoke, Nonce: uint32(id),
			Payload: &payload.InvokeCode{Code: []byte{byte(id), byte(id >> 8), byte(id >> 16), 7}}}
		sink := common.NewZeroCopySink(nil)
		if err := tx.Serialization(sink); err != nil {
			panic(err)
		}
		raw = sink.Bytes()
		txCache[id] = raw
	}
	tx, err := types.TransactionFromRawBytes(raw)
	if err != nil {
		panic(err)
	}
	txIdOf[tx.Hash()] = id
	return tx
}

var txIdOf = map[common.Uint256]int{}

func (f *poolFam) Reset(r *hx.Run) {
	log.InitLog(log.ErrorLog, log.Stdout)
	f.tp = &tc.TXPool{}
	f.tp.Init()
	f.shadow = map[int][]attr{}
	f.obs = ""
}

func parseAttrs(s string) []attr {
	if s == "-" {
		return nil
	}
	var res []attr
	for _, a := range strings.Split(s, ",") {
		p := strings.Split(a, ":")
		k, _ := strconv.Atoi(p[0])
		h, _ := strconv.Atoi(p[1])
		e, _ := strconv.Atoi(p[2])
		res = append(res, attr{k, h, e})
	}
	return res
}

func showAttrs(as []*tc.TXAttr) string {
	if len(as) == 0 {
		return "-"
	}
	var p []string
	for _, a := range as {
		p = append(p, fmt.Sprintf("%d:%d:%d", a.Type, a.Height, a.ErrCode))
	}
	return strings.Join(p, ",")
}

func showIds(l []int) string {
	if len(l) == 0 {
		return "-"
	}
	var p []string
	for _, x := range l {
		p = append(p, strconv.Itoa(x))
	}
	return strings.Join(p, ",")
}

func atoi(s string) int { n, _ := strconv.Atoi(s); return n }

func (f *poolFam) idOf(tx *types.Transaction) int {
	if id, ok := txIdOf[tx.Hash()]; ok {
		return id
	}
	return -1
}

func (f *poolFam) idsOfTxs(txs []*types.Transaction) []int {
	var l []int
	for _, t := range txs {
		l = append(l, f.idOf(t))
	}
	return l
}

// stale reports whether the reference entry must be re-verified at `height` (independent restatement of the rule:
// some stateful result below the requested height).
func stale(as []attr, height int) bool {
	for _, a := range as {
		if a.kind == int(vt.Stateful) && a.height < height {
			return true
		}
	}
	return false
}

func (f *poolFam) checkSize(r *hx.Run, where string) {
	if f.tp.GetTransactionCount() != len(f.shadow) {
		r.Viol("C37:size-differs-from-reference:"+where, fmt.Sprintf("after %s the pool holds %d entries, the reference map %d", where, f.tp.GetTransactionCount(), len(f.shadow)))
	}
}

func (f *poolFam) Exec(r *hx.Run, op []string) string {
	switch op[0] {
	case "add":
		id := atoi(op[1])
		tx := mkTx(id)
		as := parseAttrs(op[2])
		e := &tc.TXEntry{Tx: tx}
		for _, a := range as {
			e.Attrs = append(e.Attrs, &tc.TXAttr{Height: uint32(a.height), Type: vt.VerifyType(a.kind), ErrCode: errors.ErrCode(a.err)})
		}
		_, present := f.shadow[id]
		ok := f.tp.AddTxList(e)
		if ok == present {
			if ok {
				r.Viol("C37:duplicate-hash-accepted", fmt.Sprintf("AddTxList accepted transaction %d although an entry with the same hash is in the pool", id))
			} else {
				r.Viol("C37:new-hash-refused", fmt.Sprintf("AddTxList refused transaction %d although no entry with that hash is in the pool", id))
			}
		}
		if !present {
			f.shadow[id] = as
		}
		f.checkSize(r, "add")
		if st := f.tp.GetTxStatus(tx.Hash()); st == nil || showAttrs(st.Attrs) != f.refAttrs(id) {
			r.Viol("C37:add-changed-existing-entry", fmt.Sprintf("after AddTxList(%d) the stored results differ from the reference (first add wins)", id))
		}
		return fmt.Sprintf("%v n=%d", ok, f.tp.GetTransactionCount())
	case "del":
		id := atoi(op[1])
		_, present := f.shadow[id]
		ok := f.tp.DelTxList(mkTx(id))
		if ok != present {
			r.Viol("C37:del-result-wrong", fmt.Sprintf("DelTxList(%d) = %v, present in reference = %v", id, ok, present))
		}
		delete(f.shadow, id)
		f.checkSize(r, "del")
		return fmt.Sprintf("%v n=%d", ok, f.tp.GetTransactionCount())
	case "clean":
		var txs []*types.Transaction
		for _, s := range op[1:] {
			txs = append(txs, mkTx(atoi(s)))
			delete(f.shadow, atoi(s))
		}
		f.tp.CleanTransactionList(txs)
		f.checkSize(r, "clean")
		// exactly the included ones are gone
		for _, s := range op[1:] {
			if f.tp.GetTransaction(mkTx(atoi(s)).Hash()) != nil {
				r.Viol("C37:clean-left-included-tx", fmt.Sprintf("transaction %s of the committed block is still in the pool", s))
			}
		}
		for id := range f.shadow {
			if f.tp.GetTransaction(mkTx(id).Hash()) == nil {
				r.Viol("C37:clean-removed-other-tx", fmt.Sprintf("transaction %d was not in the committed block but is gone", id))
			}
		}
		return fmt.Sprintf("ok n=%d", f.tp.GetTransactionCount())
	case "get":
		byCount := op[1] == "1"
		height, maxTx := atoi(op[2]), atoi(op[3])
		config.DefConfig.Consensus.MaxTxInBlock = uint(maxTx)
		reps := 3
		var res string
		for k := 0; k < reps; k++ { // Go re-randomises the map order on every range
			txl, old := f.tp.GetTxPool(byCount, uint32(height))
			f.checkGet(r, byCount, height, maxTx, txl, old)
			var txIds []int
			for _, e := range txl {
				txIds = append(txIds, f.idOf(e.Tx))
			}
			f.obs = fmt.Sprintf("%s %d %d tx=%s old=%s", op[1], height, maxTx, showIds(txIds), showIds(f.idsOfTxs(old)))
			res = fmt.Sprintf("ntx=%d", len(txl))
		}
		return res
	case "getobs":
		return "ok"
	case "unv":
		height := atoi(op[1])
		var txs []*types.Transaction
		var ids []int
		for _, s := range op[2:] {
			txs = append(txs, mkTx(atoi(s)))
			ids = append(ids, atoi(s))
		}
		// reference classification on the shadow map (sequential semantics of the loop)
		var wantVer, wantUnv, wantOld []string
		for _, id := range ids {
			as, ok := f.shadow[id]
			if !ok {
				wantUnv = append(wantUnv, strconv.Itoa(id))
				continue
			}
			if stale(as, height) {
				wantOld = append(wantOld, strconv.Itoa(id))
				delete(f.shadow, id)
				continue
			}
			for _, a := range as {
				if a.kind == int(vt.Stateful) {
					wantVer = append(wantVer, fmt.Sprintf("%d:%d:%d", id, a.height, a.err))
					break
				}
			}
		}
		res := f.tp.GetUnverifiedTxs(txs, uint32(height))
		var ver []string
		for _, v := range res.VerifiedTxs {
			ver = append(ver, fmt.Sprintf("%d:%d:%d", f.idOf(v.Tx), v.Height, v.ErrCode))
		}
		j := func(l []string) string {
			if len(l) == 0 {
				return "-"
			}
			return strings.Join(l, ",")
		}
		out := fmt.Sprintf("ver=%s unv=%s old=%s n=%d", j(ver), showIds(f.idsOfTxs(res.UnverifiedTxs)), showIds(f.idsOfTxs(res.OldTxs)), f.tp.GetTransactionCount())
		want := fmt.Sprintf("ver=%s unv=%s old=%s n=%d", j(wantVer), j(wantUnv), j(wantOld), len(f.shadow))
		if out != want {
			r.Viol("C37:unverified-classification", fmt.Sprintf("GetUnverifiedTxs at height %d gives %s, reference %s", height, out, want))
		}
		return out
	case "remain":
		txs := f.tp.Remain()
		ids := f.idsOfTxs(txs)
		sort.Ints(ids)
		var want []int
		for id := range f.shadow {
			want = append(want, id)
		}
		sort.Ints(want)
		if showIds(ids) != showIds(want) || f.tp.GetTransactionCount() != 0 {
			r.Viol("C37:remain-not-everything", fmt.Sprintf("Remain returned %s and left %d entries; the pool held %s", showIds(ids), f.tp.GetTransactionCount(), showIds(want)))
		}
		f.shadow = map[int][]attr{}
		return fmt.Sprintf("r=%s n=%d", showIds(ids), f.tp.GetTransactionCount())
	case "has":
		return fmt.Sprint(f.tp.GetTransaction(mkTx(atoi(op[1])).Hash()) != nil)
	case "status":
		st := f.tp.GetTxStatus(mkTx(atoi(op[1])).Hash())
		if st == nil {
			return "nil"
		}
		return showAttrs(st.Attrs)
	case "count":
		return strconv.Itoa(f.tp.GetTransactionCount())
	}
	return "bad-op"
}

func (f *poolFam) refAttrs(id int) string {
	as := f.shadow[id]
	if len(as) == 0 {
		return "-"
	}
	var p []string
	for _, a := range as {
		p = append(p, fmt.Sprintf("%d:%d:%d", a.kind, a.height, a.err))
	}
	return strings.Join(p, ",")
}

// checkGet evaluates the GetTxPool clauses of the property on one real result.
func (f *poolFam) checkGet(r *hx.Run, byCount bool, height, maxTx int, txl []*tc.TXEntry, old []*types.Transaction) {
	limit := len(f.shadow)
	if byCount && maxTx > 0 && maxTx < limit {
		limit = maxTx
	}
	if len(txl) > limit {
		r.Viol("C37:get-over-count", fmt.Sprintf("GetTxPool(byCount=%v) returned %d entries, limit %d (MaxTxInBlock %d, pool %d)", byCount, len(txl), limit, maxTx, len(f.shadow)))
	}
	seen := map[int]bool{}
	nEligible, nStale := 0, 0
	for _, as := range f.shadow {
		if stale(as, height) {
			nStale++
		} else {
			nEligible++
		}
	}
	for _, e := range txl {
		id := f.idOf(e.Tx)
		as, ok := f.shadow[id]
		if !ok {
			r.Viol("C37:get-returned-absent-tx", fmt.Sprintf("GetTxPool returned transaction %d which is not in the pool", id))
			continue
		}
		if seen[id] {
			r.Viol("C37:get-returned-duplicate", fmt.Sprintf("GetTxPool returned transaction %d twice", id))
		}
		seen[id] = true
		if stale(as, height) {
			r.Viol("C37:get-returned-stale-tx", fmt.Sprintf("GetTxPool(height=%d) handed out transaction %d whose stateful verification is older", height, id))
		}
	}
	seenOld := map[int]bool{}
	for _, t := range old {
		id := f.idOf(t)
		as, ok := f.shadow[id]
		if !ok || !stale(as, height) || seenOld[id] {
			r.Viol("C37:get-old-list-wrong", fmt.Sprintf("GetTxPool(height=%d) reported transaction %d for re-verification (in pool=%v, stale=%v, repeated=%v)", height, id, ok, ok && stale(as, height), seenOld[id]))
		}
		seenOld[id] = true
	}
	want := limit
	if nEligible < want {
		want = nEligible
	}
	if len(txl) != want {
		r.Viol("C37:get-wrong-number", fmt.Sprintf("GetTxPool returned %d entries; %d eligible, limit %d", len(txl), nEligible, limit))
	}
	if len(txl) < limit && len(old) != nStale {
		r.Viol("C37:get-stale-not-reported", fmt.Sprintf("GetTxPool scanned the whole pool but reported %d of %d stale entries", len(old), nStale))
	}
}

func (f *poolFam) Gen(r *hx.Run) {
	r.Rule("op sequences (add/del/clean/get/unv/remain/has/status) over 3..14 transaction ids with verification heights around the queried heights; every get is executed 3 times (fresh Go map order) and its last observation is re-checked by the model through a witness order; distinct non-trivial = distinct (ops multiset signature, final size) of cases with at least one refused duplicate add and one get that was cut by the count or reported stale entries")
	nCases := r.Pick(5000, 150000)
	for c := 0; c < nCases; c++ {
		r.Case(fmt.Sprintf("seq-%d", c))
		nIds := 3 + r.Rng.Intn(12)
		nOps := 5 + r.Rng.Intn(r.Pick(30, 60))
		hBase := r.Rng.Intn(6)
		dupRefused, cutOrStale := false, false
		sig := []string{}
		genAttrs := func() string {
			switch r.Rng.Intn(10) {
			case 0:
				return "-"
			case 1:
				return fmt.Sprintf("0:%d:0", r.Rng.Intn(8)) // stateless only
			case 2:
				return fmt.Sprintf("1:%d:%d,0:0:0", hBase+r.Rng.Intn(4), r.Rng.Intn(2)) // stateful first
			case 3:
				return fmt.Sprintf("0:0:0,1:%d:0,1:%d:1", hBase+r.Rng.Intn(4), hBase+r.Rng.Intn(4)) // two stateful results
			case 4:
				return fmt.Sprintf("0:%d:0,2:%d:0", r.Rng.Intn(3), r.Rng.Intn(3)) // unknown validator kind
			default:
				return fmt.Sprintf("0:0:0,1:%d:%d", hBase+r.Rng.Intn(4), []int{0, 0, 0, 5}[r.Rng.Intn(4)])
			}
		}
		idList := func(n int) string {
			var p []string
			for i := 0; i < n; i++ {
				p = append(p, strconv.Itoa(r.Rng.Intn(nIds+1)))
			}
			return strings.Join(p, " ")
		}
		for k := 0; k < nOps; k++ {
			switch x := r.Rng.Intn(20); {
			case x < 8:
				res := r.Do(fmt.Sprintf("add %d %s", r.Rng.Intn(nIds), genAttrs()))
				if strings.HasPrefix(res, "false") {
					dupRefused = true
				}
				sig = append(sig, "a")
			case x < 10:
				r.Do(fmt.Sprintf("del %d", r.Rng.Intn(nIds+1)))
				sig = append(sig, "d")
			case x < 12:
				r.Do(strings.TrimSpace("clean " + idList(r.Rng.Intn(5))))
				sig = append(sig, "c")
			case x < 16:
				maxTx := []int{0, 1, 2, 3, 5, 50000}[r.Rng.Intn(6)]
				h := hBase + r.Rng.Intn(5)
				res := r.Do(fmt.Sprintf("get %d %d %d", r.Rng.Intn(2), h, maxTx))
				obs := f.obs
				r.Do("getobs " + obs)
				if !strings.HasSuffix(obs, "old=-") || (res != "ntx=0" && maxTx > 0 && maxTx < len(f.shadow)) {
					cutOrStale = true
				}
				sig = append(sig, "g")
			case x < 18:
				r.Do(strings.TrimSpace(fmt.Sprintf("unv %d %s", hBase+r.Rng.Intn(5), idList(r.Rng.Intn(6)))))
				sig = append(sig, "u")
			case x < 19:
				if r.Rng.Chance(1, 3) {
					r.Do("remain")
					sig = append(sig, "r")
				} else {
					r.Do(fmt.Sprintf("status %d", r.Rng.Intn(nIds)))
				}
			default:
				r.Do(fmt.Sprintf("has %d", r.Rng.Intn(nIds+1)))
			}
		}
		res := r.Do("count")
		if dupRefused && cutOrStale {
			sort.Strings(sig)
			r.Nontrivial(strings.Join(sig, "") + "/" + res)
		}
		r.Hist(fmt.Sprintf("final-size.%s", res))
		if c%400 == 0 {
			r.Sample(map[string]interface{}{"case": c, "ids": nIds, "ops": nOps, "final": res})
		}
	}
}
