package main

import (
	"fmt"
	"os"
	"path/filepath"
	"strconv"
	"sync"
	"time"

	"github.com/ontio/ontology-eventbus/actor"
	"github.com/polynetwork/poly/common"
	"github.com/polynetwork/poly/common/log"
	"github.com/polynetwork/poly/core/ledger"
	"github.com/polynetwork/poly/core/payload"
	"github.com/polynetwork/poly/core/types"
	"github.com/polynetwork/poly/errors"
	"github.com/polynetwork/poly/events/message"
	tc "github.com/polynetwork/poly/txnpool/common"
	tp "github.com/polynetwork/poly/txnpool/proc"
	vt "github.com/polynetwork/poly/validator/types"
	"polyverif/internal/hx"
)

// Family poolsrv (C37, server level): the real TXPoolServer with its three actors and two workers, driven at the real
// constants (MAX_CAPACITY, MAX_LIMITATION) through the same messages the node uses (TxReq, VerifyBlockReq,
// SaveBlockCompleteMsg), with two scripted validators (stateless, stateful) that either answer at once or hold their
// answers until released. Counts are read at quiescent points only.
//
//	start <C> <L> <preexec>   -> pool=0 pending=0 slots=<L>      (C, L = the real constants, written by Gen)
//	fill <n>                  -> pool=.. pending=0 slots=..       n fresh transactions, validators answering
//	hold | pass               -> ok                               validators hold / answer
//	submit <k>                -> pool=.. pending=.. slots=..       k fresh transactions (validators holding)
//	release                   -> pool=.. pending=0 slots=..        held answers are delivered
//	saveblock                 -> pool=.. pending=.. slots=..       SaveBlockCompleteMsg with an empty block
//	vblock <k>                -> pool=.. pending=0 slots=..        VerifyBlockReq with k fresh transactions
//	state                     -> pool=.. pending=.. slots=..
//
// Property oracle: after every op, pool <= MAX_CAPACITY (r.Viol keyed by the path that broke it).
type srvFam struct {
	s        *tp.TXPoolServer
	txPid    *actor.PID
	poolPid  *actor.PID
	rspPid   *actor.PID
	vals     []*scriptedValidator
	valPids  []*actor.PID
	nextTx   int
	dir      string
	lastPath string
	preexec  bool
	height   uint32
	lastPool int // pool size at the previous oracle evaluation
}

func init() { families["poolsrv"] = func() hx.Family { return &srvFam{} } }

type scriptedValidator struct {
	mu     sync.Mutex
	typ    vt.VerifyType
	hold   bool
	queue  []heldReq
	height uint32
}

type heldReq struct {
	req    *vt.CheckTx
	sender *actor.PID
}

func (v *scriptedValidator) answer(h heldReq) {
	h.sender.Tell(&vt.CheckResponse{WorkerId: h.req.WorkerId, Type: v.typ, Hash: h.req.Tx.Hash(), Height: v.height, ErrCode: errors.ErrNoError})
}

func (v *scriptedValidator) Receive(ctx actor.Context) {
	switch msg := ctx.Message().(type) {
	case *vt.CheckTx:
		h := heldReq{msg, ctx.Sender()}
		v.mu.Lock()
		if v.hold {
			v.queue = append(v.queue, h)
			v.mu.Unlock()
			return
		}
		v.mu.Unlock()
		v.answer(h)
	}
}

func (v *scriptedValidator) setHold(b bool) {
	v.mu.Lock()
	v.hold = b
	q := v.queue
	if !b {
		v.queue = nil
	}
	v.mu.Unlock()
	if !b {
		for _, h := range q {
			v.answer(h)
		}
	}
}

var permittedAddr = common.Address{0x51, 0x52, 0x53}
var ledgerOnce sync.Once

func (f *srvFam) stop() {
	if f.s != nil {
		for _, p := range f.valPids {
			p.Stop()
		}
		f.s.Stop()
		f.s = nil
	}
}

func (f *srvFam) Reset(r *hx.Run) {
	log.InitLog(log.ErrorLog, log.Stdout)
	f.stop()
}

// startServer builds the pool server as txnpool.StartTxnPoolServer does (unnamed actors) plus two scripted validators.
func (f *srvFam) startServer(preexec bool) {
	ledgerOnce.Do(func() {
		base := os.Getenv("TMPDIR")
		if base == "" {
			base = os.TempDir()
		}
		f.dir = filepath.Join(base, fmt.Sprintf("hpool-ledger-%d", os.Getpid()))
		lg, err := ledger.NewLedger(f.dir)
		if err != nil {
			panic(err)
		}
		ledger.DefLedger = lg // isValidSender reads the relayer registry through it (empty here)
		tp.VerifSetPermittedAddrs([]common.Address{permittedAddr})
	})
	f.preexec = preexec
	f.s = tp.NewTxPoolServer(tc.MAX_WORKER_NUM, !f.preexec, true)
	spawn := func(a actor.Actor) *actor.PID {
		return actor.Spawn(actor.FromProducer(func() actor.Actor { return a }))
	}
	f.rspPid = spawn(tp.NewVerifyRspActor(f.s))
	f.s.RegisterActor(tc.VerifyRspActor, f.rspPid)
	f.poolPid = spawn(tp.NewTxPoolActor(f.s))
	f.s.RegisterActor(tc.TxPoolActor, f.poolPid)
	f.txPid = spawn(tp.NewTxActor(f.s))
	f.s.RegisterActor(tc.TxActor, f.txPid)
	f.vals = []*scriptedValidator{{typ: vt.Stateless, height: 1 << 20}, {typ: vt.Stateful, height: 1 << 20}}
	f.valPids = nil
	for i, v := range f.vals {
		pid := spawn(v)
		f.valPids = append(f.valPids, pid)
		f.rspPid.Tell(&vt.RegisterValidator{Sender: pid, Type: v.typ, Id: "v" + strconv.Itoa(i)})
	}
	time.Sleep(50 * time.Millisecond)
}

func (f *srvFam) newTx() *types.Transaction {
	f.nextTx++
	id := f.nextTx
	tx := &types.Transaction{Version: 0, TxType: types.Invoke, Nonce: uint32(id),
		Payload: &payload.InvokeCode{Code: []byte{byte(id), byte(id >> 8), byte(id >> 16), byte(id >> 24)}}}
	sink := common.NewZeroCopySink(nil)
	if err := tx.Serialization(sink); err != nil {
		panic(err)
	}
	t2, err := types.TransactionFromRawBytes(sink.Bytes())
	if err != nil {
		panic(err)
	}
	t2.SignedAddr = []common.Address{permittedAddr}
	return t2
}

func (f *srvFam) counts() (int, int, int) {
	return f.s.VerifPoolCount(), f.s.VerifPendingCount(), f.s.VerifSlots()
}

func (f *srvFam) show() string {
	p, q, s := f.counts()
	return fmt.Sprintf("pool=%d pending=%d slots=%d", p, q, s)
}

// barrier returns when the actor has handled everything sent to it before (actors handle one message at a time, in
// order); false when it does not answer in time (the TxActor is blocked waiting for a slot).
func barrier(pid *actor.PID, msg interface{}, d time.Duration) bool {
	_, err := pid.RequestFuture(msg, d).Result()
	return err == nil
}

func (f *srvFam) waitPendingZero() {
	deadline := time.Now().Add(300 * time.Second)
	for time.Now().Before(deadline) {
		if _, q, _ := f.counts(); q == 0 {
			return
		}
		time.Sleep(3 * time.Millisecond)
	}
}

func (f *srvFam) oracle(r *hx.Run, path string) {
	p, _, _ := f.counts()
	grew := p > f.lastPool
	f.lastPool = p
	if p > tc.MAX_CAPACITY && grew {
		r.Viol("C37:capacity-exceeded:"+path, fmt.Sprintf("the pool holds %d verified transactions, MAX_CAPACITY is %d (reached through: %s)", p, tc.MAX_CAPACITY, path))
	}
}

func (f *srvFam) Exec(r *hx.Run, op []string) string {
	switch op[0] {
	case "start":
		f.startServer(op[3] == "1")
		f.height = 0
		f.lastPool = 0
		if strconv.Itoa(tc.MAX_CAPACITY) != op[1] || strconv.Itoa(tc.MAX_LIMITATION) != op[2] {
			return "bad-op:constants-differ"
		}
		return f.show()
	case "fill":
		n, _ := strconv.Atoi(op[1])
		// batches below the number of slots, each awaited: every transaction passes the capacity test as long as
		// the pool stays below capacity, independently of scheduling
		for n > 0 {
			b := n
			if b > 4000 {
				b = 4000
			}
			// close to the capacity the transactions go in one at a time, each awaited: the capacity test counts a
			// transaction twice while it is being moved from pending to the pool, which is schedule dependent
			p0, q0, _ := f.counts()
			if room := tc.MAX_CAPACITY - p0 - q0; room > 300 {
				if b > room-200 {
					b = room - 200
				}
			} else {
				b = 1
			}
			for i := 0; i < b; i++ {
				f.txPid.Tell(&tc.TxReq{Tx: f.newTx(), Sender: tc.NetSender})
			}
			barrier(f.txPid, &tc.GetTxnCountReq{}, 300*time.Second)
			f.waitPendingZero()
			n -= b
		}
		f.oracle(r, "sequential-admission")
		return f.show()
	case "hold":
		for _, v := range f.vals {
			v.setHold(true)
		}
		return "ok"
	case "pass":
		for _, v := range f.vals {
			v.setHold(false)
		}
		return "ok"
	case "submit":
		k, _ := strconv.Atoi(op[1])
		for _, v := range f.vals { // submit is defined with holding validators (also when a shrunk replay lost the `hold` line)
			v.setHold(true)
		}
		for i := 0; i < k; i++ {
			f.txPid.Tell(&tc.TxReq{Tx: f.newTx(), Sender: tc.NetSender})
		}
		if !barrier(f.txPid, &tc.GetTxnCountReq{}, 5*time.Second) {
			r.Hist("txactor-blocked-on-slot")
		}
		if f.lastPath == "" {
			f.lastPath = "check-then-act"
		}
		return f.show()
	case "release":
		for _, v := range f.vals {
			v.setHold(false)
		}
		barrier(f.txPid, &tc.GetTxnCountReq{}, 300*time.Second)
		f.waitPendingZero()
		barrier(f.txPid, &tc.GetTxnCountReq{}, 300*time.Second)
		f.waitPendingZero()
		if f.lastPath == "" {
			f.lastPath = "release"
		}
		f.oracle(r, f.lastPath)
		f.lastPath = ""
		return f.show()
	case "saveblock":
		f.height++
		blk := &types.Block{Header: &types.Header{Height: f.height}}
		f.poolPid.Tell(&message.SaveBlockCompleteMsg{Block: blk})
		barrier(f.poolPid, &tc.GetPendingTxnReq{}, 300*time.Second)
		f.lastPath = "reverify-window"
		return f.show()
	case "vblock":
		k, _ := strconv.Atoi(op[1])
		var txs []*types.Transaction
		for i := 0; i < k; i++ {
			txs = append(txs, f.newTx())
		}
		f.poolPid.Tell(&tc.VerifyBlockReq{Height: f.height, Txs: txs})
		barrier(f.poolPid, &tc.GetPendingTxnReq{}, 300*time.Second)
		f.waitPendingZero()
		f.oracle(r, "verify-block")
		return f.show()
	case "race-saveblock":
		// a saved block (pre-execution enabled: the whole pool goes to re-verification) and k new transactions at
		// the same time, validators answering; the counts in between depend on the schedule, only the oracle
		// is evaluated at the end
		k, _ := strconv.Atoi(op[1])
		var txs []*types.Transaction
		for i := 0; i < k; i++ {
			txs = append(txs, f.newTx())
		}
		f.height++
		f.poolPid.Tell(&message.SaveBlockCompleteMsg{Block: &types.Block{Header: &types.Header{Height: f.height}}})
		for _, t := range txs {
			f.txPid.Tell(&tc.TxReq{Tx: t, Sender: tc.NetSender})
		}
		barrier(f.poolPid, &tc.GetPendingTxnReq{}, 300*time.Second)
		barrier(f.txPid, &tc.GetTxnCountReq{}, 300*time.Second)
		f.waitPendingZero()
		barrier(f.txPid, &tc.GetTxnCountReq{}, 300*time.Second)
		f.waitPendingZero()
		p, _, _ := f.counts()
		r.Hist(fmt.Sprintf("race-saveblock.over-capacity-by.%d", maxInt(0, p-tc.MAX_CAPACITY)))
		f.oracle(r, "reverify-window")
		return "ok"
	case "state":
		return f.show()
	}
	return "bad-op"
}

func maxInt(a, b int) int {
	if a > b {
		return a
	}
	return b
}

func (f *srvFam) Gen(r *hx.Run) {
	C, L := tc.MAX_CAPACITY, tc.MAX_LIMITATION
	// scenario 1+2: check-then-act
	r.Case("admission-race")
	r.Do(fmt.Sprintf("start %d %d 0", C, L))
	r.Do(fmt.Sprintf("fill %d", C-1))
	r.Do("hold")
	r.Do(fmt.Sprintf("submit %d", L))
	r.Do("release")
	r.Do("fill 5") // the pool is over capacity now: everything is refused
	r.Nontrivial("admission-race")
	// scenario 4 on the same server: block verification ignores the capacity
	r.Do("vblock 300")
	r.Nontrivial("verify-block-over-capacity")
	r.Case("sequential-to-capacity")
	r.Do(fmt.Sprintf("start %d %d 0", C, L))
	r.Do(fmt.Sprintf("fill %d", C))
	r.Do("fill 50")
	r.Do("hold")
	r.Do("submit 20")
	r.Do("release")
	if r.Thorough() {
		r.Case("admission-race-plus-one")
		r.Do(fmt.Sprintf("start %d %d 0", C, L))
		r.Do(fmt.Sprintf("fill %d", C-1))
		r.Do("hold")
		r.Do(fmt.Sprintf("submit %d", L+1)) // the last one passes the test and waits for a slot
		r.Do("release")
		r.Nontrivial("admission-race-plus-one")
	}
	// scenario 3: re-verification window
	r.Case("reverify-window")
	r.Do(fmt.Sprintf("start %d %d 1", C, L))
	r.Do(fmt.Sprintf("fill %d", 3*L))
	r.Do("hold")
	r.Do("saveblock")
	r.Do(fmt.Sprintf("submit %d", L))
	r.Do("release")
	if r.Thorough() {
		r.Do(fmt.Sprintf("fill %d", C-1-4*L))
		r.Do("hold")
		r.Do("saveblock")
		r.Do(fmt.Sprintf("submit %d", L))
		r.Do("release")
		r.Do("hold")
		r.Do("saveblock")
		r.Do(fmt.Sprintf("submit %d", L))
		r.Do("release")
	}
	r.Nontrivial("reverify-window")
	// scenario 5: the same saved block racing with new submissions (validators answering): between Remain() and the
	// re-queueing the capacity test sees an (almost) empty pool. Schedule dependent; only the oracle is evaluated.
	r.Case("reverify-race")
	r.Do(fmt.Sprintf("start %d %d 1", C, L))
	r.Do(fmt.Sprintf("fill %d", C-1))
	r.Do(fmt.Sprintf("race-saveblock %d", L))
	r.Nontrivial("reverify-race")
	f.stop()
	if f.dir != "" {
		os.RemoveAll(f.dir)
	}
}
