package main

import (
	"fmt"
	"sort"
	"strconv"
	"strings"
	"time"

	"github.com/polynetwork/poly/common"
	"github.com/polynetwork/poly/common/config"
	"github.com/polynetwork/poly/common/log"
	"github.com/polynetwork/poly/core/types"
	tc "github.com/polynetwork/poly/txnpool/common"
	vt "github.com/polynetwork/poly/validator/types"
	"polyverif/internal/hx"
)

// Family poolord (C37, verify-result calls): the real TXPoolServer with two scripted validators whose answers are
// released one validator at a time, at chosen heights, so that every order of (stateless answer, stateful answer,
// height raised by consensus) is driven; GetTxnPoolReq is then sent as consensus does.
//
//	ostart <maxTx>           -> ok
//	osub <id>                -> pool=.. pending=..       TxReq for transaction <id>
//	oans <0|1> <height>      -> pool=.. pending=..       the stateless (0) / stateful (1) validator answers every request it holds
//	oget <byCount> <height>  -> handed=<ids> pool=.. pending=..   GetTxnPoolReq
//
// Property oracle on every GetTxnPoolRsp: each entry handed to consensus for height h carries a result of BOTH
// validators and every stateful result was obtained at height >= h.
type ordFam struct {
	srvFam
	txs       map[int]*types.Transaction
	idOf      map[common.Uint256]int
	srvHeight uint32
}

func init() { families["poolord"] = func() hx.Family { return &ordFam{} } }

func (f *ordFam) Reset(r *hx.Run) {
	log.InitLog(log.ErrorLog, log.Stdout)
	f.stop()
}

func (f *ordFam) showCounts() string {
	p, q, _ := f.counts()
	return fmt.Sprintf("pool=%d pending=%d", p, q)
}

func (f *ordFam) status(id int) []*tc.TXAttr {
	res, err := f.txPid.RequestFuture(&tc.GetTxnStatusReq{Hash: f.txs[id].Hash()}, 30*time.Second).Result()
	if err != nil {
		return nil
	}
	if rsp, ok := res.(*tc.GetTxnStatusRsp); ok {
		return rsp.TxStatus
	}
	return nil
}

func (f *ordFam) Exec(r *hx.Run, op []string) string {
	switch op[0] {
	case "ostart":
		m, _ := strconv.Atoi(op[1])
		config.DefConfig.Consensus.MaxTxInBlock = uint(m)
		f.startServer(false)
		for _, v := range f.vals {
			v.setHold(true)
		}
		f.txs = map[int]*types.Transaction{}
		f.idOf = map[common.Uint256]int{}
		f.srvHeight = 0
		return "ok"
	case "osub":
		id, _ := strconv.Atoi(op[1])
		tx, ok := f.txs[id]
		if !ok {
			tx = f.newTx()
			f.txs[id] = tx
			f.idOf[tx.Hash()] = id
		}
		f.txPid.Tell(&tc.TxReq{Tx: tx, Sender: tc.NetSender})
		barrier(f.txPid, &tc.GetTxnCountReq{}, 60*time.Second)
		// the worker forwards the request to the validators asynchronously: wait until both hold it
		deadline := time.Now().Add(20 * time.Second)
		for time.Now().Before(deadline) {
			n := 0
			for _, v := range f.vals {
				v.mu.Lock()
				for _, h := range v.queue {
					if h.req.Tx.Hash() == tx.Hash() {
						n++
						break
					}
				}
				v.mu.Unlock()
			}
			if n == len(f.vals) {
				break
			}
			time.Sleep(time.Millisecond)
		}
		return f.showCounts()
	case "oans":
		ty, _ := strconv.Atoi(op[1])
		h, _ := strconv.Atoi(op[2])
		v := f.vals[ty]
		v.mu.Lock()
		v.height = uint32(h)
		q := v.queue
		v.queue = nil
		v.mu.Unlock()
		for _, hr := range q {
			v.answer(hr)
		}
		// wait until every answer has been consumed by its worker: the result is recorded (pending list or pool), or,
		// for a stateful answer below the server height, the request has come back to the validator
		requeue := ty == int(vt.Stateful) && uint32(h) < f.srvHeight
		deadline := time.Now().Add(20 * time.Second)
		for _, hr := range q {
			id := f.idOf[hr.req.Tx.Hash()]
			for time.Now().Before(deadline) {
				done := false
				if requeue {
					v.mu.Lock()
					for _, x := range v.queue {
						if x.req.Tx.Hash() == hr.req.Tx.Hash() {
							done = true
						}
					}
					v.mu.Unlock()
				} else {
					for _, a := range f.status(id) {
						if int(a.Type) == ty && a.Height == uint32(h) {
							done = true
						}
					}
				}
				if done {
					break
				}
				time.Sleep(time.Millisecond)
			}
		}
		time.Sleep(2 * time.Millisecond)
		return f.showCounts()
	case "oget":
		h, _ := strconv.Atoi(op[2])
		_, pend0, _ := f.counts()
		f.vals[1].mu.Lock()
		q0 := len(f.vals[1].queue)
		f.vals[1].mu.Unlock()
		res, err := f.poolPid.RequestFuture(&tc.GetTxnPoolReq{ByCount: op[1] == "1", Height: uint32(h)}, 60*time.Second).Result()
		if err != nil {
			return "err:timeout"
		}
		f.srvHeight = uint32(h)
		rsp := res.(*tc.GetTxnPoolRsp)
		var ids []int
		for _, e := range rsp.TxnPool {
			id := f.idOf[e.Tx.Hash()]
			ids = append(ids, id)
			kinds := map[vt.VerifyType]bool{}
			for _, a := range e.Attrs {
				kinds[a.Type] = true
				if a.Type == vt.Stateful && a.Height < uint32(h) {
					r.Viol("C37:handed-out-below-requested-height", fmt.Sprintf("GetTxnPoolReq(height=%d) handed out transaction %d whose stateful verification was made at height %d and was not repeated", h, id, a.Height))
				}
			}
			if !kinds[vt.Stateless] || !kinds[vt.Stateful] {
				r.Viol("C37:handed-out-without-both-validators", fmt.Sprintf("GetTxnPoolReq handed out transaction %d without a result of both validators", id))
			}
		}
		sort.Ints(ids)
		// re-verification requests of stale entries reach the (holding) stateful validator asynchronously
		_, pend, _ := f.counts()
		deadline := time.Now().Add(20 * time.Second)
		for time.Now().Before(deadline) {
			f.vals[1].mu.Lock()
			n := len(f.vals[1].queue)
			f.vals[1].mu.Unlock()
			if n >= q0+(pend-pend0) {
				break
			}
			time.Sleep(time.Millisecond)
		}
		return fmt.Sprintf("handed=%s %s", showIds(ids), f.showCounts())
	}
	return "bad-op"
}

func (f *ordFam) Gen(r *hx.Run) {
	r.Rule("scripted answer orders on the real pool server: per case 1..4 transactions; the stateless and the stateful validator answer separately at chosen heights, GetTxnPoolReq raises the server height in between, stale entries go to re-verification and are answered again (also below the new height); the two fixed scenarios are (stateful first at 5, height raised to 8, stateless last, get at 8) and the ordinary order; distinct non-trivial = scenarios in which an entry with an old stateful result was in the pool when GetTxnPoolReq asked for a higher height")
	g := r.Rng
	n := 0
	run := func(name string, ops []string) {
		n++
		r.Case(fmt.Sprintf("%s-%d", name, n))
		for _, o := range ops {
			r.Do(o)
		}
	}
	run("stateful-first-then-bump", []string{"ostart 50000", "osub 1", "osub 2", "osub 3", "oans 1 5", "oget 1 8", "oans 0 0",
		"oget 1 8", "oans 1 9", "oget 1 8", "oget 0 9", "oget 1 10", "oans 1 10", "oget 1 10"})
	r.Nontrivial("stateful-first-then-bump")
	run("ordinary-order", []string{"ostart 50000", "osub 1", "osub 2", "oans 0 0", "oans 1 5", "oget 1 5", "oget 1 8", "oans 1 7",
		"oans 1 8", "oget 1 8"})
	r.Nontrivial("ordinary-order")
	for c := 0; c < r.Pick(25, 1500); c++ {
		ops := []string{"ostart 50000"}
		nid := 1 + g.Intn(4)
		height := 0
		next := 1
		for k := 0; k < 6+g.Intn(10); k++ {
			switch x := g.Intn(10); {
			case x < 2 && next <= nid:
				ops = append(ops, fmt.Sprintf("osub %d", next))
				next++
			case x < 5:
				ops = append(ops, fmt.Sprintf("oans 1 %d", maxInt(0, height-2+g.Intn(6))))
			case x < 7:
				ops = append(ops, "oans 0 0")
			default:
				height += g.Intn(4)
				ops = append(ops, fmt.Sprintf("oget %d %d", g.Intn(2), height))
			}
		}
		ops = append(ops, "oans 0 0", fmt.Sprintf("oans 1 %d", height), fmt.Sprintf("oget 1 %d", height))
		run("rand", ops)
		if strings.Contains(strings.Join(ops, ";"), "oget") {
			r.Nontrivial(fmt.Sprintf("rand/%d/%d", nid, len(ops)%5))
		}
	}
	f.stop()
}
