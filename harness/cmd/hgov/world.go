package main

import (
	"crypto/elliptic"
	"encoding/hex"
	"fmt"
	"math/big"
	"sort"
	"strconv"
	"strings"

	"github.com/ontio/ontology-crypto/ec"
	"github.com/ontio/ontology-crypto/keypair"
	"github.com/polynetwork/poly/common"
	"github.com/polynetwork/poly/core/store/leveldbstore"
	"github.com/polynetwork/poly/core/store/overlaydb"
	"github.com/polynetwork/poly/core/types"
	"github.com/polynetwork/poly/native"
	"github.com/polynetwork/poly/native/event"
	"github.com/polynetwork/poly/native/service/governance/neo3_state_manager"
	"github.com/polynetwork/poly/native/service/governance/node_manager"
	"github.com/polynetwork/poly/native/service/governance/relayer_manager"
	"github.com/polynetwork/poly/native/service/governance/side_chain_manager"
	"github.com/polynetwork/poly/native/service/governance/signature_manager"
	"github.com/polynetwork/poly/native/service/utils"
	"github.com/polynetwork/poly/native/states"
	"github.com/polynetwork/poly/native/storage"
	"polyverif/internal/hx"

	"crypto/ecdsa"
)

// The governance contracts are registered exactly as native/service/init.go does (that package is not imported: it
// would link every light client).
func init() {
	native.Contracts[utils.SideChainManagerContractAddress] = side_chain_manager.RegisterSideChainManagerContract
	native.Contracts[utils.NodeManagerContractAddress] = node_manager.RegisterNodeManagerContract
	native.Contracts[utils.RelayerManagerContractAddress] = relayer_manager.RegisterRelayerManagerContract
	native.Contracts[utils.Neo3StateManagerContractAddress] = neo3_state_manager.RegisterStateValidatorManagerContract
	native.Contracts[utils.SignatureManagerContractAddress] = signature_manager.RegisterSignatureManagerContract
}

// world is the state of one case: a real overlay over an in-memory LevelDB; every op is one transaction
// (fresh CacheDB; committed iff the handler returns no error, as core/store/ledgerstore/tx_handler.go does).
type world struct {
	overlay *overlaydb.OverlayDB
	height  uint32
	time    uint32
	sh      *shadow
	cur     *snapshot       // canonical state after the last op (nil: not computed)
	keys    map[string]bool // declared public keys (hex of the canonical serialization)
	dry     bool            // the current op is pre-executed: nothing is committed
}

// keyKnown: a string that denotes a public key may be used only after a `key` line declared that key (the model
// knows public keys only through these lines; the rule keeps them in shrunk replays).
func (w *world) keyKnown(pk string) bool {
	b, err := hex.DecodeString(strTok(pk))
	if err != nil {
		return true
	}
	k, err := keypair.DeserializePublicKey(b)
	if err != nil {
		return true
	}
	return w.keys[hex.EncodeToString(keypair.SerializePublicKey(k))]
}

// now returns the current canonical state (cached between ops).
func (w *world) now() *snapshot {
	if w.cur == nil {
		w.cur = w.snap()
	}
	return w.cur
}

// undeclared: a transaction that names a public key without a `key` line is not executed; it is answered like a
// rejected transaction (which is what the model, knowing no such key, answers for every op that names one). Only
// shrunk replays contain such lines.
func (w *world) undeclared() string { return "err " + digest(w.now().text()) }

// One in-memory LevelDB and overlay serve all cases: nothing is ever flushed to the LevelDB (the harness never calls
// CommitTo), so resetting the overlay's write set gives a fresh, empty state.
var sharedOverlay *overlaydb.OverlayDB

func newWorld() *world {
	if sharedOverlay == nil {
		store, err := leveldbstore.NewMemLevelDBStore()
		if err != nil {
			panic(err)
		}
		sharedOverlay = overlaydb.NewOverlayDB(store)
	}
	sharedOverlay.Reset()
	return &world{overlay: sharedOverlay, height: 1, sh: newShadow(), keys: map[string]bool{}}
}

// deterministic P-256 key from a 64-bit seed: (compressed public key bytes, address)
func mkKey(seed uint64) ([]byte, common.Address) {
	c := elliptic.P256()
	d := new(big.Int).SetUint64(seed)
	d.Mul(d, big.NewInt(0x9E3779B1))
	d.Add(d, big.NewInt(0x1234567))
	x, y := c.ScalarBaseMult(d.Bytes())
	pk := &ec.PublicKey{Algorithm: ec.ECDSA, PublicKey: &ecdsa.PublicKey{Curve: c, X: x, Y: y}}
	return keypair.SerializePublicKey(pk), types.AddressFromPubKey(pk)
}

var addrCache = map[string]*common.Address{}

func addrOfPkBytes(b []byte) (common.Address, bool) {
	if a, ok := addrCache[string(b)]; ok {
		if a == nil {
			return common.Address{}, false
		}
		return *a, true
	}
	pk, err := keypair.DeserializePublicKey(b)
	if err != nil {
		addrCache[string(b)] = nil
		return common.Address{}, false
	}
	a := types.AddressFromPubKey(pk)
	addrCache[string(b)] = &a
	return a, true
}

func parseAddr(s string) (common.Address, bool) {
	b, err := hex.DecodeString(s)
	if err != nil || len(b) != 20 {
		return common.Address{}, false
	}
	a, _ := common.AddressParseFromBytes(b)
	return a, true
}

func ahex(a common.Address) string { return hex.EncodeToString(a[:]) }

// signer token: "-" (nobody signed) or comma separated addresses
func parseSigners(s string) ([]common.Address, bool) {
	if s == "-" {
		return nil, true
	}
	var res []common.Address
	for _, p := range strings.Split(s, ",") {
		a, ok := parseAddr(p)
		if !ok {
			return nil, false
		}
		res = append(res, a)
	}
	return res, true
}

func strTok(s string) string { // "-" is the empty string
	if s == "-" {
		return ""
	}
	return s
}

func u64(s string) (uint64, bool) {
	v, err := strconv.ParseUint(s, 10, 64)
	return v, err == nil
}

type callResult struct {
	err    bool
	ret    string // "1"/"0"/hex
	events []string
}

// invoke runs one native method as one transaction through NativeService.Invoke (real dispatch).
func (w *world) invoke(signers []common.Address, contract common.Address, method string, args []byte) callResult {
	cache := storage.NewCacheDB(w.overlay)
	tx := &types.Transaction{SignedAddr: signers}
	ip := states.ContractInvokeParam{Address: contract, Method: method, Args: args}
	sink := common.NewZeroCopySink(nil)
	ip.Serialization(sink)
	svc, err := native.NewNativeService(cache, tx, w.time, w.height, common.Uint256{}, 0, sink.Bytes(), w.dry)
	if err != nil {
		panic(err)
	}
	res, err := svc.Invoke()
	if err != nil {
		return callResult{err: true}
	}
	if !w.dry {
		cache.Commit()
	}
	out := callResult{events: eventNames(svc.GetNotify())}
	if b, ok := res.([]byte); ok {
		if len(b) == 1 && b[0] == 1 {
			out.ret = "1"
		} else if len(b) == 1 && b[0] == 0 {
			out.ret = "0"
		} else {
			out.ret = hx.Hex(b)
		}
	} else {
		out.ret = fmt.Sprintf("%v", res)
	}
	return out
}

// direct runs a function that is not a registered method (CheckVotes) as one transaction.
func (w *world) direct(signers []common.Address, f func(svc *native.NativeService) (bool, error)) callResult {
	return w.directIn(signers, nil, f)
}

// directIn: like direct, with the transaction input the function reads through GetInput.
func (w *world) directIn(signers []common.Address, input []byte, f func(svc *native.NativeService) (bool, error)) callResult {
	cache := storage.NewCacheDB(w.overlay)
	tx := &types.Transaction{SignedAddr: signers}
	svc, err := native.NewNativeService(cache, tx, w.time, w.height, common.Uint256{}, 0, input, w.dry)
	if err != nil {
		panic(err)
	}
	ok, err := f(svc)
	if err != nil {
		return callResult{err: true}
	}
	if !w.dry {
		cache.Commit()
	}
	out := callResult{events: eventNames(svc.GetNotify()), ret: "0"}
	if ok {
		out.ret = "1"
	}
	return out
}

func eventNames(ns []*event.NotifyEventInfo) []string {
	var res []string
	for _, n := range ns {
		st, ok := n.States.([]interface{})
		if !ok || len(st) == 0 {
			res = append(res, "?")
			continue
		}
		name := fmt.Sprint(st[0])
		if name == "CheckConsensusSigns" && len(st) > 1 {
			name += ":" + fmt.Sprint(st[1])
		}
		res = append(res, name)
	}
	return res
}

func (c callResult) fired(name string) bool {
	for _, e := range c.events {
		if e == name {
			return true
		}
	}
	return false
}

func (c callResult) line(digest string) string {
	if c.err {
		return "err " + digest
	}
	ev := "-"
	if len(c.events) > 0 {
		ev = strings.Join(c.events, ",")
	}
	return "ok:" + c.ret + " " + ev + " " + digest
}

func sortedKeys(m map[string]string) []string {
	ks := make([]string, 0, len(m))
	for k := range m {
		ks = append(ks, k)
	}
	sort.Strings(ks)
	return ks
}
