package main

import (
	"crypto/sha256"
	"encoding/hex"
	"fmt"
	"sort"
	"strings"

	"github.com/ontio/ontology-crypto/keypair"
	"github.com/polynetwork/poly/common"
	"polyverif/internal/hx"
)

func sha256hex(b []byte) string {
	h := sha256.Sum256(b)
	return hex.EncodeToString(h[:])
}

func hxSprint(e interface{}) string { return fmt.Sprint(e) }

// shadow evaluates the properties themselves (C25, C32..C35) on what the implementation did: it keeps only
// property-level bookkeeping (who approved what since when, which request is fresh, who owns which chain id),
// never a copy of the handlers' logic.
type shadow struct {
	startActive int // active members right after init (C34 applies from pools of at least four)
	inited      bool

	fresh map[string]bool // C33: request key -> requested and not yet applied
	gen   map[string]int  // request key -> number of successful request ops so far
	// C32: per request key, who approved it: under any circumstances since it last took effect (anyA), while the
	// request had a given content (byIdent), with given op tokens since a given request write (byExact)
	anyA     map[string]map[common.Address]bool
	byIdent  map[string]map[common.Address]bool
	byExact  map[string]map[common.Address]bool
	quitReq  map[uint64]common.Address          // C35: pending quit request -> requester
	voters   map[string]map[common.Address]bool // C25
	released map[string]bool
}

func newShadow() *shadow {
	return &shadow{fresh: map[string]bool{}, gen: map[string]int{}, anyA: map[string]map[common.Address]bool{}, byIdent: map[string]map[common.Address]bool{}, byExact: map[string]map[common.Address]bool{},
		quitReq: map[uint64]common.Address{}, voters: map[string]map[common.Address]bool{}, released: map[string]bool{}}
}

func (s *snapshot) curPool() []poolItem {
	if s.gv == nil {
		return nil
	}
	return s.pools[s.gv.View]
}

// consensusAddrs: distinct addresses of the consensus members of the current view.
func (s *snapshot) consensusAddrs() map[common.Address]bool {
	res := map[common.Address]bool{}
	for _, it := range s.curPool() {
		if it.Status != 1 {
			continue
		}
		b, err := hex.DecodeString(it.Pk)
		if err != nil {
			continue
		}
		if a, ok := addrOfPkBytes(b); ok {
			res[a] = true
		}
	}
	return res
}

func active(items []poolItem) int {
	n := 0
	for _, it := range items {
		if it.Status == 0 || it.Status == 1 {
			n++
		}
	}
	return n
}

func ceil23(n int) int { return (2*n + 2) / 3 }

type approveSpec struct {
	method  string // ledger method
	event   string // notification that the action was applied
	reqKind string // C33 request kind ("" = no request object)
}

var approveOps = map[string]approveSpec{
	"appr":       {"approveCandidate", "approveCandidate", "cand"},
	"black":      {"blackNode", "blackNode", ""},
	"white":      {"whiteNode", "whiteNode", ""},
	"scappr":     {"approveRegisterSideChain", "ApproveRegisterSideChain", "screg"},
	"scapprupd":  {"approveUpdateSideChain", "ApproveUpdateSideChain", "scupd"},
	"scapprquit": {"quitSideChain", "ApproveQuitSideChain", "scquit"},
	"rlappr":     {"approveRegisterRelayer", "ApproveRegisterRelayer", "rlreg"},
	"rlapprrm":   {"approveRemoveRelayer", "ApproveRemoveRelayer", "rlrm"},
	"svappr":     {"approveRegisterStateValidator", "ApproveRegisterStateValidator", "svreg"},
	"svapprrm":   {"approveRemoveStateValidator", "ApproveRemoveStateValidator", "svrm"},
}

func pkBytesKey(pk string) string {
	b, err := hex.DecodeString(strTok(pk))
	if err != nil {
		return "str:" + pk
	}
	return hex.EncodeToString(b)
}

// pkIdentity: the public key a pool key string denotes (canonical serialization of the deserialized key); several
// byte strings deserialize to the same key (hex case, trailing bytes, uncompressed form).
func pkIdentity(pk string) string {
	b, err := hex.DecodeString(strTok(pk))
	if err != nil {
		return "str:" + pk
	}
	k, err := keypair.DeserializePublicKey(b)
	if err != nil {
		return hex.EncodeToString(b)
	}
	return hex.EncodeToString(keypair.SerializePublicKey(k))
}

// requestKey identifies the request an approve op refers to (by what the request is about, not by the spelling).
func requestKey(op []string) (reqKey string, ledgerInput string, claimed string) {
	switch op[0] {
	case "appr", "white":
		return pkBytesKey(op[2]), op[2], op[3]
	case "black":
		return strings.Join(op[3:], "+"), strings.Join(op[3:], "+"), op[2]
	default:
		return op[2], op[2], op[3]
	}
}

func idNum(s string) uint64 {
	if s == "-" {
		return 0
	}
	v, _ := u64(s)
	return v
}

// afterPanic: a handler panicked. Block execution has no recover: on a node this transaction, once in a block, stops
// every node that executes the block. For an approval transaction that is a defect of the approval state machine
// whatever the request state (C33: a late or repeated approval round must simply have no effect).
func (sh *shadow) afterPanic(r *hx.Run, w *world, op []string) {
	if spec, ok := approveOps[op[0]]; ok {
		r.Viol("C33:approval-panics:"+spec.reqKind, fmt.Sprintf("%s panicked (%s): an approval for a request that is not pending (already applied, or never made) reached the quorum and dereferenced the missing request record; block execution does not recover panics",
			spec.method, r.PanicMsg))
	}
}

func (sh *shadow) after(r *hx.Run, w *world, op []string, pre, post *snapshot, cr callResult) {
	name := op[0]
	okOp := !cr.err
	// ------------------------------------------------------------------ request ops: a fresh request exists (C33)
	if okOp {
		switch name {
		case "reg":
			k := "cand|" + pkBytesKey(op[2])
			sh.fresh[k] = true
			sh.gen[k]++
			if b, err := hex.DecodeString(strTok(op[2])); err == nil && pre.blackSet[hex.EncodeToString(b)] {
				r.Viol("C34:blacklisted-key-registered", fmt.Sprintf("registerCandidate succeeded for public key %s which is on the blacklist", op[2]))
			}
		case "unreg":
			sh.fresh["cand|"+pkBytesKey(op[2])] = false
			sh.gen["cand|"+pkBytesKey(op[2])]++
		case "screg", "scupd":
			// C35: who may request what (evaluated on the committed registry before the transaction)
			if cid, ok := u64(op[3]); ok {
				owner, registered := pre.scOwner[cid]
				if name == "screg" && registered {
					r.Viol("C35:registration-request-accepted-for-registered-chain", fmt.Sprintf("registerSideChain for chain id %d succeeded although the id is registered (owner %s)", cid, ahex(owner)))
				}
				if name == "scupd" && (!registered || ahex(owner) != op[2]) {
					r.Viol("C35:update-request-accepted-from-non-owner", fmt.Sprintf("updateSideChain for chain id %d by %s succeeded; registered: %v, owner %s", cid, op[2], registered, ahex(owner)))
				}
			}
			k := name + "|" + op[3]
			sh.gen[k]++
			sh.fresh[k] = true
		case "scquit":
			if cid, ok := u64(op[2]); ok {
				owner, registered := pre.scOwner[cid]
				if !registered || ahex(owner) != op[3] {
					r.Viol("C35:quit-request-accepted-from-non-owner", fmt.Sprintf("quitSideChain for chain id %d by %s succeeded; registered: %v, owner %s", cid, op[3], registered, ahex(owner)))
				}
			}
			k := name + "|" + op[2]
			a, _ := parseAddr(op[3])
			sh.gen[k]++
			sh.fresh[k] = true
			sh.quitReq[idNum(op[2])] = a
		case "rlreg":
			k := fmt.Sprintf("rlreg|%d", idNum(pre.rlaid))
			sh.fresh[k] = true
			sh.gen[k]++
		case "rlrm":
			k := fmt.Sprintf("rlrm|%d", idNum(pre.rlrid))
			sh.fresh[k] = true
			sh.gen[k]++
		case "svreg":
			k := fmt.Sprintf("svreg|%d", idNum(pre.svaid))
			sh.fresh[k] = true
			sh.gen[k]++
		case "svrm":
			k := fmt.Sprintf("svrm|%d", idNum(pre.svrid))
			sh.fresh[k] = true
			sh.gen[k]++
		}
	}
	// a request transaction only stores the request: if the record the request is about changes already now, the action
	// was applied without any validator approval (C32), and a request that produced its effect must not stay pending (C33)
	if okOp {
		if kind, rk, changed, pending := requestEffect(pre, post, name, op); kind != "" && changed {
			r.Viol("C32:applied-without-approval:"+kind, fmt.Sprintf("%s changed the record it only requests to change (no approval counted): %s", name, strings.Join(op, " ")))
			if pending {
				r.Viol("C33:request-took-effect-but-still-pending:"+kind, fmt.Sprintf("%s took effect immediately and its request is still stored as pending", name))
			}
			sh.fresh[rk] = false
		}
	}
	// ------------------------------------------------------------------ approve ops: quorum (C32) and consumption (C33)
	if spec, isApprove := approveOps[name]; isApprove && okOp {
		reqKey, ledgerInput, claimed := requestKey(op)
		a, _ := parseAddr(claimed)
		rk := spec.reqKind + "|" + reqKey
		if spec.reqKind == "" {
			rk = spec.method + "|" + reqKey
		}
		// The request the approval refers to: its content at this moment (ident) and its write sequence number.
		// Two counts bracket every reasonable reading of "approved that same action and request":
		//   upper = validators that approved while the request had the present content (any spelling, any time since it
		//           last took effect); an action applied with fewer is applied below quorum;
		//   lower = validators that approved with exactly these tokens since the request was last written; an action
		//           not applied with that many is not applied at quorum.
		if spec.reqKind != "" && sh.gen[spec.reqKind+"|"+reqKey] == 0 {
			r.Viol("C33:approval-accepted-for-unknown-request:"+spec.reqKind, fmt.Sprintf("%s with request id %s succeeded although no such request was ever stored", spec.method, reqKey))
		}
		ident := rk + "#" + requestIdent(pre, spec.reqKind, op)
		exact := fmt.Sprintf("%s#%s#%d", rk, ledgerInput, sh.gen[rk])
		add := func(m map[string]map[common.Address]bool, k string) map[common.Address]bool {
			if m[k] == nil {
				m[k] = map[common.Address]bool{}
			}
			m[k][a] = true
			return m[k]
		}
		cons := pre.consensusAddrs()
		thr := ceil23(len(cons))
		count := func(set map[common.Address]bool) int {
			n := 0
			for x := range set {
				if cons[x] {
					n++
				}
			}
			return n
		}
		cntAny, cntUpper, cntLower := count(add(sh.anyA, rk)), count(add(sh.byIdent, ident)), count(add(sh.byExact, exact))
		firedNow := cr.fired(spec.event)
		// the action counts as applied when its notification was emitted or when the record it acts on changed
		// (a handler may apply the action and return before the notification)
		if !firedNow && spec.reqKind != "" && targetChanged(pre, post, spec.reqKind, op) {
			r.Hist("approve." + name + ".applied-without-notification")
			firedNow = true
		}
		r.Hist(fmt.Sprintf("approve.%s.fired=%v", name, firedNow))
		switch {
		case firedNow && cntAny < thr:
			r.Viol("C32:applied-below-quorum:"+spec.method, fmt.Sprintf("%s was applied with %d distinct consensus validators having approved it; %d validators, ceil(2N/3) = %d",
				spec.method, cntAny, len(cons), thr))
		case firedNow && cntUpper < thr:
			r.Viol("C32:approvals-of-earlier-request-counted:"+spec.method, fmt.Sprintf("%s was applied although only %d of the %d required validators approved the request as it is now; %d approvals given before the request was withdrawn or replaced by a different one were counted",
				spec.method, cntUpper, thr, cntAny-cntUpper))
		case !firedNow && cntLower >= thr:
			r.Viol("C32:not-applied-at-quorum:"+spec.method, fmt.Sprintf("%s was not applied although %d distinct consensus validators approved it (N = %d, ceil(2N/3) = %d)",
				spec.method, cntLower, len(cons), thr))
		}
		if firedNow {
			r.Nontrivial(fmt.Sprintf("fire/%s/N=%d", name, len(cons)))
			delete(sh.anyA, rk)
			for k := range sh.byIdent {
				if strings.HasPrefix(k, rk+"#") {
					delete(sh.byIdent, k)
				}
			}
			for k := range sh.byExact {
				if strings.HasPrefix(k, rk+"#") {
					delete(sh.byExact, k)
				}
			}
			if spec.reqKind != "" {
				if !sh.fresh[rk] {
					r.Viol("C33:applied-again-without-fresh-request:"+spec.reqKind, fmt.Sprintf("%s took effect for request %s although that request had already been applied (or withdrawn) and no new request was made", spec.method, reqKey))
				}
				sh.fresh[rk] = false
				if stillPending(post, spec.reqKind, op) {
					r.Viol("C33:request-still-pending-after-approval:"+spec.reqKind, fmt.Sprintf("%s took effect for request %s but the request record is still stored as pending", spec.method, reqKey))
				}
			}
			sh.registry(r, name, op, pre, post)
			sh.relayers(r, name, op, pre, post)
		}
	}
	// ------------------------------------------------------------------ pool invariants (C34)
	if name == "init" && okOp {
		if sh.inited {
			r.Viol("C34:initConfig-executed-again", fmt.Sprintf("initConfig, sent as an ordinary transaction without any signature, succeeded on an initialised node manager: the pool of view %d with %d members was replaced by %d members, view %d",
				pre.gv.View, len(pre.curPool()), len(post.curPool()), post.gv.View))
		} else {
			sh.startActive = active(post.curPool())
		}
		sh.inited = true
	}
	if sh.inited && okOp {
		sh.poolInvariants(r, w, name, op, pre, post, cr)
	}
	// ------------------------------------------------------------------ votes (C25)
	if name == "fee" && okOp {
		// C25: a fee proposal is a vote; only a current consensus validator may cast it (a released ledger entry
		// ignores the vote without looking at the voter)
		a, _ := parseAddr(op[2])
		if !pre.consensusAddrs()[a] && !voteLedgerReleased(pre, op[3], op[4]) {
			r.Viol("C25:outsider-vote-accepted:fee", fmt.Sprintf("updateFee by %s, which is not a current consensus validator, was accepted", op[2]))
		}
	}
	if name == "vote" || name == "sig" || name == "deposit" || name == "rdeposit" {
		sh.votes(r, name, op, pre, cr)
	}
}

// requestIdent: the content of the pending request an approve op refers to ("" when there is no request object).
func requestIdent(pre *snapshot, kind string, op []string) string {
	pad := func(s string) string { return fmt.Sprintf("%020d", idNum(s)) }
	switch kind {
	case "cand":
		return pre.apply[pkBytesKey(op[2])]
	case "screg":
		return pre.scapply[pad(op[2])]
	case "scupd":
		return pre.scupd[pad(op[2])]
	}
	return ""
}

// requestEffect: for a request transaction: its kind, request key, whether the record the request is about changed in
// this very transaction, and whether the request is stored as pending afterwards.
func requestEffect(pre, post *snapshot, name string, op []string) (kind, rk string, changed, pending bool) {
	pad := func(s string) string { return fmt.Sprintf("%020d", idNum(s)) }
	has := func(m map[string]string, k string) bool { _, ok := m[k]; return ok }
	switch name {
	case "reg":
		return "cand", "cand|" + pkBytesKey(op[2]), fmt.Sprint(pre.curPool()) != fmt.Sprint(post.curPool()), has(post.apply, pkBytesKey(op[2]))
	case "screg":
		return "screg", "screg|" + op[3], pre.sc[pad(op[3])] != post.sc[pad(op[3])], has(post.scapply, pad(op[3]))
	case "scupd":
		return "scupd", "scupd|" + op[3], pre.sc[pad(op[3])] != post.sc[pad(op[3])], has(post.scupd, pad(op[3]))
	case "scquit":
		p := false
		for _, x := range post.scquit {
			if x == pad(op[2]) {
				p = true
			}
		}
		return "scquit", "scquit|" + op[2], pre.sc[pad(op[2])] != post.sc[pad(op[2])], p
	case "rlreg":
		id := fmt.Sprint(idNum(pre.rlaid))
		return "rlreg", "rlreg|" + id, strings.Join(pre.rl, ",") != strings.Join(post.rl, ","), has(post.rlapply, pad(id))
	case "rlrm":
		id := fmt.Sprint(idNum(pre.rlrid))
		return "rlrm", "rlrm|" + id, strings.Join(pre.rl, ",") != strings.Join(post.rl, ","), has(post.rlrm, pad(id))
	case "svreg":
		id := fmt.Sprint(idNum(pre.svaid))
		return "svreg", "svreg|" + id, pre.sv != post.sv, has(post.svapply, pad(id))
	case "svrm":
		id := fmt.Sprint(idNum(pre.svrid))
		return "svrm", "svrm|" + id, pre.sv != post.sv, has(post.svrm, pad(id))
	}
	return "", "", false, false
}

// targetChanged: the record an approval of this kind acts on differs before and after the transaction.
func targetChanged(pre, post *snapshot, kind string, op []string) bool {
	pad := func(s string) string { return fmt.Sprintf("%020d", idNum(s)) }
	switch kind {
	case "cand":
		return fmt.Sprint(pre.curPool()) != fmt.Sprint(post.curPool())
	case "screg", "scupd", "scquit":
		return pre.sc[pad(op[2])] != post.sc[pad(op[2])]
	case "rlreg", "rlrm":
		return strings.Join(pre.rl, ",") != strings.Join(post.rl, ",")
	case "svreg", "svrm":
		return pre.sv != post.sv
	}
	return false
}

func stillPending(post *snapshot, kind string, op []string) bool {
	pad := func(s string) string { return fmt.Sprintf("%020d", idNum(s)) }
	switch kind {
	case "cand":
		_, ok := post.apply[pkBytesKey(op[2])]
		return ok
	case "screg":
		_, ok := post.scapply[pad(op[2])]
		return ok
	case "scupd":
		_, ok := post.scupd[pad(op[2])]
		return ok
	case "scquit":
		for _, x := range post.scquit {
			if x == pad(op[2]) {
				return true
			}
		}
	case "rlreg":
		_, ok := post.rlapply[pad(op[2])]
		return ok
	case "rlrm":
		_, ok := post.rlrm[pad(op[2])]
		return ok
	case "svreg":
		_, ok := post.svapply[pad(op[2])]
		return ok
	case "svrm":
		_, ok := post.svrm[pad(op[2])]
		return ok
	}
	return false
}

// relayers: C36 at the moment a relayer approval took effect: the listed addresses are (not) relayers afterwards.
func (sh *shadow) relayers(r *hx.Run, name string, op []string, pre, post *snapshot) {
	if name != "rlappr" && name != "rlapprrm" {
		return
	}
	pad := fmt.Sprintf("%020d", idNum(op[2]))
	req := pre.rlapply[pad]
	if name == "rlapprrm" {
		req = pre.rlrm[pad]
	}
	list := strings.SplitN(req, "/", 2)[0]
	if list == "" || list == "-" {
		return
	}
	now := map[string]bool{}
	for _, a := range post.rl {
		now[a] = true
	}
	for _, a := range strings.Split(list, ",") {
		if name == "rlappr" && !now[a] {
			r.Viol("C36:approved-relayer-not-registered", fmt.Sprintf("registration request %s (%s) was applied but %s is not stored as relayer", op[2], list, a))
		}
		if name == "rlapprrm" && now[a] {
			r.Viol("C36:removed-relayer-still-registered", fmt.Sprintf("removal request %s (%s) was applied but %s is still stored as relayer", op[2], list, a))
		}
	}
}

// registry: C35 on the side-chain registry at the moment an approval took effect.
func (sh *shadow) registry(r *hx.Run, name string, op []string, pre, post *snapshot) {
	if name != "scappr" && name != "scapprupd" && name != "scapprquit" {
		return
	}
	id := idNum(op[2])
	pad := fmt.Sprintf("%020d", id)
	owner, registered := pre.scOwner[id]
	switch name {
	case "scappr":
		if registered {
			r.Viol("C35:registered-while-registered", fmt.Sprintf("chain id %d was registered although it is already registered", id))
		}
		if post.sc[pad] != pre.scapply[pad] {
			r.Viol("C35:record-differs-from-request:register", fmt.Sprintf("chain id %d: registered record %s differs from the approved request %s", id, post.sc[pad], pre.scapply[pad]))
		}
	case "scapprupd":
		req := pre.scupd[pad]
		requester := strings.SplitN(req, ":", 2)[0]
		if !registered {
			r.Viol("C35:update-applied-to-unregistered-chain", fmt.Sprintf("an update request for chain id %d was approved and stored as the registered record although the chain id is not registered (request by %s)", id, requester))
		} else if requester != ahex(owner) {
			r.Viol("C35:update-by-former-owner-applied", fmt.Sprintf("chain id %d is registered by %s; an update requested by %s (a previous registration's owner) was applied", id, ahex(owner), requester))
		}
		if post.sc[pad] != req {
			r.Viol("C35:record-differs-from-request:update", fmt.Sprintf("chain id %d: registered record %s differs from the approved update request %s", id, post.sc[pad], req))
		}
	case "scapprquit":
		requester, has := sh.quitReq[id]
		if !has {
			r.Viol("C35:removed-without-quit-request", fmt.Sprintf("chain id %d (owner %s) was removed although no quit request was made since the last removal", id, ahex(owner)))
		} else if registered && requester != owner {
			r.Viol("C35:quit-by-former-owner-applied", fmt.Sprintf("chain id %d is registered by %s; a quit requested by %s was applied", id, ahex(owner), ahex(requester)))
		}
		delete(sh.quitReq, id)
		if _, still := post.sc[pad]; still {
			r.Viol("C35:quit-approved-but-still-registered", fmt.Sprintf("chain id %d still registered after the approved quit", id))
		}
	}
}

func (sh *shadow) poolInvariants(r *hx.Run, w *world, name string, op []string, pre, post *snapshot, cr callResult) {
	items := post.curPool()
	if sh.startActive >= 4 && active(items) < 4 {
		r.Viol("C34:fewer-than-four-active:"+name, fmt.Sprintf("after %s the pool of view %d has %d active members", name, post.gv.View, active(items)))
	}
	byKey := map[string][]poolItem{}
	byIdx := map[uint32][]string{}
	for _, it := range items {
		k := pkIdentity(it.Pk)
		byKey[k] = append(byKey[k], it)
	}
	for k, l := range byKey {
		if len(l) > 1 {
			var sp []string
			for _, it := range l {
				sp = append(sp, fmt.Sprintf("%s(index %d, status %d)", it.Pk, it.Index, it.Status))
			}
			sort.Strings(sp)
			r.Viol("C34:public-key-in-two-pool-entries", fmt.Sprintf("public key %s occupies %d pool entries: %s", k, len(l), strings.Join(sp, ", ")))
		}
		byIdx[l[0].Index] = append(byIdx[l[0].Index], k)
	}
	for idx, ks := range byIdx {
		if len(ks) > 1 {
			sort.Strings(ks)
			r.Viol("C34:index-shared-by-distinct-keys", fmt.Sprintf("index %d is used by distinct public keys %v", idx, ks))
		}
	}
	if pre.gv != nil && post.gv != nil && post.gv.View != pre.gv.View {
		// an epoch change happened (CommitDpos, or BlackNode of a consensus member)
		r.Nontrivial(fmt.Sprintf("epoch/%s/n=%d", name, len(items)))
		if post.gv.View != pre.gv.View+1 {
			r.Viol("C34:view-not-advanced-by-one", fmt.Sprintf("view went from %d to %d", pre.gv.View, post.gv.View))
		}
		if pre.gv.Height == w.height {
			r.Viol("C34:two-epoch-changes-in-one-block", fmt.Sprintf("second epoch change at height %d", w.height))
		}
		if post.gv.Height != w.height {
			r.Viol("C34:epoch-height-not-recorded", fmt.Sprintf("governance view height %d, block height %d", post.gv.Height, w.height))
		}
		blacked := map[string]bool{}
		if name == "black" {
			for _, k := range op[3:] {
				blacked[k] = true
			}
		}
		want := map[string]bool{}
		for _, it := range pre.curPool() {
			if (it.Status == 0 || it.Status == 1) && !blacked[it.Pk] {
				want[it.Pk] = true
			}
		}
		got := map[string]bool{}
		for _, it := range items {
			got[it.Pk] = true
			if it.Status != 1 {
				r.Viol("C34:non-consensus-member-after-epoch-change", fmt.Sprintf("member %s has status %d in the new view", it.Pk, it.Status))
			}
		}
		if len(got) != len(items) || !sameSet(got, want) {
			r.Viol("C34:members-after-epoch-change-differ", fmt.Sprintf("new view has %d members, active members before: %d", len(items), len(want)))
		}
	} else if name == "commit" && cr.fired("commitDpos") {
		r.Viol("C34:commit-without-view-change", "commitDpos reported success but the view did not change")
	}
}

func sameSet(a, b map[string]bool) bool {
	if len(a) != len(b) {
		return false
	}
	for k := range a {
		if !b[k] {
			return false
		}
	}
	return true
}

// voteLedgerReleased: the updateFee vote ledger of (chain, view) or (chain, view+1) is already released.
func voteLedgerReleased(pre *snapshot, chain, view string) bool {
	for _, dv := range []uint64{0, 1} {
		id := append([]byte("updateFee"), leBytes(idNum(chain))...)
		id = append(id, leBytes(idNum(view)+dv)...)
		if v, ok := pre.vote[hex.EncodeToString(id)]; ok && strings.HasPrefix(v, "true") {
			return true
		}
	}
	return false
}

func leBytes(n uint64) []byte {
	b := make([]byte, 8)
	for i := 0; i < 8; i++ {
		b[i] = byte(n >> (8 * uint(i)))
	}
	return b
}

// votes: C25 for CheckVotes (`vote`) and CheckSigns (`sig`).
func (sh *shadow) votes(r *hx.Run, name string, op []string, pre *snapshot, cr callResult) {
	var id string
	var a common.Address
	if name == "vote" {
		id = "vote|" + op[2]
		a, _ = parseAddr(op[3])
	} else if name == "deposit" || name == "rdeposit" {
		// the ledger of one exact payload: the id token is the hash of source chain, height and the whole payload
		id = "vote|" + op[6]
		a, _ = parseAddr(op[2])
	} else {
		id = "sig|" + op[6]
		a, _ = parseAddr(op[2])
	}
	witness := false
	if signers, ok := parseSigners(op[1]); ok {
		for _, s := range signers {
			if s == a {
				witness = true
			}
		}
	}
	cons := pre.consensusAddrs()
	firedNow := !cr.err && ((name == "vote" || name == "deposit" || name == "rdeposit") && cr.ret == "1" || name == "sig" && cr.fired("AddSignatureQuorum"))
	if firedNow && sh.released[id] {
		r.Viol("C25:released-twice:"+name, fmt.Sprintf("%s: quorum outcome produced a second time for %s", name, id))
	}
	if (name == "sig" || name == "deposit" || name == "rdeposit") && !witness {
		if !cr.err {
			r.Viol("C25:vote-accepted-without-witness:"+name, name+" accepted a vote for an address that did not sign the transaction")
		}
		return
	}
	if (name == "vote" || name == "deposit" || name == "rdeposit") && sh.released[id] {
		if firedNow {
			return
		}
		if cr.err || cr.ret != "0" {
			r.Hist("vote.after-release.err")
		}
		return
	}
	if !cons[a] {
		if !cr.err {
			r.Viol("C25:outsider-vote-accepted:"+name, fmt.Sprintf("%s by %s, which is not a current consensus validator, was accepted", name, ahex(a)))
		}
		return
	}
	if cr.err && (name == "deposit" || name == "rdeposit") {
		// allowed only when this vote reaches the quorum and the released message cannot be handed on (payload
		// undecodable or source transaction already done): the whole transaction is reverted, the vote is not recorded
		tentative := 0
		for x := range cons {
			if sh.voters[id][x] || x == a {
				tentative++
			}
		}
		if tentative >= ceil23(len(cons)) {
			r.Hist("deposit.reverted-after-quorum")
			return
		}
	}
	if cr.err {
		r.Viol("C25:validator-vote-rejected:"+name, fmt.Sprintf("%s by consensus validator %s was rejected", name, ahex(a)))
		return
	}
	if sh.voters[id] == nil {
		sh.voters[id] = map[common.Address]bool{}
	}
	sh.voters[id][a] = true
	cnt := 0
	for x := range sh.voters[id] {
		if cons[x] {
			cnt++
		}
	}
	thr := ceil23(len(cons))
	want := cnt >= thr && !sh.released[id]
	r.Hist(fmt.Sprintf("%s.fired=%v", name, firedNow))
	if firedNow && !want && !sh.released[id] && len(sh.voters[id]) >= thr {
		// enough recorded votes, but not of validators that are consensus members now
		r.Viol("C25:released-below-quorum:stale-voters", fmt.Sprintf("%s released with %d distinct CURRENT consensus validators of %d (needs %d); %d recorded votes are of pool members that are no longer consensus members (quitting / blacklisted / candidate)", name, cnt, len(cons), thr, len(sh.voters[id])-cnt))
	} else if firedNow && !want && !sh.released[id] {
		r.Viol("C25:released-below-quorum:"+name, fmt.Sprintf("%s released with %d distinct current validators of %d (needs %d)", name, cnt, len(cons), thr))
	}
	if !firedNow && want {
		r.Viol("C25:not-released-at-quorum:"+name, fmt.Sprintf("%s not released although %d distinct current validators of %d voted (needs %d)", name, cnt, len(cons), thr))
	}
	if firedNow {
		sh.released[id] = true
		r.Nontrivial(fmt.Sprintf("release/%s/N=%d", name, len(cons)))
	}
}
