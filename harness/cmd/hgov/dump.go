package main

import (
	"crypto/sha256"
	"encoding/binary"
	"encoding/hex"
	"fmt"
	"math/big"
	"sort"
	"strings"

	"github.com/polynetwork/poly/common"
	cstates "github.com/polynetwork/poly/core/states"
	scom "github.com/polynetwork/poly/core/store/common"
	ccom "github.com/polynetwork/poly/native/service/cross_chain_manager/common"
	"github.com/polynetwork/poly/native/service/cross_chain_manager/consensus_vote"
	"github.com/polynetwork/poly/native/service/governance/neo3_state_manager"
	"github.com/polynetwork/poly/native/service/governance/node_manager"
	"github.com/polynetwork/poly/native/service/governance/relayer_manager"
	"github.com/polynetwork/poly/native/service/governance/side_chain_manager"
	"github.com/polynetwork/poly/native/service/governance/signature_manager"
	"github.com/polynetwork/poly/native/service/utils"
)

// poolItem is one stored pool entry, decoded from the raw stored bytes (not through the map, so that duplicates
// would be visible).
type poolItem struct {
	Index  uint32
	Pk     string
	Addr   common.Address
	Status uint8
}

type snapshot struct {
	gv       *node_manager.GovernanceView
	cand     string
	cfg      string
	pools    map[uint32][]poolItem
	apply    map[string]string // key hex -> "pk:addr"
	pidx     map[string]string
	black    map[string]string
	signs    map[string]string
	scapply  map[string]string
	scupd    map[string]string
	scquit   []string
	sc       map[string]string
	fee      map[string]string
	feeinfo  []string
	scOwner  map[uint64]common.Address
	rl       []string
	rlapply  map[string]string
	rlrm     map[string]string
	rlaid    string
	rlrid    string
	sv       string
	svapply  map[string]string
	svrm     map[string]string
	svaid    string
	svrid    string
	sig      map[string]string
	vote     map[string]string
	done     []string
	unknown  []string
	blackSet map[string]bool // decoded pk hex
}

func rawItems(w *world, contract common.Address) [][2][]byte {
	// committed state lives in the overlay; CacheDB prefixes storage keys with ST_STORAGE
	prefix := append([]byte{byte(scom.ST_STORAGE)}, contract[:]...)
	it := w.overlay.NewIterator(prefix)
	defer it.Release()
	var res [][2][]byte
	for ok := it.First(); ok; ok = it.Next() {
		v := it.Value()
		if len(v) == 0 {
			continue
		}
		k := append([]byte{}, it.Key()...)
		val, err := cstates.GetValueFromRawStorageItem(append([]byte{}, v...))
		if err != nil {
			val = nil
		}
		res = append(res, [2][]byte{k[21:], val})
	}
	return res
}

func le64(b []byte) uint64 { return binary.LittleEndian.Uint64(b) }

// match returns the suffix when key = prefix ++ suffix with len(suffix) == n (n < 0: any length).
func match(key []byte, prefix string, n int) ([]byte, bool) {
	if len(key) < len(prefix) || string(key[:len(prefix)]) != prefix {
		return nil, false
	}
	suf := key[len(prefix):]
	if n >= 0 && len(suf) != n {
		return nil, false
	}
	return suf, true
}

func decodePool(val []byte) ([]poolItem, bool) {
	src := common.NewZeroCopySource(val)
	n, eof := src.NextVarUint()
	if eof {
		return nil, false
	}
	var res []poolItem
	for i := uint64(0); i < n; i++ {
		it := new(node_manager.PeerPoolItem)
		if err := it.Deserialization(src); err != nil {
			return nil, false
		}
		res = append(res, poolItem{it.Index, it.PeerPubkey, it.Address, uint8(it.Status)})
	}
	return res, src.Len() == 0
}

func tokStr(s string) string {
	if s == "" {
		return "-"
	}
	return s
}

func scRec(s *side_chain_manager.SideChain) string {
	return fmt.Sprintf("%s:%d:%d:%s:%d:%s:%s", ahex(s.Address), s.ChainId, s.Router, hexOrDash([]byte(s.Name)), s.BlocksToWait,
		hexOrDash(s.CCMCAddress), hexOrDash(s.ExtraInfo))
}

func hexOrDash(b []byte) string {
	if len(b) == 0 {
		return "-"
	}
	return hex.EncodeToString(b)
}

func (w *world) snap() *snapshot {
	s := &snapshot{pools: map[uint32][]poolItem{}, apply: map[string]string{}, pidx: map[string]string{}, black: map[string]string{},
		signs: map[string]string{}, fee: map[string]string{}, scapply: map[string]string{}, scupd: map[string]string{}, sc: map[string]string{},
		rlapply: map[string]string{}, rlrm: map[string]string{}, svapply: map[string]string{}, svrm: map[string]string{},
		sig: map[string]string{}, vote: map[string]string{}, cand: "-", cfg: "-", rlaid: "-", rlrid: "-", sv: "-", svaid: "-", svrid: "-",
		scOwner: map[uint64]common.Address{}, blackSet: map[string]bool{}}
	unk := func(c byte, k []byte) {
		s.unknown = append(s.unknown, fmt.Sprintf("%02x/%s", c, hex.EncodeToString(k)))
	}
	// node manager
	for _, kv := range rawItems(w, utils.NodeManagerContractAddress) {
		k, v := kv[0], kv[1]
		if _, ok := match(k, node_manager.GOVERNANCE_VIEW, 0); ok {
			gv := new(node_manager.GovernanceView)
			if err := gv.Deserialization(common.NewZeroCopySource(v)); err == nil {
				s.gv = gv
				continue
			}
		} else if _, ok := match(k, node_manager.CANDIDITE_INDEX, 0); ok && len(v) == 4 {
			s.cand = fmt.Sprint(binary.LittleEndian.Uint32(v))
			continue
		} else if _, ok := match(k, node_manager.VBFT_CONFIG, 0); ok {
			c := new(node_manager.Configuration)
			if err := c.Deserialization(common.NewZeroCopySource(v)); err == nil {
				s.cfg = fmt.Sprintf("%d,%d,%d,%d", c.BlockMsgDelay, c.HashMsgDelay, c.PeerHandshakeTimeout, c.MaxBlockChangeView)
				continue
			}
		} else if suf, ok := match(k, node_manager.PEER_POOL, 4); ok {
			if items, ok := decodePool(v); ok {
				s.pools[binary.LittleEndian.Uint32(suf)] = items
				continue
			}
		} else if suf, ok := match(k, node_manager.PEER_APPLY, -1); ok {
			p := new(node_manager.RegisterPeerParam)
			if err := p.Deserialization(common.NewZeroCopySource(v)); err == nil {
				s.apply[hexOrDash(suf)] = tokStr(p.PeerPubkey) + ":" + ahex(p.Address)
				continue
			}
		} else if suf, ok := match(k, node_manager.PEER_INDEX, -1); ok && len(v) == 4 {
			s.pidx[hexOrDash(suf)] = fmt.Sprint(binary.LittleEndian.Uint32(v))
			continue
		} else if suf, ok := match(k, node_manager.BLACK_LIST, -1); ok {
			p := new(node_manager.BlackListItem)
			if err := p.Deserialization(common.NewZeroCopySource(v)); err == nil {
				s.black[hexOrDash(suf)] = tokStr(p.PeerPubkey) + ":" + ahex(p.Address)
				s.blackSet[hex.EncodeToString(suf)] = true
				continue
			}
		} else if suf, ok := match(k, node_manager.CONSENSUS_SIGNS, 32); ok {
			cs := &node_manager.ConsensusSigns{SignsMap: map[common.Address]bool{}}
			if err := cs.Deserialization(common.NewZeroCopySource(v)); err == nil {
				var as []string
				for a, b := range cs.SignsMap {
					if b {
						as = append(as, ahex(a))
					} else {
						as = append(as, ahex(a)+"!false")
					}
				}
				sort.Strings(as)
				s.signs[hex.EncodeToString(suf)] = strings.Join(as, ",")
				continue
			}
		}
		unk(5, k)
	}
	// side chain manager
	for _, kv := range rawItems(w, utils.SideChainManagerContractAddress) {
		k, v := kv[0], kv[1]
		dec := func() (*side_chain_manager.SideChain, bool) {
			sc := new(side_chain_manager.SideChain)
			if err := sc.Deserialization(common.NewZeroCopySource(v)); err != nil {
				return nil, false
			}
			return sc, true
		}
		if suf, ok := match(k, side_chain_manager.SIDE_CHAIN_APPLY, 8); ok {
			if sc, ok := dec(); ok {
				s.scapply[fmt.Sprintf("%020d", le64(suf))] = scRec(sc)
				continue
			}
		} else if suf, ok := match(k, side_chain_manager.UPDATE_SIDE_CHAIN_REQUEST, 8); ok {
			if sc, ok := dec(); ok {
				s.scupd[fmt.Sprintf("%020d", le64(suf))] = scRec(sc)
				continue
			}
		} else if suf, ok := match(k, side_chain_manager.QUIT_SIDE_CHAIN_REQUEST, 8); ok && len(v) == 8 && le64(v) == le64(suf) {
			s.scquit = append(s.scquit, fmt.Sprintf("%020d", le64(suf)))
			continue
		} else if suf, ok := match(k, side_chain_manager.FEE, 8); ok {
			fe := &side_chain_manager.Fee{Fee: new(big.Int)}
			if err := fe.Deserialization(common.NewZeroCopySource(v)); err == nil {
				s.fee[fmt.Sprintf("%020d", le64(suf))] = fmt.Sprintf("%d:%s", fe.View, fe.Fee.String())
				continue
			}
		} else if suf, ok := match(k, side_chain_manager.FEE_INFO, 16); ok {
			fi := &side_chain_manager.FeeInfo{FeeInfo: map[common.Address]*big.Int{}}
			if err := fi.Deserialization(common.NewZeroCopySource(v)); err == nil {
				var es []string
				for a, f := range fi.FeeInfo {
					es = append(es, ahex(a)+"="+f.String())
				}
				sort.Strings(es)
				s.feeinfo = append(s.feeinfo, fmt.Sprintf("%020d/%020d>%d:%s", le64(suf[:8]), le64(suf[8:]), fi.StartTime, strings.Join(es, ",")))
				continue
			}
		} else if _, ok := match(k, side_chain_manager.ASSET_BIND, 8); ok {
			continue // planted setup record of the ripple continuation, not part of the model state
		} else if suf, ok := match(k, side_chain_manager.SIDE_CHAIN, 8); ok {
			if sc, ok := dec(); ok {
				s.sc[fmt.Sprintf("%020d", le64(suf))] = scRec(sc)
				s.scOwner[le64(suf)] = sc.Address
				continue
			}
		}
		unk(4, k)
	}
	sort.Strings(s.scquit)
	sort.Strings(s.feeinfo)
	// relayer manager
	for _, kv := range rawItems(w, utils.RelayerManagerContractAddress) {
		k, v := kv[0], kv[1]
		dec := func() (string, bool) {
			p := new(relayer_manager.RelayerListParam)
			if err := p.Deserialization(common.NewZeroCopySource(v)); err != nil {
				return "", false
			}
			var as []string
			for _, a := range p.AddressList {
				as = append(as, ahex(a))
			}
			return tokStr(strings.Join(as, ",")) + "/" + ahex(p.Address), true
		}
		if suf, ok := match(k, relayer_manager.RELAYER_APPLY, 8); ok {
			if r, ok := dec(); ok {
				s.rlapply[fmt.Sprintf("%020d", le64(suf))] = r
				continue
			}
		} else if suf, ok := match(k, relayer_manager.RELAYER_REMOVE, 8); ok {
			if r, ok := dec(); ok {
				s.rlrm[fmt.Sprintf("%020d", le64(suf))] = r
				continue
			}
		} else if suf, ok := match(k, relayer_manager.RELAYER, 20); ok && hex.EncodeToString(v) == hex.EncodeToString(suf) {
			s.rl = append(s.rl, hex.EncodeToString(suf))
			continue
		} else if _, ok := match(k, relayer_manager.APPLY_ID, 0); ok && len(v) == 8 {
			s.rlaid = fmt.Sprint(le64(v))
			continue
		} else if _, ok := match(k, relayer_manager.REMOVE_ID, 0); ok && len(v) == 8 {
			s.rlrid = fmt.Sprint(le64(v))
			continue
		}
		unk(6, k)
	}
	sort.Strings(s.rl)
	// neo3 state manager
	for _, kv := range rawItems(w, utils.Neo3StateManagerContractAddress) {
		k, v := kv[0], kv[1]
		strs := func(l []string) string {
			var hs []string
			for _, x := range l {
				hs = append(hs, hexOrDash([]byte(x)))
			}
			return tokStr(strings.Join(hs, ","))
		}
		dec := func() (string, bool) {
			p := new(neo3_state_manager.StateValidatorListParam)
			if err := p.Deserialization(common.NewZeroCopySource(v)); err != nil {
				return "", false
			}
			return strs(p.StateValidators) + "/" + ahex(p.Address), true
		}
		if suf, ok := match(k, neo3_state_manager.STATE_VALIDATOR_APPLY, 8); ok {
			if r, ok := dec(); ok {
				s.svapply[fmt.Sprintf("%020d", le64(suf))] = r
				continue
			}
		} else if suf, ok := match(k, neo3_state_manager.STATE_VALIDATOR_REMOVE, 8); ok {
			if r, ok := dec(); ok {
				s.svrm[fmt.Sprintf("%020d", le64(suf))] = r
				continue
			}
		} else if _, ok := match(k, neo3_state_manager.STATE_VALIDATOR, 0); ok {
			if l, err := neo3_state_manager.DeserializeStringArray(v); err == nil {
				s.sv = "[" + strs(l) + "]"
				continue
			}
		} else if _, ok := match(k, neo3_state_manager.STATE_VALIDATOR_APPLY_ID, 0); ok && len(v) == 8 {
			s.svaid = fmt.Sprint(le64(v))
			continue
		} else if _, ok := match(k, neo3_state_manager.STATE_VALIDATOR_REMOVE_ID, 0); ok && len(v) == 8 {
			s.svrid = fmt.Sprint(le64(v))
			continue
		}
		unk(7, k)
	}
	// signature manager
	for _, kv := range rawItems(w, utils.SignatureManagerContractAddress) {
		k, v := kv[0], kv[1]
		if suf, ok := match(k, signature_manager.SIG_INFO, -1); ok {
			si := &signature_manager.SigInfo{SigInfo: map[string][]byte{}}
			if err := si.Deserialization(common.NewZeroCopySource(v)); err == nil {
				var as []string
				bad := false
				for b58, sg := range si.SigInfo {
					a, err := common.AddressFromBase58(b58)
					if err != nil {
						bad = true
						break
					}
					as = append(as, ahex(a)+"="+hexOrDash(sg))
				}
				if !bad {
					sort.Strings(as)
					s.sig[hexOrDash(suf)] = fmt.Sprintf("%v:%s", si.Status, strings.Join(as, ","))
					continue
				}
			}
		}
		unk(8, k)
	}
	// cross chain manager: vote ledgers only (other records of that contract belong to other checks)
	for _, kv := range rawItems(w, utils.CrossChainManagerContractAddress) {
		k, v := kv[0], kv[1]
		if suf, ok := match(k, consensus_vote.VOTE_INFO, -1); ok {
			vi := &consensus_vote.VoteInfo{VoteInfo: map[string]bool{}}
			if err := vi.Deserialization(common.NewZeroCopySource(v)); err == nil {
				var as []string
				bad := false
				for b58, b := range vi.VoteInfo {
					a, err := common.AddressFromBase58(b58)
					if err != nil || !b {
						bad = true
						break
					}
					as = append(as, ahex(a))
				}
				if !bad {
					sort.Strings(as)
					s.vote[hexOrDash(suf)] = fmt.Sprintf("%v:%s", vi.Status, strings.Join(as, ","))
					continue
				}
			}
			unk(3, k)
		} else if suf, ok := match(k, ccom.DONE_TX, -1); ok && len(suf) >= 8 && hex.EncodeToString(v) == hex.EncodeToString(suf[8:]) {
			s.done = append(s.done, fmt.Sprintf("%d/%s", le64(suf[:8]), hexOrDash(suf[8:])))
		}
	}
	sort.Strings(s.done)
	sort.Strings(s.unknown)
	return s
}

func mapStr(m map[string]string) string {
	var parts []string
	for _, k := range sortedKeys(m) {
		parts = append(parts, k+">"+m[k])
	}
	return "[" + strings.Join(parts, "|") + "]"
}

// numeric-keyed maps are stored with zero padded keys for sorting; printed without padding
func mapStrNum(m map[string]string) string {
	var parts []string
	for _, k := range sortedKeys(m) {
		parts = append(parts, strings.TrimLeft(k[:len(k)-1], "0")+k[len(k)-1:]+">"+m[k])
	}
	return "[" + strings.Join(parts, "|") + "]"
}

func unpad(k string) string { return strings.TrimLeft(k[:len(k)-1], "0") + k[len(k)-1:] }

// text is the canonical abstract state; the Lean driver prints the same text from the model state.
func (s *snapshot) text() string {
	var b strings.Builder
	if s.gv != nil {
		fmt.Fprintf(&b, "gv=%d,%d", s.gv.View, s.gv.Height)
	} else {
		b.WriteString("gv=-")
	}
	fmt.Fprintf(&b, ";ci=%s;cfg=%s", s.cand, s.cfg)
	var views []int
	for v := range s.pools {
		views = append(views, int(v))
	}
	sort.Ints(views)
	for _, v := range views {
		var items []string
		for _, it := range s.pools[uint32(v)] {
			items = append(items, fmt.Sprintf("%d:%s:%s:%d", it.Index, tokStr(it.Pk), ahex(it.Addr), it.Status))
		}
		fmt.Fprintf(&b, ";pool%d=[%s]", v, strings.Join(items, "|"))
	}
	fmt.Fprintf(&b, ";apply=%s;pidx=%s;black=%s;signs=%s", mapStr(s.apply), mapStr(s.pidx), mapStr(s.black), mapStr(s.signs))
	var q []string
	for _, x := range s.scquit {
		q = append(q, unpad(x))
	}
	fmt.Fprintf(&b, ";scapply=%s;scupd=%s;scquit=[%s];sc=%s", mapStrNum(s.scapply), mapStrNum(s.scupd), strings.Join(q, ","), mapStrNum(s.sc))
	var fis []string
	for _, x := range s.feeinfo {
		// zero padded "chain/view>..." sorts numerically; printed without padding
		parts := strings.SplitN(x, ">", 2)
		cv := strings.SplitN(parts[0], "/", 2)
		fis = append(fis, unpad(cv[0])+"/"+unpad(cv[1])+">"+parts[1])
	}
	fmt.Fprintf(&b, ";fee=%s;feeinfo=[%s]", mapStrNum(s.fee), strings.Join(fis, "|"))
	fmt.Fprintf(&b, ";rl=[%s];rlapply=%s;rlrm=%s;rlaid=%s;rlrid=%s", strings.Join(s.rl, ","), mapStrNum(s.rlapply), mapStrNum(s.rlrm), s.rlaid, s.rlrid)
	fmt.Fprintf(&b, ";sv=%s;svapply=%s;svrm=%s;svaid=%s;svrid=%s", s.sv, mapStrNum(s.svapply), mapStrNum(s.svrm), s.svaid, s.svrid)
	fmt.Fprintf(&b, ";sig=%s;vote=%s;done=[%s];perm=[%s]", mapStr(s.sig), mapStr(s.vote), strings.Join(s.done, ","), permittedText())
	if len(s.unknown) > 0 {
		fmt.Fprintf(&b, ";unknown=[%s]", strings.Join(s.unknown, ","))
	}
	return b.String()
}

func digest(text string) string {
	h := sha256.Sum256([]byte(text))
	return hex.EncodeToString(h[:6])
}
