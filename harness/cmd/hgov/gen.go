package main

import (
	"encoding/hex"
	"fmt"
	"strings"

	"crypto/elliptic"

	"github.com/ontio/ontology-crypto/ec"
	"github.com/ontio/ontology-crypto/keypair"
	"github.com/polynetwork/poly/common"
	ccom "github.com/polynetwork/poly/native/service/cross_chain_manager/common"
	tp "github.com/polynetwork/poly/txnpool/proc"
	"polyverif/internal/hx"
)

// gov is the family of all governance streams: one op vocabulary (ops.go), several generators.
type gov struct {
	w    *world
	mode string
}

func init() {
	for _, m := range []string{"approvals", "registry", "pool", "votes", "admission"} {
		mode := m
		families["gov-"+mode] = func() hx.Family { return &gov{mode: mode} }
	}
}

func (f *gov) Reset(r *hx.Run) {
	f.w = newWorld()
	tp.VerifResetPermitted()
}

func (f *gov) Exec(r *hx.Run, op []string) string { return f.w.exec(r, op) }

type actor struct {
	pk   string // lower-case hex of the public key ("" for plain addresses)
	addr common.Address
}

func (a actor) hex() string { return ahex(a.addr) }

type sc struct { // scenario under construction
	f     *gov
	r     *hx.Run
	vals  []actor // initial validators
	extra []actor // further keys (candidates)
	outs  []actor // outsiders (addresses without a pool entry)
	seq   int
}

func (s *sc) do(format string, a ...interface{}) string { return s.r.Do(fmt.Sprintf(format, a...)) }

var keySeq uint64

func (s *sc) newKey() actor {
	keySeq++
	pk, a := mkKey(s.r.Rng.U64()>>8 + keySeq)
	return actor{hex.EncodeToString(pk), a}
}

func (s *sc) newAddr() actor {
	var a common.Address
	copy(a[:], s.r.Rng.Bytes(20))
	return actor{"", a}
}

// start opens a case with n validators (all consensus members after InitConfig) and k further keys.
func (s *sc) start(id string, n, k int, mbcv int) {
	s.r.Case(id)
	s.vals, s.extra, s.outs = nil, nil, nil
	for i := 0; i < n; i++ {
		s.vals = append(s.vals, s.newKey())
	}
	for i := 0; i < k; i++ {
		s.extra = append(s.extra, s.newKey())
	}
	for i := 0; i < 3; i++ {
		s.outs = append(s.outs, s.newAddr())
	}
	for _, a := range append(append([]actor{}, s.vals...), s.extra...) {
		s.do("key %s %s", a.pk, a.hex())
	}
	s.do("height 10")
	// node owners: in two cases out of three some nodes were registered from another wallet, and one wallet owns
	// several nodes (the owner address of a pool entry is then not the address of the node key; approvals are
	// counted by the key's address)
	s.seq++
	wallets := []actor{s.newAddr(), s.newAddr()}
	s.outs = append(s.outs, wallets...)
	// genesis indexes: contiguous 1..n, sparse (a gap below the highest), permuted, or large and sparse: all valid for
	// CheckVBFTConfig; the next free index must lie above the highest one
	idx := make([]int, len(s.vals))
	for i := range idx {
		idx[i] = i + 1
	}
	switch s.seq % 4 {
	case 1:
		if len(idx) > 0 {
			idx[len(idx)-1] += 1 + s.r.Rng.Intn(3) // 1,2,3,5
		}
	case 2:
		for i, p := range s.r.Rng.Perm(len(idx)) {
			idx[i] = 2*p + 2 // permuted and sparse: e.g. 6,2,8,4
		}
	case 3:
		for i, p := range s.r.Rng.Perm(len(idx)) {
			idx[i] = 1000 + 7*p + s.r.Rng.Intn(5)
		}
	}
	var peers []string
	for i, a := range s.vals {
		owner := a.hex()
		if s.seq%3 != 0 {
			switch s.r.Rng.Intn(3) {
			case 1:
				owner = wallets[0].hex()
			case 2:
				owner = wallets[1].hex()
			}
		}
		peers = append(peers, fmt.Sprintf("%d:%s:%s", idx[i], a.pk, owner))
	}
	s.do("init %d %s", mbcv, strings.Join(peers, " "))
}

// consensusNow: the actors whose key is a consensus member of the current view (read from the real store).
func (s *sc) consensusNow() []actor {
	var res []actor
	for _, it := range s.f.w.now().curPool() {
		if it.Status == 1 {
			b, err := hex.DecodeString(it.Pk)
			if err != nil {
				continue
			}
			if a, ok := addrOfPkBytes(b); ok {
				res = append(res, actor{strings.ToLower(it.Pk), a})
			}
		}
	}
	return res
}

func (s *sc) pick(l []actor) actor { return l[s.r.Rng.Intn(len(l))] }

// approver picks who sends the next approval: mostly a current validator, sometimes the previous one again, an
// outsider, or a validator address claimed by somebody else (witness missing).
func (s *sc) approver(prev *actor) (signer string, claimed string) {
	cons := s.consensusNow()
	x := s.r.Rng.Intn(100)
	switch {
	case x < 70 && len(cons) > 0:
		a := s.pick(cons)
		*prev = a
		return a.hex(), a.hex()
	case x < 82 && prev.addr != (common.Address{}):
		return prev.hex(), prev.hex()
	case x < 92:
		a := s.pick(s.outs)
		return a.hex(), a.hex()
	case x < 96 && len(cons) > 0:
		return s.pick(s.outs).hex(), s.pick(cons).hex()
	case x < 98:
		return "-", s.pick(append(cons, s.outs...)).hex()
	default:
		if len(cons) > 1 {
			a, b := s.pick(cons), s.pick(cons)
			return a.hex() + "," + b.hex(), b.hex()
		}
		a := s.pick(s.outs)
		return a.hex(), a.hex()
	}
}

// fullRound: every current validator approves once (in random order).
func (s *sc) fullRound(format func(signer, claimed string) string) {
	cons := s.consensusNow()
	for _, i := range s.r.Rng.Perm(len(cons)) {
		s.r.Do(format(cons[i].hex(), cons[i].hex()))
	}
}

func (s *sc) upper(pk string) string { return strings.ToUpper(pk) }

// mixedCase flips the case of some hex letters.
func (s *sc) mixedCase(pk string) string {
	b := []byte(pk)
	for i := range b {
		if b[i] >= 'a' && b[i] <= 'f' && s.r.Rng.Bool() {
			b[i] -= 32
		}
	}
	return string(b)
}

// otherEncoding: trailing bytes, the uncompressed form, or the labelled form of a compressed P-256 key.
func otherEncoding(pk string, how int) string {
	b, err := hex.DecodeString(pk)
	if err != nil {
		return pk
	}
	k, err := keypair.DeserializePublicKey(b)
	if err != nil {
		return pk
	}
	switch how {
	case 0:
		return pk + "00"
	case 1:
		if e, ok := k.(*ec.PublicKey); ok {
			return hex.EncodeToString(elliptic.Marshal(e.Curve, e.X, e.Y))
		}
	}
	return "1202" + pk // PK_ECDSA, P256 label, then the compressed point
}

// makeTxExtra: a serialized MakeTxParam with the given cross chain id.
func makeTxExtra(ccid []byte, n byte) []byte {
	sink := common.NewZeroCopySink(nil)
	(&ccom.MakeTxParam{TxHash: []byte{n, 2, 3}, CrossChainID: ccid, FromContractAddress: []byte{9}, ToChainID: 2,
		ToContractAddress: []byte{8}, Method: "unlock", Args: []byte{n}}).Serialization(sink)
	return sink.Bytes()
}

// makeTxPayload: a serialized MakeTxParam whose arguments are (destination, amount) as the ripple continuation reads them.
func makeTxPayload(txHash, ccid, dst []byte, amount uint64, toContract []byte) []byte {
	args := common.NewZeroCopySink(nil)
	args.WriteVarBytes(dst)
	args.WriteUint64(amount)
	sink := common.NewZeroCopySink(nil)
	(&ccom.MakeTxParam{TxHash: txHash, CrossChainID: ccid, FromContractAddress: []byte{9}, ToChainID: 2,
		ToContractAddress: toContract, Method: "unlock", Args: args.Bytes()}).Serialization(sink)
	return sink.Bytes()
}

// depositTok: "<chain> <height> <extra> <vote id> <cross chain id|none>" of a deposit op.
func depositTok(chain uint64, height uint32, extra []byte) string {
	us := common.NewZeroCopySink(nil)
	(&ccom.EntranceParam{SourceChainID: chain, Height: height, Extra: extra}).Serialization(us)
	ccid := "none"
	mtp := new(ccom.MakeTxParam)
	if err := mtp.Deserialization(common.NewZeroCopySource(extra)); err == nil {
		ccid = hx.Hex(mtp.CrossChainID)
	}
	return fmt.Sprintf("%d %d %s %s %s", chain, height, hx.Hex(extra), sha256hex(us.Bytes()), ccid)
}

func hexName(s string) string { return hex.EncodeToString([]byte(s)) }

func (f *gov) Gen(r *hx.Run) {
	s := &sc{f: f, r: r}
	switch f.mode {
	case "approvals":
		f.genApprovals(s)
	case "registry":
		f.genRegistry(s)
	case "pool":
		f.genPool(s)
	case "votes":
		f.genVotes(s)
	case "admission":
		f.genAdmission(s)
	}
}

// ---------------------------------------------------------------------------------------------------- approvals
// One approve method per history; a request, a random approval sequence (validators, repeaters, outsiders,
// missing witnesses) with pool changes in between, then a second full approval round after the action was applied
// (C33), then the situation in which a re-application would matter, then a third round.
func (f *gov) genApprovals(s *sc) {
	r := s.r
	r.Rule("histories = (approve method, N = 1..13 validators, seeded approval sequence with repeats/outsiders/missing witnesses and pool changes in between, second and third approval round after the action was applied); distinct non-trivial = (method, N) at which an action was applied")
	kinds := []string{"appr", "black", "white", "scappr", "scapprupd", "scapprquit", "rlappr", "rlapprrm", "svappr", "svapprrm"}
	nHist := r.Pick(260, 5200)
	for h := 0; h < nHist; h++ {
		kind := kinds[h%len(kinds)]
		n := 1 + (h/len(kinds))%13
		if (kind == "black" || kind == "white") && n < 6 {
			n += 5 // BlackNode needs more than four active members
		}
		s.start(fmt.Sprintf("approvals-%s-N%d-%d", kind, n, h), n, 2, 100000)
		// chain ids are different in every case: whatever a process keeps outside the contract state must not make
		// one case depend on another
		cf := func(format string) string {
			return strings.ReplaceAll(strings.ReplaceAll(format, "CID2", fmt.Sprint(8+16*h)), "CID", fmt.Sprint(7+16*h))
		}
		owner := s.newAddr()
		if h%3 == 1 {
			// the requester is the epoch's consensus operator (multi-signature address of the consensus keys): a
			// request by the operator is still only a request
			if op, ok := f.w.operator(); ok {
				owner = actor{"", op}
			}
		}
		var mk func(signer, claimed string) string
		var mkID func(id string) func(signer, claimed string) string // the same approval for another request number
		realID := uint64(0)
		cand := s.extra[0]
		switch kind {
		case "appr":
			s.do("reg %s %s %s", owner.hex(), cand.pk, owner.hex())
			mk = func(sg, c string) string { return fmt.Sprintf("appr %s %s %s", sg, cand.pk, c) }
		case "black":
			// make the target a candidate first so that blacklisting does not change N
			s.do("reg %s %s %s", owner.hex(), cand.pk, owner.hex())
			s.fullRound(func(sg, c string) string { return fmt.Sprintf("appr %s %s %s", sg, cand.pk, c) })
			mk = func(sg, c string) string { return fmt.Sprintf("black %s %s %s", sg, c, cand.pk) }
		case "white":
			s.do("reg %s %s %s", owner.hex(), cand.pk, owner.hex())
			s.fullRound(func(sg, c string) string { return fmt.Sprintf("appr %s %s %s", sg, cand.pk, c) })
			s.fullRound(func(sg, c string) string { return fmt.Sprintf("black %s %s %s", sg, c, cand.pk) })
			mk = func(sg, c string) string { return fmt.Sprintf("white %s %s %s", sg, cand.pk, c) }
		case "scappr":
			s.do(cf("screg %s %s CID 2 %s 1 aabb -"), owner.hex(), owner.hex(), hexName("chain7"))
			mk = func(sg, c string) string { return fmt.Sprintf(cf("scappr %s CID %s"), sg, c) }
			realID = uint64(7 + 16*h)
			mkID = func(id string) func(sg, c string) string {
				return func(sg, c string) string { return fmt.Sprintf("scappr %s %s %s", sg, id, c) }
			}
		case "scapprupd", "scapprquit":
			s.do(cf("screg %s %s CID 2 %s 1 aabb -"), owner.hex(), owner.hex(), hexName("chain7"))
			s.fullRound(func(sg, c string) string { return fmt.Sprintf(cf("scappr %s CID %s"), sg, c) })
			if kind == "scapprupd" {
				s.do(cf("scupd %s %s CID 3 %s 5 ccdd 01"), owner.hex(), owner.hex(), hexName("chain7b"))
				mk = func(sg, c string) string { return fmt.Sprintf(cf("scapprupd %s CID %s"), sg, c) }
				realID = uint64(7 + 16*h)
				mkID = func(id string) func(sg, c string) string {
					return func(sg, c string) string { return fmt.Sprintf("scapprupd %s %s %s", sg, id, c) }
				}
			} else {
				s.do(cf("scquit %s CID %s"), owner.hex(), owner.hex())
				mk = func(sg, c string) string { return fmt.Sprintf(cf("scapprquit %s CID %s"), sg, c) }
				realID = uint64(7 + 16*h)
				mkID = func(id string) func(sg, c string) string {
					return func(sg, c string) string { return fmt.Sprintf("scapprquit %s %s %s", sg, id, c) }
				}
			}
		case "rlappr":
			s.do("rlreg %s %s %s,%s", owner.hex(), owner.hex(), s.outs[0].hex(), s.outs[1].hex())
			mk = func(sg, c string) string { return fmt.Sprintf("rlappr %s 0 %s", sg, c) }
			mkID = func(id string) func(sg, c string) string {
				return func(sg, c string) string { return fmt.Sprintf("rlappr %s %s %s", sg, id, c) }
			}
		case "rlapprrm":
			s.do("rlreg %s %s %s,%s", owner.hex(), owner.hex(), s.outs[0].hex(), s.outs[1].hex())
			s.fullRound(func(sg, c string) string { return fmt.Sprintf("rlappr %s 0 %s", sg, c) })
			if r.Rng.Bool() {
				s.do("rlrm %s %s %s", owner.hex(), owner.hex(), s.outs[0].hex())
			} else {
				// a removal list with repeated addresses
				s.do("rlrm %s %s %s,%s,%s,%s", owner.hex(), owner.hex(), s.outs[0].hex(), s.outs[1].hex(), s.outs[0].hex(), s.outs[2].hex())
			}
			mk = func(sg, c string) string { return fmt.Sprintf("rlapprrm %s 0 %s", sg, c) }
			mkID = func(id string) func(sg, c string) string {
				return func(sg, c string) string { return fmt.Sprintf("rlapprrm %s %s %s", sg, id, c) }
			}
		case "svappr":
			s.do("svreg %s %s %s,%s", owner.hex(), owner.hex(), hexName("sv-one"), hexName("sv-two"))
			mk = func(sg, c string) string { return fmt.Sprintf("svappr %s 0 %s", sg, c) }
			mkID = func(id string) func(sg, c string) string {
				return func(sg, c string) string { return fmt.Sprintf("svappr %s %s %s", sg, id, c) }
			}
		case "svapprrm":
			s.do("svreg %s %s %s,%s", owner.hex(), owner.hex(), hexName("sv-one"), hexName("sv-two"))
			s.fullRound(func(sg, c string) string { return fmt.Sprintf("svappr %s 0 %s", sg, c) })
			switch r.Rng.Intn(3) {
			case 0:
				s.do("svrm %s %s %s", owner.hex(), owner.hex(), hexName("sv-one"))
			case 1:
				// every remaining state validator is removed: the result set is empty
				s.do("svrm %s %s %s,%s", owner.hex(), owner.hex(), hexName("sv-one"), hexName("sv-two"))
			default:
				s.do("svrm %s %s %s,%s,%s", owner.hex(), owner.hex(), hexName("sv-two"), hexName("sv-one"), hexName("sv-two"))
			}
			mk = func(sg, c string) string { return fmt.Sprintf("svapprrm %s 0 %s", sg, c) }
			mkID = func(id string) func(sg, c string) string {
				return func(sg, c string) string { return fmt.Sprintf("svapprrm %s %s %s", sg, id, c) }
			}
		}
		// the approval sequence under test
		var prev actor
		steps := n + 2 + r.Rng.Intn(n+3)
		for i := 0; i < steps; i++ {
			if r.Rng.Chance(1, 9) {
				f.poolChange(s)
			}
			if r.Rng.Chance(1, 12) {
				// an approval for a different request / method in between must not count
				sg, c := s.approver(&prev)
				switch r.Rng.Intn(3) {
				case 0:
					s.do(cf("scappr %s CID2 %s"), sg, c)
				case 1:
					s.do("rlappr %s 1 %s", sg, c)
				default:
					s.do("appr %s %s %s", sg, s.extra[1].pk, c)
				}
			}
			if mkID != nil && r.Rng.Chance(1, 6) {
				// an approval for a request number that was never stored (neighbours of the real one, 0, 2^32, 2^63,
				// 2^64-1) must fail without effect
				b := []uint64{realID + 1, realID - 1, 0, 1 << 32, 1 << 63, ^uint64(0), realID + 2}
				id := b[r.Rng.Intn(len(b))]
				if id != realID {
					sg, c := s.approver(&prev)
					r.Do(mkID(fmt.Sprint(id))(sg, c))
				}
			}
			if r.Rng.Chance(1, 8) {
				// a pre-executed approval (nothing committed) must not count
				sg, c := s.approver(&prev)
				r.Do("dry " + mk(sg, c))
			}
			sg, c := s.approver(&prev)
			r.Do(mk(sg, c))
		}
		if mkID != nil && r.Rng.Bool() {
			// a whole approval round under an alias-like request number before the real round
			s.fullRound(mkID(fmt.Sprint([]uint64{^uint64(0), realID + 1, 1 << 63}[r.Rng.Intn(3)])))
		}
		s.fullRound(mk) // make sure it fired
		s.fullRound(mk) // C33: a second round must not apply anything
		if mkID != nil {
			s.fullRound(mkID(fmt.Sprint(^uint64(0))))
		}
		// the situation in which a re-application is visible, then a third round
		switch kind {
		case "scapprquit":
			other := s.newAddr()
			s.do(cf("screg %s %s CID 9 %s 2 eeff -"), other.hex(), other.hex(), hexName("chain7-new-owner"))
			s.fullRound(func(sg, c string) string { return fmt.Sprintf(cf("scappr %s CID %s"), sg, c) })
		case "rlapprrm":
			s.fullRound(func(sg, c string) string { return fmt.Sprintf("rlappr %s 0 %s", sg, c) }) // the old, applied registration
			s.do("rlreg %s %s %s", owner.hex(), owner.hex(), s.outs[0].hex())
			s.fullRound(func(sg, c string) string { return fmt.Sprintf("rlappr %s 1 %s", sg, c) })
		case "svapprrm":
			s.do("svreg %s %s %s,%s", owner.hex(), owner.hex(), hexName("sv-one"), hexName("sv-two"))
			s.fullRound(func(sg, c string) string { return fmt.Sprintf("svappr %s 1 %s", sg, c) })
		case "appr":
			s.do("quit %s %s %s", owner.hex(), cand.pk, owner.hex())
			if r.Rng.Bool() {
				// the candidate leaves at the epoch change and returns: its key still has an index record; the
				// returning candidacy needs its own registration and is applied once
				s.fullRound(mk)
				f.w.height++
				s.do("height %d", f.w.height)
				if op, ok := f.w.operator(); ok {
					s.do("commit %s %s", ahex(op), ahex(op))
				}
				s.fullRound(mk)
				s.do("reg %s %s %s", owner.hex(), cand.pk, owner.hex())
				s.fullRound(mk)
				s.fullRound(mk)
				s.do("quit %s %s %s", owner.hex(), cand.pk, owner.hex())
				f.w.height++
				s.do("height %d", f.w.height)
				if op, ok := f.w.operator(); ok {
					s.do("commit %s %s", ahex(op), ahex(op))
				}
			}
		}
		s.fullRound(mk)
		s.do("dump")
		if h%41 == 0 {
			r.Sample(map[string]interface{}{"case": fmt.Sprintf("approvals-%s-N%d", kind, n), "ops": len(s.f.w.now().text())})
		}
	}
}

// poolChange alters the consensus set between approvals: a candidate is approved / a member quits, then commitDpos.
func (f *gov) poolChange(s *sc) {
	cons := s.consensusNow()
	snap := f.w.now()
	f.w.height++
	s.do("height %d", f.w.height)
	if s.r.Rng.Bool() && len(s.extra) > 1 {
		c := s.extra[1]
		ow := s.outs[2]
		s.do("reg %s %s %s", ow.hex(), c.pk, ow.hex())
		s.fullRound(func(sg, cl string) string { return fmt.Sprintf("appr %s %s %s", sg, c.pk, cl) })
	} else if len(cons) > 0 {
		v := s.pick(cons)
		// the owner of an initial validator is its own address
		for _, it := range snap.curPool() {
			if strings.ToLower(it.Pk) == v.pk {
				s.do("quit %s %s %s", ahex(it.Addr), it.Pk, ahex(it.Addr))
			}
		}
	}
	if op, ok := f.w.operator(); ok {
		s.do("commit %s %s", ahex(op), ahex(op))
	}
}

// ---------------------------------------------------------------------------------------------------- registry
func (f *gov) genRegistry(s *sc) {
	r := s.r
	r.Rule("histories = 40 seeded ops over 3 chain ids and 3 owners: register/update/quit requests by owners and non-owners, partial and full approval rounds, including quit -> re-register by another owner -> late approval rounds of stale requests; distinct non-trivial = (approve method, N) at which an action was applied")
	nHist := r.Pick(220, 4400)
	for h := 0; h < nHist; h++ {
		n := 4 + h%4
		s.start(fmt.Sprintf("registry-N%d-%d", n, h), n, 0, 100000)
		owners := []actor{s.newAddr(), s.newAddr(), s.newAddr()}
		if op, ok := f.w.operator(); ok && h%2 == 1 {
			owners[2] = actor{"", op} // the consensus operator as a chain owner / requester
		}
		ids := []int{1 + 16*h, 2 + 16*h, 0xfffffffe - h}
		var prev actor
		if h%4 == 3 {
			// directed: requests that are still stored when the chain id changes hands
			id := ids[r.Rng.Intn(len(ids))]
			o1, o2 := owners[0], owners[1]
			round := func(kind string) {
				s.fullRound(func(sg, c string) string { return fmt.Sprintf("%s %s %d %s", kind, sg, id, c) })
			}
			s.do("screg %s %s %d 1 %s 1 aa -", o1.hex(), o1.hex(), id, hexName("first"))
			round("scappr")
			if (h/4)%2 == 0 {
				s.do("scupd %s %s %d 2 %s 2 bb 01", o1.hex(), o1.hex(), id, hexName("first-upd"))
			}
			s.do("scquit %s %d %s", o1.hex(), id, o1.hex())
			round("scapprquit")
			switch (h / 8) % 3 {
			case 0:
				round("scapprupd")
			case 1:
				s.do("screg %s %s %d 3 %s 3 cc -", o2.hex(), o2.hex(), id, hexName("second"))
				round("scappr")
				round("scapprupd")
				round("scapprquit")
			default:
				s.do("screg %s %s %d 3 %s 3 cc -", o1.hex(), o1.hex(), id, hexName("again"))
				round("scappr")
				round("scapprquit")
			}
		}
		if h%4 == 2 {
			// directed: the approval that would complete the quorum is only pre-executed (nothing committed): later
			// transactions must see the registry as committed, not as the pre-execution left it
			id := ids[r.Rng.Intn(len(ids))]
			o1, o2 := owners[0], owners[1]
			cons := s.consensusNow()
			thr := ceil23(len(cons))
			s.do("screg %s %s %d 1 %s 1 aa -", o1.hex(), o1.hex(), id, hexName("first"))
			for _, v := range cons[:thr-1] {
				s.do("scappr %s %d %s", v.hex(), id, v.hex())
			}
			last := cons[thr-1]
			s.do("dry scappr %s %d %s", last.hex(), id, last.hex())
			s.do("scupd %s %s %d 2 %s 2 bb 01", o1.hex(), o1.hex(), id, hexName("too-early"))
			s.do("scquit %s %d %s", o1.hex(), id, o1.hex())
			s.do("scappr %s %d %s", last.hex(), id, last.hex())
			s.do("scquit %s %d %s", o1.hex(), id, o1.hex())
			for _, v := range cons[:thr-1] {
				s.do("scapprquit %s %d %s", v.hex(), id, v.hex())
			}
			s.do("dry scapprquit %s %d %s", last.hex(), id, last.hex())
			s.do("screg %s %s %d 3 %s 3 cc -", o2.hex(), o2.hex(), id, hexName("other-owner"))
			s.do("scupd %s %s %d 2 %s 2 bb 02", o1.hex(), o1.hex(), id, hexName("still-registered"))
			s.do("scapprquit %s %d %s", last.hex(), id, last.hex())
		}
		if h%4 == 1 {
			// directed: the owner replaces a pending update request after most approvals were given
			id := ids[r.Rng.Intn(len(ids))]
			o1 := owners[0]
			s.do("screg %s %s %d 1 %s 1 aa -", o1.hex(), o1.hex(), id, hexName("first"))
			s.fullRound(func(sg, c string) string { return fmt.Sprintf("scappr %s %d %s", sg, id, c) })
			s.do("scupd %s %s %d 2 %s 2 bb 01", o1.hex(), o1.hex(), id, hexName("shown-to-validators"))
			cons := s.consensusNow()
			k := r.Rng.Intn(ceil23(len(cons)))
			for _, v := range cons[:k] {
				s.do("scapprupd %s %d %s", v.hex(), id, v.hex())
			}
			switch (h / 4) % 4 {
			case 0:
				s.do("scupd %s %s %d 2 %s 2 bb 01", o1.hex(), o1.hex(), id, hexName("shown-to-validators")) // identical: same request
			case 1:
				s.do("scupd %s %s %d 2 %s 2 bb 02", o1.hex(), o1.hex(), id, hexName("shown-to-validators")) // only ExtraInfo differs
			case 2:
				s.do("scupd %s %s %d 2 %s 2 bc 01", o1.hex(), o1.hex(), id, hexName("shown-to-validators")) // only CCMCAddress differs
			default:
				s.do("scupd %s %s %d 9 %s 9 ee 02", o1.hex(), o1.hex(), id, hexName("swapped"))
			}
			s.fullRound(func(sg, c string) string { return fmt.Sprintf("scapprupd %s %d %s", sg, id, c) })
		}
		for i := 0; i < 40; i++ {
			id := ids[r.Rng.Intn(len(ids))]
			o := s.pick(owners)
			signer := o.hex()
			if r.Rng.Chance(1, 12) {
				signer = s.pick(owners).hex()
			}
			x := r.Rng.Intn(100)
			dry := ""
			if r.Rng.Chance(1, 10) {
				dry = "dry " // pre-executed: nothing committed, nothing may leak into later transactions
			}
			switch {
			case x < 14:
				s.do(dry+"screg %s %s %d %d %s %d %s %s", signer, o.hex(), id, r.Rng.Intn(4), hexName(fmt.Sprintf("n%d", r.Rng.Intn(3))), r.Rng.Intn(3), hx.Hex(r.Rng.Bytes(r.Rng.Intn(3))), hx.Hex(r.Rng.Bytes(r.Rng.Intn(2))))
			case x < 26:
				s.do(dry+"scupd %s %s %d %d %s %d %s %s", signer, o.hex(), id, r.Rng.Intn(4), hexName(fmt.Sprintf("u%d", r.Rng.Intn(3))), 1+r.Rng.Intn(3), hx.Hex(r.Rng.Bytes(r.Rng.Intn(3))), hx.Hex(r.Rng.Bytes(r.Rng.Intn(2))))
			case x < 36:
				s.do(dry+"scquit %s %d %s", signer, id, o.hex())
			default:
				kind := []string{"scappr", "scappr", "scapprupd", "scapprquit", "scapprquit"}[r.Rng.Intn(5)]
				mk := func(sg, c string) string { return fmt.Sprintf("%s%s %s %d %s", dry, kind, sg, id, c) }
				if r.Rng.Chance(3, 5) {
					s.fullRound(mk)
				} else {
					sg, c := s.approver(&prev)
					r.Do(mk(sg, c))
				}
			}
		}
		s.do("dump")
	}
}

// ---------------------------------------------------------------------------------------------------- pool
func (f *gov) genPool(s *sc) {
	r := s.r
	r.Rule("histories = 45 seeded node-manager ops from pools of 4..9 validators: register (lower, upper and mixed-case hex of the same key, blacklisted keys, keys already in the pool) / unregister / approval rounds / quit / black (batches, duplicates, quitting nodes) / white / commitDpos (operator, outsider, after MaxBlockChangeView) / updateConfig across block heights; distinct non-trivial = epoch changes by (op, pool size) and applied actions by (method, N)")
	nHist := r.Pick(200, 4000)
	for h := 0; h < nHist; h++ {
		n := 4 + h%6
		mbcv := []int{100000, 3, 20}[h%3]
		dir := h % 10
		switch dir {
		case 0:
			n = 5
		case 1:
			n = 5 + (h/10)%3
		case 3:
			n = 7 + (h/10)%2
		}
		if dir == 0 || dir == 1 || dir == 3 {
			mbcv = 100000
		}
		s.start(fmt.Sprintf("pool-N%d-%d", n, h), n, 4, mbcv)
		owners := []actor{s.newAddr(), s.newAddr()}
		all := append(append([]actor{}, s.vals...), s.extra...)
		spell := func(a actor) string {
			switch r.Rng.Intn(8) {
			case 0:
				return s.upper(a.pk)
			case 1:
				return s.mixedCase(a.pk)
			case 2:
				// other byte strings that deserialize to the same key
				return otherEncoding(a.pk, r.Rng.Intn(3))
			}
			return a.pk
		}
		ownerOf := func(pk string) string {
			for _, it := range f.w.now().curPool() {
				if strings.EqualFold(it.Pk, pk) {
					return ahex(it.Addr)
				}
			}
			return s.pick(owners).hex()
		}
		var prev actor
		ownerOfKey := func(pk string) string {
			for _, it := range f.w.now().curPool() {
				if it.Pk == pk {
					return ahex(it.Addr)
				}
			}
			return s.outs[0].hex()
		}
		commitNow := func() {
			if op, ok := f.w.operator(); ok {
				s.do("commit %s %s", ahex(op), ahex(op))
			}
		}
		nextBlock := func() {
			f.w.height++
			s.do("height %d", f.w.height)
		}
		switch dir {
		case 0:
			// directed: a blackNode round is opened with five active members, a quit drops the pool to four, then the
			// round is completed: the minimum must hold when the action is applied
			cons := s.consensusNow()
			target, quitter := cons[0], cons[1]
			thr := ceil23(len(cons))
			for _, v := range cons[2 : 2+thr-1] {
				s.do("black %s %s %s", v.hex(), v.hex(), target.pk)
			}
			o := ownerOfKey(quitter.pk)
			s.do("quit %s %s %s", o, quitter.pk, o)
			for _, v := range cons {
				s.do("black %s %s %s", v.hex(), v.hex(), target.pk)
			}
			nextBlock()
			commitNow()
		case 1:
			// directed: the member with the highest index leaves, a new candidate joins, the old member returns:
			// indices stay distinct across epochs
			top := s.vals[n-1]
			best := uint32(0)
			for _, it := range f.w.now().curPool() {
				if it.Index >= best {
					best = it.Index
					for _, v := range s.vals {
						if v.pk == it.Pk {
							top = v
						}
					}
				}
			}
			o := ownerOfKey(top.pk)
			s.do("quit %s %s %s", o, top.pk, o)
			nextBlock()
			commitNow()
			nw := s.extra[0]
			s.do("reg %s %s %s", owners[0].hex(), nw.pk, owners[0].hex())
			s.fullRound(func(sg, c string) string { return fmt.Sprintf("appr %s %s %s", sg, nw.pk, c) })
			nextBlock()
			commitNow()
			s.do("reg %s %s %s", owners[1].hex(), top.pk, owners[1].hex())
			s.fullRound(func(sg, c string) string { return fmt.Sprintf("appr %s %s %s", sg, top.pk, c) })
			nextBlock()
			commitNow()
		case 3:
			// directed: two epoch-changing operations in one block (commitDpos then a blackNode quorum on a consensus
			// member; then two blackNode rounds): the view advances at most once per block
			nextBlock()
			commitNow()
			cons := s.consensusNow()
			s.fullRound(func(sg, c string) string { return fmt.Sprintf("black %s %s %s", sg, c, cons[0].pk) })
			nextBlock()
			s.fullRound(func(sg, c string) string { return fmt.Sprintf("black %s %s %s", sg, c, cons[0].pk) })
			s.fullRound(func(sg, c string) string { return fmt.Sprintf("black %s %s %s", sg, c, cons[1].pk) })
			commitNow()
		}
		if h%5 == 2 {
			// directed: a candidacy is withdrawn after some approvals and the same key is registered by another owner
			k := s.extra[0]
			o1, o2 := owners[0], owners[1]
			s.do("reg %s %s %s", o1.hex(), k.pk, o1.hex())
			cons := s.consensusNow()
			for _, v := range cons[:r.Rng.Intn(ceil23(len(cons)))] {
				s.do("appr %s %s %s", v.hex(), k.pk, v.hex())
			}
			s.do("unreg %s %s %s", o1.hex(), k.pk, o1.hex())
			s.do("reg %s %s %s", o2.hex(), k.pk, o2.hex())
			s.fullRound(func(sg, c string) string { return fmt.Sprintf("appr %s %s %s", sg, k.pk, c) })
		}
		for i := 0; i < 45; i++ {
			x := r.Rng.Intn(100)
			switch {
			case x < 16:
				o := s.pick(owners)
				k := s.pick(all)
				if r.Rng.Chance(4, 5) {
					k = s.pick(s.extra)
				}
				pk := spell(k)
				if r.Rng.Chance(1, 25) {
					pk = []string{"zz", "-", k.pk[:len(k.pk)-1], k.pk + "00", "0x" + k.pk}[r.Rng.Intn(5)]
				}
				s.do("reg %s %s %s", o.hex(), pk, o.hex())
			case x < 20:
				o := s.pick(owners)
				s.do("unreg %s %s %s", o.hex(), spell(s.pick(s.extra)), o.hex())
			case x < 42:
				k := s.pick(s.extra)
				pk := spell(k)
				if r.Rng.Chance(2, 3) {
					// approve with the spelling of the pending request
					for _, v := range f.w.now().apply {
						if strings.EqualFold(strings.SplitN(v, ":", 2)[0], k.pk) {
							pk = strings.SplitN(v, ":", 2)[0]
						}
					}
				}
				mk := func(sg, c string) string { return fmt.Sprintf("appr %s %s %s", sg, pk, c) }
				if r.Rng.Chance(3, 4) {
					s.fullRound(mk)
				} else {
					sg, c := s.approver(&prev)
					r.Do(mk(sg, c))
				}
			case x < 52:
				items := f.w.now().curPool()
				if len(items) == 0 {
					continue
				}
				it := items[r.Rng.Intn(len(items))]
				o := ahex(it.Addr)
				if r.Rng.Chance(1, 8) {
					o = s.pick(owners).hex()
				}
				pk := it.Pk
				if r.Rng.Chance(1, 8) {
					pk = s.upper(pk)
				}
				s.do("quit %s %s %s", o, pk, o)
			case x < 66:
				items := f.w.now().curPool()
				if len(items) == 0 {
					continue
				}
				var batch []string
				for j := 0; j < 1+r.Rng.Intn(2); j++ {
					batch = append(batch, items[r.Rng.Intn(len(items))].Pk)
				}
				if r.Rng.Chance(1, 10) {
					batch = append(batch, batch[0])
				}
				if r.Rng.Chance(1, 10) {
					batch = append(batch, spell(s.pick(s.extra)))
				}
				mk := func(sg, c string) string { return fmt.Sprintf("black %s %s %s", sg, c, strings.Join(batch, " ")) }
				if r.Rng.Chance(2, 3) {
					s.fullRound(mk)
				} else {
					sg, c := s.approver(&prev)
					r.Do(mk(sg, c))
				}
			case x < 74:
				k := spell(s.pick(all))
				for _, v := range f.w.now().black {
					if r.Rng.Bool() {
						k = strings.SplitN(v, ":", 2)[0]
					}
				}
				mk := func(sg, c string) string { return fmt.Sprintf("white %s %s %s", sg, k, c) }
				if r.Rng.Chance(2, 3) {
					s.fullRound(mk)
				} else {
					sg, c := s.approver(&prev)
					r.Do(mk(sg, c))
				}
			case x < 88:
				if r.Rng.Chance(2, 3) {
					f.w.height += uint32(1 + r.Rng.Intn(4))
					s.do("height %d", f.w.height)
				}
				op, ok := f.w.operator()
				if !ok {
					continue
				}
				signer := ahex(op)
				if r.Rng.Chance(1, 3) {
					signer = s.pick(s.outs).hex()
				}
				s.do("commit %s %s", signer, ahex(op))
			case x < 92:
				op, ok := f.w.operator()
				if !ok {
					continue
				}
				signer := ahex(op)
				if r.Rng.Chance(1, 4) {
					signer = s.pick(s.outs).hex()
				}
				s.do("updcfg %s %s %d %d %d %d", signer, ahex(op), 4999+r.Rng.Intn(3), 4999+r.Rng.Intn(3), 9+r.Rng.Intn(3), 9999+r.Rng.Intn(3))
			case x < 94:
				// initConfig is a registered method: anybody can send it again
				var peers []string
				for j, a := range s.extra[:1+r.Rng.Intn(3)] {
					peers = append(peers, fmt.Sprintf("%d:%s:%s", j+1, a.pk, a.hex()))
				}
				s.do("init 5 %s", strings.Join(peers, " "))
			default:
				_ = ownerOf
				f.w.height++
				s.do("height %d", f.w.height)
			}
		}
		s.do("dump")
	}
}

// ---------------------------------------------------------------------------------------------------- votes
func (f *gov) genVotes(s *sc) {
	r := s.r
	r.Rule("histories = N = 1..13 validators, 3 vote ids and 2 signature subjects, 30 seeded votes/signatures by validators, repeat voters, outsiders and missing witnesses with validator-set changes (quit, candidate approval, commitDpos) in between; distinct non-trivial = releases by (kind, N)")
	nHist := r.Pick(104, 3900)
	for h := 0; h < nHist; h++ {
		n := 1 + h%13
		s.start(fmt.Sprintf("votes-N%d-%d", n, h), n, 2, 100000)
		ids := []string{hx.Hex(r.Rng.Bytes(32)), hx.Hex(r.Rng.Bytes(32)), hx.Hex(r.Rng.Bytes(7))}
		subjects := [][]byte{r.Rng.Bytes(40), r.Rng.Bytes(3)}
		// source transactions voted through the vote handler: two payloads with the same cross chain id on one chain
		// (the second release must be refused as already done), one on another chain, one that does not decode
		cc := r.Rng.Bytes(8)
		// ... and a divergent payload for the same source chain and height (the vote id must bind the whole payload)
		deposits := []string{depositTok(3, 100, makeTxExtra(cc, 1)), depositTok(3, 101, makeTxExtra(cc, 2)),
			depositTok(4, 100, makeTxExtra(cc, 1)), depositTok(3, 7, r.Rng.Bytes(5)), depositTok(3, 100, makeTxExtra(r.Rng.Bytes(8), 3))}
		var prev actor
		clock := uint32(1000)
		s.do("time %d", clock)
		if h%3 == 0 && n >= 2 {
			// directed: a pool member that is not (yet) a consensus member votes when one vote is missing
			cand := s.extra[0]
			s.do("reg %s %s %s", s.outs[2].hex(), cand.pk, s.outs[2].hex())
			s.fullRound(func(sg, c string) string { return fmt.Sprintf("appr %s %s %s", sg, cand.pk, c) })
			cons := s.consensusNow()
			thr := ceil23(len(cons))
			idc := hx.Hex(r.Rng.Bytes(32))
			d := deposits[4]
			for _, v := range cons[:thr-1] {
				s.do("vote %s %s %s", v.hex(), idc, v.hex())
				s.do("deposit %s %s %s", v.hex(), v.hex(), d)
				s.do("sig %s %s 1 %s %s %s", v.hex(), v.hex(), hx.Hex(subjects[0]), hx.Hex(r.Rng.Bytes(2)), sha256hex(subjects[0]))
			}
			s.do("vote %s %s %s", cand.hex(), idc, cand.hex())
			s.do("deposit %s %s %s", cand.hex(), cand.hex(), d)
			s.do("sig %s %s 1 %s %s %s", cand.hex(), cand.hex(), hx.Hex(subjects[0]), hx.Hex(r.Rng.Bytes(2)), sha256hex(subjects[0]))
			// the divergent payload of the same source transaction gets its own count
			for _, v := range cons[:thr-1] {
				s.do("deposit %s %s %s", v.hex(), v.hex(), deposits[0])
			}
			s.do("deposit %s %s %s", cons[thr-1].hex(), cons[thr-1].hex(), d)
		}
		if n >= 2 {
			// directed (both vote routers): payloads of ONE source transaction (same source chain, height, transaction
			// hash and cross chain id) that differ in amount / destination / target contract are different messages:
			// ceil(2N/3)-1 validators vote for the real one, a validator votes for a divergent one as the
			// ceil(2N/3)-th vote (nothing may be released), then the real one gets its last vote
			s.do("assetbind 5 2 aabb ccdd")
			s.do("assetbind 6 2 aabb ccdd")
			txh, cc2 := r.Rng.Bytes(32), r.Rng.Bytes(8)
			real := makeTxPayload(txh, cc2, []byte{1, 2, 3}, 1000, []byte{8})
			forged := [][]byte{makeTxPayload(txh, cc2, []byte{1, 2, 3}, 999999, []byte{8}), makeTxPayload(txh, cc2, []byte{6, 6, 6}, 1000, []byte{8}),
				makeTxPayload(txh, cc2, []byte{1, 2, 3}, 1000, []byte{7})}[(h/2)%3]
			cons := s.consensusNow()
			thr := ceil23(len(cons))
			for ri, router := range []string{"deposit", "rdeposit"} {
				chain := uint64(5 + ri)
				tail := ""
				if router == "rdeposit" {
					tail = " ok"
				}
				for _, v := range cons[:thr-1] {
					s.do("%s %s %s %s%s", router, v.hex(), v.hex(), depositTok(chain, 77, real), tail)
				}
				byz := cons[thr-1]
				s.do("%s %s %s %s%s", router, byz.hex(), byz.hex(), depositTok(chain, 77, forged), tail)
				s.do("%s %s %s %s%s", router, byz.hex(), byz.hex(), depositTok(chain, 77, real), tail)
				s.fullRound(func(sg, c string) string {
					return fmt.Sprintf("%s %s %s %s%s", router, sg, c, depositTok(chain, 77, forged), tail)
				})
			}
		}
		if n >= 6 && h%2 == 0 {
			// directed: some validators vote (below the threshold), then quit: they stay in the pool with status
			// Quiting until the epoch change, N drops; their recorded votes must not count for the completing votes
			cons := s.consensusNow()
			k := len(cons) - 4
			if k > 3 {
				k = 3
			}
			idq := hx.Hex(r.Rng.Bytes(32))
			dq := depositTok(5, 88, makeTxPayload(r.Rng.Bytes(32), r.Rng.Bytes(8), []byte{4}, 5, []byte{8}))
			subq := r.Rng.Bytes(9)
			castAll := func(v actor) {
				s.do("vote %s %s %s", v.hex(), idq, v.hex())
				s.do("deposit %s %s %s", v.hex(), v.hex(), dq)
				s.do("sig %s %s 1 %s %s %s", v.hex(), v.hex(), hx.Hex(subq), hx.Hex(r.Rng.Bytes(2)), sha256hex(subq))
				s.do("fee %s %s 9 0 %d", v.hex(), v.hex(), 100+r.Rng.Intn(50))
			}
			for _, v := range cons[:k] {
				castAll(v)
			}
			for _, v := range cons[:k] {
				for _, it := range f.w.now().curPool() {
					if strings.ToLower(it.Pk) == v.pk {
						s.do("quit %s %s %s", ahex(it.Addr), it.Pk, ahex(it.Addr))
					}
				}
			}
			for _, v := range cons[k:] {
				castAll(v)
			}
		}
		if h%3 == 1 {
			// directed: the quorum event was emitted, the validator set changes, signatures keep coming
			mkSig := func(sg, c string) string {
				return fmt.Sprintf("sig %s %s 1 %s %s %s", sg, c, hx.Hex(subjects[1]), hx.Hex(r.Rng.Bytes(2)), sha256hex(subjects[1]))
			}
			s.fullRound(mkSig)
			f.poolChange(s)
			s.fullRound(mkSig)
			f.poolChange(s)
			s.fullRound(mkSig)
		}
		for i := 0; i < 30; i++ {
			if r.Rng.Chance(1, 10) {
				f.poolChange(s)
			}
			sg, c := s.approver(&prev)
			if r.Rng.Chance(1, 5) {
				// fee proposals (UpdateFee votes through CheckVotes): current view mostly, sometimes a stale one;
				// the clock moves, so that some rounds expire
				if r.Rng.Chance(1, 6) {
					clock += uint32(r.Rng.Intn(400))
					s.do("time %d", clock)
				}
				chain := 3 + r.Rng.Intn(2)
				view := uint64(0)
				if fe, ok := f.w.now().fee[fmt.Sprintf("%020d", chain)]; ok {
					view = idNum(strings.SplitN(fe, ":", 2)[0])
				}
				if r.Rng.Chance(1, 8) {
					view += uint64(r.Rng.Intn(3))
				}
				s.do("fee %s %s %d %d %d", sg, c, chain, view, r.Rng.Intn(5)*1000+r.Rng.Intn(3))
			} else if r.Rng.Chance(1, 4) {
				d := deposits[r.Rng.Intn(len(deposits))]
				if r.Rng.Bool() {
					s.do("deposit %s %s %s", sg, c, d)
				} else {
					// the same vote phase through the ripple router (chains 3 and 4 have no asset binding: a release
					// fails in the continuation and the whole transaction, vote included, is reverted)
					s.do("rdeposit %s %s %s fail", sg, c, d)
				}
			} else if r.Rng.Chance(3, 5) {
				s.do("vote %s %s %s", sg, ids[r.Rng.Intn(len(ids))], c)
			} else {
				sub := subjects[r.Rng.Intn(len(subjects))]
				s.do("sig %s %s %d %s %s %s", sg, c, r.Rng.Intn(3), hx.Hex(sub), hx.Hex(r.Rng.Bytes(1+r.Rng.Intn(4))), sha256hex(sub))
			}
		}
		for _, id := range ids {
			s.fullRound(func(sg, c string) string { return fmt.Sprintf("vote %s %s %s", sg, id, c) })
			s.fullRound(func(sg, c string) string { return fmt.Sprintf("vote %s %s %s", sg, id, c) })
		}
		for _, sub := range subjects {
			s.fullRound(func(sg, c string) string {
				return fmt.Sprintf("sig %s %s 1 %s %s %s", sg, c, hx.Hex(sub), hx.Hex(r.Rng.Bytes(2)), sha256hex(sub))
			})
		}
		for _, d := range deposits {
			s.fullRound(func(sg, c string) string { return fmt.Sprintf("deposit %s %s %s", sg, c, d) })
		}
		for round := 0; round < 2; round++ {
			view := uint64(0)
			if fe, ok := f.w.now().fee["00000000000000000003"]; ok {
				view = idNum(strings.SplitN(fe, ":", 2)[0])
			}
			s.fullRound(func(sg, c string) string { return fmt.Sprintf("fee %s %s 3 %d %d", sg, c, view, 100+r.Rng.Intn(900)) })
		}
		s.do("dump")
	}
}
