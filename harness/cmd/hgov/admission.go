package main

import (
	"bytes"
	"fmt"
	"sort"
	"strings"

	"github.com/ontio/ontology-crypto/keypair"
	"github.com/polynetwork/poly/common"
	"github.com/polynetwork/poly/core/ledger"
	"github.com/polynetwork/poly/core/states"
	"github.com/polynetwork/poly/core/store"
	scom "github.com/polynetwork/poly/core/store/common"
	"github.com/polynetwork/poly/core/types"
	tp "github.com/polynetwork/poly/txnpool/proc"
	"polyverif/internal/hx"

	"encoding/hex"
)

// govStore is the ledger store the transaction pool reads through ledger.DefLedger: only GetStorageItem is
// implemented (the committed contract state of the case, exactly as the state store serves it); every other method
// of the interface is absent and would panic if the admission path used it.
type govStore struct {
	store.LedgerStore
	w *world
}

func (g *govStore) GetStorageItem(key *states.StorageKey) (*states.StorageItem, error) {
	raw := append([]byte{byte(scom.ST_STORAGE)}, key.ContractAddress[:]...)
	raw = append(raw, key.Key...)
	data, err := g.w.overlay.Get(raw)
	if err != nil {
		return nil, err
	}
	if len(data) == 0 {
		return nil, scom.ErrNotFound
	}
	item := new(states.StorageItem)
	if err := item.Deserialize(bytes.NewReader(data)); err != nil {
		return nil, err
	}
	return item, nil
}

// useAsLedger makes the case's state the ledger of the process (ledger.DefLedger is what http/base/actor reads).
func (w *world) useAsLedger() {
	ledger.DefLedger = ledger.VerifNewLedgerWithStore(&govStore{w: w})
}

func permittedText() string {
	var as []string
	for _, a := range tp.VerifPermittedAddrs() {
		as = append(as, ahex(a))
	}
	sort.Strings(as)
	return strings.Join(as, ",")
}

// allMembersOperator: the multi-signature address of all pool members of the current view (what
// UpdatePermittedAddrMap adds besides the members), "-" when it cannot be formed.
func (w *world) allMembersOperator() string {
	var pks []keypair.PublicKey
	for _, it := range w.now().curPool() {
		b, err := hex.DecodeString(it.Pk)
		if err != nil {
			return "-"
		}
		pk, err := keypair.DeserializePublicKey(b)
		if err != nil {
			return "-"
		}
		pks = append(pks, pk)
	}
	a, err := types.AddressFromBookkeepers(pks)
	if err != nil {
		return "-"
	}
	return ahex(a)
}

// admission ops:
//
//	admit <signers>        TxActor.isValidSender on a transaction signed by these addresses -> ok:1 (admitted) / ok:0
//	refresh <operator|->   updatePermittedAddrMap with an expired cache -> ok:1 / ok:0 (operator address cannot be formed) / err
//	restart                empty permitted cache
func (w *world) execAdmission(r *hx.Run, op []string) (string, bool) {
	switch op[0] {
	case "admit":
		if len(op) != 2 {
			return "bad-op", true
		}
		signers, ok := parseSigners(op[1])
		if !ok {
			return "bad-op", true
		}
		w.useAsLedger()
		err := tp.VerifIsValidSender(&types.Transaction{SignedAddr: signers})
		// the property itself: admitted iff some signer is a registered relayer or permitted
		want := false
		perm := map[common.Address]bool{}
		for _, a := range tp.VerifPermittedAddrs() {
			perm[a] = true
		}
		rl := map[string]bool{}
		for _, a := range w.now().rl {
			rl[a] = true
		}
		for _, a := range signers {
			if perm[a] || rl[ahex(a)] {
				want = true
			}
		}
		if want != (err == nil) {
			r.Viol("C36:admission-differs-from-registry", fmt.Sprintf("signers %s: admitted=%v, but a registered relayer or permitted address among the signers: %v", op[1], err == nil, want))
		}
		r.Hist(fmt.Sprintf("admit=%v", err == nil))
		ret := "0"
		if err == nil {
			ret = "1"
			r.Nontrivial(fmt.Sprintf("admit/%d-signers", len(signers)))
		}
		return "ok:" + ret + " - " + digest(w.now().text()), true
	case "admitx":
		// a transaction with real signature entries (public keys and threshold per entry, as the wire format carries
		// them); the signer addresses are what the code derives from the entries: the single-key address, or the
		// multi-signature address of the whole entry. Token 2 lists those addresses (checked here independently).
		if len(op) != 3 {
			return "bad-op", true
		}
		var sigs []types.Sig
		var want []common.Address
		if op[1] != "-" {
			for _, e := range strings.Split(op[1], ";") {
				mk := strings.SplitN(e, ":", 2)
				if len(mk) != 2 {
					return "bad-op", true
				}
				m, ok := u64(mk[0])
				if !ok {
					return "bad-op", true
				}
				var pks []keypair.PublicKey
				for _, h := range strings.Split(mk[1], ",") {
					b, err := hex.DecodeString(h)
					if err != nil {
						return "bad-op", true
					}
					pk, err := keypair.DeserializePublicKey(b)
					if err != nil {
						return "bad-op", true
					}
					pks = append(pks, pk)
				}
				if len(pks) == 0 || m == 0 || int(m) > len(pks) {
					return "bad-op", true
				}
				sigs = append(sigs, types.Sig{PubKeys: pks, M: uint16(m), SigData: make([][]byte, m)})
				if len(pks) == 1 {
					want = append(want, types.AddressFromPubKey(pks[0]))
				} else {
					a, err := types.AddressFromMultiPubKeys(pks, int(m))
					if err != nil {
						return "bad-op", true
					}
					want = append(want, a)
				}
			}
		}
		var ws []string
		for _, a := range want {
			ws = append(ws, ahex(a))
		}
		if tokStr(strings.Join(ws, ",")) != op[2] {
			return "bad-op", true
		}
		w.useAsLedger()
		err := tp.VerifIsValidSender(&types.Transaction{Sigs: sigs})
		exp := false
		perm := map[common.Address]bool{}
		for _, a := range tp.VerifPermittedAddrs() {
			perm[a] = true
		}
		rl := map[string]bool{}
		for _, a := range w.now().rl {
			rl[a] = true
		}
		for _, a := range want {
			if perm[a] || rl[ahex(a)] {
				exp = true
			}
		}
		if exp != (err == nil) {
			r.Viol("C36:admission-differs-from-registry:signature-entries", fmt.Sprintf("signature entries %s (entry addresses %s): admitted=%v, but a registered relayer or permitted address among the entry addresses: %v", op[1], op[2], err == nil, exp))
		}
		ret := "0"
		if err == nil {
			ret = "1"
			r.Nontrivial(fmt.Sprintf("admitx/%d-entries", len(sigs)))
		}
		return "ok:" + ret + " - " + digest(w.now().text()), true
	case "refresh":
		if len(op) != 2 {
			return "bad-op", true
		}
		if op[1] != w.allMembersOperator() {
			return "bad-op", true
		}
		w.useAsLedger()
		readable := w.now().gv != nil && w.now().pools[w.now().gv.View] != nil
		err := tp.VerifRefreshPermitted()
		w.cur = nil
		if !readable {
			if err == nil {
				return "ok:? - " + digest(w.now().text()), true
			}
			return "err " + digest(w.now().text()), true
		}
		if err != nil {
			return "ok:0 - " + digest(w.now().text()), true
		}
		return "ok:1 - " + digest(w.now().text()), true
	case "restart":
		tp.VerifResetPermitted()
		w.cur = nil
		return "ok", true
	}
	return "", false
}

// ---------------------------------------------------------------------------------------------------- generator
func (f *gov) genAdmission(s *sc) {
	r := s.r
	r.Rule("histories = N = 4..7 validators, 4 relayer candidates; seeded relayer register / remove requests with approval rounds (full and partial), validator quits and epoch changes, permitted-cache refreshes and node restarts, each followed by admission queries for signer sets over registered / removed / never registered / validator / former validator / operator / unknown addresses (0..3 signers); distinct non-trivial = admitted queries by number of signers, applied approvals by (method, N)")
	nHist := r.Pick(200, 4000)
	for h := 0; h < nHist; h++ {
		n := 4 + h%4
		s.start(fmt.Sprintf("admission-N%d-%d", n, h), n, 1, 100000)
		rel := []actor{s.newKey(), s.newKey(), s.newKey(), s.newKey()} // relayer accounts (single-key addresses)
		outsiderKeys := []actor{s.newKey(), s.newKey()}
		entry := func(m int, ks ...actor) (string, string) {
			var hs []string
			var pks []keypair.PublicKey
			for _, k := range ks {
				hs = append(hs, k.pk)
				b, _ := hex.DecodeString(k.pk)
				pk, _ := keypair.DeserializePublicKey(b)
				pks = append(pks, pk)
			}
			a := types.AddressFromPubKey(pks[0])
			if len(pks) > 1 {
				a, _ = types.AddressFromMultiPubKeys(pks, m)
			}
			return fmt.Sprintf("%d:%s", m, strings.Join(hs, ",")), ahex(a)
		}
		// transactions with real signature entries: a listed key that is a relayer / validator but whose entry address
		// (the multi-signature address) is not registered must not vouch for the transaction
		queryx := func() {
			keys := append(append(append([]actor{}, rel...), outsiderKeys...), s.vals...)
			var es, as []string
			for j := 0; j < 1+r.Rng.Intn(2); j++ {
				n := 1 + r.Rng.Intn(3)
				var ks []actor
				for len(ks) < n {
					ks = append(ks, s.pick(keys))
				}
				if n > 1 && r.Rng.Bool() {
					ks[0] = s.pick(outsiderKeys) // outsider first: the one who would sign a 1-of-n
				}
				e, a := entry(1+r.Rng.Intn(n), ks...)
				es = append(es, e)
				as = append(as, a)
			}
			s.do("admitx %s %s", strings.Join(es, ";"), strings.Join(as, ","))
		}
		owner := s.newAddr()
		query := func() {
			pool := []actor{}
			pool = append(pool, rel...)
			pool = append(pool, s.vals...)
			pool = append(pool, s.outs...)
			k := r.Rng.Intn(4)
			if k == 0 {
				s.do("admit -")
				return
			}
			var sg []string
			for i := 0; i < k; i++ {
				sg = append(sg, s.pick(pool).hex())
			}
			if r.Rng.Chance(1, 6) {
				if op := f.w.allMembersOperator(); op != "-" {
					sg[0] = op
				}
			}
			s.do("admit %s", strings.Join(sg, ","))
		}
		if r.Rng.Bool() {
			s.do("refresh %s", f.w.allMembersOperator())
		}
		if h%2 == 0 {
			// directed: submit while registered, approved removal (list with repeated addresses), submit again
			a, b, c := rel[0], rel[1], rel[2]
			s.do("rlreg %s %s %s,%s", owner.hex(), owner.hex(), a.hex(), b.hex())
			s.fullRound(func(sg, cl string) string { return fmt.Sprintf("rlappr %s 0 %s", sg, cl) })
			s.do("admit %s", a.hex())
			s.do("admit %s", b.hex())
			s.do("admit -")
			for _, ks := range [][]actor{{a}, {outsiderKeys[0], a}, {a, outsiderKeys[0]}, {outsiderKeys[0], s.vals[0]}, {outsiderKeys[0]}} {
				e, ad := entry(1, ks...)
				s.do("admitx %s %s", e, ad)
			}
			s.do("admitx - -")
			s.do("rlrm %s %s %s,%s,%s,%s", owner.hex(), owner.hex(), a.hex(), b.hex(), a.hex(), c.hex())
			s.fullRound(func(sg, cl string) string { return fmt.Sprintf("rlapprrm %s 0 %s", sg, cl) })
			s.do("admit %s", a.hex())
			s.do("admit %s", b.hex())
			s.do("admit %s,%s", a.hex(), b.hex())
			s.do("admit -")
		}
		for i := 0; i < 30; i++ {
			x := r.Rng.Intn(100)
			switch {
			case x < 18:
				var l []string
				for j := 0; j < 1+r.Rng.Intn(2); j++ {
					l = append(l, s.pick(rel).hex())
				}
				s.do("rlreg %s %s %s", owner.hex(), owner.hex(), strings.Join(l, ","))
			case x < 30:
				var l []string
				for j := 0; j < 1+r.Rng.Intn(4); j++ {
					l = append(l, s.pick(rel).hex())
				}
				s.do("rlrm %s %s %s", owner.hex(), owner.hex(), strings.Join(l, ","))
			case x < 58:
				kind := []string{"rlappr", "rlapprrm"}[r.Rng.Intn(2)]
				idTok := f.w.now().rlaid
				if kind == "rlapprrm" {
					idTok = f.w.now().rlrid
				}
				next := int(idNum(idTok))
				if next == 0 {
					continue
				}
				id := r.Rng.Intn(next)
				mk := func(sg, c string) string { return fmt.Sprintf("%s %s %d %s", kind, sg, id, c) }
				if r.Rng.Chance(3, 4) {
					s.fullRound(mk)
				} else {
					var prev actor
					sg, c := s.approver(&prev)
					r.Do(mk(sg, c))
				}
			case x < 66:
				f.poolChange(s)
			case x < 78:
				s.do("refresh %s", f.w.allMembersOperator())
			case x < 82:
				s.do("restart")
			default:
			}
			query()
			if r.Rng.Bool() {
				query()
			}
			queryx()
		}
		s.do("dump")
	}
}
