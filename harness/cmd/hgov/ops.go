package main

import (
	"encoding/hex"
	"math/big"
	"strings"

	"github.com/polynetwork/poly/common"
	"github.com/polynetwork/poly/common/config"
	"github.com/polynetwork/poly/core/genesis"
	"github.com/polynetwork/poly/native"
	ccom "github.com/polynetwork/poly/native/service/cross_chain_manager/common"
	"github.com/polynetwork/poly/native/service/cross_chain_manager/consensus_vote"
	"github.com/polynetwork/poly/native/service/cross_chain_manager/ripple"
	"github.com/polynetwork/poly/native/service/governance/neo3_state_manager"
	"github.com/polynetwork/poly/native/service/governance/node_manager"
	"github.com/polynetwork/poly/native/service/governance/relayer_manager"
	"github.com/polynetwork/poly/native/service/governance/side_chain_manager"
	"github.com/polynetwork/poly/native/service/governance/signature_manager"
	"github.com/polynetwork/poly/native/service/utils"
	"polyverif/internal/hx"
)

// Op vocabulary of the governance families (one line per op; tokens separated by one space; "-" = empty):
//
//	key <pkhex> <addr>                                   declare a validator key (the harness checks addr = address of pk)
//	height <h>                                           block height of the following transactions
//	time <t>                                             block timestamp of the following transactions
//	fee <signers> <addr> <chain> <view> <fee>            side_chain_manager.UpdateFee
//	init <maxBlockChangeView> <idx:pk:addr>...           node_manager.InitConfig
//	reg|unreg|appr|white|quit <signers> <pk> <addr>      RegisterCandidate / UnRegisterCandidate / ApproveCandidate / WhiteNode / QuitNode
//	black <signers> <addr> <pk>...                       BlackNode
//	commit <signers> <operator>                          CommitDpos (operator = address of the current consensus set, checked)
//	updcfg <signers> <operator> <a> <b> <c> <d>          UpdateConfig
//	screg|scupd <signers> <addr> <id> <router> <name> <blocksToWait> <ccmc> <extra>
//	scappr|scapprupd|scquit|scapprquit <signers> <id> <addr>
//	rlreg|rlrm <signers> <addr> <a1,a2,..>               RegisterRelayer / RemoveRelayer
//	rlappr|rlapprrm <signers> <id> <addr>
//	svreg|svrm <signers> <addr> <s1,s2,..>               RegisterStateValidator / RemoveStateValidator (strings as hex)
//	svappr|svapprrm <signers> <id> <addr>
//	vote <signers> <id> <addr>                           consensus_vote.CheckVotes
//	deposit <signers> <relayer> <chain> <height> <extra> <vote id> <cross chain id|none>   VoteHandler.MakeDepositProposal
//	rdeposit <...as deposit...> <ok|fail>                ripple RippleHandler.MakeDepositProposal (last token: continuation succeeds)
//	assetbind <chain> <tochain> <lockproxy> <asset>      setup: asset binding of a source chain
//	sig <signers> <addr> <chainid> <subject> <sig> <sha256(subject)>   signature_manager.AddSignature
//	dry <op...>                                          pre-execute the op (nothing committed) -> `dry <outcome>`
//	dump                                                 full canonical state
//
// Outcome: `ok:<ret> <events|-> <digest>` | `err <digest>` | `panic`; digest = first 6 bytes of SHA-256 of the canonical state.
func (w *world) exec(r *hx.Run, op []string) (res string) {
	// dry <op...>: the transaction is pre-executed (NativeService with preExec, as PreExecuteContract does) on a
	// throw-away cache and nothing is committed; whatever it did must be invisible to every later transaction
	if len(op) > 1 && op[0] == "dry" {
		switch op[1] {
		case "key", "height", "time", "dump", "dry", "admit", "admitx", "refresh", "restart", "assetbind":
			return "bad-op"
		}
		w.dry = true
		defer func() { w.dry = false }()
		return "dry " + w.exec(r, op[1:])
	}
	defer func() {
		if e := recover(); e != nil {
			// a panicking handler commits nothing
			r.PanicMsg = strings.ReplaceAll(strings.ReplaceAll(hxSprint(e), "\n", " "), "\t", " ")
			r.Hist("outcome.panic")
			w.cur = nil
			res = "panic " + digest(w.now().text())
			w.sh.afterPanic(r, w, op)
		}
	}()
	if len(op) == 0 {
		return "bad-op"
	}
	switch op[0] {
	case "key":
		if len(op) != 3 {
			return "bad-op"
		}
		b, err := hex.DecodeString(op[1])
		a, ok := parseAddr(op[2])
		if err != nil || !ok {
			return "bad-op"
		}
		got, ok := addrOfPkBytes(b)
		if !ok || got != a {
			return "bad-op"
		}
		w.keys[hex.EncodeToString(b)] = true
		return "ok"
	case "height":
		if len(op) != 2 {
			return "bad-op"
		}
		h, ok := u64(op[1])
		if !ok || h > 0xffffffff {
			return "bad-op"
		}
		w.height = uint32(h)
		return "ok"
	case "time":
		if len(op) != 2 {
			return "bad-op"
		}
		t, ok := u64(op[1])
		if !ok || t > 0xffffffff {
			return "bad-op"
		}
		w.time = uint32(t)
		return "ok"
	case "dump":
		return w.now().text()
	}
	if out, handled := w.execAdmission(r, op); handled {
		return out
	}
	if len(op) < 2 {
		return "bad-op"
	}
	var cr callResult
	pre := w.now()
	switch op[0] {
	case "init":
		mbcv, ok := u64(op[1])
		if !ok {
			return "bad-op"
		}
		cfg := &config.VBFTConfig{BlockMsgDelay: 10000, HashMsgDelay: 10000, PeerHandshakeTimeout: 10, MaxBlockChangeView: uint32(mbcv),
			VrfValue: strings.Repeat("ab", 64), VrfProof: strings.Repeat("cd", 64)}
		for _, p := range op[2:] {
			f := strings.Split(p, ":")
			if len(f) != 3 {
				return "bad-op"
			}
			idx, ok1 := u64(f[0])
			a, ok2 := parseAddr(f[2])
			if !ok1 || !ok2 {
				return "bad-op"
			}
			if !w.keyKnown(f[1]) {
				return w.undeclared()
			}
			cfg.Peers = append(cfg.Peers, &config.VBFTPeerInfo{Index: uint32(idx), PeerPubkey: strTok(f[1]), Address: a.ToBase58()})
		}
		sink := common.NewZeroCopySink(nil)
		if err := cfg.Serialization(sink); err != nil {
			return "bad-op"
		}
		cr = w.invoke(nil, utils.NodeManagerContractAddress, genesis.INIT_CONFIG, sink.Bytes())
	case "reg", "unreg", "appr", "white", "quit":
		if len(op) != 4 {
			return "bad-op"
		}
		signers, ok1 := parseSigners(op[1])
		a, ok2 := parseAddr(op[3])
		if !ok1 || !ok2 {
			return "bad-op"
		}
		if !w.keyKnown(op[2]) {
			return w.undeclared()
		}
		sink := common.NewZeroCopySink(nil)
		(&node_manager.PeerParam{PeerPubkey: strTok(op[2]), Address: a}).Serialization(sink)
		m := map[string]string{"reg": node_manager.REGISTER_CANDIDATE, "unreg": node_manager.UNREGISTER_CANDIDATE,
			"appr": node_manager.APPROVE_CANDIDATE, "white": node_manager.WHITE_NODE, "quit": node_manager.QUIT_NODE}[op[0]]
		cr = w.invoke(signers, utils.NodeManagerContractAddress, m, sink.Bytes())
	case "black":
		if len(op) < 3 {
			return "bad-op"
		}
		signers, ok1 := parseSigners(op[1])
		a, ok2 := parseAddr(op[2])
		if !ok1 || !ok2 {
			return "bad-op"
		}
		p := &node_manager.PeerListParam{Address: a}
		for _, k := range op[3:] {
			if !w.keyKnown(k) {
				return w.undeclared()
			}
			p.PeerPubkeyList = append(p.PeerPubkeyList, strTok(k))
		}
		sink := common.NewZeroCopySink(nil)
		p.Serialization(sink)
		cr = w.invoke(signers, utils.NodeManagerContractAddress, node_manager.BLACK_NODE, sink.Bytes())
	case "commit", "updcfg":
		if len(op) < 3 {
			return "bad-op"
		}
		signers, ok1 := parseSigners(op[1])
		opAddr, ok2 := parseAddr(op[2])
		if !ok1 || !ok2 {
			return "bad-op"
		}
		// the operator address (multi-signature address of the consensus set) is an oracle value of the op line
		cur, ok := w.operator()
		if ok && cur != opAddr {
			return "bad-op"
		}
		if op[0] == "commit" {
			if len(op) != 3 {
				return "bad-op"
			}
			cr = w.invoke(signers, utils.NodeManagerContractAddress, node_manager.COMMIT_DPOS, nil)
		} else {
			if len(op) != 7 {
				return "bad-op"
			}
			var v [4]uint32
			for i := 0; i < 4; i++ {
				x, ok := u64(op[3+i])
				if !ok || x > 0xffffffff {
					return "bad-op"
				}
				v[i] = uint32(x)
			}
			sink := common.NewZeroCopySink(nil)
			(&node_manager.UpdateConfigParam{Configuration: &node_manager.Configuration{BlockMsgDelay: v[0], HashMsgDelay: v[1],
				PeerHandshakeTimeout: v[2], MaxBlockChangeView: v[3]}}).Serialization(sink)
			cr = w.invoke(signers, utils.NodeManagerContractAddress, node_manager.UPDATE_CONFIG, sink.Bytes())
		}
	case "screg", "scupd":
		if len(op) != 9 {
			return "bad-op"
		}
		signers, ok1 := parseSigners(op[1])
		a, ok2 := parseAddr(op[2])
		id, ok3 := u64(op[3])
		router, ok4 := u64(op[4])
		btw, ok5 := u64(op[6])
		if !(ok1 && ok2 && ok3 && ok4 && ok5) {
			return "bad-op"
		}
		p := &side_chain_manager.RegisterSideChainParam{Address: a, ChainId: id, Router: router, Name: string(hx.UnHex(op[5])),
			BlocksToWait: btw, CCMCAddress: hx.UnHex(op[7]), ExtraInfo: hx.UnHex(op[8])}
		sink := common.NewZeroCopySink(nil)
		p.Serialization(sink)
		m := side_chain_manager.REGISTER_SIDE_CHAIN
		if op[0] == "scupd" {
			m = side_chain_manager.UPDATE_SIDE_CHAIN
		}
		cr = w.invoke(signers, utils.SideChainManagerContractAddress, m, sink.Bytes())
	case "scappr", "scapprupd", "scquit", "scapprquit":
		if len(op) != 4 {
			return "bad-op"
		}
		signers, ok1 := parseSigners(op[1])
		id, ok2 := u64(op[2])
		a, ok3 := parseAddr(op[3])
		if !(ok1 && ok2 && ok3) {
			return "bad-op"
		}
		sink := common.NewZeroCopySink(nil)
		(&side_chain_manager.ChainidParam{Chainid: id, Address: a}).Serialization(sink)
		m := map[string]string{"scappr": side_chain_manager.APPROVE_REGISTER_SIDE_CHAIN, "scapprupd": side_chain_manager.APPROVE_UPDATE_SIDE_CHAIN,
			"scquit": side_chain_manager.QUIT_SIDE_CHAIN, "scapprquit": side_chain_manager.APPROVE_QUIT_SIDE_CHAIN}[op[0]]
		cr = w.invoke(signers, utils.SideChainManagerContractAddress, m, sink.Bytes())
	case "rlreg", "rlrm":
		if len(op) != 4 {
			return "bad-op"
		}
		signers, ok1 := parseSigners(op[1])
		a, ok2 := parseAddr(op[2])
		list, ok3 := parseSigners(op[3])
		if !(ok1 && ok2 && ok3) {
			return "bad-op"
		}
		sink := common.NewZeroCopySink(nil)
		(&relayer_manager.RelayerListParam{AddressList: list, Address: a}).Serialization(sink)
		m := relayer_manager.REGISTER_RELAYER
		if op[0] == "rlrm" {
			m = relayer_manager.REMOVE_RELAYER
		}
		cr = w.invoke(signers, utils.RelayerManagerContractAddress, m, sink.Bytes())
	case "rlappr", "rlapprrm":
		if len(op) != 4 {
			return "bad-op"
		}
		signers, ok1 := parseSigners(op[1])
		id, ok2 := u64(op[2])
		a, ok3 := parseAddr(op[3])
		if !(ok1 && ok2 && ok3) {
			return "bad-op"
		}
		sink := common.NewZeroCopySink(nil)
		(&relayer_manager.ApproveRelayerParam{ID: id, Address: a}).Serialization(sink)
		m := relayer_manager.APPROVE_REGISTER_RELAYER
		if op[0] == "rlapprrm" {
			m = relayer_manager.APPROVE_REMOVE_RELAYER
		}
		cr = w.invoke(signers, utils.RelayerManagerContractAddress, m, sink.Bytes())
	case "svreg", "svrm":
		if len(op) != 4 {
			return "bad-op"
		}
		signers, ok1 := parseSigners(op[1])
		a, ok2 := parseAddr(op[2])
		if !(ok1 && ok2) {
			return "bad-op"
		}
		p := &neo3_state_manager.StateValidatorListParam{Address: a}
		if op[3] != "-" {
			for _, s := range strings.Split(op[3], ",") {
				p.StateValidators = append(p.StateValidators, string(hx.UnHex(s)))
			}
		}
		sink := common.NewZeroCopySink(nil)
		p.Serialization(sink)
		m := neo3_state_manager.REGISTER_STATE_VALIDATOR
		if op[0] == "svrm" {
			m = neo3_state_manager.REMOVE_STATE_VALIDATOR
		}
		cr = w.invoke(signers, utils.Neo3StateManagerContractAddress, m, sink.Bytes())
	case "svappr", "svapprrm":
		if len(op) != 4 {
			return "bad-op"
		}
		signers, ok1 := parseSigners(op[1])
		id, ok2 := u64(op[2])
		a, ok3 := parseAddr(op[3])
		if !(ok1 && ok2 && ok3) {
			return "bad-op"
		}
		sink := common.NewZeroCopySink(nil)
		(&neo3_state_manager.ApproveStateValidatorParam{ID: id, Address: a}).Serialization(sink)
		m := neo3_state_manager.APPROVE_REGISTER_STATE_VALIDATOR
		if op[0] == "svapprrm" {
			m = neo3_state_manager.APPROVE_REMOVE_STATE_VALIDATOR
		}
		cr = w.invoke(signers, utils.Neo3StateManagerContractAddress, m, sink.Bytes())
	case "vote":
		if len(op) != 4 {
			return "bad-op"
		}
		signers, ok1 := parseSigners(op[1])
		a, ok2 := parseAddr(op[3])
		if !(ok1 && ok2) {
			return "bad-op"
		}
		id := hx.UnHex(op[2])
		cr = w.direct(signers, func(svc *native.NativeService) (bool, error) { return consensus_vote.CheckVotes(svc, id, a) })
	case "fee":
		if len(op) != 6 {
			return "bad-op"
		}
		signers, ok1 := parseSigners(op[1])
		a, ok2 := parseAddr(op[2])
		chain, ok3 := u64(op[3])
		view, ok4 := u64(op[4])
		fee, ok5 := u64(op[5])
		if !(ok1 && ok2 && ok3 && ok4 && ok5) {
			return "bad-op"
		}
		sink := common.NewZeroCopySink(nil)
		(&side_chain_manager.UpdateFeeParam{Address: a, ChainId: chain, View: view, Fee: new(big.Int).SetUint64(fee)}).Serialization(sink)
		cr = w.invoke(signers, utils.SideChainManagerContractAddress, side_chain_manager.UPDATE_FEE, sink.Bytes())
	case "assetbind":
		// setup: plant the asset binding of a source chain (side_chain_manager.PutAssetBind), which the continuation
		// of ripple_handler.MakeDepositProposal reads after the vote phase
		if len(op) != 5 {
			return "bad-op"
		}
		chain, ok1 := u64(op[1])
		to, ok2 := u64(op[2])
		if !ok1 || !ok2 {
			return "bad-op"
		}
		w.direct(nil, func(svc *native.NativeService) (bool, error) {
			side_chain_manager.PutAssetBind(svc, chain, &side_chain_manager.AssetBind{
				AssetMap: map[uint64][]byte{to: hx.UnHex(op[4])}, LockProxyMap: map[uint64][]byte{to: hx.UnHex(op[3])}})
			return true, nil
		})
		w.cur = nil
		return "ok"
	case "deposit", "rdeposit":
		if op[0] == "deposit" && len(op) != 8 || op[0] == "rdeposit" && len(op) != 9 {
			return "bad-op"
		}
		signers, ok1 := parseSigners(op[1])
		rel, ok2 := parseAddr(op[2])
		chain, ok3 := u64(op[3])
		ht, ok4 := u64(op[4])
		if !(ok1 && ok2 && ok3 && ok4) || ht > 0xffffffff {
			return "bad-op"
		}
		extra := hx.UnHex(op[5])
		// oracle values of the op line: the vote id and the cross chain id inside the payload
		unique := &ccom.EntranceParam{SourceChainID: chain, Height: uint32(ht), Extra: extra}
		us := common.NewZeroCopySink(nil)
		unique.Serialization(us)
		ccid := "none"
		mtp := new(ccom.MakeTxParam)
		if err := mtp.Deserialization(common.NewZeroCopySource(extra)); err == nil {
			ccid = hx.Hex(mtp.CrossChainID)
		}
		if sha256hex(us.Bytes()) != op[6] || ccid != op[7] {
			return "bad-op"
		}
		in := common.NewZeroCopySink(nil)
		(&ccom.EntranceParam{SourceChainID: chain, Height: uint32(ht), Extra: extra, RelayerAddress: rel[:]}).Serialization(in)
		if op[0] == "rdeposit" {
			// oracle value: does the continuation after the done-transaction mark succeed (lock proxy and asset of the
			// target chain bound, arguments decode)? computed here from the planted binding and the payload
			if w.rippleContinuation(chain, mtp, ccid != "none") != op[8] {
				return "bad-op"
			}
			cr = w.directIn(signers, in.Bytes(), func(svc *native.NativeService) (bool, error) {
				p, err := ripple.NewRippleHandler().MakeDepositProposal(svc)
				return p != nil, err
			})
		} else {
			cr = w.directIn(signers, in.Bytes(), func(svc *native.NativeService) (bool, error) {
				p, err := consensus_vote.NewVoteHandler().MakeDepositProposal(svc)
				return p != nil, err
			})
		}
	case "sig":
		if len(op) != 7 {
			return "bad-op"
		}
		signers, ok1 := parseSigners(op[1])
		a, ok2 := parseAddr(op[2])
		cid, ok3 := u64(op[3])
		if !(ok1 && ok2 && ok3) {
			return "bad-op"
		}
		subject := hx.UnHex(op[4])
		if sha256hex(subject) != op[6] {
			return "bad-op"
		}
		sink := common.NewZeroCopySink(nil)
		(&signature_manager.AddSignatureParam{Address: a, SideChainID: cid, Subject: subject, Signature: hx.UnHex(op[5])}).Serialization(sink)
		cr = w.invoke(signers, utils.SignatureManagerContractAddress, signature_manager.ADD_SIGNATURE, sink.Bytes())
	default:
		return "bad-op"
	}
	w.cur = nil
	post := w.now()
	if w.dry {
		if post.text() != pre.text() {
			r.Viol("C15:pre-execution-changed-state", "a pre-executed transaction changed the committed contract state")
		}
		return cr.line(digest(post.text()))
	}
	w.sh.after(r, w, op, pre, post, cr)
	if cr.err {
		r.Hist("outcome.err")
	} else {
		r.Hist("outcome.ok")
	}
	return cr.line(digest(post.text()))
}

// rippleContinuation: "ok" iff what RippleHandler.MakeDepositProposal does after marking the transaction done succeeds.
func (w *world) rippleContinuation(chain uint64, mtp *ccom.MakeTxParam, decoded bool) string {
	if !decoded {
		return "fail"
	}
	res := "fail"
	w.direct(nil, func(svc *native.NativeService) (bool, error) {
		ab, err := side_chain_manager.GetAssetBind(svc, chain)
		if err != nil {
			return false, nil
		}
		if _, ok := ab.LockProxyMap[mtp.ToChainID]; !ok {
			return false, nil
		}
		src := common.NewZeroCopySource(mtp.Args)
		if _, eof := src.NextVarBytes(); eof {
			return false, nil
		}
		if _, eof := src.NextUint64(); eof {
			return false, nil
		}
		if _, ok := ab.AssetMap[mtp.ToChainID]; !ok {
			return false, nil
		}
		res = "ok"
		return false, nil
	})
	return res
}

// operator is the address CommitDpos / UpdateConfig require as witness (multi-signature address of the consensus set).
func (w *world) operator() (a common.Address, ok bool) {
	defer func() {
		if recover() != nil {
			ok = false
		}
	}()
	var res common.Address
	cr := w.direct(nil, func(svc *native.NativeService) (bool, error) {
		x, err := node_manager.GetCurConOperator(svc)
		res = x
		return false, err
	})
	return res, !cr.err
}
