// hgov: correspondence harness for the governance layer (node_manager, side_chain_manager, relayer_manager,
// neo3_state_manager, signature_manager, consensus_vote) and the sender admission of the tx pool.
// Each family lives in its own file and registers itself in `families`.
package main

import "polyverif/internal/hx"

var families = map[string]func() hx.Family{}

func main() { hx.Main(families) }
