// hgov: correspondence harness for the governance layer (node_manager, side_chain_manager, relayer_manager,
// neo3_state_manager, signature_manager, consensus_vote) and the sender admission of the tx pool.
// Each family lives in its own file and registers itself in `families`.
package main

import (
	"os"
	"runtime/pprof"

	"polyverif/internal/hx"
)

var families = map[string]func() hx.Family{}

func main() {
	if p := os.Getenv("HGOV_CPUPROFILE"); p != "" {
		if f, err := os.Create(p); err == nil {
			pprof.StartCPUProfile(f)
			defer pprof.StopCPUProfile()
		}
	}
	hx.Main(families)
}
