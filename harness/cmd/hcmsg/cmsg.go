package main

import (
	"bytes"
	"crypto/sha256"
	"encoding/json"
	"fmt"
	"os"
	"reflect"
	"runtime/debug"
	"strconv"
	"strings"
	"sync"

	"github.com/ontio/ontology-crypto/ec"
	"github.com/ontio/ontology-crypto/keypair"
	"github.com/polynetwork/poly/account"
	"github.com/polynetwork/poly/common"
	"github.com/polynetwork/poly/common/log"
	"github.com/polynetwork/poly/consensus/vbft"
	vconfig "github.com/polynetwork/poly/consensus/vbft/config"
	"github.com/polynetwork/poly/core/payload"
	"github.com/polynetwork/poly/core/signature"
	"github.com/polynetwork/poly/core/types"
	p2pt "github.com/polynetwork/poly/p2pserver/message/types"
	"golang.org/x/crypto/ed25519"
	"polyverif/internal/hx"
)

// Family cmsg (C44): consensus message encoding and signature binding on the real code.
//
//	cpenc <ver> <prevhash> <height> <bkidx> <ts> <data> <owner> <sig>  -> <hex of Serialization> u=<hex of SerializeUnsigned>
//	cpdec <hex> <keyOk> <canonKey>  -> ok <ver> <prevhash> <height> <bkidx> <ts> <data> <owner> <sig> | eof | reject:pubkey
//	hdr <ver> <chain> <prev> <txroot> <csroot> <blkroot> <ts> <height> <cdata> <cpayload> <nextbk> -> <hex of Header.Hash()>
//	env <type> <len> <payload> <inner>  -> ok:<struct> | reject:len | reject:unknown | reject:inner
//	rt <kind> <seed>                -> ok type=<code> struct=<name> enc=<json|custom>     (round trip of a random message)
//	held <seed> <n> <goroutines>    -> ok n=<n*goroutines>   (encodings kept across later SerializeVbftMsg calls stay intact and decode)
//	sigcp <field> <seed>            -> verify=ok | verify=fail      (mutate one field of a signed ConsensusPayload)
//	sigprop <field> <seed> <emptyParses> -> rejected | accepted:same | accepted:empty-dropped | accepted:changed
//
// All random content derives from <seed>; keys are fresh per process (outcomes do not depend on them).
type cmsgFam struct{}

func init() { families["cmsg"] = func() hx.Family { return &cmsgFam{} } }

var accounts []*account.Account

func accs() []*account.Account {
	if accounts == nil {
		for _, sch := range []string{"SHA256withECDSA", "SHA256withECDSA", "SM3withSM2", "SHA512withEdDSA", "SHA3-384withECDSA", "SHA224withECDSA"} {
			accounts = append(accounts, account.NewAccount(sch))
		}
	}
	return accounts
}

func (f *cmsgFam) Reset(r *hx.Run) { log.InitLog(log.ErrorLog, log.Stdout) }

var kindNames = []string{"proposal", "endorse", "commit", "handshake", "heartbeat", "blockInfoFetch", "blockInfoFetchResp", "proposalFetch", "blockFetch", "blockFetchResp"}

func u(s string) uint64 { n, _ := strconv.ParseUint(s, 10, 64); return n }

func hash32(b []byte) (h common.Uint256) { copy(h[:], b); return }

func structName(m interface{}) string {
	t := reflect.TypeOf(m)
	for t.Kind() == reflect.Ptr {
		t = t.Elem()
	}
	return t.Name()
}

// ---------------------------------------------------------------- random messages

func rndBytes(g *hx.Rng, max int) []byte {
	switch g.Intn(6) {
	case 0:
		return nil
	case 1:
		return []byte{}
	}
	return g.Bytes(1 + g.Intn(max))
}

func rndU32(g *hx.Rng) uint32 { return uint32(g.U64B()) }

func rndFaulty(g *hx.Rng) []*vbft.FaultyReport {
	switch g.Intn(4) {
	case 0:
		return nil
	case 1:
		return []*vbft.FaultyReport{}
	}
	var l []*vbft.FaultyReport
	for i := 0; i < 1+g.Intn(3); i++ {
		l = append(l, &vbft.FaultyReport{FaultyID: rndU32(g), FaultyMsgHash: hash32(g.Bytes(32))})
	}
	return l
}

func rndSigMap(g *hx.Rng) map[uint32][]byte {
	switch g.Intn(4) {
	case 0:
		return nil
	case 1:
		return map[uint32][]byte{}
	}
	m := map[uint32][]byte{}
	for i := 0; i < 1+g.Intn(4); i++ {
		m[rndU32(g)] = rndBytes(g, 70)
	}
	return m
}

func rndChainConfig(g *hx.Rng) *vconfig.ChainConfig {
	if g.Intn(4) == 0 {
		return nil
	}
	c := &vconfig.ChainConfig{Version: rndU32(g), View: rndU32(g), N: rndU32(g), C: rndU32(g),
		BlockMsgDelay: 1e9 * 10, HashMsgDelay: 1e9 * 10, PeerHandshakeTimeout: 1e9 * 10, MaxBlockChangeView: rndU32(g)}
	c.BlockMsgDelay += 0
	n := g.Intn(5)
	for i := 0; i < n; i++ {
		c.Peers = append(c.Peers, &vconfig.PeerConfig{Index: uint32(i + 1), ID: vconfig.PubkeyID(accs()[g.Intn(len(accs()))].PublicKey)})
	}
	for i := 0; i < g.Intn(6); i++ {
		c.PosTable = append(c.PosTable, rndU32(g))
	}
	return c
}

func mkTx(nonce uint32, code []byte) *types.Transaction {
	tx := &types.Transaction{Version: 0, TxType: types.Invoke, Nonce: nonce, Payload: &payload.InvokeCode{Code: code}}
	sink := common.NewZeroCopySink(nil)
	if err := tx.Serialization(sink); err != nil {
		panic(err)
	}
	t2, err := types.TransactionFromRawBytes(sink.Bytes())
	if err != nil {
		panic(err)
	}
	return t2
}

// rndBlock builds a block signed by acc in the way constructBlock does.
func rndBlock(g *hx.Rng, acc *account.Account, info *vconfig.VbftBlockInfo, nTx int, height uint32) *types.Block {
	cp, err := json.Marshal(info)
	if err != nil {
		panic(err)
	}
	var txs []*types.Transaction
	var hashes []common.Uint256
	for i := 0; i < nTx; i++ {
		t := mkTx(uint32(g.U64()), g.Bytes(1+g.Intn(20)))
		txs = append(txs, t)
		hashes = append(hashes, t.Hash())
	}
	var nb common.Address
	copy(nb[:], g.Bytes(20))
	h := &types.Header{Version: 0, ChainID: g.U64B(), PrevBlockHash: hash32(g.Bytes(32)),
		TransactionsRoot: common.ComputeMerkleRoot(hashes), CrossStateRoot: hash32(g.Bytes(32)), BlockRoot: hash32(g.Bytes(32)),
		Timestamp: rndU32(g), Height: height, ConsensusData: g.U64B(), ConsensusPayload: cp, NextBookkeeper: nb}
	blk := &types.Block{Header: h, Transactions: txs}
	hh := blk.Hash()
	sig, err := signature.Sign(acc, hh[:])
	if err != nil {
		panic(err)
	}
	h.Bookkeepers = []keypair.PublicKey{acc.PublicKey}
	h.SigData = [][]byte{sig}
	return blk
}

func rndVbftBlock(g *hx.Rng, acc *account.Account, withEmpty bool) *vbft.Block {
	info := &vconfig.VbftBlockInfo{Proposer: rndU32(g), VrfValue: rndBytes(g, 64), VrfProof: rndBytes(g, 64),
		LastConfigBlockNum: rndU32(g), NewChainConfig: rndChainConfig(g)}
	height := rndU32(g)
	b := &vbft.Block{Block: rndBlock(g, acc, info, g.Intn(4), height), Info: info}
	if withEmpty {
		b.EmptyBlock = rndBlock(g, acc, info, g.Intn(2), height)
	}
	return b
}

func rndMsg(kind int, g *hx.Rng, acc *account.Account) vbft.ConsensusMsg {
	switch kind {
	case 0:
		return &vbft.VerifBlockProposalMsg{Block: rndVbftBlock(g, acc, g.Intn(3) != 0)}
	case 1:
		return &vbft.VerifBlockEndorseMsg{Endorser: rndU32(g), EndorsedProposer: rndU32(g), BlockNum: rndU32(g),
			EndorsedBlockHash: hash32(g.Bytes(32)), EndorseForEmpty: g.Bool(), FaultyProposals: rndFaulty(g),
			ProposerSig: rndBytes(g, 70), EndorserSig: rndBytes(g, 70)}
	case 2:
		return &vbft.VerifBlockCommitMsg{Committer: rndU32(g), BlockProposer: rndU32(g), BlockNum: rndU32(g),
			CommitBlockHash: hash32(g.Bytes(32)), CommitForEmpty: g.Bool(), FaultyVerifies: rndFaulty(g),
			ProposerSig: rndBytes(g, 70), EndorsersSig: rndSigMap(g), CommitterSig: rndBytes(g, 70)}
	case 3:
		return &vbft.VerifPeerHandshakeMsg{CommittedBlockNumber: rndU32(g), CommittedBlockHash: hash32(g.Bytes(32)),
			CommittedBlockLeader: rndU32(g), ChainConfig: rndChainConfig(g)}
	case 4:
		var e, s [][]byte
		switch g.Intn(3) {
		case 1:
			e, s = [][]byte{}, [][]byte{}
		case 2:
			for i := 0; i < 1+g.Intn(4); i++ {
				e = append(e, rndBytes(g, 40))
				s = append(s, rndBytes(g, 70))
			}
		}
		return &vbft.VerifPeerHeartbeatMsg{CommittedBlockNumber: rndU32(g), CommittedBlockHash: hash32(g.Bytes(32)),
			CommittedBlockLeader: rndU32(g), Endorsers: e, EndorsersSig: s, ChainConfigView: rndU32(g)}
	case 5:
		return &vbft.BlockInfoFetchMsg{StartBlockNum: rndU32(g)}
	case 6:
		var bl []*vbft.BlockInfo_
		switch g.Intn(3) {
		case 1:
			bl = []*vbft.BlockInfo_{}
		case 2:
			for i := 0; i < 1+g.Intn(4); i++ {
				bl = append(bl, &vbft.BlockInfo_{BlockNum: rndU32(g), Proposer: rndU32(g), Signatures: rndSigMap(g)})
			}
		}
		return &vbft.BlockInfoFetchRespMsg{Blocks: bl}
	case 7:
		return &vbft.VerifProposalFetchMsg{ProposerID: rndU32(g), BlockNum: rndU32(g)}
	case 8:
		return &vbft.VerifBlockFetchMsg{BlockNum: rndU32(g)}
	case 9:
		return &vbft.BlockFetchRespMsg{BlockNumber: rndU32(g), BlockHash: hash32(g.Bytes(32)), BlockData: rndVbftBlock(g, acc, g.Bool())}
	}
	panic("kind")
}

// canon renders a message field by field; nil and empty slices/maps are identified (JSON and the binary codecs
// do not distinguish them in content), block data are rendered by their wire bytes.
func canon(v reflect.Value, sb *strings.Builder) {
	switch v.Kind() {
	case reflect.Ptr, reflect.Interface:
		if v.IsNil() {
			sb.WriteString("nil")
			return
		}
		if b, ok := v.Interface().(*types.Block); ok {
			fmt.Fprintf(sb, "block:%x", b.ToArray())
			return
		}
		switch pk := v.Interface().(type) {
		case *ec.PublicKey, ed25519.PublicKey:
			fmt.Fprintf(sb, "pk:%x", keypair.SerializePublicKey(pk))
			return
		}
		canon(v.Elem(), sb)
	case reflect.Struct:
		sb.WriteString("{")
		for i := 0; i < v.NumField(); i++ {
			if v.Type().Field(i).PkgPath != "" {
				continue // unexported
			}
			sb.WriteString(v.Type().Field(i).Name + ":")
			canon(v.Field(i), sb)
			sb.WriteString(" ")
		}
		sb.WriteString("}")
	case reflect.Slice:
		if v.Type().Elem().Kind() == reflect.Uint8 {
			fmt.Fprintf(sb, "x%x", v.Bytes())
			return
		}
		sb.WriteString("[")
		for i := 0; i < v.Len(); i++ {
			canon(v.Index(i), sb)
			sb.WriteString(",")
		}
		sb.WriteString("]")
	case reflect.Array:
		sb.WriteString("a")
		for i := 0; i < v.Len(); i++ {
			fmt.Fprintf(sb, "%02x", v.Index(i).Uint())
		}
	case reflect.Map:
		keys := v.MapKeys()
		ks := make([]uint64, 0, len(keys))
		for _, k := range keys {
			ks = append(ks, k.Uint())
		}
		for i := range ks {
			for j := i + 1; j < len(ks); j++ {
				if ks[j] < ks[i] {
					ks[i], ks[j] = ks[j], ks[i]
				}
			}
		}
		sb.WriteString("map[")
		for _, k := range ks {
			fmt.Fprintf(sb, "%d:", k)
			canon(v.MapIndex(reflect.ValueOf(k).Convert(v.Type().Key())), sb)
			sb.WriteString(",")
		}
		sb.WriteString("]")
	default:
		fmt.Fprintf(sb, "%v", v.Interface())
	}
}

func canonMsg(m interface{}) string {
	var sb strings.Builder
	canon(reflect.ValueOf(m), &sb)
	return sb.String()
}

// ---------------------------------------------------------------- harness-side skeleton parse (to locate the owner bytes)

func skipVar(b []byte) (val []byte, rest []byte, ok bool) {
	if len(b) == 0 {
		return nil, nil, false
	}
	n, w := uint64(b[0]), 1
	switch b[0] {
	case 0xfd:
		w = 3
	case 0xfe:
		w = 5
	case 0xff:
		w = 9
	}
	if len(b) < w {
		return nil, nil, false
	}
	if w > 1 {
		n = 0
		for i := w - 1; i >= 1; i-- {
			n = n<<8 | uint64(b[i])
		}
	}
	b = b[w:]
	if uint64(len(b)) < n {
		return nil, nil, false
	}
	return b[:n], b[n:], true
}

func ownerOf(raw []byte) ([]byte, bool) {
	if len(raw) < 4+32+4+2+4 {
		return nil, false
	}
	_, rest, ok := skipVar(raw[46:])
	if !ok {
		return nil, false
	}
	own, _, ok := skipVar(rest)
	return own, ok
}

// ---------------------------------------------------------------- Exec

func decodeErrClass(err error) string {
	s := err.Error()
	switch {
	case strings.HasPrefix(s, "invalid payload length"):
		return "reject:len"
	case strings.HasPrefix(s, "unknown msg type"):
		return "reject:unknown"
	case strings.HasPrefix(s, "failed to unmarshal msg"), strings.HasPrefix(s, "failed to Deserialize msg"):
		return "reject:inner"
	case strings.HasPrefix(s, "unmarshal consensus msg payload"):
		return "reject:json"
	}
	return "reject:other:" + s
}

func innerDecodes(typ uint64, pl []byte) bool {
	var err error
	switch typ {
	case 0:
		err = (&vbft.Block{}).Deserialize(pl)
	case 1:
		err = json.Unmarshal(pl, &vbft.VerifBlockEndorseMsg{})
	case 2:
		err = json.Unmarshal(pl, &vbft.VerifBlockCommitMsg{})
	case 3:
		err = json.Unmarshal(pl, &vbft.VerifPeerHandshakeMsg{})
	case 4:
		err = json.Unmarshal(pl, &vbft.VerifPeerHeartbeatMsg{})
	case 5:
		err = json.Unmarshal(pl, &vbft.BlockInfoFetchMsg{})
	case 6:
		err = json.Unmarshal(pl, &vbft.BlockInfoFetchRespMsg{})
	case 7:
		err = json.Unmarshal(pl, &vbft.VerifProposalFetchMsg{})
	case 8:
		err = json.Unmarshal(pl, &vbft.VerifBlockFetchMsg{})
	case 9:
		err = (&vbft.BlockFetchRespMsg{}).Deserialize(pl)
	default:
		return false
	}
	return err == nil
}

func (f *cmsgFam) Exec(r *hx.Run, op []string) string {
	if os.Getenv("HCMSG_DEBUG") != "" {
		defer func() {
			if e := recover(); e != nil {
				fmt.Fprintf(os.Stderr, "panic in %v: %v\n%s\n", op, e, debug.Stack())
				panic(e)
			}
		}()
	}
	switch op[0] {
	case "cpenc":
		pk, err := keypair.DeserializePublicKey(hx.UnHex(op[7]))
		if err != nil {
			return "bad-op"
		}
		p := &p2pt.ConsensusPayload{Version: uint32(u(op[1])), PrevHash: hash32(hx.UnHex(op[2])), Height: uint32(u(op[3])),
			BookkeeperIndex: uint16(u(op[4])), Timestamp: uint32(u(op[5])), Data: hx.UnHex(op[6]), Owner: pk, Signature: hx.UnHex(op[8]),
			PeerId: 77}
		sink := common.NewZeroCopySink(nil)
		p.Serialization(sink)
		var w, un bytes.Buffer
		if err := p.Serialize(&w); err != nil {
			return "err"
		}
		p.SerializeUnsigned(&un)
		if !bytes.Equal(w.Bytes(), sink.Bytes()) {
			r.Viol("C44:payload-two-encoders-differ", "ConsensusPayload.Serialize and Serialization produce different bytes")
		}
		// round trip through both decoders
		var q1, q2 p2pt.ConsensusPayload
		e1 := q1.Deserialization(common.NewZeroCopySource(sink.Bytes()))
		e2 := q2.Deserialize(bytes.NewReader(w.Bytes()))
		p.PeerId = 0
		if e1 != nil || e2 != nil || canonMsg(&q1) != canonMsg(p) || canonMsg(&q2) != canonMsg(p) {
			r.Viol("C44:roundtrip:ConsensusPayload", fmt.Sprintf("a consensus payload does not survive its encoding: %v %v", e1, e2))
		}
		return hx.Hex(sink.Bytes()) + " u=" + hx.Hex(un.Bytes())
	case "cpdec":
		raw := hx.UnHex(op[1])
		var q, q2 p2pt.ConsensusPayload
		err := q.Deserialization(common.NewZeroCopySource(raw))
		err2 := q2.Deserialize(bytes.NewReader(raw))
		if (err == nil) != (err2 == nil) || (err == nil && canonMsg(&q) != canonMsg(&q2)) {
			r.Viol("C44:payload-two-decoders-differ", fmt.Sprintf("ConsensusPayload.Deserialization and Deserialize disagree on %x: %v / %v", raw, err, err2))
		}
		if err != nil {
			if strings.Contains(err.Error(), "publickey") {
				return "reject:pubkey"
			}
			return "eof"
		}
		return fmt.Sprintf("ok %d %s %d %d %d %s %s %s", q.Version, hx.Hex(q.PrevHash[:]), q.Height, q.BookkeeperIndex, q.Timestamp,
			hx.Hex(q.Data), hx.Hex(keypair.SerializePublicKey(q.Owner)), hx.Hex(q.Signature))
	case "hdr":
		var nb common.Address
		copy(nb[:], hx.UnHex(op[11]))
		h := &types.Header{Version: uint32(u(op[1])), ChainID: u(op[2]), PrevBlockHash: hash32(hx.UnHex(op[3])),
			TransactionsRoot: hash32(hx.UnHex(op[4])), CrossStateRoot: hash32(hx.UnHex(op[5])), BlockRoot: hash32(hx.UnHex(op[6])),
			Timestamp: uint32(u(op[7])), Height: uint32(u(op[8])), ConsensusData: u(op[9]), ConsensusPayload: hx.UnHex(op[10]), NextBookkeeper: nb}
		hh := h.Hash()
		msg := h.GetMessage()
		t := sha256.Sum256(msg)
		t2 := sha256.Sum256(t[:])
		if !bytes.Equal(t2[:], hh[:]) {
			r.Viol("C44:header-hash-not-double-sha-of-unsigned", "Header.Hash() differs from sha256(sha256(GetMessage()))")
		}
		return hx.Hex(hh[:])
	case "env":
		typ, ln := u(op[1]), u(op[2])
		pl := hx.UnHex(op[3])
		raw, _ := json.Marshal(&vbft.ConsensusMsgPayload{Type: vbft.MsgType(typ), Len: uint32(ln), Payload: pl})
		m, err := vbft.DeserializeVbftMsg(raw)
		if err != nil {
			return decodeErrClass(err)
		}
		if uint32(ln) < uint32(len(pl)) {
			r.Viol("C44:short-len-accepted", fmt.Sprintf("an envelope with len=%d and a payload of %d bytes is accepted", ln, len(pl)))
		}
		if uint64(m.Type()) != typ {
			r.Viol(fmt.Sprintf("C44:dispatch-type-mismatch:%d", typ), fmt.Sprintf("envelope type %d decoded to a %s whose Type() is %d", typ, structName(m), m.Type()))
		}
		return "ok:" + structName(m)
	case "rt":
		kind := int(u(op[1]))
		g := hx.NewRng(u(op[2]))
		acc := accs()[g.Intn(len(accs()))]
		m := rndMsg(kind, g, acc)
		raw, err := vbft.SerializeVbftMsg(m)
		if err != nil {
			return "ser-error"
		}
		m2, err := vbft.DeserializeVbftMsg(raw)
		if err != nil {
			r.Viol("C44:roundtrip:"+kindNames[kind], fmt.Sprintf("a %s produced by SerializeVbftMsg is refused by DeserializeVbftMsg: %v", structName(m), err))
			return "de-error"
		}
		if reflect.TypeOf(m) != reflect.TypeOf(m2) || canonMsg(m) != canonMsg(m2) {
			r.Viol("C44:roundtrip:"+kindNames[kind], fmt.Sprintf("a %s does not survive its encoding: before %.300s after %.300s", structName(m), canonMsg(m), canonMsg(m2)))
			return "changed"
		}
		raw2, _ := vbft.SerializeVbftMsg(m2)
		if !bytes.Equal(raw, raw2) {
			r.Viol("C44:roundtrip-reencode:"+kindNames[kind], "re-encoding the decoded message gives different bytes")
		}
		if kind == 0 { // a freshly built proposal verifies under its key, also after the wire
			if err := m2.Verify(acc.PublicKey); err != nil {
				r.Viol("C44:proposal-does-not-verify", "an honestly signed proposal fails Verify after the round trip: "+err.Error())
			}
		}
		var env vbft.ConsensusMsgPayload
		json.Unmarshal(raw, &env)
		enc := "json"
		if kind == 0 || kind == 9 {
			enc = "custom"
		}
		return fmt.Sprintf("ok type=%d struct=%s enc=%s", env.Type, structName(m2), enc)
	case "held":
		return f.held(r, u(op[1]), int(u(op[2])), int(u(op[3])))
	case "sigcp":
		return f.sigcp(r, op[1], u(op[2]))
	case "sigprop":
		out, _, viols := f.sigprop(op[1], u(op[2]))
		for _, v := range viols {
			r.Viol(v[0], v[1])
		}
		return out
	}
	return "bad-op"
}

// held serializes n messages back to back from g goroutines and KEEPS every returned byte slice (no copy) next to a
// private copy made at once; after all calls every kept slice must still equal its copy and must decode to the
// message it was made from (an encoder that hands out a view of a reused buffer fails here).
func (f *cmsgFam) held(r *hx.Run, seed uint64, n, g int) string {
	type rec struct {
		msg  vbft.ConsensusMsg
		kept []byte
		copy []byte
		kind int
	}
	if g < 1 {
		g = 1
	}
	recs := make([][]*rec, g)
	// messages are built first (deterministically), only the SerializeVbftMsg calls run concurrently
	rng := hx.NewRng(seed)
	acc := accs()[rng.Intn(len(accs()))]
	for w := 0; w < g; w++ {
		for i := 0; i < n; i++ {
			k := rng.Intn(10)
			if rng.Intn(3) == 0 {
				k = []int{5, 7, 8}[rng.Intn(3)] // small messages: they fit any buffer used before
			}
			recs[w] = append(recs[w], &rec{msg: rndMsg(k, hx.NewRng(rng.U64()), acc), kind: k})
		}
	}
	var wg sync.WaitGroup
	for w := 0; w < g; w++ {
		wg.Add(1)
		go func(l []*rec) {
			defer wg.Done()
			for _, x := range l {
				b, err := vbft.SerializeVbftMsg(x.msg)
				if err != nil {
					continue
				}
				x.kept = b
				x.copy = append([]byte{}, b...)
			}
		}(recs[w])
	}
	wg.Wait()
	bad := 0
	for w := range recs {
		for i, x := range recs[w] {
			if x.kept == nil {
				continue
			}
			if !bytes.Equal(x.kept, x.copy) {
				bad++
				r.Viol("C44:serialized-bytes-overwritten", fmt.Sprintf("the bytes returned by SerializeVbftMsg for message %d of goroutine %d (%s) changed after later SerializeVbftMsg calls", i, w, kindNames[x.kind]))
				continue
			}
			m2, err := vbft.DeserializeVbftMsg(x.kept)
			if err != nil || canonMsg(m2) != canonMsg(x.msg) {
				bad++
				r.Viol("C44:held-bytes-do-not-decode:"+kindNames[x.kind], fmt.Sprintf("bytes kept from an earlier SerializeVbftMsg call no longer decode to the message they were made from: %v", err))
			}
		}
	}
	if bad > 0 {
		return fmt.Sprintf("changed=%d", bad)
	}
	return fmt.Sprintf("ok n=%d", n*g)
}

var cpFields = []string{"none", "version", "prevHash", "height", "bookkeeperIndex", "timestamp", "data", "data-append", "owner", "signature", "peerId", "wire"}

func (f *cmsgFam) sigcp(r *hx.Run, field string, seed uint64) string {
	g := hx.NewRng(seed)
	acc := accs()[g.Intn(len(accs()))]
	m := rndMsg(g.Intn(10), g, acc)
	data, _ := vbft.SerializeVbftMsg(m)
	p := &p2pt.ConsensusPayload{Version: rndU32(g), PrevHash: hash32(g.Bytes(32)), Height: rndU32(g), BookkeeperIndex: uint16(g.U64B()),
		Timestamp: rndU32(g), Data: data, Owner: acc.PublicKey, PeerId: g.U64()}
	buf := new(bytes.Buffer)
	p.SerializeUnsigned(buf)
	p.Signature, _ = signature.Sign(acc, buf.Bytes())
	if err := p.Verify(); err != nil {
		r.Viol("C44:payload-does-not-verify", "an honestly signed consensus payload fails Verify: "+err.Error())
	}
	bit := func(x []byte) []byte {
		y := append([]byte{}, x...)
		if len(y) == 0 {
			return []byte{1}
		}
		y[g.Intn(len(y))] ^= 1 << uint(g.Intn(8))
		return y
	}
	switch field {
	case "version":
		p.Version ^= 1 << uint(g.Intn(32))
	case "prevHash":
		p.PrevHash = hash32(bit(p.PrevHash[:]))
	case "height":
		p.Height ^= 1 << uint(g.Intn(32))
	case "bookkeeperIndex":
		p.BookkeeperIndex ^= 1 << uint(g.Intn(16))
	case "timestamp":
		p.Timestamp ^= 1 << uint(g.Intn(32))
	case "data":
		p.Data = bit(p.Data)
	case "data-append":
		p.Data = append(append([]byte{}, p.Data...), 0)
	case "owner":
		me := indexOf(acc)
		other := (me + 1 + g.Intn(len(accs())-1)) % len(accs())
		for j, a := range accs() {
			if j != me && a.SigScheme == acc.SigScheme && g.Bool() {
				other = j // same scheme, different key
			}
		}
		p.Owner = accs()[other].PublicKey
	case "signature":
		p.Signature = bit(p.Signature)
	case "peerId":
		p.PeerId++
	}
	// through the wire, as a receiver sees it
	var q p2pt.ConsensusPayload
	if err := q.Deserialization(common.NewZeroCopySource(p.ToArray())); err != nil {
		return "verify=fail"
	}
	res := "verify=ok"
	if q.Verify() != nil {
		res = "verify=fail"
	}
	if field == "wire" { // in-memory Verify and wire Verify agree
		if (p.Verify() == nil) != (res == "verify=ok") {
			r.Viol("C44:payload-verify-wire-differs", "Verify before and after the wire disagree")
		}
	}
	signed := map[string]bool{"version": true, "prevHash": true, "height": true, "bookkeeperIndex": true, "timestamp": true, "data": true, "data-append": true, "owner": true, "signature": true}
	if signed[field] && res == "verify=ok" {
		r.Viol("C44:payload-sig-does-not-bind:"+field, fmt.Sprintf("ConsensusPayload.Verify succeeds after %s was changed", field))
	}
	if !signed[field] && res != "verify=ok" {
		r.Viol("C44:payload-verify-fails-unchanged:"+field, "ConsensusPayload.Verify fails although no signed field was changed")
	}
	return res
}

func indexOf(a *account.Account) int {
	for i, x := range accs() {
		if x == a {
			return i
		}
	}
	return 0
}

var hdrFields = []string{"version", "chainID", "prevBlockHash", "txRoot", "crossStateRoot", "blockRoot", "timestamp", "height", "consensusData", "consensusPayload", "nextBookkeeper"}

var propFields = func() []string {
	l := []string{"none", "key", "block.tx", "block.tx-add", "block.tx-dup-tail", "block.tx-dup-pair", "block.bookkeepers", "block.sig0", "block.sig-extra", "empty.sig0", "empty.drop", "info.proposer", "info.vrf"}
	for _, h := range hdrFields {
		l = append(l, "block."+h, "empty."+h)
	}
	return l
}()

func cloneBlock(b *types.Block) *types.Block {
	c, err := types.BlockFromRawBytes(b.ToArray())
	if err != nil {
		panic(err)
	}
	return c
}

func mutateHeader(g *hx.Rng, h *types.Header, field string) {
	bit := func(x []byte) {
		x[g.Intn(len(x))] ^= 1 << uint(g.Intn(8))
	}
	switch field {
	case "version":
		// changed on the wire by the caller (the sender's own encoder panics on a version above the current one)
	case "chainID":
		h.ChainID ^= 1 << uint(g.Intn(64))
	case "prevBlockHash":
		bit(h.PrevBlockHash[:])
	case "txRoot":
		bit(h.TransactionsRoot[:])
	case "crossStateRoot":
		bit(h.CrossStateRoot[:])
	case "blockRoot":
		bit(h.BlockRoot[:])
	case "timestamp":
		h.Timestamp ^= 1 << uint(g.Intn(32))
	case "height":
		h.Height ^= 1 << uint(g.Intn(32))
	case "consensusData":
		h.ConsensusData ^= 1 << uint(g.Intn(64))
	case "consensusPayload":
		// stays valid JSON: change the proposer number inside
		info := &vconfig.VbftBlockInfo{}
		json.Unmarshal(h.ConsensusPayload, info)
		info.Proposer++
		h.ConsensusPayload, _ = json.Marshal(info)
	case "nextBookkeeper":
		bit(h.NextBookkeeper[:])
	}
}

// sigprop signs a proposal (block + empty block), changes one field, sends it through SerializeVbftMsg /
// DeserializeVbftMsg and calls Verify on what arrives.
func (f *cmsgFam) sigprop(field string, seed uint64) (res string, emptyOk bool, viols [][2]string) {
	g := hx.NewRng(seed)
	acc := accs()[g.Intn(len(accs()))]
	orig := rndVbftBlock(g, acc, true)
	if strings.HasPrefix(field, "block.tx-dup") {
		// a block with 3 (resp. 6) transactions: repeating the trailing transaction (resp. pair) keeps the Merkle root
		n := 3
		if field == "block.tx-dup-pair" {
			n = 6
		}
		orig.Block = rndBlock(g, acc, orig.Info, n, orig.Block.Header.Height)
	}
	origCanon := canonMsg(&vbft.VerifBlockProposalMsg{Block: orig})
	// mutable deep copy (fresh headers: no cached hash)
	mut := &vbft.Block{Block: cloneBlock(orig.Block), EmptyBlock: cloneBlock(orig.EmptyBlock), Info: orig.Info}
	verifyKey := acc.PublicKey
	emptyParses := true
	var verXorBlock, verXorEmpty uint32
	switch {
	case field == "none":
	case field == "key":
		verifyKey = accs()[(indexOf(acc)+1+g.Intn(len(accs())-1))%len(accs())].PublicKey
	case field == "block.tx" || field == "block.tx-add":
		if field == "block.tx" && len(mut.Block.Transactions) > 0 {
			i := g.Intn(len(mut.Block.Transactions))
			mut.Block.Transactions[i] = mkTx(uint32(g.U64()), []byte{9, 9})
		} else {
			mut.Block.Transactions = append(mut.Block.Transactions, mkTx(uint32(g.U64()), []byte{9}))
		}
	case field == "block.tx-dup-tail":
		t := mut.Block.Transactions
		mut.Block.Transactions = append(t, t[len(t)-1])
	case field == "block.tx-dup-pair":
		t := mut.Block.Transactions
		mut.Block.Transactions = append(t, t[len(t)-2], t[len(t)-1])
	case field == "block.bookkeepers":
		mut.Block.Header.Bookkeepers = append(mut.Block.Header.Bookkeepers, accs()[g.Intn(len(accs()))].PublicKey)
	case field == "block.sig0":
		s := append([]byte{}, mut.Block.Header.SigData[0]...)
		s[g.Intn(len(s))] ^= 1 << uint(g.Intn(8))
		mut.Block.Header.SigData[0] = s
	case field == "block.sig-extra":
		mut.Block.Header.SigData = append(mut.Block.Header.SigData, g.Bytes(65))
	case field == "empty.sig0":
		s := append([]byte{}, mut.EmptyBlock.Header.SigData[0]...)
		s[g.Intn(len(s))] ^= 1 << uint(g.Intn(8))
		mut.EmptyBlock.Header.SigData[0] = s
	case field == "empty.drop":
		mut.EmptyBlock = nil
	case field == "info.proposer":
		cp := *mut.Info
		cp.Proposer++
		mut.Info = &cp
	case field == "info.vrf":
		cp := *mut.Info
		cp.VrfValue = append([]byte{1}, cp.VrfValue...)
		mut.Info = &cp
	case field == "block.version":
		verXorBlock = 1 << uint(g.Intn(32))
	case field == "empty.version":
		verXorEmpty = 1 << uint(g.Intn(32))
	case strings.HasPrefix(field, "block."):
		mutateHeader(g, mut.Block.Header, field[6:])
	case strings.HasPrefix(field, "empty."):
		mutateHeader(g, mut.EmptyBlock.Header, field[6:])
	}
	// wire form assembled as Block.Serialize / SerializeVbftMsg do; a changed version is patched into the bytes
	wire := func(b *types.Block, verXor uint32) []byte {
		raw := b.ToArray()
		for i := 0; i < 4; i++ {
			raw[i] ^= byte(verXor >> (8 * uint(i)))
		}
		return raw
	}
	pl := common.NewZeroCopySink(nil)
	pl.WriteVarBytes(wire(mut.Block, verXorBlock))
	if mut.EmptyBlock != nil {
		ew := wire(mut.EmptyBlock, verXorEmpty)
		if _, err := types.BlockFromRawBytes(ew); err != nil {
			emptyParses = false
		}
		pl.WriteVarBytes(ew)
	}
	if verXorBlock == 0 && verXorEmpty == 0 { // the hand-assembled payload is what the real encoder produces
		if ref, err := (&vbft.VerifBlockProposalMsg{Block: mut}).Serialize(); err != nil || !bytes.Equal(ref, pl.Bytes()) {
			viols = append(viols, [2]string{"C44:harness-wire-form", "hand-assembled proposal payload differs from blockProposalMsg.Serialize"})
		}
	}
	raw, err := json.Marshal(&vbft.ConsensusMsgPayload{Type: vbft.BlockProposalMessage, Len: uint32(len(pl.Bytes())), Payload: pl.Bytes()})
	if err != nil {
		return "rejected", emptyParses, viols
	}
	m2, err := vbft.DeserializeVbftMsg(raw)
	if err != nil {
		return "rejected", emptyParses, nil
	}
	if err := m2.Verify(verifyKey); err != nil {
		return "rejected", emptyParses, nil
	}
	got := canonMsg(m2)
	out := "accepted:changed"
	if got == origCanon {
		out = "accepted:same"
	} else if pm := m2.(*vbft.VerifBlockProposalMsg); pm.Block.EmptyBlock == nil && canonMsg(&vbft.VerifBlockProposalMsg{Block: &vbft.Block{Block: pm.Block.Block, EmptyBlock: orig.EmptyBlock, Info: pm.Block.Info}}) == origCanon {
		out = "accepted:empty-dropped"
	}
	// the property on the implementation's output: a verified proposal agrees with the signed one on every hashed
	// header field and on the transactions of each block that is present, and only under the signer's key
	if field == "key" {
		viols = append(viols, [2]string{"C44:proposal-verifies-under-other-key", "blockProposalMsg.Verify succeeds with a public key that did not sign the block"})
	}
	pm := m2.(*vbft.VerifBlockProposalMsg)
	if !bytes.Equal(pm.Block.Block.Header.GetMessage(), orig.Block.Header.GetMessage()) || !sameTxs(pm.Block.Block, orig.Block) {
		viols = append(viols, [2]string{"C44:proposal-sig-does-not-bind:" + field, "blockProposalMsg.Verify succeeds although a hashed header field or a transaction of the block differs from what was signed"})
	}
	if pm.Block.EmptyBlock != nil && (!bytes.Equal(pm.Block.EmptyBlock.Header.GetMessage(), orig.EmptyBlock.Header.GetMessage()) || !sameTxs(pm.Block.EmptyBlock, orig.EmptyBlock)) {
		viols = append(viols, [2]string{"C44:proposal-sig-does-not-bind:" + field, "blockProposalMsg.Verify succeeds although a hashed header field or a transaction of the empty block differs from what was signed"})
	}
	return out, emptyParses, viols
}

func sameTxs(a, b *types.Block) bool {
	if len(a.Transactions) != len(b.Transactions) {
		return false
	}
	for i := range a.Transactions {
		if a.Transactions[i].Hash() != b.Transactions[i].Hash() {
			return false
		}
	}
	return true
}

// ---------------------------------------------------------------- Gen

func (f *cmsgFam) Gen(r *hx.Run) {
	r.Rule("cpenc/cpdec: consensus payloads with boundary field values, data lengths around 0xFC/0xFD/0xFFFF, every key scheme; cpdec on valid, truncated and bit-flipped encodings; hdr: random headers hashed; env: every type 0..12 x (own payload | other kind's payload | {} | random | short len | long len); rt: every kind x seeds; sigcp/sigprop: every field x seeds. distinct non-trivial = distinct (op, kind/field, outcome class)")
	g := r.Rng
	id := 0
	newCase := func(tag string) { id++; r.Case(fmt.Sprintf("%s-%d", tag, id)) }
	// --- payload encode / decode
	nCp := r.Pick(300, 6000)
	for i := 0; i < nCp; i++ {
		newCase("cp")
		acc := accs()[g.Intn(len(accs()))]
		dl := []int{0, 1, 2, 0xfc, 0xfd, 0xfe, 0x100, 300}[g.Intn(8)]
		if r.Thorough() && g.Intn(50) == 0 {
			dl = []int{0xffff, 0x10000, 0x10001}[g.Intn(3)]
		}
		sig := g.Bytes([]int{0, 1, 64, 65, 66, 0xfd}[g.Intn(6)])
		own := keypair.SerializePublicKey(acc.PublicKey)
		res := r.Do(fmt.Sprintf("cpenc %d %s %d %d %d %s %s %s", uint32(g.U64B()), hx.Hex(g.Bytes(32)), uint32(g.U64B()), uint16(g.U64B()), uint32(g.U64B()),
			hx.Hex(g.Bytes(dl)), hx.Hex(own), hx.Hex(sig)))
		if res == "panic" {
			fmt.Fprintln(os.Stderr, "cpenc panicked:", r.LastPanic())
			continue
		}
		enc := hx.UnHex(strings.Fields(res)[0])
		r.Nontrivial(fmt.Sprintf("cpenc/%d/%d", dl, len(sig)))
		// decode: valid, truncated, flipped
		variants := [][]byte{enc}
		if len(enc) > 0 {
			variants = append(variants, enc[:g.Intn(len(enc))])
			fl := append([]byte{}, enc...)
			fl[g.Intn(len(fl))] ^= 1 << uint(g.Intn(8))
			variants = append(variants, fl)
			variants = append(variants, append(append([]byte{}, enc...), g.Bytes(1+g.Intn(4))...))
			// non-canonical var-uint for the data length
			if dl < 0xfd {
				nc := append([]byte{}, enc[:46]...)
				nc = append(nc, 0xfd, byte(dl), 0)
				nc = append(nc, enc[47:]...)
				variants = append(variants, nc)
			}
		}
		for _, v := range variants {
			// external to the model: does the key parser accept the owner bytes, and what is the key's canonical
			// serialization (the parser tolerates trailing bytes)
			keyOk, canonKey := 0, "-"
			if ow, ok := ownerOf(v); ok {
				if pk, err := keypair.DeserializePublicKey(ow); err == nil {
					keyOk = 1
					canonKey = hx.Hex(keypair.SerializePublicKey(pk))
				}
			}
			out := r.Do(fmt.Sprintf("cpdec %s %d %s", hx.Hex(v), keyOk, canonKey))
			r.Nontrivial("cpdec/" + strings.Fields(out)[0])
		}
	}
	// --- header hash
	for i := 0; i < r.Pick(300, 6000); i++ {
		newCase("hdr")
		cpl := []int{0, 1, 0xfc, 0xfd, 200, 0x101}[g.Intn(6)]
		r.Do(fmt.Sprintf("hdr %d %d %s %s %s %s %d %d %d %s %s", g.Intn(1), g.U64B(), hx.Hex(g.Bytes(32)), hx.Hex(g.Bytes(32)), hx.Hex(g.Bytes(32)), hx.Hex(g.Bytes(32)),
			uint32(g.U64B()), uint32(g.U64B()), g.U64B(), hx.Hex(g.Bytes(cpl)), hx.Hex(g.Bytes(20))))
		r.Nontrivial(fmt.Sprintf("hdr/%d", cpl))
	}
	// --- envelope and dispatch
	for i := 0; i < r.Pick(40, 600); i++ {
		for typ := 0; typ <= 12; typ++ {
			newCase("env")
			var pl []byte
			mode := g.Intn(6)
			switch mode {
			case 0, 1: // payload of this type's kind (when it is one)
				k := typ
				if k > 9 {
					k = g.Intn(10)
				}
				pl, _ = rndMsg(k, hx.NewRng(g.U64()), accs()[0]).Serialize()
			case 2: // another kind's payload
				pl, _ = rndMsg(g.Intn(10), hx.NewRng(g.U64()), accs()[0]).Serialize()
			case 3:
				pl = []byte("{}")
			case 4:
				pl = g.Bytes(g.Intn(40))
			case 5:
				pl = []byte("null")
			}
			ln := len(pl)
			switch g.Intn(5) {
			case 0:
				if ln > 0 {
					ln = g.Intn(ln) // too short: must be refused
				}
			case 1:
				ln += 1 + g.Intn(1000) // longer than the payload: accepted by the code
			}
			inner := 0
			if innerDecodes(uint64(typ), pl) {
				inner = 1
			}
			out := r.Do(fmt.Sprintf("env %d %d %s %d", typ, ln, hx.Hex(pl), inner))
			r.Nontrivial(fmt.Sprintf("env/%d/%s", typ, strings.SplitN(out, ":", 3)[0]+":"+strings.SplitN(out+":", ":", 3)[1]))
		}
	}
	// --- round trips of every kind
	for i := 0; i < r.Pick(60, 2500); i++ {
		for k := 0; k < 10; k++ {
			newCase("rt")
			out := r.Do(fmt.Sprintf("rt %d %d", k, g.U64()>>1))
			r.Nontrivial(fmt.Sprintf("rt/%d/%s", k, strings.Fields(out)[0]))
		}
	}
	// --- held bytes: several encodings kept while later ones are made (1 and 2 goroutines)
	for i := 0; i < r.Pick(40, 1500); i++ {
		newCase("held")
		gs := 1 + i%2
		out := r.Do(fmt.Sprintf("held %d %d %d", g.U64()>>1, 2+g.Intn(7), gs))
		r.Nontrivial(fmt.Sprintf("held/%d/%s", gs, strings.Fields(out)[0]))
	}
	// --- signature binding
	for i := 0; i < r.Pick(8, 300); i++ {
		for _, fld := range cpFields {
			newCase("sigcp")
			out := r.Do(fmt.Sprintf("sigcp %s %d", fld, g.U64()>>1))
			r.Nontrivial("sigcp/" + fld + "/" + out)
		}
	}
	for i := 0; i < r.Pick(6, 200); i++ {
		for _, fld := range propFields {
			newCase("sigprop")
			seed := g.U64() >> 1
			// the parse verdict of the (possibly mutated) empty block is external to the model: computed here
			// without recording, then passed in the op line
			_, ep, _ := f.sigprop(fld, seed)
			e := 0
			if ep {
				e = 1
			}
			out := r.Do(fmt.Sprintf("sigprop %s %d %d", fld, seed, e))
			r.Nontrivial("sigprop/" + fld + "/" + out)
			r.Hist("sigprop." + out)
		}
	}
}

