package hx

// Rng is splitmix64: every random choice of a run derives from VERIF_SEED through one state.
type Rng struct{ s uint64 }

func NewRng(seed uint64) *Rng {
	// hash the seed (two splitmix rounds) so that different seeds give unrelated streams, not shifted ones
	r := &Rng{s: seed ^ 0x5DEECE66D1234567}
	a := r.U64()
	b := r.U64()
	return &Rng{s: a ^ (b << 1) ^ seed}
}

func (r *Rng) U64() uint64 {
	r.s += 0x9E3779B97F4A7C15
	z := r.s
	z = (z ^ (z >> 30)) * 0xBF58476D1CE4E5B9
	z = (z ^ (z >> 27)) * 0x94D049BB133111EB
	return z ^ (z >> 31)
}

// Intn returns a value in [0, n).
func (r *Rng) Intn(n int) int {
	if n <= 0 {
		return 0
	}
	return int(r.U64() % uint64(n))
}

func (r *Rng) Bool() bool { return r.U64()&1 == 1 }

// Chance is true with probability num/den.
func (r *Rng) Chance(num, den int) bool { return r.Intn(den) < num }

func (r *Rng) Bytes(n int) []byte {
	b := make([]byte, n)
	for i := range b {
		b[i] = byte(r.U64())
	}
	return b
}

// Boundary-heavy 64-bit value.
func (r *Rng) U64B() uint64 {
	b := []uint64{0, 1, 2, 0x7f, 0x80, 0xfc, 0xfd, 0xfe, 0xff, 0x100, 0xfffe, 0xffff, 0x10000, 0x10001,
		0x7fffffff, 0x80000000, 0xfffffffe, 0xffffffff, 0x100000000, 0x100000001,
		0x7fffffffffffffff, 0x8000000000000000, 0xfffffffffffffffe, 0xffffffffffffffff}
	switch r.Intn(4) {
	case 0:
		return b[r.Intn(len(b))]
	case 1:
		return b[r.Intn(len(b))] + uint64(r.Intn(5)) - 2
	case 2:
		return r.U64() >> uint(r.Intn(64))
	default:
		return r.U64()
	}
}

func (r *Rng) Perm(n int) []int {
	p := make([]int, n)
	for i := range p {
		p[i] = i
	}
	for i := n - 1; i > 0; i-- {
		j := r.Intn(i + 1)
		p[i], p[j] = p[j], p[i]
	}
	return p
}
