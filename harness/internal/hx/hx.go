// Package hx is the shared runtime of the correspondence harnesses: one seeded PRNG, the line
// protocol (ops / outcomes / property-oracle failures / stats), panic capture and replay mode.
package hx

import (
	"bufio"
	"encoding/hex"
	"encoding/json"
	"flag"
	"fmt"
	"os"
	"sort"
	"strings"
)

// Family is one op vocabulary executed on the real code.
type Family interface {
	// Reset starts a new case (fresh state).
	Reset(r *Run)
	// Exec executes one op on the implementation and returns its canonical outcome (one line).
	Exec(r *Run, op []string) string
	// Gen generates cases by calling r.Case / r.Do; it may look at outcomes.
	Gen(r *Run)
}

type Run struct {
	Seed  uint64
	Tier  string
	Rng   *Rng
	fam   Family
	ops   *bufio.Writer
	out   *bufio.Writer
	viol  *bufio.Writer
	stats string

	caseID   string
	caseOps  []string
	nOps     int
	hist     map[string]int
	distinct map[string]struct{}
	samples  []interface{}
	rule     string
	nViol    int
	PanicMsg string
}

func (r *Run) Thorough() bool { return r.Tier == "thorough" }

// Pick returns q in the quick tier and t in the thorough tier.
func (r *Run) Pick(q, t int) int {
	if r.Thorough() {
		return t
	}
	return q
}

func (r *Run) Case(id string) {
	r.caseID = id
	r.caseOps = r.caseOps[:0]
	fmt.Fprintf(r.ops, "#case %s\n", id)
	fmt.Fprintf(r.out, "#\n")
	r.nOps++
	r.fam.Reset(r)
}

// Do executes op on the implementation, logs op and outcome, returns the outcome.
func (r *Run) Do(op string) (res string) {
	fields := strings.Fields(op)
	r.caseOps = append(r.caseOps, op)
	func() {
		defer func() {
			if e := recover(); e != nil {
				res = "panic"
				r.Hist("outcome.panic")
				r.PanicMsg = fmt.Sprint(e)
			}
		}()
		res = r.fam.Exec(r, fields)
	}()
	res = strings.ReplaceAll(res, "\n", " ")
	fmt.Fprintf(r.ops, "%s\n", op)
	fmt.Fprintf(r.out, "%s\n", res)
	r.nOps++
	if len(fields) > 0 {
		r.Hist("op." + fields[0])
	}
	return res
}

// Viol records that the property itself, evaluated on the implementation's outputs, failed.
// key identifies the specific input / call site / history (stable across runs).
func (r *Run) Viol(key, desc string) {
	r.nViol++
	if r.nViol > 200 {
		return
	}
	ops := r.caseOps
	if len(ops) > 300 {
		ops = ops[len(ops)-300:]
	}
	fmt.Fprintf(r.viol, "%s\t%s\t%s\t%s\n", r.caseID, key, strings.ReplaceAll(desc, "\t", " "), strings.Join(append([]string{"#case " + r.caseID}, ops...), " ;; "))
	r.viol.Flush()
}

func (r *Run) Hist(k string) { r.hist[k]++ }

// Nontrivial counts a case signature as distinct and non-trivial (by the family's stated rule).
func (r *Run) Nontrivial(sig string) { r.distinct[sig] = struct{}{} }

func (r *Run) Sample(s interface{}) {
	if len(r.samples) < 6 {
		r.samples = append(r.samples, s)
	}
}
func (r *Run) Rule(s string) { r.rule = s }

// PanicMsg of the last recovered panic.
func (r *Run) LastPanic() string { return r.PanicMsg }

// Main parses the common flags and runs the selected family in generation or replay mode.
func Main(fams map[string]func() Family) {
	if len(os.Args) < 2 {
		names := []string{}
		for k := range fams {
			names = append(names, k)
		}
		sort.Strings(names)
		fmt.Fprintf(os.Stderr, "usage: %s <family> flags; families: %v\n", os.Args[0], names)
		os.Exit(2)
	}
	name := os.Args[1]
	mk, ok := fams[name]
	if !ok {
		fmt.Fprintf(os.Stderr, "unknown family %s\n", name)
		os.Exit(2)
	}
	fs := flag.NewFlagSet(name, flag.ExitOnError)
	seed := fs.Uint64("seed", 1, "")
	tier := fs.String("tier", "quick", "")
	ops := fs.String("ops", "/dev/null", "")
	out := fs.String("out", "/dev/stdout", "")
	viol := fs.String("viol", "/dev/null", "")
	stats := fs.String("stats", "/dev/null", "")
	replay := fs.String("replay", "", "")
	fs.Parse(os.Args[2:])
	r := &Run{Seed: *seed, Tier: *tier, Rng: NewRng(*seed), hist: map[string]int{}, distinct: map[string]struct{}{}, stats: *stats}
	r.fam = mk()
	open := func(p string) *bufio.Writer {
		f, err := os.Create(p)
		if err != nil {
			fmt.Fprintln(os.Stderr, err)
			os.Exit(2)
		}
		return bufio.NewWriterSize(f, 1<<20)
	}
	r.ops, r.out, r.viol = open(*ops), open(*out), open(*viol)
	if *replay != "" {
		data, err := os.ReadFile(*replay)
		if err != nil {
			fmt.Fprintln(os.Stderr, err)
			os.Exit(2)
		}
		started := false
		for _, line := range strings.Split(string(data), "\n") {
			line = strings.TrimRight(line, "\r")
			if line == "" {
				continue
			}
			if strings.HasPrefix(line, "#case") {
				r.Case(strings.TrimSpace(line[5:]))
				started = true
				continue
			}
			if !started {
				r.Case("replay")
				started = true
			}
			r.Do(line)
		}
	} else {
		r.fam.Gen(r)
	}
	r.ops.Flush()
	r.out.Flush()
	r.viol.Flush()
	st := map[string]interface{}{
		"evaluations": r.nOps, "distinct_nontrivial": len(r.distinct), "rule": r.rule,
		"histogram": r.hist, "samples": r.samples, "property_oracle_failures": r.nViol,
	}
	b, _ := json.Marshal(st)
	os.WriteFile(*stats, b, 0644)
}

// Hex renders bytes for the line protocol ("-" is the empty string).
func Hex(b []byte) string {
	if len(b) == 0 {
		return "-"
	}
	return hex.EncodeToString(b)
}

func UnHex(s string) []byte {
	if s == "-" {
		return []byte{}
	}
	b, err := hex.DecodeString(s)
	if err != nil {
		panic("bad hex in op: " + s)
	}
	return b
}
