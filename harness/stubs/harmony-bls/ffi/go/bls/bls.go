// Package bls is a pure-Go stand-in for the cgo binding github.com/harmony-one/bls/ffi/go/bls, whose C library
// (libbls384_256 / mcl) is not available in the verification sandbox. It has the same API; every BLS operation
// fails (deserialization returns an error, verification returns false). It exists only so that the packages of
// polynetwork/poly that import the harmony router (cross_chain_manager, header_sync, native/service) can be linked
// into the correspondence harness; the harmony router itself is therefore not driven dynamically.
package bls

import (
	"encoding/hex"
	"errors"
	"io"
)

const (
	CurveFp254BNb = 0
	CurveFp382_1  = 1
	CurveFp382_2  = 2
	BLS12_381     = 5
)

var errUnavailable = errors.New("bls: C library not available in the verification sandbox (stub)")

func Init(curve int) error { return nil }

func GetMaxOpUnitSize() int   { return 6 }
func GetOpUnitSize() int      { return 6 }
func GetCurveOrder() string   { return "" }
func GetFieldOrder() string   { return "" }
func SetRandFunc(r io.Reader) {}

type ID struct{ v [32]byte }

func (id *ID) Serialize() []byte                { return append([]byte{}, id.v[:]...) }
func (id *ID) Deserialize(buf []byte) error     { return errUnavailable }
func (id *ID) GetLittleEndian() []byte          { return id.Serialize() }
func (id *ID) SetLittleEndian(buf []byte) error { return errUnavailable }
func (id *ID) SerializeToHexStr() string        { return hex.EncodeToString(id.Serialize()) }
func (id *ID) DeserializeHexStr(s string) error { return errUnavailable }
func (id *ID) IsEqual(rhs *ID) bool             { return id.v == rhs.v }
func (id *ID) GetHexString() string             { return id.SerializeToHexStr() }
func (id *ID) GetDecString() string             { return "" }
func (id *ID) SetHexString(s string) error      { return errUnavailable }
func (id *ID) SetDecString(s string) error      { return errUnavailable }

type SecretKey struct{ v [32]byte }

func (sec *SecretKey) Serialize() []byte                { return append([]byte{}, sec.v[:]...) }
func (sec *SecretKey) Deserialize(buf []byte) error     { return errUnavailable }
func (sec *SecretKey) GetLittleEndian() []byte          { return sec.Serialize() }
func (sec *SecretKey) SetLittleEndian(buf []byte) error { return errUnavailable }
func (sec *SecretKey) SerializeToHexStr() string        { return hex.EncodeToString(sec.Serialize()) }
func (sec *SecretKey) DeserializeHexStr(s string) error { return errUnavailable }
func (sec *SecretKey) GetHexString() string             { return sec.SerializeToHexStr() }
func (sec *SecretKey) GetDecString() string             { return "" }
func (sec *SecretKey) SetHexString(s string) error      { return errUnavailable }
func (sec *SecretKey) SetDecString(s string) error      { return errUnavailable }
func (sec *SecretKey) IsEqual(rhs *SecretKey) bool      { return sec.v == rhs.v }
func (sec *SecretKey) SetByCSPRNG()                     {}
func (sec *SecretKey) Add(rhs *SecretKey)               {}
func (sec *SecretKey) GetMasterSecretKey(k int) (msk []SecretKey) {
	return make([]SecretKey, k)
}
func GetMasterPublicKey(msk []SecretKey) (mpk []PublicKey)          { return make([]PublicKey, len(msk)) }
func (sec *SecretKey) Set(msk []SecretKey, id *ID) error            { return errUnavailable }
func (sec *SecretKey) Recover(secVec []SecretKey, idVec []ID) error { return errUnavailable }
func (sec *SecretKey) GetPop() (sig *Sign)                          { return &Sign{} }
func (sec *SecretKey) GetPublicKey() (pub *PublicKey)               { return &PublicKey{} }
func (sec *SecretKey) Sign(m string) (sig *Sign)                    { return &Sign{} }
func (sec *SecretKey) SignHash(hash []byte) (sig *Sign)             { return &Sign{} }

type PublicKey struct{ v [48]byte }

func (pub *PublicKey) GetAddress() [20]byte              { return [20]byte{} }
func (pub *PublicKey) Serialize() []byte                 { return append([]byte{}, pub.v[:]...) }
func (pub *PublicKey) Deserialize(buf []byte) error      { return errUnavailable }
func (pub *PublicKey) SerializeToHexStr() string         { return hex.EncodeToString(pub.Serialize()) }
func (pub *PublicKey) DeserializeHexStr(s string) error  { return errUnavailable }
func (pub *PublicKey) GetHexString() string              { return pub.SerializeToHexStr() }
func (pub *PublicKey) SetHexString(s string) error       { return errUnavailable }
func (pub *PublicKey) IsEqual(rhs *PublicKey) bool       { return pub.v == rhs.v }
func (pub *PublicKey) Add(rhs *PublicKey)                {}
func (pub *PublicKey) Sub(rhs *PublicKey)                {}
func (pub *PublicKey) Set(mpk []PublicKey, id *ID) error { return errUnavailable }
func (pub *PublicKey) Recover(pubVec []PublicKey, idVec []ID) error {
	return errUnavailable
}

type Sign struct{ v [96]byte }

func (sig *Sign) Serialize() []byte                           { return append([]byte{}, sig.v[:]...) }
func (sig *Sign) Deserialize(buf []byte) error                { return errUnavailable }
func (sig *Sign) SerializeToHexStr() string                   { return hex.EncodeToString(sig.Serialize()) }
func (sig *Sign) DeserializeHexStr(s string) error            { return errUnavailable }
func (sig *Sign) GetHexString() string                        { return sig.SerializeToHexStr() }
func (sig *Sign) SetHexString(s string) error                 { return errUnavailable }
func (sig *Sign) IsEqual(rhs *Sign) bool                      { return sig.v == rhs.v }
func (sig *Sign) Add(rhs *Sign)                               {}
func (sig *Sign) Recover(sigVec []Sign, idVec []ID) error     { return errUnavailable }
func (sig *Sign) Verify(pub *PublicKey, m string) bool        { return false }
func (sig *Sign) VerifyPop(pub *PublicKey) bool               { return false }
func (sig *Sign) VerifyHash(pub *PublicKey, hash []byte) bool { return false }
func (sig *Sign) VerifyAggregateHashes(pubVec []PublicKey, hash [][]byte) bool {
	return false
}

func DHKeyExchange(sec *SecretKey, pub *PublicKey) (out PublicKey) { return PublicKey{} }
func HashAndMapToSignature(buf []byte) *Sign                       { return &Sign{} }
func VerifyPairing(X *Sign, Y *Sign, pub *PublicKey) bool          { return false }
