#!/bin/sh
# Regenerates the harness module's go.mod / go.sum from $VERIF_REPO's (default /repo) current go.mod.
# usage: gen_gomod.sh [outdir]   (default: the harness directory itself, always pointing at /repo;
# ./check passes a per-run directory and builds with `go build -modfile=<outdir>/go.mod`, so that runs
# against a scratch copy (VERIF_REPO=...) never disturb concurrent builds)
set -e
HERE="$(cd "$(dirname "$0")" && pwd)"
OUT="${1:-$HERE}"
if [ "$OUT" = "$HERE" ]; then REPO=/repo; else REPO=${VERIF_REPO:-/repo}; fi
mkdir -p "$OUT"
{
  echo "module polyverif"
  echo
  echo "go 1.14"
  echo
  echo "require github.com/polynetwork/poly v0.0.0"
  echo
  echo "replace github.com/polynetwork/poly => $REPO"
  echo
  awk '/^replace \(/{f=1;print;next} f&&/^\)/{print;f=0;next} f{print}' "$REPO/go.mod"
  # extra replace directives of individual harnesses: one `old => new` per line in replace.d/*.txt, $HERE expanded
  # (e.g. a pure-Go stand-in for a cgo binding whose C library is not in the sandbox)
  for f in "$HERE"/replace.d/*.txt; do
    if [ -f "$f" ]; then sed -e "s|\$HERE|$HERE|g" -e 's/^/replace /' "$f"; fi
  done
} > "$OUT/go.mod.tmp.$$"
mv "$OUT/go.mod.tmp.$$" "$OUT/go.mod"
cp "$REPO/go.sum" "$OUT/go.sum.tmp.$$"
mv "$OUT/go.sum.tmp.$$" "$OUT/go.sum"
