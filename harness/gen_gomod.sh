#!/bin/sh
# Regenerates go.mod / go.sum of the harness module from /repo's current go.mod (run by ./check).
set -e
REPO=${VERIF_REPO:-/repo}
cd "$(dirname "$0")"
{
  echo "module polyverif"
  echo
  echo "go 1.14"
  echo
  echo "require github.com/polynetwork/poly v0.0.0"
  echo
  echo "replace github.com/polynetwork/poly => $REPO"
  echo
  awk '/^replace \(/{f=1;print;next} f&&/^\)/{print;f=0;next} f{print}' "$REPO/go.mod"
} > go.mod
cp "$REPO/go.sum" go.sum
