"""./check --setup: build everything from files on disk (offline): translator outputs, the Lean library
(every property module), the compiled drivers, and the Go harness binaries (warms the Go build cache)."""
import glob
import os
import re
import sys

import vcheck


def main():
    ok = True
    ctx = vcheck.Ctx("setup", "quick", 1)
    # 1. translator outputs needed by Lean modules
    import importlib
    for name in sorted(os.listdir(os.path.join(vcheck.ROOT, "checks"))):
        if re.fullmatch(r"C\d+\.py", name):
            mod = importlib.import_module("checks." + name[:-3])
            if hasattr(mod, "generate"):
                mod.generate(ctx)
    # 2. Lean: all property modules + drivers
    props = sorted("Poly.Props." + os.path.basename(p)[:-5] for p in glob.glob(os.path.join(vcheck.LEAN, "Poly", "Props", "*.lean")))
    lf = open(os.path.join(vcheck.LEAN, "lakefile.toml")).read()
    exes = [n for n, r in re.findall(r'name = "(drv_[a-z0-9_]+)"\s*\nroot = "([A-Za-z0-9_.]+)"', lf)
            if os.path.exists(os.path.join(vcheck.LEAN, *r.split(".")) + ".lean")]
    rc, out = ctx.lean_build(props + exes, timeout=7200)
    if rc != 0:
        print(out[-6000:])
        ok = False
    # 3. Go harness binaries
    if ctx.gen_gomod():
        rc, out = vcheck.sh(["go", "build", "-modfile=" + os.path.join(ctx.moddir, "go.mod"), "-tags", "verif", "./..."], cwd=vcheck.HARNESS, env=vcheck.GOENV, timeout=3600)
        print("go build harness rc=%d" % rc)
        if rc != 0:
            print(out[-6000:])
            ok = False
    for d in sorted(glob.glob(os.path.join(vcheck.EXTRACT, "*"))):
        rc, out = vcheck.sh(["go", "build", "-o", os.devnull, "."], cwd=d, env=vcheck.GOENV, timeout=1800)
        if rc != 0:
            print(out[-3000:])
            ok = False
    import shutil
    shutil.rmtree(ctx.scratch, ignore_errors=True)
    print("setup", "ok" if ok else "FAILED")
    return 0 if ok else 1
