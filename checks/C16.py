"""C16 — block execution is deterministic.

(b) static: translator extract/callgraph regenerates Poly/Generated/CallGraph.lean (module call graph, entry points =
registered native handlers + ChainHandler/HeaderSyncHandler implementations + block-execution path, forbidden sink use
sites, closure certificate, witness paths); Poly/Props/C16.lean re-checks the certificate in the kernel and proves that
the reachable sink sites are exactly the hand-written list `knownSites`. Every reachable site is reported under the
key `C16:sink-reachable:<site>`; the eleven time.Now() reads of the header-sync handlers are known findings (F3),
anything else is a VIOLATION.
The same certificate carries two further sink kinds with their own exactness theorems: places that write process-wide
state (assignment / element store / delete on, or a method call on, a package-level variable: keys
`C16:process-global-state-written:<pkg.var> in <func>`; reviewed list knownGlobalSites) and `go` statements / multi-way
selects (`C16:goroutine-in-contract-path:<func>`; none reachable).
(a) dynamic: stream `determ` (hnative): every block — scripted-contract blocks of the C15 generator and blocks of real
governance transactions (node_manager / side_chain_manager / relayer_manager methods that range over Go maps) — is
executed k times on two ledgers with the same history (fresh stores), and ExecuteResult (write set, digest, cross
hashes, cross root, events, state root) must be identical; the scripted part is also compared with the Lean model.
Thorough tier additionally runs a whole-program analysis WITH dependency bodies (SSA + RTA, extract/callgraph/deep) and
validates the translator by coverage: every contract function executed by the streams must be
in the translator's reachable set. Stream `clock`: the same ETH SyncBlockHeader transaction on the same state, 3 s apart, rejected then accepted (concrete
input for the known finding of that site).
"""
import json
import os


def generate(ctx):
    from checks import native_extract
    return native_extract.extract(ctx, "callgraph", ["functions"], "CallGraph.lean")


def static_part(ctx, facts):
    ctx.cov["callgraph"] = {k: facts[k] for k in ("module_functions", "reachable", "edges_from_reachable",
                                                  "registered_handlers", "chain_handler_types")}
    ctx.cov["callgraph"]["entry_points"] = len(facts["entries"])
    ctx.cov["callgraph"]["sink_sites_total"] = len(facts["sites"])
    ctx.cov["callgraph"]["external_packages_used_by_reachable_code"] = facts.get("external_packages_used") or []
    ctx.cov["callgraph"]["external_packages_note"] = ("bodies of these packages are not followed by the kernel-checked module graph "
                                                      "(quick tier: assumed free of clock/random reads that influence results); the "
                                                      "thorough tier follows them with a whole-program RTA call graph (deep_analysis)")
    reach = [s for s in facts["sites"] if s["reachable"] and s.get("kind", "clock") == "clock"]
    ctx.cov["callgraph"]["sink_sites_reachable"] = [{"key": s["key"], "pos": s["pos"], "entry": s.get("entry")} for s in reach]
    ctx.cov["evaluations"] += facts["edges_from_reachable"]
    ctx.cov["distinct_nontrivial"] += len(facts["entries"])
    ctx.cov["rule"] = ("static: %d entry points, %d reachable functions, %d edges checked by the kernel, %d sink use sites in the "
                       "module of which %d reachable" % (len(facts["entries"]), facts["reachable"], facts["edges_from_reachable"],
                                                        len(facts["sites"]), len(reach)))
    ctx.cov["samples"].append({"entry_points_sample": facts["entries"][:3]})
    for s in reach:
        ctx.violate("C16:sink-reachable:%s" % s["key"],
                    "%s at %s is reachable from a native contract entry point (%s): the result of executing a block can "
                    "depend on the node's wall clock / a random source" % (s["key"].split("->")[-1].split("#")[0], s["pos"], s.get("entry")),
                    {"kind": "call-path", "site": s["key"], "pos": s["pos"], "entry": s.get("entry"), "path": s["path"],
                     "how_to_reproduce": "cd extract/callgraph && go run . <repo> json | look for this site key"},
                    found_input=False)
    # further sink kinds: process-wide state written, goroutines / multi-way selects. The reviewed lists are the Lean
    # definitions knownGlobalSites / knownGoroutineSites of Props/C16.lean (single source of truth).
    import re
    import vcheck
    src = open(os.path.join(vcheck.LEAN, "Poly", "Props", "C16.lean")).read()

    def lean_list(name):
        m = re.search(r"def %s : List String := \[(.*?)\]" % name, src, re.S)
        return set(re.findall(r'"([^"]*)"', m.group(1))) if m else set()
    known = {"global": lean_list("knownGlobalSites"), "goroutine": lean_list("knownGoroutineSites")}
    other = {"global": [], "goroutine": []}
    for s in facts["sites"]:
        k = s.get("kind", "clock")
        if k == "clock" or not s["reachable"]:
            continue
        other[k].append(s["key"])
        if s["key"] in known[k]:
            continue
        func, what = s["key"].split("->", 1)
        what = what.split("#")[0]
        if k == "global":
            var = what.split(":", 1)[1]
            ctx.violate("C16:process-global-state-written:%s in %s" % (var, func),
                        "%s at %s (reachable from %s) %s the package-level variable %s: state that outlives the transaction and "
                        "the block, so the result of executing a block can depend on what this process executed before"
                        % (func, s["pos"], s.get("entry"), "writes" if what.startswith("write:") else "calls a method on", var),
                        {"kind": "call-path", "site": s["key"], "pos": s["pos"], "path": s["path"]}, found_input=False)
        else:
            ctx.violate("C16:goroutine-in-contract-path:%s" % func,
                        "%s at %s (reachable from %s) contains a `%s`: the result can depend on scheduling"
                        % (func, s["pos"], s.get("entry"), what),
                        {"kind": "call-path", "site": s["key"], "pos": s["pos"], "path": s["path"]}, found_input=False)
    ctx.cov["callgraph"]["global_state_sites_reachable"] = sorted(other["global"])
    ctx.cov["callgraph"]["goroutine_sites_reachable"] = sorted(other["goroutine"])
    ctx.cov["callgraph"]["sites_by_kind_total"] = {k: len([s for s in facts["sites"] if s.get("kind", "clock") == k])
                                                   for k in ("clock", "global", "goroutine")}
    return reach


def run(ctx):
    ctx.level = "proof"
    ctx.assumptions += [
        "call graph = over-approximation computed by extract/callgraph from go/types facts of the module's packages "
        "(rules E1-E5 in its header); bodies of dependencies (standard library, third-party) are not followed; "
        "reflection (MethodByName) and unsafe are out of reach; package common/log is treated as opaque (log output is not a result)",
        "seeded math/rand generators (rand.New(rand.NewSource(const))) are deterministic and not sinks (MemDB skip-list heights); "
        "a seed taken from a sink would be reported through that sink",
        "(a) the model's execBlock is a Lean function; determinism of the real code is observed by repetition, not proved",
    ]
    ctx.cov["trusted_base"] += ["extract/callgraph (go/packages + go/types translator)", "Go type checker / export data",
                                "harness hnative (determ stream) + drv_native"]
    facts = generate(ctx)
    ctx.lean_props()
    hbin = ctx.build_harness("hnative")
    # dynamic demonstration of one reachable wall-clock read (concrete input for that site); before the static
    # report so that the site's replay file carries the transaction
    if hbin:
        res = ctx.correspondence("clock", hbin, ["clock"], None)
        ctx.judge(res)
    reach = static_part(ctx, facts) if facts else []
    dynamic_part(ctx, hbin)
    if facts and ctx.thorough():
        coverage_crosscheck(ctx, facts)
        deep_analysis(ctx, facts)
    # the Lean obligations fail exactly when the reachable sites differ from knownSites; the concrete sites are
    # reported above, so the theorem failure itself is only reported when nothing concrete explains it
    ctx.judge_lean()


# Dependency-level sink sites that the whole-program analysis may report, with the reason each is not a determinism defect
# of block execution. Anything else reachable in a dependency is a VIOLATION.
DEEP_BENIGN = [
    ("github.com/syndtr/goleveldb/", "storage engine internals (compaction pacing, statistics, iterator sampling, close): do not influence the "
                                     "values returned by Get/iterators; LevelDB is modelled as a finite map (trusted base)"),
    ("github.com/ethereum/go-ethereum/log.", "logging"),
    ("github.com/rs/zerolog/", "logging (harmony's logger)"),
    ("github.com/ontio/ontology-crypto/ec.curveSqrt", "randomised square-root branch only for curve primes p with p mod 4 != 3; P-256, secp256k1 and SM2 "
                                                      "take the deterministic branch; the caller fixes the root's parity"),
    ("github.com/rubblelabs/ripple/data.Now", "reached only through fmt's Stringer dispatch on a ripple Amount with demurrage (RTA imprecision: any "
                                              "fmt call may print any live type); affects an error/log text only"),
    ("time.sendTime", "runtime timer callback (reached through reflect.Value.Call imprecision)"),
    ("internal/concurrent.", "hash seeds of the standard library's internal concurrent map (no observable effect)"),
]


def deep_analysis(ctx, facts):
    """Thorough tier: whole-program SSA + rapid type analysis WITH the bodies of every dependency (extract/callgraph/deep),
    loaded through the harness module. Module-level sink callers must be exactly the functions of the known sites;
    dependency-level ones must be in DEEP_BENIGN."""
    import vcheck
    if not ctx.gen_gomod():
        return
    binp = os.path.join(ctx.bindir, "x_callgraph_deep")
    rc, out = vcheck.sh(["go", "build", "-o", binp, "./deep"], cwd=os.path.join(vcheck.EXTRACT, "callgraph"), env=vcheck.GOENV, timeout=900)
    if rc != 0:
        ctx.violate("precondition:extract-build:callgraph-deep", "deep call-graph analyser does not build", {"kind": "precondition", "output": out[-3000:]},
                    found_input=False)
        return
    side = os.path.join(ctx.tmpdir, "callgraph.json")
    if not os.path.exists(side):
        with open(side, "w") as f:
            json.dump(facts, f)
    import subprocess
    p = subprocess.run([binp, vcheck.HARNESS, os.path.join(ctx.moddir, "go.mod"), side], stdout=subprocess.PIPE, stderr=subprocess.PIPE,
                       text=True, timeout=3600, env=vcheck.GOENV)
    ctx.note("deep call-graph analysis rc=%d" % p.returncode)
    if p.returncode != 0:
        ctx.violate("translator:callgraph-deep", "whole-program analysis failed: " + p.stderr[-800:], {"kind": "translator", "stderr": p.stderr[-4000:]},
                    found_input=False)
        return
    deep = json.loads(p.stdout)
    known_funcs = set()
    for s in facts["sites"]:
        if s["reachable"]:
            known_funcs.add(s["key"].split("->")[0])
    report = {"roots": deep["roots"], "reachable_functions": deep["reachable_functions"],
              "external_packages_followed": [x["package"] for x in deep["external_packages_followed"]],
              "module_sites": [], "dependency_sites_benign": [], "unexpected": []}
    mod = "github.com/polynetwork/poly/"
    for s in deep["sink_sites"]:
        caller = s["caller"]
        name = caller.replace("(*" + mod, "(*").replace(mod, "")
        if mod in caller:
            # normalise "(*pkg.T).M" (ssa) to "pkg.(*T).M" (module graph)
            import re
            m = re.match(r"\(\*(.+)\.(\w+)\)\.(\w+)$", name)
            norm = "%s.(*%s).%s" % (m.group(1), m.group(2), m.group(3)) if m else name
            if norm in known_funcs:
                report["module_sites"].append(norm + "->" + s["sink"])
            else:
                report["unexpected"].append(s)
            continue
        why = next((w for pre, w in DEEP_BENIGN if caller.lstrip("(*").startswith(pre)), None)
        if why:
            report["dependency_sites_benign"].append({"caller": caller, "sink": s["sink"], "why": why})
        else:
            report["unexpected"].append(s)
    ctx.cov["deep_analysis"] = report
    for s in report["unexpected"]:
        ctx.violate("C16:deep-sink-reachable:%s->%s" % (s["caller"], s["sink"]),
                    "%s is reachable from a native contract entry point through %s (whole-program analysis with dependency bodies)"
                    % (s["sink"], s["caller"]), {"kind": "call-path", "path": s["path"]}, found_input=False)


def coverage_crosscheck(ctx, facts):
    """Validates the translator dynamically (thorough tier): the harness is rebuilt with coverage instrumentation of the
    native packages, the witness and determ streams are run, and every function of native/service that was executed must be
    in the translator's reachable set (or be reachable from package initialisers only, or be called by the harness itself:
    parameter serialisers and verif hooks). A miss means the call graph lacks an edge."""
    import collections
    import re
    import vcheck
    if not ctx.gen_gomod():
        return
    hcov = os.path.join(ctx.bindir, "hnative-cover")
    rc, out = vcheck.sh(["go", "build", "-modfile=" + os.path.join(ctx.moddir, "go.mod"), "-tags", "verif", "-cover",
                         "-coverpkg=polyverif/cmd/hnative,github.com/polynetwork/poly/native/...", "-o", hcov, "./cmd/hnative"],
                        cwd=vcheck.HARNESS, env=vcheck.GOENV, timeout=3600)
    ctx.note("go build -cover cmd/hnative rc=%d" % rc)
    if rc != 0:
        ctx.violate("precondition:build:hnative-cover", "coverage build of the harness failed", {"kind": "precondition", "output": out[-3000:]},
                    found_input=False)
        return
    covdir = os.path.join(ctx.tmpdir, "covdir")
    os.makedirs(covdir, exist_ok=True)
    env = dict(vcheck.GOENV)
    env["GOCOVERDIR"] = covdir
    env["TMPDIR"] = ctx.scratch
    for fam in ("witness", "determ"):
        base = os.path.join(ctx.tmpdir, "cov-" + fam)
        rc, out = vcheck.sh([hcov, fam, "-seed", str(ctx.seed), "-tier", "quick", "-ops", base + ".ops", "-out", base + ".go",
                             "-viol", base + ".viol", "-stats", base + ".stats"], env=env, timeout=3000)
        ctx.note("coverage run %s rc=%d" % (fam, rc))
    txt = os.path.join(ctx.tmpdir, "cov.txt")
    rc, out = vcheck.sh(["go", "tool", "covdata", "textfmt", "-i=" + covdir, "-o=" + txt], env=vcheck.GOENV, timeout=600)
    if rc != 0 or not os.path.exists(txt):
        ctx.violate("precondition:covdata", "go tool covdata failed: " + out[-500:], {"kind": "precondition"}, found_input=False)
        return
    byfile = collections.defaultdict(list)
    for f in facts.get("functions") or []:
        byfile[f["file"]].append(f)
    executed = {}
    for line in open(txt):
        m = re.match(r"(.+):(\d+)\.\d+,(\d+)\.\d+ (\d+) (\d+)$", line.strip())
        if not m or int(m.group(5)) == 0:
            continue
        for f in byfile.get(m.group(1), []):
            if f["l0"] <= int(m.group(2)) <= f["l1"]:
                executed[f["name"]] = f
                break
    missed = [n for n, f in executed.items() if not f["reachable"] and not f["init_reachable"]
              and n.startswith("native/service/") and not re.search(r"Serialization$|\.Verif", n)]
    ctx.cov["callgraph_coverage_crosscheck"] = {"executed_module_functions": len(executed),
                                                "executed_contract_functions": len([n for n in executed if n.startswith("native/service/")]),
                                                "missed": missed}
    for n in missed:
        ctx.violate("translator:callgraph-missed-function:%s" % n,
                    "function %s was executed during the native streams but is not in the call graph's reachable set: the graph "
                    "lacks an edge, the closure theorem is about an incomplete graph" % n,
                    {"kind": "translator", "function": executed[n]}, found_input=False)


def dynamic_part(ctx, hbin):
    drv = ctx.build_driver("drv_native")
    if not hbin:
        return
    if not drv and ctx.lean_ok:
        ctx.violate("precondition:driver", "drv_native does not build", {"kind": "driver"}, found_input=False)
    res = ctx.correspondence("determ", hbin, ["determ"], drv, ["determ"])
    ctx.judge(res, theorem_hint="Poly.Props.C16 (a): real ExecuteBlock no longer equals the model function on every repetition")
