"""C25 — vote-based approvals fire exactly once at two thirds.

Proof: Poly/Props/C25.lean (thresholds of CheckVotes / CheckSigns = ceil(2N/3) on the definitions generated from the
Go source; for every vote / signature sequence and every sequence of consensus sets: non-members rejected, repeats
count once, released / emitted at exactly the first vote reaching ceil(2N/3) of the distinct current validators, at
most once). Tie: thresholds translator + correspondence stream `gov-votes` (real consensus_vote.CheckVotes and
signature_manager.AddSignature on a real CacheDB, N = 1..13, repeat voters, outsiders, missing witnesses, validator-set
changes through quit / candidate approval / commitDpos in between); the harness evaluates the property with its own
bookkeeping of the distinct current validators that voted.
The vote handler glue (consensus_vote.VoteHandler.MakeDepositProposal: witness, vote id, release, payload decoding,
done-transaction guard with revert) is run on the real code in the same stream (`deposit` ops) and modelled; the vote
id (SHA-256 of the unique EntranceParam) and the cross chain id inside the payload are oracle values of the op line,
checked by the harness. ripple RippleHandler.MakeDepositProposal's vote phase runs in the same stream (`rdeposit` ops;
the success of its asset-binding continuation is an oracle value). Votes are counted per exact payload: payloads of one
source transaction that differ only in amount / destination / target contract must not be tallied together.
side_chain_manager.UpdateFee (another CheckVotes caller) is covered by `fee` ops.
"""
from checks import gov_common


def run(ctx):
    gov_common.run_streams(ctx, "C25", ["gov-votes"], "Poly.Props.C25.fires_at_first_quorum / emits_at_first_quorum")
