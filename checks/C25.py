"""C25 — vote-based approvals fire exactly once at two thirds.

Proof: Poly/Props/C25.lean (thresholds of CheckVotes / CheckSigns = ceil(2N/3) on the definitions generated from the
Go source; for every vote / signature sequence and every sequence of consensus sets: non-members rejected, repeats
count once, released / emitted at exactly the first vote reaching ceil(2N/3) of the distinct current validators, at
most once). Tie: thresholds translator + correspondence stream `gov-votes` (real consensus_vote.CheckVotes and
signature_manager.AddSignature on a real CacheDB, N = 1..13, repeat voters, outsiders, missing witnesses, validator-set
changes through quit / candidate approval / commitDpos in between); the harness evaluates the property with its own
bookkeeping of the distinct current validators that voted.
Not covered: consensus_vote.VoteHandler.MakeDepositProposal and ripple_handler glue around CheckVotes (id derivation,
done-tx bookkeeping) — exercised by the cross-chain checks, not here.
"""
from checks import gov_common


def run(ctx):
    gov_common.run_streams(ctx, "C25", ["gov-votes"], "Poly.Props.C25.fires_at_first_quorum / emits_at_first_quorum")
