"""C20 — each cross-chain message is executed at most once.

Proof: Poly/Props/C20.lean over Poly/Model/CCM.lean (ImportExTransfer in code order; every router's
MakeDepositProposal = router-specific verification (an arbitrary oracle) ; CheckDoneTx ; PutDoneTx):
replay_no_effect, at_most_once and done_iff_accepted for all histories, all oracles, all hash functions.

Tie: correspondence stream `ccm` — the real cross_chain_manager entrance on a real native service
(StateStore.HandleInvokeTransaction over OverlayDB/CacheDB), driven through the consensus-vote router (votes by
planted validators up to and past the quorum, replays with the same and different heights), through the eth router
(synthetic state + storage tries, header installed by the real SyncGenesisHeader, real and tampered proofs) and, with
garbage proofs, through every other router; the compiled Lean model (vote router modelled concretely, real SHA-256) must print the
same verdict class, done mark, request record and cross-state leaves for every transaction.
Search: the harness evaluates the property directly (a (chain,id) executed twice; done mark without execution).
Static tie (T): extract/keyshapes mode `donetx` lists for every router handler the CheckDoneTx/PutDoneTx calls.
"""
import json
import os

import vcheck

HINT = {
    "C20": "Poly.Props.C20.at_most_once / replay_no_effect / done_iff_accepted",
    "C21": "Poly.Props.C21.gate / rejected_no_change / black_effective / white_restores",
    "C22": "Poly.Props.C22.one_request / content_exact / failed_commits_nothing",
}


def run_ccm(ctx, pid):
    """Shared by C20, C21, C22: one model, one correspondence stream; every check keeps the property-oracle
    failures of its own property (a model/implementation disagreement concerns all three)."""
    ctx.level = "proof"
    ctx.assumptions += [
        "router-specific verification (proofs, headers, signatures, votes) is an oracle parameter of the theorems; "
        "what every router does after it (CheckDoneTx, PutDoneTx) and the entrance are modelled in code order",
        "transaction atomicity (C15): a failing native call commits nothing — the model returns the initial state",
        "the BTC / ripple transaction builders are oracles assumed not to touch done marks, blacklist or registry "
        "(DelegatesConfined; key families are disjoint by C17)",
        "SHA-256 is a parameter H of the theorems; the driver uses a Lean SHA-256 compared bit for bit with Go",
        "harmony router: linked against a pure-Go stand-in for its BLS cgo binding (C library not in the sandbox); "
        "not driven dynamically",
    ]
    ctx.cov["trusted_base"] += ["harness hccm/ccm + drv_ccm (correspondence check)", "Lean compiler for the driver",
                                "harness/stubs/harmony-bls (link-time stand-in, never executed by the streams)"]
    ctx.lean_props()
    hbin = ctx.build_harness("hccm")
    drv = ctx.build_driver("drv_ccm")
    if drv is None and ctx.lean_ok:
        ctx.violate("precondition:driver", "drv_ccm does not build", {"kind": "driver"}, found_input=False)
    if hbin:
        res = ctx.correspondence("ccm", hbin, ["ccm"], drv, ["ccm"])
        own = [v for v in res["viol"] if v["key"].startswith(pid + ":")]
        other = [v for v in res["viol"] if not v["key"].startswith(pid + ":")]
        if other:
            ctx.cov["other_property_failures_seen"] = sorted({v["key"] for v in other})[:20]
        res["viol"] = own
        ctx.judge(res, theorem_hint=HINT[pid] + " (model of ImportExTransfer no longer matches the Go code)")
        # whole blocks through the real LedgerStoreImp.ExecuteBlock / AddBlock on a real ledger (one transaction cache
        # shared by the transactions of a block): failing imports followed by successful transactions, retries, replays
        resb = ctx.correspondence("ccmblock", hbin, ["ccmblock"], drv, ["ccmblock"])
        ownb = [v for v in resb["viol"] if v["key"].startswith(pid + ":")]
        otherb = [v for v in resb["viol"] if not v["key"].startswith(pid + ":")]
        if otherb:
            ctx.cov["other_property_failures_seen"] = sorted(set(ctx.cov.get("other_property_failures_seen", [])) | {v["key"] for v in otherb})[:20]
        resb["viol"] = ownb
        if otherb and not ownb and resb["mismatches"]:
            resb["viol"] = otherb[:1]  # the disagreement is explained by a concrete input found for a sibling property
        ctx.judge(resb, theorem_hint=HINT[pid] + " (block execution no longer matches the model: transaction atomicity / shared cache)")
    return hbin


def donetx_facts(ctx):
    """(T) every router handler: CheckDoneTx before PutDoneTx with the same arguments, error returned."""
    js = ctx.run_extract("keyshapes", ["donetx"])
    if js is None:
        return
    facts = json.loads(js)
    ctx.cov["donetx_static"] = facts["handlers"]
    for h in facts["handlers"]:
        if not h["ok"]:
            ctx.violate("C20:static-done-check:router=%s" % h["router"],
                        "MakeDepositProposal of router %s (%s): %s" % (h["router"], h["pos"], h["why"]),
                        {"kind": "obligation", "handler": h}, found_input=False)


def run(ctx):
    run_ccm(ctx, "C20")
    donetx_facts(ctx)
    ctx.judge_lean()
