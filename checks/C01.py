"""C01 — binary codec round-trips and fails safely on truncated input.

Proof: Poly/Props/C01.lean — for every value of every primitive: decode(encode v ++ r) = (v, r) with exact consumption
(pure readers), the real reader with its uint64 offset and SafeAdd guard refines the pure reader from every state with
off <= len (no panic, Pos() exact, wrap-around included), every cut inside an encoding is eof / an error, declared lengths
beyond the data are eof, the streaming and zero-copy encoders are byte-identical and cross-decode, Safe{Add,Sub,Mul}
flags are the exact overflow conditions, the sink's reserve-9/BackUp var-uint mechanism appends exactly the encoding.
Tie: stream `codec` (harness hcodec on the real ZeroCopySink/ZeroCopySource/serialization code vs drv_codec on the model).
Search: the harness evaluates round trip / exact consumption / truncation / cross-codec agreement on the implementation.
"""


def judge_all(ctx, res, hint):
    """ctx.judge reports a model/implementation disagreement only when no property-oracle failure exists (and a known
    finding counts as one): report the disagreement in every case."""
    ctx.judge(res, theorem_hint=hint)
    if res.get("mismatches") and res.get("viol"):
        m = res["mismatches"][0]
        ctx.violate("correspondence:%s" % res["stream"],
                    "model and implementation disagree on stream %s (%d cases), first at case %s op `%s`: go=%s model=%s"
                    % (res["stream"], len(res["mismatches"]), m["case"], m["op"][:200], m["go"][:200], m["model"][:200]),
                    {"kind": "correspondence", "stream": res["stream"], "first": m, "count": len(res["mismatches"]),
                     "theorems_no_longer_tied": hint, "harness_cmd": res.get("harness_cmd"), "driver_cmd": res.get("driver_cmd")},
                    found_input=False)


def judge_lean_all(ctx):
    """ctx.judge_lean stays silent when any violation with an input exists (known findings included): a failed proof
    obligation is reported in every case."""
    if not ctx.lean_ok:
        ctx.violate("obligation:" + ",".join(ctx.failed_theorems)[:200],
                    "proof obligation no longer checks: %s" % ", ".join(ctx.failed_theorems)[:500],
                    {"kind": "obligation", "theorems": ctx.failed_theorems, "lean_errors": ctx.cov.get("lean_errors", [])},
                    found_input=False)
    ctx.judge_lean()



def run(ctx):
    ctx.level = "proof"
    ctx.assumptions += [
        "Go slices are modelled as lists: growth/reslicing of the sink buffer is list append (ErrTooLarge on > maxInt buffers is out of scope)",
        "slice lengths are below 2^64 (Go: len <= maxInt = 2^63-1); the reader invariant off <= len is established by NewZeroCopySource and kept by every NextX; BackUp beyond the start breaks it (the model then reports the Go slice-bounds panic, exercised by the correspondence)",
        "io.Reader is a bytes.Reader/bytes.Buffer over a byte string (short reads of other readers are not modelled)",
    ]
    ctx.cov["trusted_base"] += ["harness hcodec/codec + drv_codec (correspondence check)", "Lean compiler for the driver"]
    ctx.lean_props()
    hbin = ctx.build_harness("hcodec")
    drv = ctx.build_driver("drv_codec")
    if hbin:
        res = ctx.correspondence("codec", hbin, ["codec"], drv, ["codec"])
        judge_all(ctx, res, "Poly.Props.C01.* (model of ZeroCopySink/ZeroCopySource/serialization no longer matches the code)")
    judge_lean_all(ctx)
