"""C08 — proofs served to relayers verify against committed roots.

Proof: Poly/Props/C08.lean (the RFC-split root committed in the header equals the top of the paired levels for
every list; every path produced by MerkleLeafPath verifies with MerkleProve against the committed root and
yields exactly the record; an accepted path can only yield a committed record). Tie: correspondence streams
`mserve` (tree builders) and `mledger` (a real LedgerStoreImp on a temp dir: blocks whose transactions emit
cross-chain records - through a test contract, the real MakeTransaction and the real ImportOuterTransfer entrance
over the vote router - with headers built by the vbft proposer code; GetCrossStatesProof / GetMerkleProof verified
against the stored header roots, several (h, r) pairs served by one running node in varying orders).
"""


def run(ctx):
    ctx.level = "proof"
    ctx.assumptions += [
        "SHA-256 is a parameter H of the theorems; HashLen H (32-byte hashes)",
        "depth(n) = ceil(log2 n) computed in float64 is modelled as the bit length of n-1 and compared over the sizes used",
        "MAX_SIZE (1 MiB) path-size guard is a hypothesis of the completeness theorem",
    ]
    ctx.cov["trusted_base"] += ["harness hmerkle/mserve, hmledger/mledger + drv_merkle (correspondence check)", "Lean compiler for the driver"]
    ctx.lean_props()
    hbin = ctx.build_harness("hmerkle")
    drv = ctx.build_driver("drv_merkle")
    if hbin:
        res = ctx.correspondence("mserve", hbin, ["mserve"], drv, ["mserve"])
        ctx.judge(res, theorem_hint="Poly.Props.C08.* (model of HashFullTree / MerkleHashes / MerkleLeafPath no longer matches /repo/merkle)")
    lbin = ctx.build_harness("hmledger")
    if lbin:
        res = ctx.correspondence("mledger", lbin, ["mledger"], drv, ["mledger"])
        ctx.judge(res, theorem_hint="Poly.Props.C08.served_* (model of the ledger glue: accumulator leaves, cross-hash storage, GetCrossStatesProof, Ledger.GetMerkleProof no longer matches /repo)")
    ctx.judge_lean()
