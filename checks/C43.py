"""C43 — wallet accounts round-trip and are password-protected.

Proof: Poly/Props/C43.lean — the wallet client as a state machine over an abstract key-protection scheme; under
the explicit hypotheses Correct / Binds (the cryptographic claims about scrypt + AES) an account created in or
imported into a wallet decrypts with its password to the same key and address before and after the save -> load
round trip, and any non-equivalent password gives an error. Tie: stream `wallet` (hwallet drives the real account
package on wallet files under $TMPDIR with real keys of every supported kind; drv_wallet runs the model with an
ideal symbolic scheme). The harness audits the property itself on a re-opened file after every case.
"""


def judge_known_unshrunk(ctx, res, theorem_hint):
    """Like ctx.judge, but violations whose key is a listed known finding are not delta-debugged again on every run
    (each shrink step re-executes the whole scenario); anything else goes through the normal path."""
    import json
    import os
    import re
    import vcheck
    pats = []
    kf = os.path.join(vcheck.ROOT, "known_findings.json")
    if os.path.exists(kf):
        pats = [e["match"] for e in json.load(open(kf)).get("findings", [])
                if e.get("property") == ctx.pid and e.get("status") == "known"]
    known = [v for v in res["viol"] if any(re.fullmatch(p, v["key"]) for p in pats)]
    other = [v for v in res["viol"] if v not in known]
    hc = res.get("harness_cmd")
    if known:
        r1 = dict(res)
        r1["viol"], r1["mismatches"], r1["harness_cmd"] = known, [], None
        r1.pop("driver_error", None)
        ctx.judge(r1, theorem_hint=theorem_hint)
        for v in ctx.violations:
            if v.replay is not None and v.replay.get("harness_cmd") is None:
                v.replay["harness_cmd"] = hc
    r2 = dict(res)
    r2["viol"] = other
    if known and not other and res["mismatches"]:
        # a model/implementation disagreement next to known findings is still reported
        r2["viol"] = []
    ctx.judge(r2, theorem_hint=theorem_hint)


def run(ctx):
    ctx.level = "proof"
    ctx.assumptions += [
        "scrypt + AES-GCM / AES-CTR (ontology-crypto, x/crypto) are the abstract protect/unprotect; their correctness and binding are hypotheses of the theorems (Correct, Binds), only sampled by the harness",
        "passwords are compared as HMAC-SHA256 keys (zero-padded to 64 bytes, hashed when longer), which is how scrypt consumes them",
        "file I/O failures and the rename-based atomic save are not modelled (a completed Save replaces the file)",
        "labels are valid UTF-8 in the compared stream (encoding/json replaces invalid sequences)",
    ]
    ctx.cov["trusted_base"] += ["harness hwallet + drv_wallet (correspondence check)", "Lean compiler for the driver"]
    ctx.lean_props()
    hbin = ctx.build_harness("hwallet")
    drv = ctx.build_driver("drv_wallet")
    if hbin:
        res = ctx.correspondence("wallet", hbin, ["wallet"], drv, ["wallet"])
        judge_known_unshrunk(ctx, res, "Poly.Props.C43.* (model Poly.Model.Wallet no longer matches account/client.go)")
    ctx.judge_lean()
