"""C09 — the in-memory write buffer (overlaydb.MemDB) behaves as an ordered map with tombstones.

Proof: Poly/Props/C09.lean — for every history of puts/deletes and every range: lookups answer the last write
(known / known-absent / unknown), the node list is strictly increasing in bytes.Compare order, forward and
backward scans are exactly the in-range nodes in order, Seek/First/Last/Next/Prev move a cursor over them,
util.BytesPrefix bounds exactly the keys with the prefix, Len/Size accounting, Reset empties.
Tie: correspondence streams `memdb` (harness hkv runs the real MemDB and its dbIter; drv_kv runs the model) and `arena`
(the real arenas dumped through the verif-tagged accessors MemDB.VerifLevel0/VerifKV against the arena model).
Search: the harness compares every get / scan / positioning call with a reference kept in a plain Go map.
"""


def run(ctx):
    ctx.level = "proof"
    ctx.assumptions += [
        "two models: the level-0 node list (ordered association list) and the concrete arenas (kvData/nodeData offsets, level-0 "
        "pointers) which is proved to refine it for every height oracle; the towers above level 0 are search shortcuts whose "
        "agreement with the level-0 walk is exercised by the correspondence, not proved (the arena model searches level 0)",
        "byte slices are modelled as values: aliasing of the kvData arena (returned slices stay valid until Reset) is not modelled",
        "iterators are not used across Reset (the arenas are truncated and reused); the harness releases them first",
    ]
    ctx.cov["trusted_base"] += ["harness hkv/memdb + hkv/arena + drv_kv (correspondence check)", "verif hook overlaydb/memdb_verif.go (read-only accessors)", "Lean compiler for the driver"]
    ctx.lean_props()
    hbin = ctx.build_harness("hkv")
    drv = ctx.build_driver("drv_kv")
    if hbin:
        res = ctx.correspondence("memdb", hbin, ["memdb"], drv, ["memdb"])
        ctx.judge(res, theorem_hint="Poly.Props.C09.* (model MemDB/Iter no longer matches overlaydb.MemDB/dbIter)")
        res = ctx.correspondence("arena", hbin, ["arena"], drv, ["arena"])
        ctx.judge(res, theorem_hint="Poly.Props.C09.arena_refines_omap (arena model no longer matches MemDB's kvData/nodeData level-0 layout)")
    ctx.judge_lean()
