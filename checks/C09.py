"""C09 — the in-memory write buffer (overlaydb.MemDB) behaves as an ordered map with tombstones.

Proof: Poly/Props/C09.lean — for every history of puts/deletes and every range: lookups answer the last write
(known / known-absent / unknown), the node list is strictly increasing in bytes.Compare order, forward and
backward scans are exactly the in-range nodes in order, Seek/First/Last/Next/Prev move a cursor over them,
util.BytesPrefix bounds exactly the keys with the prefix, Len/Size accounting, Reset empties.
Tie: correspondence stream `memdb` (harness hkv runs the real MemDB and its dbIter; drv_kv runs the model).
Search: the harness compares every get / scan / positioning call with a reference kept in a plain Go map.
"""


def run(ctx):
    ctx.level = "proof"
    ctx.assumptions += [
        "the skip list is modelled by its level-0 node list (ordered association list); the towers above level 0 are "
        "search shortcuts whose agreement with the level-0 order is exercised by the correspondence, not proved",
        "byte slices are modelled as values: aliasing of the kvData arena (returned slices stay valid until Reset) is not modelled",
        "iterators are not used across Reset (the arenas are truncated and reused); the harness releases them first",
    ]
    ctx.cov["trusted_base"] += ["harness hkv/memdb + drv_kv (correspondence check)", "Lean compiler for the driver"]
    ctx.lean_props()
    hbin = ctx.build_harness("hkv")
    drv = ctx.build_driver("drv_kv")
    if hbin:
        res = ctx.correspondence("memdb", hbin, ["memdb"], drv, ["memdb"])
        ctx.judge(res, theorem_hint="Poly.Props.C09.* (model MemDB/Iter no longer matches overlaydb.MemDB/dbIter)")
    ctx.judge_lean()
