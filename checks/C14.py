"""C14 — blocks need a signature quorum of the validators in force.

Proof: Poly/Props/C14.lean over Poly/Model/Ledger.lean (verifyHeader VBFT branch, VerifyMultiSignature greedy matching,
validator-set hand-over in AddHeader / AddBlock / SubmitBlock / restart) with the required number built from the
threshold expressions regenerated from ledger_store.go (extract/thresholds -> Poly/Generated/Thresholds.lean).
Tie: (T) the translator, re-run on every check; (C) stream `quorum`: a real LedgerStoreImp with 1..10 generated
validator keys, headers signed by every subset / sampled subsets with duplicated, foreign, invalid, missing and
repeated signatures, explicit sets in force, configuration-changing blocks followed by blocks and headers signed by
the old and the new set, restart. Search: the harness counts, for every accepted header/block, the distinct valid
signers that belong to the set in force (derived independently from the announced configurations on the parent
chain) and compares with the formula of the property; it also checks that the two tracked sets always are the sets in
force after the current block / header.
"""
import shutil

from checks import C12 as ledger


def generate(ctx):
    return ctx.run_extract("thresholds", ["lean"], out_lean="Thresholds.lean")


def run(ctx):
    ctx.level = "proof"
    ledger.common(ctx)
    ctx.assumptions += [
        "signature verification and decoding are parameters (theorems hold for every scheme); in the driver a signature token verifies under exactly the key that made it (ECDSA P-256 in the harness)",
        "the modern rule N-(N-1)/3 is selected only on main net above header height 20,000,000, which no test ledger reaches by submitting blocks: in the quick tier that branch is tied by the translator (both expressions and the needFix condition are regenerated and the theorem m_formula is about them), the legacy branch also by the correspondence on main-net and test-net ids; the thorough tier pre-fills the in-memory header index through a verif hook and verifies real headers under the modern rule",
        "NETWORK_ID_MAIN_NET = 1 is a constant of the model (config.go); ConsensusPayload decoding is a boolean of the model, exercised with truncated JSON payloads",
    ]
    if generate(ctx) is None:
        return
    ctx.lean_props()
    hbin = ctx.build_harness("hledger")
    drv = ctx.build_driver("drv_ledger")
    d = ledger.ledger_dir(ctx)
    try:
        if hbin:
            res = ctx.correspondence("quorum", hbin, ["quorum"], drv, ["ledger"], timeout=2400)
            ctx.judge(res, theorem_hint="Poly.Props.C14.accept_needs_quorum / set_changes_only_on_config (the model of verifyHeader / VerifyMultiSignature / the set hand-over no longer matches the Go code)")
            if drv is None and ctx.lean_ok:
                ctx.violate("precondition:driver", "drv_ledger does not build", {"kind": "driver"}, found_input=False)
    finally:
        if d:
            shutil.rmtree(d, ignore_errors=True)
    ctx.judge_lean()
