"""C21 — imports are gated by the chain registry and blacklist.

Proof: Poly/Props/C21.lean (gate, gate_pending, source_gates, rejected_no_change, black_effective over histories,
blacklisted_blocks_imports, white_restores) over the model of ImportExTransfer / BlackChain / WhiteChain.
Tie: correspondence stream `ccm` (see checks/C20.py): histories of register/remove side chains (records planted
through side_chain_manager.PutSideChain), BlackChain/WhiteChain with operator and non-operator signers, imports over
grids of source/destination chains, heights around the router start block; verdict class and write set compared.
Search: the harness reports an import that succeeded for a blacklisted / unregistered / inactive chain, a failed
transaction that changed storage, a black/white that had no effect or ignored the operator witness.
"""
from checks.C20 import run_ccm


def generate(ctx):
    """(T) utils.CheckRouterStartBlock + GetChainHandler -> Poly/Generated/RouterStart.lean (theorem
    router_tables_match_source ties the model's routerStartBlock / supportedRouters to the source)."""
    return ctx.run_extract("keyshapes", ["routerstart"], out_lean="RouterStart.lean")


def run(ctx):
    ctx.cov["trusted_base"] += ["extract/keyshapes routerstart (translator for the router start block and handler table)"]
    if generate(ctx) is None:
        return
    run_ccm(ctx, "C21")
    ctx.judge_lean()
