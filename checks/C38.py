"""C38 — recent-block duplicate detection is exact.

Proof: Poly/Props/C38.lean (Verify exact w.r.t. the tracked blocks; non-contiguous blocks ignored; the most
recent `max` contiguous blocks kept; capacity; Clean restarts; stateful check = ledger membership).
Tie: correspondence streams `incval` (real increment.IncrementValidator on real blocks/transactions) and
`stateful` (real stateful validator actor over a real ledger that grows by real signed blocks) against drv_kv.
Search: the harness keeps its own list of the most recent contiguous blocks and compares every Verify /
BlockRange answer with it; stateful verdicts are compared with ledger.IsContainTransaction, including lookups that fail
because the stores were closed under the running validator (verdict must then be unknown, never ok).
"""


def run(ctx):
    ctx.level = "proof"
    ctx.assumptions += [
        "transaction hashes are abstract identifiers in the model: distinct test transactions have distinct hashes (checked by the harness), "
        "SHA-256 collisions between transactions are out of scope",
        "a block's map[Uint256]bool is a list used through membership only; the mutex is not modelled (single-threaded use)",
        "the stateful validator is exercised before/after real block commits (harness plays a 4-validator VBFT consensus); the ledger's "
        "transaction index itself belongs to C12/C13",
    ]
    ctx.cov["trusted_base"] += ["harness hkv/incval + hkv/stateful + drv_kv (correspondence check)", "Lean compiler for the driver"]
    ctx.lean_props()
    hbin = ctx.build_harness("hkv")
    drv = ctx.build_driver("drv_kv")
    if hbin:
        res = ctx.correspondence("incval", hbin, ["incval"], drv, ["incval"])
        ctx.judge(res, theorem_hint="Poly.Props.C38.* (model IncVal no longer matches increment.IncrementValidator)")
        res = ctx.correspondence("stateful", hbin, ["stateful"], drv, ["stateful"])
        ctx.judge(res, theorem_hint="Poly.Props.C38.stateful_exact (stateful validator no longer decides by ledger membership)")
    ctx.judge_lean()
