"""C37 — transaction pool bookkeeping is consistent under concurrency.

Proof: Poly/Props/C37.lean — sequential TXPool model (no duplicate hash, add/del/clean refine a finite map,
GetTxPool bounds and stale reporting for every map iteration order) for all operation sequences; server-level
count model of check-then-act admission with the bound pool <= MAX_CAPACITY + MAX_LIMITATION for all
interleavings, tightness of that bound, and refutation of the strong bound in the model.
Tie: stream `pool` (hpool executes the real txnpool/common.TXPool, drv_pool the model, same op lines; GetTxPool
results are re-checked by the model through a witness iteration order).
"""


def run(ctx):
    ctx.level = "proof"
    ctx.assumptions += [
        "every TXPool method holds the pool's RWMutex over its whole body (read in the source; the concurrent stream samples schedules, it does not prove the lock discipline)",
        "Go map iteration order is an explicit argument of the model; theorems hold for every permutation",
        "server-level model counts entries only (pool, in-flight, slots); actor mailboxes and goroutine scheduling are abstracted to interleavings of the modelled atomic steps",
    ]
    ctx.cov["trusted_base"] += ["harness hpool + drv_pool (correspondence check)", "Lean compiler for the driver"]
    ctx.lean_props()
    hbin = ctx.build_harness("hpool")
    drv = ctx.build_driver("drv_pool")
    if hbin:
        res = ctx.correspondence("pool", hbin, ["pool"], drv, ["pool"])
        ctx.judge(res, theorem_hint="Poly.Props.C37.* (model Poly.Model.Pool no longer matches txnpool/common.TXPool)")
        res = ctx.correspondence("poolsrv", hbin, ["poolsrv"], drv, ["poolsrv"], mem_gb=14)
        ctx.judge(res, theorem_hint="Poly.Props.C37 server-level theorems (count model Srv no longer matches txnpool/proc at quiescent points)")
    ctx.judge_lean()
