"""C37 — transaction pool bookkeeping is consistent under concurrency.

Proof: Poly/Props/C37.lean — sequential TXPool model (no duplicate hash, add/del/clean refine a finite map,
GetTxPool bounds and stale reporting for every map iteration order) for all operation sequences; server-level
count model: pool <= MAX_CAPACITY for all interleavings of the admission fragment; the bound for the whole
server is stated and refuted in the model (block verification, re-verification window).
Tie: stream `pool` (hpool executes the real txnpool/common.TXPool, drv_pool the model, same op lines; GetTxPool
results are re-checked by the model through a witness iteration order); stream `poolconc` (8..16 real goroutines on
one TXPool, recorded history linearized and the witness re-executed by the model; schedules are sampled); stream
`poolord` (the real TXPoolServer with the two validators answering separately at chosen heights and consensus raising
the height in between; every GetTxnPoolRsp checked against "verified at or after the requested height by both
validators"); stream `poolsrv` (the real TXPoolServer with actors, workers and scripted validators at the real constants, counts
compared with the count model at quiescent points, capacity oracle).
"""


def judge_known_unshrunk(ctx, res, theorem_hint):
    """Like ctx.judge, but violations whose key is a listed known finding are not delta-debugged again on every run
    (each shrink step re-executes the whole scenario); anything else goes through the normal path."""
    import json
    import os
    import re
    import vcheck
    pats = []
    kf = os.path.join(vcheck.ROOT, "known_findings.json")
    if os.path.exists(kf):
        pats = [e["match"] for e in json.load(open(kf)).get("findings", [])
                if e.get("property") == ctx.pid and e.get("status") == "known"]
    known = [v for v in res["viol"] if any(re.fullmatch(p, v["key"]) for p in pats)]
    other = [v for v in res["viol"] if v not in known]
    hc = res.get("harness_cmd")
    if known:
        r1 = dict(res)
        r1["viol"], r1["mismatches"], r1["harness_cmd"] = known, [], None
        r1.pop("driver_error", None)
        ctx.judge(r1, theorem_hint=theorem_hint)
        for v in ctx.violations:
            if v.replay is not None and v.replay.get("harness_cmd") is None:
                v.replay["harness_cmd"] = hc
    r2 = dict(res)
    r2["viol"] = other
    if known and not other and res["mismatches"]:
        # a model/implementation disagreement next to known findings is still reported
        r2["viol"] = []
    ctx.judge(r2, theorem_hint=theorem_hint)


def race_run(ctx):
    """Thorough tier: the concurrent stream once more in a binary built with the Go race detector. A reported data
    race on the pool (an access outside the RWMutex) is a violation with the detector's report as the replay."""
    import os
    import vcheck
    out_bin = os.path.join(ctx.bindir, "hpool_race")
    rc, out = vcheck.sh(["go", "build", "-race", "-modfile=" + os.path.join(ctx.moddir, "go.mod"), "-tags", "verif",
                         "-o", out_bin, "./cmd/hpool"], cwd=vcheck.HARNESS, env=vcheck.GOENV, timeout=1800)
    ctx.note("go build -race cmd/hpool rc=%d" % rc)
    if rc != 0:
        ctx.cov["race_detector"] = "not run: race build failed: " + out[-300:]
        return
    base = os.path.join(ctx.tmpdir, "poolconc-race")
    env = dict(vcheck.GOENV)
    env["GORACE"] = "halt_on_error=1 exitcode=66"
    rc, out = vcheck.sh([out_bin, "poolconc", "-seed", str(ctx.seed + 1000), "-tier", "quick", "-ops", base + ".ops",
                         "-out", base + ".go", "-viol", base + ".viol", "-stats", base + ".stats"], env=env, timeout=1800)
    ctx.note("race-detector run of poolconc rc=%d" % rc)
    ctx.cov["race_detector"] = "poolconc (quick size, seed+1000) under -race: rc=%d" % rc
    if rc == 66 or "DATA RACE" in out:
        ctx.violate("C37:data-race", "the Go race detector reports an unsynchronised access while goroutines use the TXPool concurrently",
                    {"kind": "input", "stream": "poolconc-race", "report": out[-6000:]}, found_input=True)
    elif rc != 0:
        ctx.violate("precondition:harness-run:poolconc-race", "race-detector run crashed (rc=%d)" % rc,
                    {"kind": "harness-crash", "output": out[-4000:]}, found_input=False)


def run(ctx):
    ctx.level = "proof"
    ctx.assumptions += [
        "every TXPool method holds the pool's RWMutex over its whole body (read in the source; the concurrent stream samples schedules, it does not prove the lock discipline)",
        "Go map iteration order is an explicit argument of the model; theorems hold for every permutation",
        "server-level model counts entries only (pool, in-flight, slots); actor mailboxes and goroutine scheduling are abstracted to interleavings of the modelled atomic steps",
    ]
    ctx.cov["trusted_base"] += ["harness hpool + drv_pool (correspondence check)", "Lean compiler for the driver"]
    ctx.lean_props()
    hbin = ctx.build_harness("hpool")
    drv = ctx.build_driver("drv_pool")
    if hbin:
        res = ctx.correspondence("pool", hbin, ["pool"], drv, ["pool"])
        ctx.judge(res, theorem_hint="Poly.Props.C37.* (model Poly.Model.Pool no longer matches txnpool/common.TXPool)")
        res = ctx.correspondence("poolconc", hbin, ["poolconc"], drv, ["poolconc"])
        ctx.judge(res, theorem_hint="Poly.Props.C37 sequential theorems (a recorded concurrent history has no linearization accepted by the model)")
        res = ctx.correspondence("poolord", hbin, ["poolord"], drv, ["poolord"])
        ctx.judge(res, theorem_hint="Poly.Props.C37 worker-level theorems (WState no longer matches txnpool_worker.go handleRsp/putTxPool and TXPoolServer.getTxPool)")
        res = ctx.correspondence("poolsrv", hbin, ["poolsrv"], drv, ["poolsrv"], mem_gb=14)
        judge_known_unshrunk(ctx, res, "Poly.Props.C37 server-level theorems (count model Srv no longer matches txnpool/proc at quiescent points)")
    if hbin and ctx.thorough() and ctx.replay is None:
        race_run(ctx)
    ctx.judge_lean()
