"""C44 — consensus messages round-trip and signatures bind their content.

Proof: Poly/Props/C44.lean — dispatch table consistent (and equal to the one extracted from the source), envelope
round trip, byte-exact models of ConsensusPayload / BlockFetchRespMsg / vbft.Block pair with round-trip theorems,
injectivity of the signed bytes and of the hashed header bytes, signature binding under an explicit unforgeability
hypothesis. Tie: (T) extract/cmsgkinds regenerates Poly/Generated/CMsgKinds.lean from msg_types.go / msg_builder.go
on every run; (C) stream `cmsg` (hcmsg on the real code vs drv_cmsg).
"""


def generate(ctx):
    return ctx.run_extract("cmsgkinds", [], out_lean="CMsgKinds.lean")


def run(ctx):
    ctx.level = "proof"
    ctx.assumptions += [
        "encoding/json is modelled (object = tag/value list; round trip needs exported, uniquely tagged fields — checked on the extracted field tables), not verified",
        "signature unforgeability is the explicit hypothesis SigBinds of the binding theorems; SHA-256 is a parameter H (collision alternative constructed)",
        "types.Block / Transaction wire format is external to this model (blocks are opaque byte strings; C02 covers it); keypair.DeserializePublicKey is an oracle supplied per op",
    ]
    ctx.cov["trusted_base"] += ["extract/cmsgkinds (go/parser based translator)", "harness hcmsg + drv_cmsg (correspondence check)",
                                "Lean compiler for the driver"]
    if generate(ctx) is None:
        return
    ctx.lean_props()
    hbin = ctx.build_harness("hcmsg")
    drv = ctx.build_driver("drv_cmsg")
    if hbin:
        res = ctx.correspondence("cmsg", hbin, ["cmsg"], drv, ["cmsg"])
        ctx.judge(res, theorem_hint="Poly.Props.C44.* (model Poly.Model.CMsg no longer matches consensus/vbft message code)")
    ctx.judge_lean()
