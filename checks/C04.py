"""C04 — contract parameters and stored records round-trip canonically.

Proof: Poly/Props/C04.lean — generic theorems over the schema DSL (round trip with exact consumption, injectivity,
prefix-freeness, truncation refused for strict schemas, no panic without unbounded preallocation, canonical map order
independent of enumeration order), instantiated for the 50 record schemas of Poly/Model/SchemaRecords.lean.
Tie: stream `records` (harness hcodec calls the real Serialization/Deserialization of each type; drv_codec executes the
schema of the same name). Search: decode = value, eight re-encodings, every truncation, huge declared counts at every offset.
"""


def judge_all(ctx, res, hint):
    """ctx.judge reports a model/implementation disagreement only when no property-oracle failure exists (and a known
    finding counts as one): report the disagreement in every case."""
    ctx.judge(res, theorem_hint=hint)
    if res.get("mismatches") and res.get("viol"):
        m = res["mismatches"][0]
        ctx.violate("correspondence:%s" % res["stream"],
                    "model and implementation disagree on stream %s (%d cases), first at case %s op `%s`: go=%s model=%s"
                    % (res["stream"], len(res["mismatches"]), m["case"], m["op"][:200], m["go"][:200], m["model"][:200]),
                    {"kind": "correspondence", "stream": res["stream"], "first": m, "count": len(res["mismatches"]),
                     "theorems_no_longer_tied": hint, "harness_cmd": res.get("harness_cmd"), "driver_cmd": res.get("driver_cmd")},
                    found_input=False)


def judge_lean_all(ctx):
    """ctx.judge_lean stays silent when any violation with an input exists (known findings included): a failed proof
    obligation is reported in every case."""
    if not ctx.lean_ok:
        ctx.violate("obligation:" + ",".join(ctx.failed_theorems)[:200],
                    "proof obligation no longer checks: %s" % ", ".join(ctx.failed_theorems)[:500],
                    {"kind": "obligation", "theorems": ctx.failed_theorems, "lean_errors": ctx.cov.get("lean_errors", [])},
                    found_input=False)
    ctx.judge_lean()



def generate(ctx):
    """(T) codec inventory regenerated from the anchored Go files: every type with a codec pair must have a schema."""
    return ctx.run_extract("codecinv", [], out_lean="CodecInventory.lean")


def run(ctx):
    ctx.level = "proof"
    ctx.assumptions += [
        "Go maps are modelled by their canonical entry list (descending key order of the encoders); decoding inserts in wire order (last duplicate wins)",
        "big.Int is modelled as a natural number (Bytes()/SetBytes drop the sign; negative values are outside the well-formed domain)",
        "SideChain / RegisterSideChainParam are modelled in the post-fork format (ExtraInfo always written; config.EXTRA_INFO_HEIGHT_FORK_CHECK is false by default)",
        "Go runtime makeslice panics iff len > maxInt or len*elemsize > 2^48; allocations below that limit that exhaust memory are not modelled",
    ]
    ctx.cov["trusted_base"] += ["translator extract/codecinv (go/parser: lists the types with a codec pair in the anchored files)", "harness hcodec/records (reflection-based renderer and generator) + drv_codec (correspondence check)",
                                "Lean compiler for the driver"]
    generate(ctx)
    ctx.lean_props()
    hbin = ctx.build_harness("hcodec")
    drv = ctx.build_driver("drv_codec")
    if hbin:
        res = ctx.correspondence("records", hbin, ["records"], drv, ["records"])
        judge_all(ctx, res, "Poly.Props.C04.* (a record schema of Poly/Model/SchemaRecords.lean no longer matches its Go type)")
        import os
        import re
        inv = os.path.join(os.path.dirname(os.path.dirname(os.path.abspath(__file__))), "lean", "Poly", "Generated", "CodecInventory.lean")
        try:
            sec = open(inv).read().split("def c04", 1)[1].split("]", 1)[0]
            names = re.findall(r'\("([A-Za-z0-9_]+)", "([^"]+)"\)', sec)
        except Exception:
            names = []
        ctx.cov["types_in_anchored_files"] = [n for n, _ in names]
        ctx.cov["types_with_schema_and_differential_tie"] = [n for n, _ in names]   # proved: Poly.Props.C04.inventory_covered
        ctx.cov["types_unmodelled"] = []
        ctx.cov["types_partially_modelled"] = {
            "SideChain": "post-fork format only (ExtraInfo always written); not strict (known finding)",
            "RegisterSideChainParam": "post-fork format only; not strict (known finding)",
            "PeerPoolMap": "schema is the item list; the map semantics (key = item.PeerPubkey, last wins, descending order) is the post-processing peerPoolPost"}
    judge_lean_all(ctx)
