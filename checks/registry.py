"""Registry of claimed checks: feeds tools/gen_manifest.py. One JSON file per claimed property in
checks/registry.d/ (keys: property_id, category, text, design_ref, note, technique). Properties without a
file are listed under not_applicable in MANIFEST.json with the reason below (or in registry.d/pending.json)."""
import glob
import json
import os

_D = os.path.join(os.path.dirname(os.path.abspath(__file__)), "registry.d")
CLAIMED = {}
for _p in sorted(glob.glob(os.path.join(_D, "C*.json"))):
    _c = json.load(open(_p))
    CLAIMED[_c["property_id"]] = _c

PENDING_REASON = "check not built yet (planned in DESIGN.md section 6); not claimed"
PENDING = {}
_pp = os.path.join(_D, "pending.json")
if os.path.exists(_pp):
    PENDING = json.load(open(_pp))
