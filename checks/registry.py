"""Registry of claimed checks: feeds tools/gen_manifest.py. One entry per property that has a check.
Properties without an entry are listed under not_applicable in MANIFEST.json with the reason in PENDING."""

CLAIMED = {
    "C42": {
        "category": "proof",
        "text": "Lean theorems for every N: (2N+2)/3 is ceil(2N/3); any two quorums meeting N-f or ceil(2N/3) (or one of each) "
                "inside a validator set of N share more than f members (Finset cardinality); every threshold expression "
                "extracted from the Go source equals its formula for all N. The generated definitions are regenerated from "
                "/repo on every run, so editing a formula in Go breaks a theorem and the search reports the least N.",
        "design_ref": "DESIGN.md §6 C42",
        "note": "Trusted: Lean kernel (+propext, Classical.choice, Quot.sound), the go/parser translator extract/thresholds "
                "(validated each run against the verbatim Go expressions on N=0..10000), absence of int overflow for validator counts.",
        "technique": "Lean 4 proof over translator-regenerated definitions + verbatim-Go sweep",
    },
}

PENDING_REASON = "check not built yet in this round (planned in DESIGN.md §6); not claimed"
PENDING = {}
