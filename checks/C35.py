"""C35 — side-chain registry changes only through owner request and approval.

Proof: Poly/Props/C35.lean (registry invariants over all histories: a pending registration is for an unregistered id,
a pending update carries the registered owner's address, a pending quit is for a registered id; requests need the
owner's witness; a registration is applied only to an unregistered id and stores exactly the approved request; an
update / removal is applied only to a registered chain with its owner's pending request; removal clears every pending
request of the id; the registry changes only through applied approvals of that id). Tie: correspondence streams `gov-approvals` and
`gov-registry` (3 chain ids, 3 owners, requests by owners and non-owners, partial and full approval rounds, directed
quit -> re-register by another owner -> late approval rounds); the harness evaluates the property on the real handlers
with its own bookkeeping of who owns / requested what.
"""
from checks import gov_common


def run(ctx):
    gov_common.run_streams(ctx, "C35", ["gov-registry", "gov-approvals"],
                           "Poly.Props.C35.registry_invariants / update_needs_owner_request / removal_needs_quit_request")
