"""C06 — block-hash accumulator is a correct append-only Merkle tree.

Proof: Poly/Props/C06.lean (frontier invariant of the carry loop, root = RFC 6962 MTH for every append
sequence and every hash function, predicted roots, ...). Tie: correspondence stream `mtree` (harness
hmerkle drives the real merkle.CompactMerkleTree with memory / file / absent hash stores; driver drv_merkle
executes the model with real SHA-256). Search: the harness compares every root, predicted root, generated
proof and reload with an independent recursive RFC 6962 reference and with the node's own verifiers.
"""


def run(ctx):
    ctx.level = "proof"
    ctx.assumptions += [
        "SHA-256 is a parameter H of the theorems (they hold for every H); the driver uses a Lean SHA-256 whose "
        "agreement with crypto/sha256 is what the correspondence observes",
        "uint32 sizes are modelled as Nat; theorem uint32_range proves that below 2^31 leaves every size, store position and the store length stay below 2^32 (no uint32 operation of the generators wraps); correspondence covers bit helpers up to 2^31-1",
        "the hash file is modelled as an append-only list of hashes with positional reads (process-crash model, no torn writes)",
        "mintree_h (never read) and the rootHash cache (reset on every mutation) are not modelled",
    ]
    ctx.cov["trusted_base"] += ["harness hmerkle/mtree + drv_merkle (correspondence check; the driver's array-backed store is proved to refine the model's list-backed store)", "Lean compiler for the driver",
                                "build-tag hooks merkle/verif_hooks.go (exported wrappers only)"]
    ctx.lean_props()
    hbin = ctx.build_harness("hmerkle")
    drv = ctx.build_driver("drv_merkle")
    if hbin:
        res = ctx.correspondence("mtree", hbin, ["mtree"], drv, ["mtree"])
        ctx.judge(res, theorem_hint="Poly.Props.C06.* (model of CompactMerkleTree / hash store / proof generators no longer matches /repo/merkle)")
    ctx.judge_lean()
