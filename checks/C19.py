"""C19 — side-chain trust roots are installed at most once.

Proof: Poly/Props/C19.lean over Poly/Model/CCMGenesis.lean (SyncGenesisHeader entrance; per router the installer as
witness ; decode ; existence test ; writes; the table `routers` describes the 21 routers as the code is):
genesis_once / genesis_once_entrance (an installed chain rejects every further installation, state unchanged),
trust_root_stable and trust_root_is_first for all histories of installations interleaved with header syncs.

Tie: correspondence stream `genesis` — the real header_sync entrance on a real native service, for 20 of the 21
routers: install with four different valid genesis records (two ordinary, one at height 0, one at an extreme height with
unusual content: long chain id, odd hash length, empty / single-member sets — each probed for acceptance on a fresh
chain first), always followed by a different one and by the same one again, and a malformed one, by operator / non-operator signers,
before/after registration, on two chains, interleaved with (rejected) header syncs; verdict class and "storage
changed" compared with the model for every transaction. harmony cannot be driven in the sandbox (its BLS C library is
missing; a stand-in is linked) and is covered by the static scan only.
Static tie (T): extract/keyshapes mode `genesisguards`: every SyncGenesisHeader has an `already initialized` error
return before its first storing call.
Search: the harness keeps its own record of installed chains: a second successful installation is reported with the
history that produced it (reinstall-accepted = state changed, reinstall-reported-success = state unchanged).
"""
import json

STATIC_ONLY = {"harmony:Handler": "harmony"}


def run(ctx):
    ctx.level = "proof"
    ctx.assumptions += [
        "the light-client state of a chain is abstracted to (trust root, number of synced headers); header syncs are "
        "modelled as not touching the trust root (in the correspondence they are rejected garbage headers)",
        "the registry maps a chain to one router for the whole history (a governance-approved router change starts a "
        "different light client with its own marker records)",
        "per-router order of witness check, decoding and existence test is a hand-written table validated by the "
        "correspondence; the decoding itself (JSON / amino / binary header formats) is not modelled",
        "harmony router: linked against a pure-Go stand-in for its BLS cgo binding; covered statically only",
    ]
    ctx.cov["trusted_base"] += ["harness hccm/genesis + drv_ccm (correspondence check)", "Lean compiler for the driver",
                                "extract/keyshapes genesisguards (syntactic scan)",
                                "harness/stubs/harmony-bls (link-time stand-in)"]
    ctx.lean_props()
    hbin = ctx.build_harness("hccm")
    drv = ctx.build_driver("drv_ccm")
    if drv is None and ctx.lean_ok:
        ctx.violate("precondition:driver", "drv_ccm does not build", {"kind": "driver"}, found_input=False)
    dynamic_routers = set()
    if hbin:
        res = ctx.correspondence("genesis", hbin, ["genesis"], drv, ["genesis"])
        for k in ctx.cov["histogram"]:
            if k.startswith("genesis.outcome."):
                dynamic_routers.add(k.split(".")[2])
        # a model/implementation disagreement that the property oracle already explains (same case) is reported once,
        # through the oracle's concrete input
        viol_cases = {v["case"] for v in res["viol"]}
        unexplained = [m for m in res["mismatches"] if m["case"] not in viol_cases]
        if res["viol"] and unexplained:
            m = unexplained[0]
            ctx.violate("correspondence:genesis", "model and implementation disagree on stream genesis beyond the reported "
                        "re-installations, first at case %s op `%s`: go=%s model=%s" % (m["case"], m["op"][:200], m["go"], m["model"]),
                        {"kind": "correspondence", "stream": "genesis", "first": m, "count": len(unexplained)}, found_input=False)
        ctx.judge(res, theorem_hint="Poly.Props.C19.genesis_once_entrance (table `routers` no longer describes the installers)")
    ctx.cov["routers_driven"] = sorted(dynamic_routers - {"unregistered"})
    ctx.cov["routers_static_only"] = sorted(STATIC_ONLY.values())
    js = ctx.run_extract("keyshapes", ["genesisguards"])
    if js is not None:
        facts = json.loads(js)["installers"]
        ctx.cov["genesis_guards_static"] = facts
        # advisory (not a failure): guards that look at a decoded value and count an unreadable record as absent — safe
        # only while every record the installer writes can be read back (the dynamic stream installs unusual first
        # genesis records for exactly that reason)
        ctx.cov["guards_treating_unreadable_record_as_absent"] = [f["router"] for f in facts if f.get("guard_subject") == "decoded-error-ignored"]
        if len(facts) != 21:
            ctx.violate("C19:static-router-count:%d" % len(facts), "the static scan found %d SyncGenesisHeader methods, the model table has 21" % len(facts),
                        {"kind": "obligation", "installers": [f["router"] for f in facts],
                         "theorem": "Poly.Props.C19.routers_complete"}, found_input=False)
        for f in facts:
            if not f["ok"]:
                name = STATIC_ONLY.get(f["router"], f["router"].split(":")[0] if f["router"].split(":")[0] != "polygon" else f["router"])
                ctx.violate("C19:static-no-guard:router=%s" % name,
                            "SyncGenesisHeader of %s (%s): %s" % (f["router"], f["pos"], f["why"]),
                            {"kind": "obligation", "installer": f, "theorem": "Poly.Props.C19.all_routers_guarded"}, found_input=False)
    ctx.judge_lean()
