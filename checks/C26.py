"""C26 — BTC coin selection conserves UTXO value.

Proof: Poly/Props/C26.lean (for every answer of the float-valued tests: the selection is taken from the offered
list at distinct positions, the reported sum is the sum of the selected values, the sum is the target or at
least target + min-change; chooseUtxos moves exactly the selection from the unspent to the spent record; over
deposit/withdrawal histories no outpoint is selected twice; the change output is never negative).
Tie: correspondence stream `btcsel` (harness hbtc executes the real CoinSelector.Select / SimpleBnbSearch /
SortedSearch, chooseUtxos, makeBtcTx and BTCHandler.MultiSign (real signatures) on a real CacheDB through the `verif` wrappers; driver drv_btc executes the model
with IEEE doubles for the float tests).
Search: the harness evaluates the property itself on every answer of the implementation (sum of the selected
values vs reported sum, membership, target condition, record bookkeeping, no re-selection).
"""


def run(ctx):
    ctx.level = "proof"
    ctx.assumptions += [
        "float-valued tests (fee/target >= maxP, sum > k*target) are parameters of the theorems (they hold for every answer); "
        "the driver computes them with IEEE doubles and the correspondence observes the agreement",
        "btcd script classification (GetScriptClass, IsPayToScriptHash) is external: supplied per output in the op line and "
        "re-checked against the library inside the harness",
        "uint64 sums do not wrap: total value of a UTXO set and target+min-change are below 2^64 (values are satoshi amounts)",
        "sort.Sort is modelled as stable insertion sort (the algorithm sort.Sort uses below 12 elements); with pairwise different outpoints the order (value, tx hash, output index) is total, so every correct sort gives the same list",
    ]
    ctx.cov["trusted_base"] += ["harness hbtc/btcsel + drv_btc (correspondence check)", "Lean compiler for the driver",
                                "verif hook native/service/cross_chain_manager/btc/verif_hooks.go (exported wrappers only)"]
    ctx.lean_props()
    hbin = ctx.build_harness("hbtc")
    drv = ctx.build_driver("drv_btc")
    if hbin:
        res = ctx.correspondence("btcsel", hbin, ["btcsel"], drv, ["btcsel"])
        ctx.judge(res, theorem_hint="Poly.Props.C26.select_conserves / choose_moves_exactly (model no longer matches the selector)")
    ctx.judge_lean()
