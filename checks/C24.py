"""C24 — validator-signed cross-chain messages need distinct tracked signers.

Proof: Poly/Props/C24.lean (ont_msg_quorum: an accepted Ontology message has a duplicate-free set S of tracked
signers, each with a verifying submitted signature, 3|S| >= |tracked|, for every signature relation; history form;
NEO 2.x / N3 acceptance needs the tracked script / the registered-validator contract and the witness verdict; the
library's ordered multi-signature matching yields m distinct key positions). Threshold sites are regenerated from
the Go source by extract/thresholds on every run.
Tie: correspondence streams ontmsg, neomsg, neo3msg, neo3lmsg (harness hlc executes the real handlers on a real
native service + CacheDB with real keys and signatures; driver drv_lc executes the model with the ideal signature
relation derived from the op tokens).
Search: the harness evaluates the property on every accepted message: distinct tracked keys with a verifying
signature (computed with the libraries' own Verify, independent of the handler's matching) must meet the bound.
"""


def generate(ctx):
    return ctx.run_extract("thresholds", ["lean"], out_lean="Thresholds.lean")


STREAMS = [
    ("ontmsg", "Poly.Props.C24.ont_msg_quorum / ont_stored_msgs_all_verified (model of ont.VerifyCrossChainMsg, SyncCrossChainMsg, "
               "MakeDepositProposal no longer matches the Go code)"),
    ("neomsg", "Poly.Props.C24.neo_msg_needs_tracked_witness / neo_msg_quorum (model of neo.VerifyCrossChainMsgSig or of the witness check)"),
    ("neo3msg", "Poly.Props.C24.neo3_msg_needs_validator_contract / neo3_msg_quorum (model of neo3.VerifyCrossChainMsgSig)"),
    ("neo3lmsg", "Poly.Props.C24.neo3_msg_needs_validator_contract / neo3_msg_quorum (model of neo3legacy.VerifyCrossChainMsgSig)"),
]


def run(ctx):
    ctx.level = "proof"
    ctx.assumptions += [
        "signature verification (ontology-crypto Verify/Deserialize, neo-gogogo / neo3-gogogo VerifySignature) is a parameter of the "
        "theorems (they hold for every relation); the driver instantiates it with the ideal relation 'a genuine signature verifies under "
        "exactly its own key', and the correspondence observes that the real libraries behave so on the generated keys",
        "two submitted Ontology keys are the same validator iff their PubkeyID (hex of the serialized key) is equal",
        "NEO: script hash equality is modelled as equality of (m, ordered key list) descriptors (no Hash160 collision); the witness "
        "verifier is library code: its algorithm is modelled (witnessCheck) and compared on every op, its byte-level script parsing is not",
        "translator extract/thresholds renders the Go threshold expressions faithfully (validated by C42's sweep)",
        "the operator-witness gate of SyncGenesisHeader is exercised (anonymous transaction must fail) but belongs to C18/C19",
    ]
    ctx.cov["trusted_base"] += ["extract/thresholds (go/parser based translator)", "harness hlc families ontmsg/neomsg/neo3msg/neo3lmsg + drv_lc "
                                "(correspondence check)", "Lean compiler for the driver"]
    ctx.cov["not_covered"] = [
        "the proof stage behind the message check in the deposit handlers (C23-style; driven only with a well-formed proof for another contract, "
        "because the NEO libraries' proof readers do not terminate on truncated input)",
        "byte-level parsing of NEO verification scripts inside VerifyMultiSignatureWitness (only well-formed m-of-n scripts are generated)",
    ]
    # a translator failure (a threshold site rewritten beyond recognition) is reported by run_extract; the harness and its
    # property oracle still run so that the report comes with a concrete failing input when there is one
    ctx.run_extract("thresholds", ["lean"], out_lean="Thresholds.lean")
    ctx.lean_props()
    hbin = ctx.build_harness("hlc")
    drv = ctx.build_driver("drv_lc")
    if hbin:
        if not drv and ctx.lean_ok:
            ctx.violate("precondition:driver", "drv_lc does not build", {"kind": "driver"}, found_input=False)
        for stream, hint in STREAMS:
            res = ctx.correspondence(stream, hbin, [stream], drv, [stream], timeout=ctx.pick(600, 2400), mem_gb=6)
            ctx.judge(res, theorem_hint=hint)
    ctx.judge_lean()
