"""C05 — peer-to-peer frames are integrity-checked and round-trip.

Proof: Poly/Props/C05.lean — for every message kind and every well-formed value: readMessage (frame m ++ r) = ok (m, r);
wrong magic, oversize length, short payload, checksum mismatch and unknown command are rejected; an accepted frame whose
payload differs from the framed one yields a collision of the 4-byte truncated double hash; reading arbitrary bytes never
reaches the panic outcome. Tie: stream `p2p` (harness hcodec on the real WriteMessage/ReadMessage and the 16 message
types vs drv_codec on the model). Search: the harness checks every frame it writes (read back, re-write, single-byte
corruptions, truncations) and every malformed stream (no panic, no acceptance of bad magic / length / checksum).
"""


def judge_all(ctx, res, hint):
    """ctx.judge reports a model/implementation disagreement only when no property-oracle failure exists (and a known
    finding counts as one): report the disagreement in every case."""
    ctx.judge(res, theorem_hint=hint)
    if res.get("mismatches") and res.get("viol"):
        m = res["mismatches"][0]
        ctx.violate("correspondence:%s" % res["stream"],
                    "model and implementation disagree on stream %s (%d cases), first at case %s op `%s`: go=%s model=%s"
                    % (res["stream"], len(res["mismatches"]), m["case"], m["op"][:200], m["go"][:200], m["model"][:200]),
                    {"kind": "correspondence", "stream": res["stream"], "first": m, "count": len(res["mismatches"]),
                     "theorems_no_longer_tied": hint, "harness_cmd": res.get("harness_cmd"), "driver_cmd": res.get("driver_cmd")},
                    found_input=False)


def judge_lean_all(ctx):
    """ctx.judge_lean stays silent when any violation with an input exists (known findings included): a failed proof
    obligation is reported in every case."""
    if not ctx.lean_ok:
        ctx.violate("obligation:" + ",".join(ctx.failed_theorems)[:200],
                    "proof obligation no longer checks: %s" % ", ".join(ctx.failed_theorems)[:500],
                    {"kind": "obligation", "theorems": ctx.failed_theorems, "lean_errors": ctx.cov.get("lean_errors", [])},
                    found_input=False)
    ctx.judge_lean()



def generate(ctx):
    """(T) codec inventory regenerated from the anchored Go files: every type with a codec pair must have a schema."""
    return ctx.run_extract("codecinv", [], out_lean="CodecInventory.lean")


def run(ctx):
    ctx.level = "proof"
    ctx.assumptions += [
        "the network magic, SHA-256 (H) and the key library (K) are parameters of model and theorems",
        "io.Reader is an in-memory reader: a short stream is io.EOF / io.ErrUnexpectedEOF (class `short`), no partial reads",
        "decoders that overwrite `eof` between fields (Version, HeadersReq, ConsensusPayload, Addr entries) are modelled as strict products: once a NextX hits eof the offset is at the end, so the last field's eof equals the disjunction (exercised by the correspondence on every truncation)",
        "checksum integrity is stated as what it is: up to collisions of a 32-bit truncated double hash",
    ]
    ctx.cov["trusted_base"] += ["translator extract/codecinv (go/parser: lists the types with a codec pair in the anchored files)", "harness hcodec/p2p + drv_codec (correspondence check)", "Lean compiler for the driver",
                                "key library ontology-crypto (verdicts passed to the model)"]
    generate(ctx)
    ctx.lean_props()
    hbin = ctx.build_harness("hcodec")
    drv = ctx.build_driver("drv_codec")
    if hbin:
        res = ctx.correspondence("p2p", hbin, ["p2p"], drv, ["p2p"])
        judge_all(ctx, res, "Poly.Props.C05.* (frame / payload schemas no longer match p2pserver/message/types)")
    judge_lean_all(ctx)
