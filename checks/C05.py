"""C05 — peer-to-peer frames are integrity-checked and round-trip.

Proof: Poly/Props/C05.lean — for every message kind and every well-formed value: readMessage (frame m ++ r) = ok (m, r);
wrong magic, oversize length, short payload, checksum mismatch and unknown command are rejected; an accepted frame whose
payload differs from the framed one yields a collision of the 4-byte truncated double hash; reading arbitrary bytes never
reaches the panic outcome. Tie: stream `p2p` (harness hcodec on the real WriteMessage/ReadMessage and the 16 message
types vs drv_codec on the model). Search: the harness checks every frame it writes (read back, re-write, single-byte
corruptions, truncations) and every malformed stream (no panic, no acceptance of bad magic / length / checksum).
"""


def generate(ctx):
    """(T) codec inventory regenerated from the anchored Go files: every type with a codec pair must have a schema."""
    return ctx.run_extract("codecinv", [], out_lean="CodecInventory.lean")


def run(ctx):
    ctx.level = "proof"
    ctx.assumptions += [
        "the network magic, SHA-256 (H) and the key library (K) are parameters of model and theorems",
        "io.Reader is an in-memory reader: a short stream is io.EOF / io.ErrUnexpectedEOF (class `short`), no partial reads",
        "decoders that overwrite `eof` between fields (Version, HeadersReq, ConsensusPayload, Addr entries) are modelled as strict products: once a NextX hits eof the offset is at the end, so the last field's eof equals the disjunction (exercised by the correspondence on every truncation)",
        "checksum integrity is stated as what it is: up to collisions of a 32-bit truncated double hash",
    ]
    ctx.cov["trusted_base"] += ["translator extract/codecinv (go/parser: lists the types with a codec pair in the anchored files)", "harness hcodec/p2p + drv_codec (correspondence check)", "Lean compiler for the driver",
                                "key library ontology-crypto (verdicts passed to the model)"]
    generate(ctx)
    ctx.lean_props()
    hbin = ctx.build_harness("hcodec")
    drv = ctx.build_driver("drv_codec")
    if hbin:
        res = ctx.correspondence("p2p", hbin, ["p2p"], drv, ["p2p"])
        ctx.judge(res, theorem_hint="Poly.Props.C05.* (frame / payload schemas no longer match p2pserver/message/types)")
    ctx.judge_lean()
