"""C42 — quorum thresholds guarantee intersection.

Proof: Poly/Props/C42.lean (intersection for all N over Finsets; generated threshold definitions equal the
formulas for all N). Tie: translator extract/thresholds regenerates Poly/Generated/Thresholds.lean from the Go
source on every run; the translator itself is validated by compiling the source expressions verbatim into a
Go program and comparing it with the generated Lean definitions on N = 0..10000 x 8 companion values.
Search on failure: least N at which a node expression (verbatim Go) differs from the formula it must equal.
"""
import os
import subprocess

import vcheck


def tdiv(a, b):
    q = abs(a) // abs(b)
    return q if (a >= 0) == (b >= 0) else -q


def thrA(n):
    return n - tdiv(n - 1, 3)


def thrG(n):
    return tdiv(2 * n + 2, 3)


B = lambda x: "true" if x else "false"  # noqa: E731

# what each extracted site must compute (the formulas named by the property), as a function of the sweep point
SPEC = {
    "ledger_verifyHeader_m0": lambda a, b: str(thrA(a)),
    "ledger_verifyHeader_m1": lambda a, b: str(a - tdiv(6 * a, 7)),
    "ledger_verifyHeader_m2": lambda a, b: str(thrA(a)),
    "ledger_verifyHeader_needFix0": None,  # three parameters, covered by the theorem only
    "ledger_verifyHeader_cmp0": lambda a, b: B(a < b),
    "types_AddressFromBookkeepers0": lambda a, b: str(thrA(a)),
    "nodemgr_CheckConsensusSigns0": lambda a, b: B(a >= thrG(b)),
    "sigmgr_CheckSigns0": lambda a, b: B(a < thrG(b)),
    "sigmgr_CheckSigns1": lambda a, b: B(a >= thrG(b)),
    "vote_CheckVotes0": lambda a, b: B(a >= thrG(b)),
    "vbft_getCommitConsensus0": lambda a, b: B(a + 1 >= thrA(b)),
    "neo3_verifyWitness_m0": lambda a, b: str(thrA(a)),
    "neo3legacy_verifyWitness_m0": lambda a, b: str(thrA(a)),
    "vbft_genesis_C0": lambda a, b: str(tdiv(a, 3)),
}
# sites extracted for other properties (C24, C30, C31); their formulas are stated there
OTHER = ("ont_", "cosmos_", "okex_", "heimdall_")


def sweep(ctx, names_needed=None):
    """Returns (names, go_lines, lean_lines or None)."""
    gosrc = ctx.run_extract("thresholds", ["go"])
    js = ctx.run_extract("thresholds", ["json"])
    if gosrc is None or js is None:
        return None
    import json
    sites = json.loads(js)
    names = [s["id"] for s in sites]
    d = os.path.join(ctx.tmpdir, "sweep")
    os.makedirs(d, exist_ok=True)
    with open(os.path.join(d, "main.go"), "w") as f:
        f.write(gosrc)
    with open(os.path.join(d, "go.mod"), "w") as f:
        f.write("module sweep\n\ngo 1.21\n")
    hi = "10000"
    rc, out = vcheck.sh(["go", "build", "-o", os.path.join(d, "sweep"), "."], cwd=d, env=vcheck.GOENV)
    if rc != 0:
        ctx.violate("translator:thresholds-go", "verbatim Go sweep program does not compile: " + out[-500:],
                    {"kind": "translator", "output": out[-3000:]}, found_input=False)
        return None
    go_lines = subprocess.run([os.path.join(d, "sweep"), "0", hi], stdout=subprocess.PIPE, text=True).stdout.splitlines()
    return sites, names, go_lines, hi


def generate(ctx):
    return ctx.run_extract("thresholds", ["lean"], out_lean="Thresholds.lean")


def behavioural(ctx):
    """The thresholds the running code applies: real CheckConsensusSigns / CheckVotes / AddSignature driven by N
    distinct consensus validators until they fire, operator-address m; compared with what the generated
    definitions predict (drv_thresholds quorum) and, in the harness itself, with the formulas (property oracle)."""
    hbin = ctx.build_harness("hthr")
    if not hbin:
        return
    drv = ctx.build_driver("drv_thresholds") if ctx.cov["generated_from"] else None
    res = ctx.correspondence("quorum", hbin, ["quorum"], drv, ["quorum"])
    ctx.judge(res, theorem_hint="impl_governance / impl_votes / impl_sigmgr / impl_operator_address (generated definitions no longer "
                                "predict the behaviour of the ledgers)")


def run(ctx):
    ctx.level = "proof"
    ctx.assumptions += [
        "translator extract/thresholds renders the Go expressions faithfully (validated by the verbatim-Go sweep on 0..10000)",
        "Go int arithmetic does not overflow for validator counts (counts are slice/map lengths)",
    ]
    ctx.cov["trusted_base"] += ["extract/thresholds (go/parser based translator)", "Go compiler (sweep program)"]
    if ctx.run_extract("thresholds", ["lean"], out_lean="Thresholds.lean") is None:
        # the source no longer has the shape the translator reads: the proof obligations are not re-checked;
        # search the implementation's behaviour for a concrete N at which a threshold deviates
        ctx.lean_ok = False
        ctx.failed_theorems = ["Poly.Props.C42.impl_* (translator extract/thresholds could not regenerate the definitions)"]
        behavioural_only = True
        hbin = ctx.build_harness("hthr")
        if hbin:
            res = ctx.correspondence("quorum", hbin, ["quorum"], None)
            ctx.judge(res)
        ctx.judge_lean()
        return
    ctx.lean_props()
    sw = sweep(ctx)
    if sw is None:
        behavioural(ctx)
        ctx.judge_lean()
        return
    sites, names, go_lines, hi = sw
    # (a) translator validation: generated Lean definitions vs verbatim Go, same grid
    drv = ctx.build_driver("drv_thresholds")
    mism = 0
    if drv:
        lean_lines = subprocess.run([drv, "0", hi], stdout=subprocess.PIPE, text=True).stdout.splitlines()
        for g, l in zip(go_lines, lean_lines):
            if g != l:
                mism += 1
                if mism == 1:
                    ctx.violate("correspondence:thresholds-sweep",
                                "generated Lean threshold definitions disagree with the verbatim Go expressions: go=`%s` lean=`%s`" % (g, l),
                                {"kind": "correspondence", "stream": "thresholds-sweep", "go": g, "lean": l, "columns": ["a", "b"] + names},
                                found_input=False)
        if len(go_lines) != len(lean_lines):
            ctx.violate("correspondence:thresholds-sweep-len", "sweep outputs differ in length",
                        {"kind": "correspondence"}, found_input=False)
    elif ctx.lean_ok:
        ctx.violate("precondition:driver", "drv_thresholds does not build", {"kind": "driver"}, found_input=False)
    # (b) the property on the implementation's own expressions: every site equals its formula on the grid
    evals = 0
    distinct = set()
    unknown = [n for n in names if n not in SPEC and not n.startswith(OTHER)]
    missing = [n for n in SPEC if n not in names]
    for line in go_lines:
        parts = line.split()
        a, b = int(parts[0]), int(parts[1])
        vals = parts[2:]
        for n, v in zip(names, vals):
            fn = SPEC.get(n)
            if fn is None:
                continue
            evals += 1
            distinct.add((n, v, a % 21, b - a if abs(b - a) < 3 else 9))
            if a >= 1 and b >= 0 and fn(a, b) != v:
                site = next(s for s in sites if s["id"] == n)
                ctx.violate("threshold:%s" % n,
                            "node expression `%s` at %s gives %s for (a=%d, b=%d); the formula requires %s" % (
                                site["src"], site["pos"], v, a, b, fn(a, b)),
                            {"kind": "input", "site": site, "a": a, "b": b, "observed": v, "expected": fn(a, b),
                             "replay": "go run the generated sweep program (extract/thresholds <repo> go) with arguments %d %d" % (a, a)},
                            found_input=True)
    for n in unknown:
        ctx.violate("threshold-site-unknown:%s" % n,
                    "a threshold expression was extracted for which no formula is stated: %s" % n,
                    {"kind": "obligation", "site": [s for s in sites if s["id"] == n]}, found_input=False)
    for n in missing:
        if n.split("_")[0] in ("ledger", "types", "nodemgr", "sigmgr", "vote", "vbft", "neo3", "neo3legacy"):
            ctx.violate("threshold-site-missing:%s" % n, "expected threshold site %s no longer extracted" % n,
                        {"kind": "obligation"}, found_input=False)
    ctx.cov["evaluations"] += evals
    ctx.cov["distinct_nontrivial"] += len(distinct)
    ctx.cov["rule"] = ("every extracted threshold expression (verbatim Go) evaluated on a = 0..%s with 8 companion values b; "
                       "distinct = (site, value, a mod 21, b-a class); also compared with the generated Lean definitions line by line" % hi)
    ctx.cov["samples"] += [{"columns": ["a", "b"] + names, "row": go_lines[7 * 8].split()}, {"row": go_lines[100 * 8 + 3].split()}]
    ctx.cov["sites"] = [{"id": s["id"], "pos": s["pos"], "src": s["src"]} for s in sites]
    ctx.cov["sweep_lines_compared_with_lean"] = len(go_lines)
    behavioural(ctx)
    ctx.judge_lean()
