"""C39 — transaction signature validation is exact.

Proof: Poly/Props/C39.lean (for every signature scheme and address function: sig_sound, sig_complete under "a
signature verifies under at most one listed key position", limits_enforced, signers_exact).
Tie: correspondence stream `sigs` (harness hnode runs validation.VerifyTransaction and
signature.VerifyMultiSignature on transactions whose entries are built from real keys of every supported scheme;
driver drv_node runs the model on the verdict matrix that the harness computes with the node's own libraries).
Search: the harness decides the property independently on every transaction (bipartite matching instead of the
greedy scan, signer set from independently derived addresses) and compares with the implementation's verdict.
"""


def run(ctx):
    ctx.level = "proof"
    ctx.assumptions += [
        "signature decoding/verification (ECDSA, SM2, Ed25519) and RIPEMD160.SHA256 addresses are parameters of the theorems; the "
        "driver receives their values per transaction from the harness, which obtains them from the same libraries the node calls",
        "'m distinct listed keys' is read as m distinct positions of the entry's key list (a list that repeats a key is a different "
        "program address controlled by the same key holder)",
        "the transaction hash is taken from types.TransactionFromRawBytes of the unsigned transaction (C02 covers the identity)",
    ]
    ctx.assumptions += ["byte-level address model: key serialization and the quadruple compared by SortPublicKeys are inputs taken from the real key objects; "
                        "RIPEMD160.SHA256 is a parameter (addresses are checked against an independent hash computation in the harness)"]
    ctx.cov["trusted_base"] += ["harness hnode/sigs + drv_node (correspondence check)", "Lean compiler for the driver",
                                "ontology-crypto (signature schemes) as oracle for the verdict matrix"]
    ctx.lean_props()
    hbin = ctx.build_harness("hnode")
    drv = ctx.build_driver("drv_node")
    if hbin:
        res = ctx.correspondence("sigs", hbin, ["sigs"], drv, ["sigs"])
        ctx.judge(res, theorem_hint="Poly.Props.C39.sig_sound / sig_complete / signers_exact (model no longer matches checkTransactionSignatures)")
    ctx.judge_lean()
