"""C33 — approved governance requests are consumed.

Proof: Poly/Props/C33.lean (for every hash function and every history: an approval is applied only while its
request is pending; the applied approval removes the request; a request that is not pending stays so until a
transaction creates it; hence between two applications there is a fresh request). Tie: translator extract/govkeys (deleted vs stored key prefixes, theorem source_deletes_the_stored_request_key) and
correspondence streams `gov-pool`, `gov-admission`,
`gov-approvals` (every approve method, N = 1..13, second and third approval rounds after the action was applied)
and `gov-registry` (side-chain request/approve interleavings); the harness evaluates the property on the real
handlers: an action applied without a fresh request, or a request record still stored after its approval.
"""
from checks import gov_common


def run(ctx):
    gov_common.run_streams(ctx, "C33", ["gov-approvals", "gov-registry", "gov-pool", "gov-admission"],
                           "Poly.Props.C33.consumed / no_second_application")
