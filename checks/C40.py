"""C40 — VBFT participant selection is well formed.

Proof: Poly/Props/C40.lean (for every 64-byte seed, position table, N and C: a successful buildParticipantConfig
yields C+1 different proposers, >= 2C different endorsers and committers, all from the table, none of the first C
proposers among endorsers/committers; no panic on a non-empty table; the Go maps enter by membership only;
GenesisChainConfig's table is a rearrangement of 15 slots per pool entry).
Tie: correspondence stream `vbftsel` (harness hnode executes the real calcParticipant / calcParticipantPeers /
buildParticipantConfig / GenesisChainConfig through the `verif` wrappers; driver drv_node executes the model,
including FNV-1a for the shuffle). The selection seed (double SHA-512 of a JSON record) is computed by the real
code and handed to the model in the op line.
Search: the harness evaluates the property itself on every successful build and on every generated table, and
evaluates every selection twice (Go re-randomises map iteration).
"""


def run(ctx):
    ctx.level = "proof"
    ctx.assumptions += [
        "the selection seed (sha512(sha512(json(previous block fields)))) is an input of the model; the harness computes it independently and requires the real getParticipantSelectionSeed to return it",
        "peer indices and table lengths fit uint32 (no truncation of len(dposTable))",
        "node ids in generated pools are alphanumeric, so json.Marshal in shuffle_hash does no escaping",
    ]
    ctx.cov["trusted_base"] += ["harness hnode/vbftsel + drv_node (correspondence check)", "Lean compiler for the driver",
                                "verif hook consensus/vbft/verif_hooks_select.go (exported wrappers only)"]
    ctx.lean_props()
    hbin = ctx.build_harness("hnode")
    drv = ctx.build_driver("drv_node")
    if hbin:
        res = ctx.correspondence("vbftsel", hbin, ["vbftsel"], drv, ["vbftsel"])
        ctx.judge(res, theorem_hint="Poly.Props.C40.selection_well_formed / table_from_pool (model no longer matches the selection code)")
    ctx.judge_lean()
