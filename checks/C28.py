"""C28 — Ethereum header rules match the Ethereum specification.

Proof: Poly/Props/C28.lean — the transliterated calculators/checks (Poly/Model/EthRules.lean, over the constants,
fork chain, fork heights, field orders and size tables regenerated from the Go source by extract/ethtables) equal
the Yellow Paper / EIP formulas (Poly/Spec/Ethereum.lean) for all field values.
Tie: (T) extract/ethtables regenerates Poly/Generated/EthConsts.lean on every run; (C) stream `ethrules`: harness
heth runs the real functions (difficultyCalculator, makeDifficultyCalculator, VerifyGaslimit, VerifyEip1559Header,
CalcBaseFee, isLondon/isArrowGlacier, datasetSize/cacheSize incl. all 2 x 2048 table entries, Header RLP/hash,
and the whole rule sequence through SyncBlockHeader with the seal hook) against the compiled model.
Search: inside the harness every result is also compared with independent references of the specification
(floor-division big-integer formulas, go-ethereum's CalcDifficulty, Ethash-appendix sizes with a 20-round
primality test, go-ethereum's RLP / header hash, and the specification's era table).
"""


def generate_consts(ctx):
    return ctx.run_extract("ethtables", ["lean"], out_lean="EthConsts.lean")


def generate(ctx):
    """Constants + the primality / compositeness certificates of both size tables (8 modules of 4 x 64 epochs each,
    checked by the kernel in Poly/Proofs/EthSizeChk0..7.lean)."""
    a = generate_consts(ctx)
    ok = a is not None
    for k in range(8):
        if ctx.run_extract("ethtables", ["certs", str(k)], out_lean="EthSizeCerts%d.lean" % k) is None:
            ok = False
    return a if ok else None


def run(ctx):
    ctx.level = "proof"
    ctx.assumptions += [
        "big.Int.Div is Euclidean division and big.Int.Exp(2,y,nil) = 2^y (math/big); uint64/int64 casts modelled explicitly",
        "the 2 x 2048 ethash size table entries are PROVED equal to the computed sizes: extract/ethtables emits, per entry, a non-trivial "
        "divisor for every larger candidate and a Pratt chain for the entry's item count; a Lean checker is evaluated on them by the kernel "
        "(decide +kernel, no native_decide) and proved sound with Mathlib's lucas_primality; the certificates are untrusted input",
        "Keccak-256 and the RLP library are external; the model produces the RLP pre-image, the harness checks Hash() = Keccak(pre-image)",
        "fork predicates modelled for the production configuration (isTest = false); network ids 1, 2 and an unknown id exercised",
        "difficulty eras before Muir Glacier (block < 9 200 000 on main net) are outside the client's range and not compared",
    ]
    ctx.cov["trusted_base"] += ["extract/ethtables (go/parser + go/constant translator)",
                                "harness heth/ethrules + drv_eth (correspondence check)", "Lean compiler for the driver",
                                "go-ethereum v1.9.15 (reference oracles: ethash.CalcDifficulty, rlp, types.Header.Hash)",
                                "math/big ProbablyPrime (exact below 2^64)"]
    if generate(ctx) is None:
        ctx.lean_ok = False
        ctx.failed_theorems = ["<translator ethtables failed: Poly/Generated/EthConsts.lean not regenerated>"]
        ctx.judge_lean()
        return
    ctx.lean_props()
    hbin = ctx.build_harness("heth")
    drv = ctx.build_driver("drv_eth")
    if hbin:
        res = ctx.correspondence("ethrules", hbin, ["ethrules"], drv, ["ethrules"])
        ctx.judge(res, theorem_hint="Poly.Props.C28.* (model EthRules no longer matches header_sync/eth)")
    ctx.judge_lean()
