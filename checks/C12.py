"""C12 — ledger recovers exactly after a crash at any persistence point.

Proof: Poly/Props/C12.lean over the model Poly/Model/Ledger.lean (three durable stores + hash file + memory;
submitBlock = batch fills and the commits block -> event -> state; crash point k = completed commits; reopen =
NewLedgerStore + InitLedgerStoreWithGenesisBlock with recoverStore). For every reachable ledger, every block, every
crash point and every deterministic executeBlock: restart after a crash = restart after the complete submission
(k >= 1) or restart of the ledger before it (k = 0); heights agree; the state batch is applied exactly once.
Tie: correspondence stream `crash` — a real LedgerStoreImp in a temp dir, blocks with state-changing transactions of
a scripted contract, the `verif` crash-point hook in submitBlock, stores closed and reopened in-process; the same op
lines are executed by the compiled model (drv_ledger) and every observation is compared.
Search: inside the harness every restart is compared with an uncrashed twin ledger (the property itself).
"""
import os
import shutil
import tempfile

import vcheck


def ledger_dir(ctx):
    """A memory-backed scratch directory for the many small LevelDB commits (process-crash model: the medium does
    not matter); falls back to $TMPDIR of the run."""
    if os.path.isdir("/dev/shm") and os.access("/dev/shm", os.W_OK):
        d = tempfile.mkdtemp(prefix="polyverif-%s-" % ctx.pid, dir="/dev/shm")
        vcheck.GOENV["HLEDGER_DIR"] = d
        return d
    vcheck.GOENV.pop("HLEDGER_DIR", None)
    return None


def common(ctx):
    ctx.assumptions += [
        "process-crash model: a completed LevelDB batch commit or file write survives, an unfinished batch leaves nothing (goleveldb, the OS and the file system are not modelled; torn writes inside one batch are not exhibited)",
        "hash, signature verification and executeBlock are parameters of the theorems (they hold for all of them); the driver instantiates SHA-256, the signature verdicts of the op line and the scripted test contract",
        "the two accumulators are modelled by their leaf lists; size/root agreement with CompactMerkleTree is what the correspondence observes (C06 is the property about that structure)",
        "a block is identified with its hash when read back from the block store (transactions are stored per hash)",
    ]
    ctx.cov["trusted_base"] += ["harness hledger + drv_ledger (correspondence check)", "Lean compiler for the driver",
                                "extract/thresholds (generated threshold definitions used by the model)"]


def run(ctx):
    ctx.level = "proof"
    common(ctx)
    if ctx.run_extract("thresholds", ["lean"], out_lean="Thresholds.lean") is None:
        return
    ctx.lean_props()
    hbin = ctx.build_harness("hledger")
    drv = ctx.build_driver("drv_ledger")
    d = ledger_dir(ctx)
    try:
        if hbin:
            res = ctx.correspondence("crash", hbin, ["crash"], drv, ["ledger"], timeout=2400)
            ctx.judge(res, theorem_hint="Poly.Props.C12.recovery_exact_committed / recovery_exact_lost (the model of submitBlock / recoverStore no longer matches ledger_store.go)")
            res2 = ctx.correspondence("firststart", hbin, ["firststart"], drv, ["ledger"], timeout=1200)
            ctx.judge(res2, theorem_hint="Poly.Props.C12.first_start_crash_harmless (the model of the first start / StateStore.ClearAll no longer matches the Go code)")
            if drv is None and ctx.lean_ok:
                ctx.violate("precondition:driver", "drv_ledger does not build", {"kind": "driver"}, found_input=False)
    finally:
        if d:
            shutil.rmtree(d, ignore_errors=True)
    ctx.judge_lean()
