"""C36 — only registered relayers can submit transactions.

Proof: Poly/Props/C36.lean (admitted iff some signing address is a registered relayer or a permitted address; an
approved registration / removal takes effect for later submissions; the relayer registry changes only through applied
relayer approvals; the permitted cache is filled from the pool of the current view and only grows until a restart).
Tie: correspondence stream `gov-admission`: the real TxActor.isValidSender and updatePermittedAddrMap (verif hooks
VerifIsValidSender / VerifRefreshPermitted) read through ledger.DefLedger a store view over the contract state that
real relayer-manager / node-manager transactions produced in the same case; signer sets over registered, removed,
never registered, validator, former validator, operator and unknown addresses. The harness evaluates the property
directly (admitted iff a signer is stored as relayer or is in the permitted cache).
Not modelled: the actor mailbox, the one-minute refresh timer, the later stages of handleTransaction (size, duplicate,
capacity: C37).
"""
from checks import gov_common


def run(ctx):
    gov_common.run_streams(ctx, "C36", ["gov-admission"], "Poly.Props.C36.admits_iff / removal_effective")
