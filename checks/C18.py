"""C18 — privileged native operations require the right witness.

Proof: Poly/Props/C18.lean — witness_exact / calling_context_is_immediate / witness_not_for_deeper_caller (CheckWitness
passes exactly for a signer or the immediately calling contract), guarded_method_requires_witness and
privileged_tx_requires_signer (M_requires_operator / M_requires_owner for EVERY method of the guard-then-body shape, any
body), commitDpos_due, failed_guard_no_write, and guards_match_expectation_partial (the guard extracted from the Go
source of each of the 82 registered methods / per-chain handlers equals the hand-written expectation, kernel-checked).
Tie (T): extract/guards regenerates Poly/Generated/Guards.lean from the Go source on every run (guard call at the top
level of the handler, failure returned, before the first state write).
Tie (C): stream `witness` (hnative): every invocable method x signer sets {none, operator multisig address, single
validators, three validators, owner, unrelated, zero address, combinations} x owner roles x direct / via one / via two
calling contracts, on the real contracts (real NativeService, CacheDB, overlay, LevelDB in memory, 4 consensus
validators, one registered side chain per router); outcome class and "no write before the rejection" are compared with
the Lean model instantiated with the *generated* guard table.
Search: the harness flags directly any privileged method that succeeds without the required witness (r.Viol with the
concrete transaction) and any storage write made before a witness rejection.
"""
import json
import os


def generate(ctx):
    """setup hook: Poly/Generated/Guards.lean must exist before the Lean library is built from a clean clone."""
    from checks import native_extract
    native_extract.extract(ctx, "guards", [], "Guards.lean")


def run(ctx):
    ctx.level = "proof"
    ctx.assumptions += [
        "guard shape of each method is read off the Go AST by extract/guards (top-level statement order approximates "
        "dominance: handlers are straight-line code with early returns); validated dynamically by the witness stream",
        "the operator address is recomputed by the harness from the stored peer pool (AddressFromBookkeepers) independently of GetCurConOperator",
        "hash/address derivation (SHA-256 + RIPEMD-160) is not modelled: addresses are passed in the op line",
        "`post`/`pre` fields of an op line (does the body succeed once authorised / does the call reach its guard) are observed on the real "
        "code with all / no witnesses present; the model predicts the outcome for the actual signer set from them",
        "approval methods require the approver's own witness; that approvers are consensus validators is enforced by the quorum count (C32)",
    ]
    ctx.cov["trusted_base"] += ["extract/guards (go/packages + go/types translator)", "harness hnative/witness + drv_native",
                                "error-text classification of witness rejections ('authentication failed')"]
    from checks import native_extract
    facts = native_extract.extract(ctx, "guards", [], "Guards.lean")
    ctx.lean_props()
    if facts:
        ctx.cov["guards"] = {"methods": len(facts["methods"]), "registered": facts["registered"],
                             "by_guard": {}}
        for m in facts["methods"]:
            ctx.cov["guards"]["by_guard"][m["guard"]] = ctx.cov["guards"]["by_guard"].get(m["guard"], 0) + 1
            if m["guard"].startswith(("late:", "soft:")):
                ctx.violate("C18:guard-shape:%s.%s" % (m["contract"], m["method"]),
                            "%s %s: witness guard at %s is %s (a state write at %s precedes it, or its failure is not returned)"
                            % (m["contract"], m["method"], m.get("guard_pos"), m["guard"], m.get("first_write")),
                            {"kind": "obligation", "fact": m}, found_input=False)
        ctx.cov["samples"].append({"guard_fact": facts["methods"][0]})
    hbin = ctx.build_harness("hnative")
    drv = ctx.build_driver("drv_native")
    if hbin:
        if not drv and ctx.lean_ok:
            ctx.violate("precondition:driver", "drv_native does not build", {"kind": "driver"}, found_input=False)
        res = ctx.correspondence("witness", hbin, ["witness"], drv, ["witness"])
        if ctx.replay is not None:
            # op lines of this stream carry observations (post/pre/operator) of the tree they were recorded on; when they no
            # longer hold the harness answers `stale-op` (the property oracle is still evaluated on the real outcome)
            stale = [m for m in res["mismatches"] if m.get("go") == "stale-op"]
            if stale:
                ctx.note("%d replayed op line(s) carry observations that no longer hold on this tree; compared by the property oracle only" % len(stale))
                res["mismatches"] = [m for m in res["mismatches"] if m.get("go") != "stale-op"]
        ctx.judge(res, theorem_hint="Poly.Props.C18 (model of CheckWitness / guard shapes, instantiated with the generated guard table, "
                                    "no longer predicts the real methods' verdicts)")
    ctx.judge_lean()
