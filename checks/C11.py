"""C11 — the block state-change digest depends only on the net write set.

Proof: Poly/Props/C11.lean (write set = byte-ordered last writes; equal last-write maps give equal write set
and digest for every hash function; permutations, redundant overwrites, delete-then-put, grouping into
transactions). Tie: correspondence streams `digest` (harness hkv runs the real OverlayDB.ChangeHash /
GetWriteSet, directly and through CacheDB.Commit) and `blockdigest` (the real Ledger.ExecuteBlock on a ledger
holding the genesis block, transactions calling a scripted native contract); drv_kv runs the model with SHA-256.
Search: the harness compares every digest with SHA-256 over the sorted net writes computed from a Go map, and
all sequences of one family that have the same net effect with each other.
"""


def run(ctx):
    ctx.level = "proof"
    ctx.assumptions += [
        "the hash function is a parameter of the theorems; the driver uses a Lean SHA-256 whose agreement with crypto/sha256 "
        "is what the correspondence observes",
        "handleTransaction is modelled only as far as the state layers go: cache.Reset, writes, Commit on success (C15/C16 own the rest); "
        "this discipline is what the blockdigest stream observes on the real block executor",
        "AddStateMerkleTreeRoot / GetStateMerkleRootWithNewHash are modelled over C06's compact-tree model (imported unchanged; its "
        "invariant Inv is the hypothesis 'well-formed state tree'); heights below stateHashCheckHeight (0 in NewStateStore) are not modelled",
    ]
    ctx.cov["trusted_base"] += ["harness hkv/digest + hkv/blockdigest + hkv/stateroot + drv_kv (correspondence check)", "Poly.Model.Merkle / Poly.Proofs.MerkleTree (C06, imported)", "Lean compiler for the driver"]
    ctx.lean_props()
    hbin = ctx.build_harness("hkv")
    drv = ctx.build_driver("drv_kv")
    if hbin:
        res = ctx.correspondence("digest", hbin, ["digest"], drv, ["digest"])
        ctx.judge(res, theorem_hint="Poly.Props.C11.* (model changeHash/writeSet no longer matches OverlayDB.ChangeHash/GetWriteSet)")
        res = ctx.correspondence("blockdigest", hbin, ["blockdigest"], drv, ["blockdigest"])
        ctx.judge(res, theorem_hint="Poly.Props.C11.block_buffer_is_replay / digest_tx_grouping (model runBlock no longer matches "
                                    "Ledger.ExecuteBlock's digest and write set)")
        res = ctx.correspondence("stateroot", hbin, ["stateroot"], drv, ["stateroot"])
        ctx.judge(res, theorem_hint="Poly.Props.C11.state_root_step / delta_root_fn (model of GetStateMerkleRootWithNewHash / "
                                    "AddStateMerkleTreeRoot no longer matches the ledger's predicted and recorded state roots)")
    ctx.judge_lean()
