"""C15 — transaction execution is atomic.

Proof: Poly/Props/C15.lean — for ALL handler programs over the primitive effects (get/put/delete/notify/putMerkleVal/
nativeCall/checkWitness/...), all registries, prior states and signers: failed_tx_no_trace, ok_tx_keeps_all,
cache_reset_isolates, isolation, block_result_fn, handler_cannot_touch_overlay, panicked_tx_aborts_block,
panicked_tx_not_successful, model_fuel_sufficient (model:
Poly/Model/Native.lean).
Tie: correspondence stream `atomic` — harness hnative registers a scripted test contract in native.Contracts and runs
real blocks (mixing succeeding and failing transactions, failures and runtime panics injected at every step, nested calls, the context
limit) through the real ExecuteBlock/AddBlock/SubmitBlock on a real ledger (including the consensus interleaving: a held
ExecuteResult must survive the execution of other candidate blocks); the compiled Lean model (drv_native) executes the same
op lines; write set, digest, cross hashes, cross root, events and what every transaction read are compared.
Search: inside the harness the property is evaluated directly on the real outputs (independent Go reference of the
writes of the successful transactions, read isolation, events kept, and re-execution of the block without its
failed transactions) -> r.Viol with the concrete block.
Static side condition of ok_tx_keeps_all (no shipped contract continues after a failed nested call): no caller of
NativeService.NativeCall / Invoke and of CacheDB.Commit / Reset exists under native/service (type-resolved scan by
extract/callgraph, field `callers`).
"""


def run(ctx):
    ctx.level = "proof"
    ctx.assumptions += [
        "handlers reach the service only through the exported methods of *NativeService and *CacheDB modelled as Prog effects "
        "(Go package privacy); CacheDB.Commit/Reset are not called by contract code (checked statically)",
        "SHA-256 is computed by the driver's Lean implementation; theorems do not depend on it (leaf hash is a parameter)",
        "LevelDB/PersistStore modelled as a finite map; db errors (overlay.Error) not modelled",
        "ghost fields effLog/swallowed of the model record effects and swallowed nested failures; they influence no other field",
    ]
    ctx.cov["trusted_base"] += ["harness hnative/atomic (scripted contract + ledger glue) + drv_native (correspondence check)",
                                "Lean compiler for the driver", "extract/callgraph `callers` scan (go/types)"]
    ctx.lean_props()
    # static side condition: nobody under native/ calls NativeCall / CacheDB.Commit / CacheDB.Reset
    from checks import native_extract
    facts = native_extract.extract(ctx, "callgraph", ["functions"], "CallGraph.lean", write_lean=False)
    if facts is not None:
        ctx.cov["nativecall_scan"] = {"callers_in_native_service": facts.get("callers") or [],
                                      "scanned_functions": facts.get("module_functions")}
        for site in facts.get("callers") or []:
            ctx.violate("C15:nested-call-site:%s" % site["func"],
                        "contract code calls %s at %s: the hypothesis `swallowed = 0` of ok_tx_keeps_all is no longer "
                        "guaranteed statically (a handler that continues after a failed nested call loses its earlier events)"
                        % (site["callee"], site["pos"]),
                        {"kind": "obligation", "site": site}, found_input=False)
    hbin = ctx.build_harness("hnative")
    drv = ctx.build_driver("drv_native")
    if hbin:
        if not drv and ctx.lean_ok:
            ctx.violate("precondition:driver", "drv_native does not build", {"kind": "driver"}, found_input=False)
        res = ctx.correspondence("atomic", hbin, ["atomic"], drv, ["atomic"])
        ctx.judge(res, theorem_hint="Poly.Props.C15.* (model execBlock/execTx/invokeStep no longer matches executeBlock/"
                                    "HandleInvokeTransaction/Invoke/CacheDB)")
    ctx.judge_lean()
