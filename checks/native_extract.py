"""Shared by checks C15, C16, C18: run the translators extract/callgraph and extract/guards, reusing a previous extraction
of an IDENTICAL tree. The cache key hashes every non-test .go file, go.mod and go.sum of the repo under check
($VERIF_REPO or /repo), the translator's own source and `go version`; any change gives another key, so a stale result
can never be used for a changed tree. Cached pairs live in .build/cache/<translator>/<key>.{lean,json}."""
import hashlib
import json
import os

import vcheck


def tree_key(name):
    h = hashlib.sha256()
    for base in (vcheck.REPO, os.path.join(vcheck.EXTRACT, name)):
        for dp, dn, fs in os.walk(base):
            dn[:] = sorted(d for d in dn if d not in (".git",))
            for f in sorted(fs):
                if (f.endswith(".go") and not f.endswith("_test.go")) or f in ("go.mod", "go.sum"):
                    fp = os.path.join(dp, f)
                    h.update(os.path.relpath(fp, base).encode())
                    h.update(b"\0")
                    with open(fp, "rb") as fh:
                        h.update(fh.read())
                    h.update(b"\0")
    rc, out = vcheck.sh(["go", "version"], env=vcheck.GOENV)
    h.update(out.encode())
    return h.hexdigest()[:32]


def extract(ctx, name, args_after_side, out_lean, write_lean=True):
    """Returns the translator's JSON facts (dict) or None; (re)writes Poly/Generated/<out_lean> when write_lean."""
    side = os.path.join(ctx.tmpdir, name + ".json")
    key = tree_key(name)
    cdir = os.path.join(vcheck.BUILD, "cache", name)
    clean, cjson = os.path.join(cdir, key + ".lean"), os.path.join(cdir, key + ".json")
    if os.path.exists(clean) and os.path.exists(cjson):
        lean_src = open(clean).read()
        if write_lean:
            path = os.path.join(vcheck.LEAN, "Poly", "Generated", out_lean)
            changed = vcheck.write_if_changed(path, lean_src)
            ctx.cov["generated_from"].append({"translator": name, "output": "Poly/Generated/" + out_lean,
                                              "sha256": hashlib.sha256(lean_src.encode()).hexdigest(), "changed_on_disk": changed,
                                              "reused_extraction_of_identical_tree": key})
        ctx.note("%s extraction reused (tree key %s)" % (name, key))
        with open(side, "w") as f:
            f.write(open(cjson).read())
        return json.load(open(cjson))
    out = ctx.run_extract(name, ["lean", side] + list(args_after_side), out_lean=out_lean if write_lean else None, timeout=1800)
    if out is None:
        return None
    try:
        facts = json.load(open(side))
    except Exception as e:  # noqa: BLE001
        ctx.violate("translator:%s-json" % name, "%s translator wrote no JSON side file: %r" % (name, e), {"kind": "translator"},
                    found_input=False)
        return None
    os.makedirs(cdir, exist_ok=True)
    for dst, content in ((clean, out), (cjson, open(side).read())):
        tmp = "%s.%d" % (dst, os.getpid())
        with open(tmp, "w") as f:
            f.write(content)
        os.replace(tmp, dst)
    return facts
