"""C30 — Tendermint-family light clients need a two-thirds power quorum.

Proof: Poly/Props/C30.lean over the model Poly/Model/LCTm.lean (cosmos, okex, heimdall `VerifyCosmosHeader`,
`SyncGenesisHeader`, `SyncBlockHeader`, the cosmos / okex deposit handlers, heimdall `VerifySpan`): threshold meaning
(generated definitions), per-header quorum, histories (advance_needs_quorum, height_monotone), valset_hash_bound,
deposit_needs_existence.
Tie: (T) extract/thresholds regenerates the three `talliedVotingPower <= total*2/3` sites on every run;
(C) correspondence streams of harness hlc (real handlers on a real native service + CacheDB, real keys, real
amino-encoded headers, real IAVL/multistore proofs) against drv_lc (the compiled model with ideal cryptography).
Search: the harness evaluates C30 directly on the implementation's verdicts (independent recount of the DISTINCT
validly signing for-block validators with the libraries; ground truth of the committed store for deposits).
"""

STREAMS = [
    ("tmcosmos", "cosmos header sync"),
    ("tmokex", "okex header sync"),
    ("tmheimdall", "heimdall header sync"),
    ("tmdepcosmos", "cosmos MakeDepositProposal"),
    ("tmdepokex", "okex MakeDepositProposal"),
    ("tmspanheimdall", "heimdall VerifySpan"),
]


def generate(ctx):
    return ctx.run_extract("thresholds", ["lean"], out_lean="Thresholds.lean")


def run(ctx):
    ctx.level = "proof"
    ctx.assumptions += [
        "hash functions (ValidatorSet.Hash in its amino / protobuf flavours, Header.Hash), signature verification over the "
        "canonical vote sign bytes and the Merkle proof runtime (VerifyValue / VerifyAbsence, IAVL, multistore, ICS-23 ops) are "
        "parameters of the theorems (they hold for every such function); the driver instantiates them ideally "
        "(a signature verifies under exactly the key that made it, for exactly the chain id it was made for; a hash is the "
        "canonical text of what was hashed; a proof verifies exactly what it was built for)",
        "tendermint's NewValidatorSet is modelled as: order by address, panic on duplicate address / power outside "
        "1..MaxTotalVotingPower / total above MaxTotalVotingPower (so the int64 arithmetic of the threshold test is exact)",
        "amino decoding is modelled as decodable / undecodable; the operator-witness gate of SyncGenesisHeader as a Boolean",
        "translator extract/thresholds renders the Go threshold expressions faithfully (validated by C42's sweep)",
    ]
    ctx.cov["trusted_base"] += ["extract/thresholds (go/parser based translator)",
                                "harness hlc/tm* + drv_lc (correspondence check)", "Lean compiler for the driver",
                                "tendermint / cosmos-sdk / iavl libraries used by the harness to build keys, signatures, hashes and proofs"]
    if ctx.run_extract("thresholds", ["lean"], out_lean="Thresholds.lean") is None:
        return
    ctx.lean_props()
    hbin = ctx.build_harness("hlc")
    drv = ctx.build_driver("drv_lc")
    if hbin and not drv and ctx.lean_ok:
        ctx.violate("precondition:driver", "drv_lc does not build", {"kind": "driver"}, found_input=False)
    if hbin:
        for fam, _what in STREAMS:
            res = ctx.correspondence(fam, hbin, [fam], drv, [fam])
            ctx.judge(res, theorem_hint="Poly.Props.C30.* (model Poly.Model.LCTm no longer matches the %s handlers)" % fam)
    ctx.cov["not_covered"] = [
        "cosmos ProofRuntime ICS-23 ops: driven through the real CommitmentOp with existence and non-existence proofs for "
        "ics23.IavlSpec (op ics23:iavl, store level) and ics23.TendermintSpec (op ics23:simple, store level and multistore level), "
        "built by hand with the confio/ics23 types (no ics23 proof generator for IAVL is available offline: iavl v0.14.0 has "
        "none) and checked with ics23.VerifyMembership / VerifyNonMembership; NOT driven: batch / compressed ics23 proofs, and "
        "mixing an ics23 store op with the legacy MultiStoreProofOp",
        "validator key types sr25519 and multisig (registered in the cosmos codec) are not driven: pools are ed25519 + secp256k1 "
        "(cosmos, okex) and heimdall secp256k1",
        "okex: a validator with an ethermint ethsecp256k1 key (registered in the okex codec) makes ValidatorSet.Hash() panic "
        "(tendermint's package codec does not know the type); named here, not driven and not modelled",
        "heimdall: a precommit signature shorter than 64 bytes makes PubKeySecp256k1.VerifyBytes slice out of range (panic); "
        "named here, not driven and not modelled",
        "amino decoding is exercised as decodable / undecodable only (nil list elements, nil public keys are not generated)",
        "the bor header-sync path that calls VerifySpan (C29) and the entrance gate that dispatches to MakeDepositProposal "
        "(C21/C22) are not part of these streams: VerifySpan and the handlers are called directly",
        "event notifications of PutEpochSwitchInfo are not compared",
        "cosmos router: the header's chain id is never compared with the tracked chain id (a header of another chain id "
        "with the trusted validator set is accepted: exercised, shape header-of-other-chain); C30 does not state a chain-id "
        "condition, so this is reported as an observation, not as a violation",
    ]
    ctx.judge_lean()
