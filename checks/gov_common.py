"""Shared part of the governance checks (C25, C32-C36): one harness (hgov), one driver (drv_gov), several seeded
streams; every check judges the violations whose key belongs to its own property and the model/implementation
agreement of the streams it runs."""

STREAM_HINT = ("the executable model Poly.Model.Gov no longer matches the governance handlers "
               "(node_manager, side_chain_manager, relayer_manager, neo3_state_manager, signature_manager, consensus_vote)")

ASSUMPTIONS = [
    "SHA-256 (key of the approval ledgers, signature subject id) is a parameter H of the theorems; the driver uses a Lean SHA-256 "
    "whose agreement with crypto/sha256 is what the correspondence observes",
    "public-key deserialisation and address derivation are the table State.keys in the model (declared by `key` op lines, "
    "checked by the harness against keypair.DeserializePublicKey / types.AddressFromPubKey)",
    "the operator address of CommitDpos / UpdateConfig (multi-signature address of the consensus set) is an oracle value of "
    "the op line, checked by the harness against node_manager.GetCurConOperator",
    "storage is modelled as one association list per key prefix of the Go contracts; serialisation of the records is not "
    "modelled (the harness decodes every stored record of the five contracts and reports undecodable or unknown keys)",
    "one op = one transaction on a fresh CacheDB over a real overlay; committed iff the handler returns no error "
    "(as ledgerstore/tx_handler.go does)",
    "uint32/uint64 counters (candidate index, request numbers, view) do not wrap",
]

TRUSTED = ["harness hgov (real handlers through native.NativeService.Invoke on CacheDB/OverlayDB/memory LevelDB) + drv_gov "
           "(correspondence check)", "Lean compiler for the driver", "extract/thresholds (quorum expressions regenerated from the Go source)",
           "extract/govkeys (CheckConsensusSigns call sites, deleted / stored key prefixes per function; go/parser based)"]


def run_streams(ctx, prop, streams, theorem_hint):
    ctx.level = "proof"
    ctx.assumptions += ASSUMPTIONS
    ctx.cov["trusted_base"] += TRUSTED
    # the model's quorum tests are the generated definitions: regenerate them from /repo first
    if ctx.run_extract("thresholds", ["lean"], out_lean="Thresholds.lean") is None:
        return
    # call sites of CheckConsensusSigns / ClearConsensusSigns and the key prefixes deleted and stored per function
    if ctx.run_extract("govkeys", ["lean"], out_lean="GovKeys.lean") is None:
        return
    ctx.lean_props()
    hbin = ctx.build_harness("hgov")
    drv = ctx.build_driver("drv_gov")
    if drv is None and ctx.lean_ok:
        ctx.violate("precondition:driver", "drv_gov does not build", {"kind": "driver"}, found_input=False)
    if hbin:
        for stream in streams:
            res = ctx.correspondence(stream, hbin, [stream], drv, ["gov"])
            # oracle failures of other properties found on the same stream are reported by their own check
            res["viol"] = [v for v in res["viol"] if v["key"].startswith(prop + ":")]
            ctx.judge(res, theorem_hint=theorem_hint + " — " + STREAM_HINT)
    ctx.judge_lean()
