"""C22 — each accepted import commits exactly one outbound request.

Proof: Poly/Props/C22.lean (one_request, one_new_key, content_exact = injectivity of the ToMerkleValue encoding,
failed_commits_nothing, at_most_one_leaf) over the model of MakeTransaction / PutRequest / PutMerkleVal.
Tie: correspondence stream `ccm` (see checks/C20.py): after every transaction the request record under
(destination chain, relay tx hash), the number of new request keys and the cross-state leaves returned by the real
HandleInvokeTransaction are compared with the model (real SHA-256, real sink encodings).
Search: the harness compares every accepted import with an independent hand-written encoding of ToMerkleValue and
sha256(0x00 ‖ value), counts new request keys, and decodes the record back.
"""
from checks.C20 import run_ccm


def run(ctx):
    run_ccm(ctx, "C22")
    ctx.judge_lean()
