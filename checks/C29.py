"""C29 — PoSA light clients accept only valid validator seals.

Proof: Poly/Props/C29.lean over the model Poly/Model/LCPosa.lean (one parameterised model of the bsc / bytom / heco /
hsc / pixiechain header-sync handlers): for every history of SyncGenesisHeader / SyncBlockHeader calls, every stored
header has a stored parent chain down to the trust root, a seal that recovers to a member of the validator set in
effect at its height (defined over the header's own ancestry, not over the code's EpochParentHash short cuts) who did
not seal any of the floor(|set|/2) preceding ancestors, the in-turn / no-turn difficulty, well-formed fixed-format
fields; and the canonical assignments form the parent-linked chain of a stored header of maximal total difficulty.
Tie: correspondence stream `posa` of harness hlc (the real handlers on a real native service + CacheDB, really sealed
headers over 16 secp256k1 keys, five routers) against drv_lc (the compiled model; ecrecover and hashes abstract).
Search: the harness evaluates C29 directly on every stored header with an independent reference (plain parent walk).
Stream `posamsc`: the msc (clique-style) handler against the model Poly.Model.LCPosa.Msc (theorems msc_*, including that
the walk over LastVoteParentOrEpoch links computes the clique replay over the plain parent chain) and against an independent
clique reference.
Stream `bor`: polygon bor REDUCED to one fixed span (no sprint end / start): real BorHandler against Poly.Model.LCPosa.Bor
(theorems bor_*) and an independent reference (signer in the span, cyclic succession, difficulty N - succession, back-off).
"""


def run(ctx):
    ctx.level = "proof"
    ctx.assumptions += [
        "block hashes (Keccak of the RLP header) are abstract identifiers; distinct headers have distinct hashes",
        "ecrecover over the router's seal hash is an abstract per-header value (the harness really seals and the handler "
        "really recovers; the model is told who sealed)",
        "the wall-clock test `header.Time > time.Now()` is not modelled (C16): generated timestamps lie in the past",
        "block numbers, gas values and timestamps stay below 2^63 (Nat in the model; uint64/int64 wrap-around not modelled)",
        "JSON (un)marshalling of headers and of the stored records is exercised by the correspondence, not modelled",
        "one header per SyncBlockHeader call (a multi-header call is the same loop; transaction atomicity is C15)",
        "heco runs in its pre-1.2.0 branch (the harness runs at poly height 0 where needFix erases BaseFee)",
    ]
    ctx.cov["trusted_base"] += ["harness hlc/posa + drv_lc (correspondence check)", "Lean compiler for the driver",
                                "go-ethereum crypto (secp256k1 sign / recover) used by the harness to seal headers"]
    ctx.cov["not_covered"] = [
        "polygon bor beyond ONE fixed span: sprint-end headers (validator bytes checked against the span), span changes through "
        "Heimdall span proofs (VerifySpan), the validator-set update and proposer rotation at sprint starts, and the proposer-priority "
        "arithmetic of validator_set.go (the proposer position is an input computed by the package's own code) are neither modelled nor driven",
        "heco EIP-1559 branch (is120 && !needFix): not driven",
        "uint64 / int64 wrap-around of header numbers above 2^63",
    ]
    ctx.lean_props()
    hbin = ctx.build_harness("hlc")
    drv = ctx.build_driver("drv_lc")
    if hbin and not drv and ctx.lean_ok:
        ctx.violate("precondition:driver", "drv_lc does not build", {"kind": "driver"}, found_input=False)
    if hbin:
        res = ctx.correspondence("posa", hbin, ["posa"], drv, ["posa"])
        ctx.judge(res, theorem_hint="Poly.Props.C29.* (model Poly.Model.LCPosa no longer matches the PoSA header-sync handlers)")
        # msc (clique-style): model Poly.Model.LCPosa.Msc (snapshot walk, vote tally, recent search, addHeader); every stored
        # header is also judged by the independent clique reference of the harness (plain replay of the parent chain)
        res = ctx.correspondence("posamsc", hbin, ["posamsc"], drv, ["posamsc"])
        ctx.judge(res, theorem_hint="Poly.Props.C29.msc_* (model Poly.Model.LCPosa.Msc no longer matches the msc header-sync handler)")
        # polygon bor, reduced to one fixed span: model Poly.Model.LCPosa.Bor (signer in the span, succession number, back-off
        # time, difficulty = N - succession, addHeader); independent reference in the harness
        res = ctx.correspondence("bor", hbin, ["bor"], drv, ["bor"])
        ctx.judge(res, theorem_hint="Poly.Props.C29.bor_* (model Poly.Model.LCPosa.Bor no longer matches the bor header-sync handler)")
    ctx.judge_lean()
