"""C10 — layered state views (LevelDB store / OverlayDB / CacheDB / JoinIter) agree with their backing store.

Proof: Poly/Props/C10.lean. Tie: correspondence stream `layers` (harness hkv runs a real LevelDBStore over
goleveldb's in-memory storage, the real OverlayDB, CacheDB and JoinIter; drv_kv runs the model).
Search: the harness compares every read and every prefix scan with three plain Go maps (newest layer wins,
tombstones hide, byte order).
"""


def run(ctx):
    ctx.level = "proof"
    ctx.assumptions += [
        "LevelDB (goleveldb) is modelled as an ordered map with an atomic write batch and snapshot iterators; its "
        "internals, the OS and the file system are trusted (exercised through the in-memory storage backend)",
        "iterator errors are opaque error predicates of the sub-iterators (harness: a wrapper that fails at its k-th positioning call)",
        "the exact scan theorems assume buffers and store are not modified while a JoinIter is in use (the callers scan under the "
        "ledger lock); under interleaved writes the proved claim is live_join_monotone / live_iterator_next, and the stepped "
        "iterators of stream part (d) tie the model's behaviour (live buffer side, snapshot store side) to the code",
    ]
    ctx.cov["trusted_base"] += ["harness hkv/layers + drv_kv (correspondence check)", "goleveldb (in-memory storage backend)",
                                "Lean compiler for the driver"]
    ctx.lean_props()
    hbin = ctx.build_harness("hkv")
    drv = ctx.build_driver("drv_kv")
    if hbin:
        res = ctx.correspondence("layers", hbin, ["layers"], drv, ["layers"])
        ctx.judge(res, theorem_hint="Poly.Props.C10.* (model Overlay/CacheDB/Join no longer matches OverlayDB/CacheDB/JoinIter)")
    ctx.judge_lean()
