"""C32 — governance approvals need two thirds of distinct current validators.

Proof: Poly/Props/C32.lean (threshold = ceil(2N/3) for every N on the definition generated from the Go source; one
approval takes effect exactly when the consensus members among the stored approvers plus this one reach it, never
earlier; outsiders and repeats do not count; for every approval sequence and every sequence of consensus sets the
ledger fires exactly where the property's count says; other transactions do not touch a ledger entry; (method, request)
pairs have different ledger keys unless SHA-256 collides). Tie: thresholds translator + correspondence streams
`gov-approvals`, `gov-pool`, `gov-registry`, `gov-admission` (+ extract/govkeys: CheckConsensusSigns call sites); the harness evaluates the property on the real handlers with its own
bookkeeping of who approved what since when: action applied below quorum, approvals of a withdrawn / replaced request
counted, action not applied at quorum.
"""
from checks import gov_common


def generate(ctx):
    """setup hook: Poly/Generated/GovKeys.lean must exist before the Lean library is built from a clean clone."""
    ctx.run_extract("govkeys", ["lean"], out_lean="GovKeys.lean")


def run(ctx):
    gov_common.run_streams(ctx, "C32", ["gov-approvals", "gov-pool", "gov-registry", "gov-admission"],
                           "Poly.Props.C32.takes_effect_exactly_at / fires_exactly_when_quorum_reached")
