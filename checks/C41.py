"""C41 — VBFT round decisions count distinct participants.

Proof: Poly/Props/C41.lean (for every message history and every Go-map iteration order: the endorsement records keep
one entry per (endorser, proposer) and one empty entry per endorser; an endorseDone answer exhibits more than C
distinct endorsers; a commitDone answer exhibits the commit-message quorum |distinct signers| + 1 >= N - (N-1)/3
(threshold expression regenerated from node_utils.go) or more than N-1-C distinct endorsers; a sealed header carries
one signature per distinct supporting participant).
Tie: (T) extract/thresholds regenerates the threshold definition the model and the theorem use; (C) correspondence
stream `vbftcnt`: harness hnode drives the real BlockPool through the `verif` wrappers with message histories for
N = 4..10 (duplicates, equivocation, empty votes), compares the complete endorsement records, the verdicts and the
sealed signatures with the model; order-dependent answers are evaluated 9 times and every observed answer is
checked by the model to be reachable under some map order.
Search: the harness evaluates the property on the pool's real records after every message and on every answer.
"""


def generate(ctx):
    return ctx.run_extract("thresholds", ["lean"], out_lean="Thresholds.lean")


def run(ctx):
    ctx.level = "proof"
    ctx.assumptions += [
        "only the counting is modelled: timers, networking, view change and the signature verification of the messages (C44) are not",
        "Go map iteration order is an explicit argument of the model; theorems hold for every duplicate-free order of the keys",
        "isEndorser (peer liveness) is a parameter; its verdicts are taken from the real Server.isEndorser per case",
        "C < N < 2^32 for the endorsement fallback of commitDone (uint32 arithmetic N-1-C)",
    ]
    ctx.cov["trusted_base"] += ["extract/thresholds (go/parser based translator)", "harness hnode/vbftcnt + drv_node (correspondence check)",
                                "Lean compiler for the driver",
                                "verif hooks consensus/vbft/verif_hooks_count.go and verif_hooks_cmsg.go (exported wrappers / type aliases only)"]
    if generate(ctx) is None:
        return
    ctx.lean_props()
    hbin = ctx.build_harness("hnode")
    drv = ctx.build_driver("drv_node")
    if hbin:
        res = ctx.correspondence("vbftcnt", hbin, ["vbftcnt"], drv, ["vbftcnt"])
        ctx.judge(res, theorem_hint="Poly.Props.C41.* (model no longer matches the block pool counting)")
    ctx.judge_lean()
