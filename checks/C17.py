"""C17 — contract storage is confined and its keys are unambiguous.

Proof: Poly/Props/C17.lean over Poly/Generated/KeyShapes.lean, which the translator extract/keyshapes regenerates
from the Go source on every run (every utils.ConcatKey site under native/, per contract, as a table of shapes;
every CacheDB Get/Put/Delete/NewIterator key traced back to ConcatKey; data-entry prefixes; store imports).
The kernel evaluates the decision procedures on the table (`decide`), the soundness theorems lift the result to
all argument byte strings.

Tie: (T) the translator output is what the theorems are about; (C) stream `keys` runs the real utils.ConcatKey and
the real storage.CacheDB / OverlayDB against the Lean model (concatKey, cacheRun, commit) on every generated shape
with seeded field values; dynamic cross-check: every raw key written by the cross-chain-manager, genesis and
governance-flow streams (real handlers: imports, installers, register/approve flows of side chains, relayers, state
validators and nodes) must start with ST_STORAGE ‖ a contract address and parse under exactly one
record family of the generated table of that contract.

Search on failure: a Python mirror of the decision procedures names the undecided pair / non-injective shape and
solves the byte equations for a concrete colliding pair of field lists, which is replayed on the real
ConcatKey/CacheDB (the harness reports the collision).
"""
import json
import os
import re
import subprocess

import vcheck

ANN = os.path.join(vcheck.EXTRACT, "keyshapes", "annotations.json")
KEYLOG_FAMS = ("ccm", "genesis", "govkeys")  # harness families whose written keys are cross-checked against the generated table


# ----------------------------------------------------------------------------- mirror of the decision procedures
def seg_bytes(g):
    return bytes.fromhex(g.get("lit", "")) if g["kind"] == "lit" else None


def pat(s):
    out = []
    for g in s:
        if g["kind"] == "lit":
            out += list(bytes.fromhex(g["lit"]))
        elif g["kind"] == "fixed":
            out += [None] * g["n"]
        else:
            break
    return out


def clash(p, q):
    return any(a is not None and b is not None and a != b for a, b in zip(p, q))


def closed(s):
    return all(g["kind"] != "var" for g in s)


def slen(s):
    return sum(len(bytes.fromhex(g["lit"])) if g["kind"] == "lit" else g.get("n", 0) if g["kind"] == "fixed" else 0 for g in s)


def nvars(s):
    return sum(1 for g in s if g["kind"] == "var")


def disjoint(s, t):
    return (clash(pat(s), pat(t)) or (closed(s) and closed(t) and slen(s) != slen(t))
            or (closed(s) and slen(s) < slen(t)) or (closed(t) and slen(t) < slen(s)))


def seg_inst(x, y):
    if x["kind"] == "lit":
        return y["kind"] == "lit" and x["lit"] == y["lit"]
    if x["kind"] == "fixed":
        return (y["kind"] == "fixed" and x["n"] == y["n"]) or y["kind"] == "var"
    return y["kind"] == "var"


def inst(s, t):
    return len(s) == len(t) and all(seg_inst(x, y) for x, y in zip(s, t))


def skey(s):
    return tuple((g["kind"], g.get("lit", ""), g.get("n", 0)) for g in s)


def pair_ok(s, t):
    return (skey(s) == skey(t) or disjoint(s, t) or (inst(s, t) and nvars(t) <= 1) or (inst(t, s) and nvars(s) <= 1))


def same_family(s, t):
    return skey(s) == skey(t) or inst(s, t) or inst(t, s)


def show(s):
    return " ‖ ".join(repr(bytes.fromhex(g["lit"]).decode("latin1")) if g["kind"] == "lit" else str(g["n"]) if g["kind"] == "fixed" else "*" for g in s)


def layouts(s, maxvar):
    """All assignments of widths to the var fields (0..maxvar)."""
    idx = [i for i, g in enumerate(s) if g["kind"] == "var"]

    def rec(k, cur):
        if k == len(idx):
            yield dict(cur)
            return
        for w in range(maxvar + 1):
            cur[idx[k]] = w
            yield from rec(k + 1, cur)
    yield from rec(0, {})


def lay(s, widths):
    """-> list of (segment index, offset inside the segment, literal byte or None) per key byte."""
    out = []
    for i, g in enumerate(s):
        if g["kind"] == "lit":
            for j, b in enumerate(bytes.fromhex(g["lit"])):
                out.append((i, j, b))
        else:
            w = g["n"] if g["kind"] == "fixed" else widths[i]
            out += [(i, j, None) for j in range(w)]
    return out


def collide(s, t, maxvar=24):
    """Concrete field lists a (for s) and b (for t) with the same key bytes and a != b as lists, or None."""
    for ws in layouts(s, maxvar):
        ls = lay(s, ws)
        for wt in layouts(t, maxvar):
            lt = lay(t, wt)
            if len(ls) != len(lt):
                continue
            ok = True
            y = []
            for (_, _, a), (_, _, b) in zip(ls, lt):
                if a is not None and b is not None and a != b:
                    ok = False
                    break
                y.append(a if a is not None else b if b is not None else 0x41 + (len(y) % 23))
            if not ok:
                continue

            def cut(sh, layout):
                fields = [bytearray() for _ in sh]
                for pos, (i, _, _) in enumerate(layout):
                    fields[i].append(y[pos])
                return [bytes(f) for f in fields]
            a, b = cut(s, ls), cut(t, lt)
            if a != b:
                return a, b
    return None


def hx(b):
    return b.hex() if b else "-"


# ----------------------------------------------------------------------------- helpers
def run_ops(ctx, hbin, family, ops, tag):
    """Execute op lines on the real code through the harness' replay mode; returns (outputs, viol lines)."""
    base = os.path.join(ctx.tmpdir, "search-" + tag)
    with open(base + ".replay", "w") as f:
        f.write("\n".join(ops) + "\n")
    env = dict(vcheck.GOENV)
    env["TMPDIR"] = ctx.scratch
    subprocess.run([hbin, family, "-replay", base + ".replay", "-ops", base + ".ops", "-out", base + ".go",
                    "-viol", base + ".viol", "-stats", base + ".stats"], env=env, timeout=600)
    outs = open(base + ".go").read().splitlines() if os.path.exists(base + ".go") else []
    viol = []
    if os.path.exists(base + ".viol"):
        for line in open(base + ".viol").read().splitlines():
            p = line.split("\t")
            if len(p) >= 3:
                viol.append({"key": p[1], "desc": p[2]})
    return outs, viol


def shape_regex(s):
    rx = b""
    for g in s:
        if g["kind"] == "lit":
            rx += re.escape(bytes.fromhex(g["lit"]))
        elif g["kind"] == "fixed":
            rx += b"(?s:.{%d})" % g["n"]
        else:
            rx += b"(?s:.*)"
    return re.compile(rx)


def generate(ctx):
    return ctx.run_extract("keyshapes", ["lean", ANN], out_lean="KeyShapes.lean")


def run(ctx):
    ctx.level = "proof"
    ctx.assumptions += [
        "translator extract/keyshapes classifies the fields of every utils.ConcatKey call faithfully (go/types on the "
        "source; unknown types fall back to `var`, the conservative answer); cross-checked dynamically against the keys "
        "the real handlers write",
        "a field classified `fixed n` has n bytes: array types and the accessors listed in fixedMethods "
        "(Uint256.ToArray, Hash.Bytes, Address.Bytes, chainhash.Hash.CloneBytes), utils.GetUint64Bytes/GetUint32Bytes",
        "two construction sites with the same literals and the same fields are the same record family",
        "CacheDB/OverlayDB are modelled as association lists with replace-on-put; LevelDB itself is not modelled",
    ]
    ctx.cov["trusted_base"] += ["extract/keyshapes (go/parser + go/types translator, reviewed annotations file)",
                                "harness hccm/keys + drv_ccm (correspondence check)", "Lean compiler for the driver"]
    js = ctx.run_extract("keyshapes", ["json", ANN], out_json="keyshapes.json")
    if js is None or generate(ctx) is None:
        return
    ks = json.loads(js)
    ann = json.load(open(ANN))
    kspath = os.path.join(ctx.tmpdir, "keyshapes.json")
    ctx.cov["sites"] = ks["n_sites"]
    ctx.cov["store_calls_traced"] = ks["n_store_calls"]
    ctx.cov["shapes"] = {c["name"]: len(c["shapes"]) for c in ks["contracts"]}
    ctx.cov["annotations_used"] = ks.get("annotations_used") or []

    ctx.lean_props()
    hbin = ctx.build_harness("hccm")
    drv = ctx.build_driver("drv_ccm")
    if drv is None and ctx.lean_ok:
        ctx.violate("precondition:driver", "drv_ccm does not build", {"kind": "driver"}, found_input=False)

    # ---- (1) search mirror: what the kernel is asked to accept, evaluated here to name the failing pair
    n_pairs = 0
    for c in ks["contracts"]:
        shapes = [s["segs"] for s in c["shapes"]]
        if c["name"].startswith("?") or len(c["addr"]) != 40:
            ctx.violate("C17:unknown-contract:%s" % c["name"],
                        "key construction whose contract address the translator cannot resolve: %s" % c["shapes"][0]["sites"][:3],
                        {"kind": "obligation", "sites": [s["sites"] for s in c["shapes"]]}, found_input=False)
            continue
        for i, s in enumerate(shapes):
            if nvars(s) > 1:
                # two fields of unknown width: move one byte from one to the other
                a = [bytes.fromhex(g["lit"]) if g["kind"] == "lit" else b"\x01" * g["n"] if g["kind"] == "fixed" else b"" for g in s]
                b = list(a)
                vs = [k for k, g in enumerate(s) if g["kind"] == "var"]
                adjacent_fixed = all(s[k]["kind"] == "var" for k in range(vs[0], vs[1] + 1))
                pair = None
                if adjacent_fixed:
                    a[vs[0]], a[vs[1]] = b"AB", b"C"
                    b[vs[0]], b[vs[1]] = b"A", b"BC"
                    pair = (a, b)
                else:
                    pair = collide(s, s)
                key = "C17:not-injective:%s:%s" % (c["name"], show(s))
                _report_pair(ctx, hbin, c, i, i, s, s, pair, key,
                             "a key of shape [%s] (%s) does not determine its fields" % (show(s), c["shapes"][i]["sites"][0]))
            for j, t in enumerate(shapes):
                if j <= i:
                    continue
                n_pairs += 1
                if pair_ok(s, t) and pair_ok(t, s):
                    continue
                pair = collide(s, t)
                key = "C17:key-collision:%s:%s~%s" % (c["name"], show(s), show(t))
                _report_pair(ctx, hbin, c, i, j, s, t, pair, key,
                             "shapes [%s] (%s) and [%s] (%s) of contract %s can produce the same key" % (
                                 show(s), c["shapes"][i]["sites"][0], show(t), c["shapes"][j]["sites"][0], c["name"]))
        # literal aliases: one record family fed by differently named constants
        for i, s in enumerate(c["shapes"]):
            nl = sum(1 for g in s["segs"] if g["kind"] == "lit")
            names = sorted(set(n.split(" (")[0] for n in s["names"]))
            if len(names) > nl:
                okd = any(a["contract"] == c["name"] and sorted(a["names"]) == names for a in ann.get("aliases_ok", []))
                if okd:
                    ctx.cov.setdefault("reviewed_aliases", []).append({"contract": c["name"], "names": names})
                    continue
                fields = [bytes.fromhex(g["lit"]) if g["kind"] == "lit" else b"\x02" * g["n"] if g["kind"] == "fixed" else b"xyz" for g in s["segs"]]
                ops = ["#case alias", "put %s:%s %s aa01 %s" % (c["name"], names[0].split(".")[-1], c["addr"], " ".join(hx(f) for f in fields)),
                       "get %s:%s %s %s" % (c["name"], names[1].split(".")[-1], c["addr"], " ".join(hx(f) for f in fields))]
                outs, _ = run_ops(ctx, hbin, "keys", ops, "alias%d" % i) if hbin else ([], [])
                ctx.violate("C17:literal-alias:%s:%s" % (c["name"], "+".join(names)),
                            "record kinds %s of contract %s use the same key literal and the same fields [%s]: a record written as the "
                            "first kind is read back as the second (outputs %s)" % (names, c["name"], show(s["segs"]), outs),
                            {"kind": "input", "stream": "keys", "ops": ops, "observed": outs, "sites": s["sites"]}, found_input=True)
    for u in ks.get("unresolved_key_sites") or []:
        ctx.violate("C17:key-not-from-ConcatKey:%s" % u["pos"].rsplit(":", 1)[0] + ":" + u["func"],
                    "store access whose key is not built by utils.ConcatKey: %s in %s (%s)" % (u["call"][:200], u["pos"], u["why"]),
                    {"kind": "obligation", "site": u, "theorem": "Poly.Props.C17.all_store_keys_from_concatKey"}, found_input=False)
    for u in ks.get("ambiguous_fields") or []:
        ctx.violate("C17:field-not-raw:%s:%s" % (u["pos"].rsplit(":", 1)[0], u["func"]),
                    "a storage-key field is not one value written raw: %s in %s (%s): different parameter values can give "
                    "the same field bytes (e.g. x and hash(x))" % (u["why"], u["func"], u["pos"]),
                    {"kind": "obligation", "site": u, "theorem": "Poly.Props.C17.fields_written_raw",
                     "hint": "stream ccm (checks C20/C17 key log) drives the done-tx records with ids x, sha256(x), x[:32], x||00"},
                    found_input=False)
    for u in ks.get("package_slice_appends") or []:
        ctx.violate("C17:append-to-package-slice:%s" % u.split(":")[0],
                    "a value is built by appending to a package-level slice with spare capacity: %s — all results share one backing "
                    "array (concurrent native executions read each other's keys; stream ccm op `conc` probes the getters)" % u,
                    {"kind": "obligation", "site": u, "theorem": "Poly.Props.C17.no_shared_backing_arrays"}, found_input=False)
    for d in ks.get("direct_store_imports") or []:
        ctx.violate("C17:direct-store-import:%s" % d.split(" ")[0].rsplit(":", 1)[0],
                    "a package under native/ reaches a ledger store package directly: %s" % d,
                    {"kind": "obligation", "site": d, "theorem": "Poly.Props.C17.no_direct_store_access"}, found_input=False)
    sp = ks.get("storage_prefix")
    for name, val in ks.get("data_entry_prefixes") or []:
        if name != "ST_STORAGE" and val == sp:
            ctx.violate("C17:prefix-shared:%s" % name,
                        "ST_STORAGE and the ledger bookkeeping prefix %s have the same value %s: a contract key ST_STORAGE ‖ k is a %s key"
                        % (name, val, name), {"kind": "input", "prefix": name, "value": val,
                                              "theorem": "Poly.Props.C17.storage_prefix_not_bookkeeping"}, found_input=True)
    for p in ks.get("cachedb_put_prefixes") or []:
        if not p.endswith("=" + str(sp)):
            ctx.violate("C17:cache-prefix:%s" % p.split(" ")[1], "CacheDB uses a prefix other than ST_STORAGE: %s" % p,
                        {"kind": "obligation", "site": p, "theorem": "Poly.Props.C17.cache_prefix_args_are_storage"}, found_input=False)
    ctx.cov["shape_pairs_checked"] = n_pairs

    # ---- (2) correspondence: real ConcatKey + CacheDB + OverlayDB vs the model, every generated shape
    keylog = os.path.join(ctx.tmpdir, "keylog.txt")
    if os.path.exists(keylog):
        os.remove(keylog)
    if hbin:
        vcheck.GOENV["VERIF_KEYSHAPES"] = kspath
        res = ctx.correspondence("keys", hbin, ["keys"], drv, ["keys"])
        ctx.judge(res, theorem_hint="Poly.Props.C17.concatKey_layout / cache_keys_prefixed (model of ConcatKey/CacheDB no longer matches)")

        # ---- (3) dynamic cross-check of the translator: keys written by the real handlers
        if ctx.replay is None:
            vcheck.GOENV["VERIF_KEYLOG"] = keylog
            vcheck.GOENV["VERIF_SMALL"] = "1"
            try:
                for fam in KEYLOG_FAMS:
                    r2 = ctx.correspondence("keylog-" + fam, hbin, [fam], None)
                    if r2.get("harness_rc") != 0:
                        continue
                    # key-level oracles of those streams (e.g. the done record of (chain, id) must be doneTx ‖ chain ‖ id)
                    r2["viol"] = [v for v in r2["viol"] if v["key"].startswith("C17:")]
                    r2["mismatches"] = []
                    ctx.judge(r2)
            finally:
                vcheck.GOENV.pop("VERIF_KEYLOG", None)
                vcheck.GOENV.pop("VERIF_SMALL", None)
            _check_keylog(ctx, ks, keylog)
    ctx.judge_lean()


def _report_pair(ctx, hbin, c, i, j, s, t, pair, key, what):
    if pair is None:
        ctx.violate(key, what + " (no concrete pair constructed within the search bounds)",
                    {"kind": "obligation", "shapes": [show(s), show(t)], "theorem": "Poly.Props.C17.generated_tables_ok"},
                    found_input=False)
        return
    a, b = pair
    ops = ["#case collide-%s-%d-%d" % (c["name"], i, j),
           "put %s:%d %s aa01 %s" % (c["name"], i, c["addr"], " ".join(hx(f) for f in a)),
           "put %s:%d %s bb02 %s" % (c["name"], j, c["addr"], " ".join(hx(f) for f in b)),
           "get %s:%d %s %s" % (c["name"], i, c["addr"], " ".join(hx(f) for f in a))]
    outs, viol = run_ops(ctx, hbin, "keys", ops, "%s-%d-%d" % (c["name"], i, j)) if hbin else ([], [])
    confirmed = bool(viol)
    ctx.violate(key, what + ": fields [%s] and [%s] give the same key%s" % (
        ", ".join(hx(f) for f in a), ", ".join(hx(f) for f in b),
        "; replayed on the real ConcatKey/CacheDB: the second put overwrote the first record (read back %s)" % (outs[-1] if outs else "?")
        if confirmed else " (replay on the real code did not confirm)"),
                {"kind": "input", "stream": "keys", "ops": ops, "observed": outs, "harness_viol": viol,
                 "sites": [c["shapes"][i]["sites"][:5], c["shapes"][j]["sites"][:5]]}, found_input=confirmed)


def _check_keylog(ctx, ks, keylog):
    if not os.path.exists(keylog):
        ctx.cov["observed_keys"] = 0
        return
    by_addr = {}
    for c in ks["contracts"]:
        if len(c["addr"]) == 40:
            by_addr[bytes.fromhex(c["addr"])] = (c, [(s, shape_regex(s["segs"])) for s in c["shapes"]])
    seen = set()
    fam_hits = {}
    for line in open(keylog).read().split():
        if line in seen:
            continue
        seen.add(line)
        raw = bytes.fromhex(line)
        if len(raw) < 21 or raw[0] != int(ks["storage_prefix"]) or raw[1:21] not in by_addr:
            ctx.violate("C17:observed-key-outside-namespace", "a handler wrote the raw key %s, which is not ST_STORAGE ‖ a native contract address" % line,
                        {"kind": "input", "raw_key": line}, found_input=True)
            continue
        c, shapes = by_addr[raw[1:21]]
        rest = raw[21:]
        hits = [s for s, rx in shapes if rx.fullmatch(rest)]
        fams = []
        for s in hits:  # collapse instances of one record family
            if not any(same_family(s["segs"], f["segs"]) for f in fams):
                fams.append(s)
        if len(fams) != 1:
            ctx.violate("C17:observed-key-parses-under-%d-families:%s" % (len(fams), c["name"]),
                        "the raw key %s written by a real handler of %s parses under %d record families of the generated table (%s): "
                        "the translator's table does not describe the code" % (line, c["name"], len(fams), [show(f["segs"]) for f in fams]),
                        {"kind": "translator", "raw_key": line, "families": [show(f["segs"]) for f in fams]}, found_input=False)
        else:
            k = c["name"] + ": " + show(fams[0]["segs"])
            fam_hits[k] = fam_hits.get(k, 0) + 1
    ctx.cov["observed_keys"] = len(seen)
    ctx.cov["observed_families"] = fam_hits
    ctx.cov["evaluations"] += len(seen)
    ctx.cov["distinct_nontrivial"] += len(fam_hits)
