"""C03 — transaction root equals the reference Merkle root.

Proof: Poly/Props/C03.lean (btcRoot = refRoot for every list and every hash function; the in-place level loop
never reads an overwritten cell). Tie: correspondence stream `btcroot` (harness hcore executes the real
common.ComputeMerkleRoot and the block glue; driver drv_merkle executes the model with real SHA-256).
Search: the harness compares every result with an independent recursive Go reference (property oracle).
"""


def run(ctx):
    ctx.level = "proof"
    ctx.assumptions += ["SHA-256 is a parameter H of the theorems (they hold for every H); the driver uses a Lean SHA-256 "
                        "whose agreement with crypto/sha256 is what the correspondence observes",
                        "Go slice semantics of the in-place loop are modelled with List.set (positional update)"]
    ctx.cov["trusted_base"] += ["harness hcore/btcroot + drv_merkle (correspondence check)", "Lean compiler for the driver"]
    ctx.lean_props()
    hbin = ctx.build_harness("hcore")
    drv = ctx.build_driver("drv_merkle")
    if hbin:
        res = ctx.correspondence("btcroot", hbin, ["btcroot"], drv, ["btcroot"])
        ctx.judge(res, theorem_hint="Poly.Props.C03.root_eq_reference (model btcRoot no longer matches ComputeMerkleRoot)")
    ctx.judge_lean()
