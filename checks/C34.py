"""C34 — validator pool invariants hold across epochs.

Proof: Poly/Props/C34.lean (InitConfig with >= 4 pairwise different keys establishes the invariants; every
transaction preserves them, hence every history: >= 4 active members, no public key in two entries, distinct keys have
distinct indices, the index table is injective; blacklisted / pooled / applied keys cannot register; an epoch change
advances the view by one, records the height, keeps exactly the active members as consensus members; at most one per
block; CommitDpos needs the operator or MaxBlockChangeView). Tie: correspondence streams `gov-approvals` (pool changes between approvals) and `gov-pool` (pools of 4..9
validators; register with lower / upper / mixed-case hex and other encodings of the same key, blacklisted keys, keys in
the pool; unregister; approval rounds; quit; black batches with duplicates; white; commitDpos by operator / outsider /
after MaxBlockChangeView; updateConfig; a second initConfig; across block heights); the harness evaluates the
invariants on the stored pool after every transaction.
"""
from checks import gov_common


def run(ctx):
    gov_common.run_streams(ctx, "C34", ["gov-pool", "gov-approvals"], "Poly.Props.C34.invariants_over_histories / epoch_step")
