"""C02 — ledger objects encode faithfully with signature-independent identity.

Proof: Poly/Props/C02.lean over the schema DSL (Poly/Model/Schema*.lean): round trip of Transaction / Header / Block,
hash = H(H(unsigned bytes)) independent of the signature section, oversize refused, duplicate transaction and root
mismatch refused, decoders never reach the panic outcome. Tie: stream `ledgerobj` (harness hcodec on the real
core/types code vs drv_codec on the model, with real SHA-256 and the key library's verdicts passed as an oracle table).
Search: the harness evaluates the property on the implementation (re-encode, hash definition, signature independence,
truncation, duplicate / root defects, panics) for every generated object and every malformed variant.
"""


def generate(ctx):
    """(T) codec inventory regenerated from the anchored Go files: every type with a codec pair must have a schema."""
    return ctx.run_extract("codecinv", [], out_lean="CodecInventory.lean")


def run(ctx):
    ctx.level = "proof"
    ctx.assumptions += [
        "SHA-256 is a parameter H of the theorems; the driver uses a Lean SHA-256 compared bit for bit with crypto/sha256 by the correspondence",
        "public keys are an opaque leaf: K = SerializePublicKey . DeserializePublicKey is a parameter of model and theorems; the harness passes the key library's verdict for every var-bytes candidate of each input (exact table)",
        "Go runtime makeslice panics iff len > maxInt or len*elemsize > 2^48 (linux/amd64); huge non-panicking allocations (out-of-memory crash) are not modelled",
        "guards are modelled right after their field; Go checks the tx type after reading four more fixed fields (same accept/reject set; error kinds are not compared)",
    ]
    ctx.cov["trusted_base"] += ["translator extract/codecinv (go/parser: lists the types with a codec pair in the anchored files)", "harness hcodec/ledgerobj + drv_codec (correspondence check)", "Lean compiler for the driver",
                                "key library ontology-crypto (verdicts passed to the model)"]
    generate(ctx)
    ctx.lean_props()
    hbin = ctx.build_harness("hcodec")
    drv = ctx.build_driver("drv_codec")
    if hbin:
        res = ctx.correspondence("ledgerobj", hbin, ["ledgerobj"], drv, ["ledgerobj"])
        ctx.judge(res, theorem_hint="Poly.Props.C02.* (schemas txTy/headerTy/blockDec no longer match core/types)")
    ctx.judge_lean()
