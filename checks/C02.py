"""C02 — ledger objects encode faithfully with signature-independent identity.

Proof: Poly/Props/C02.lean over the schema DSL (Poly/Model/Schema*.lean): round trip of Transaction / Header / Block,
hash = H(H(unsigned bytes)) independent of the signature section, oversize refused, duplicate transaction and root
mismatch refused, decoders never reach the panic outcome. Tie: stream `ledgerobj` (harness hcodec on the real
core/types code vs drv_codec on the model, with real SHA-256 and the key library's verdicts passed as an oracle table).
Search: the harness evaluates the property on the implementation (re-encode, hash definition, signature independence,
truncation, duplicate / root defects, panics) for every generated object and every malformed variant.
"""


def judge_all(ctx, res, hint):
    """ctx.judge reports a model/implementation disagreement only when no property-oracle failure exists (and a known
    finding counts as one): report the disagreement in every case."""
    ctx.judge(res, theorem_hint=hint)
    if res.get("mismatches") and res.get("viol"):
        m = res["mismatches"][0]
        ctx.violate("correspondence:%s" % res["stream"],
                    "model and implementation disagree on stream %s (%d cases), first at case %s op `%s`: go=%s model=%s"
                    % (res["stream"], len(res["mismatches"]), m["case"], m["op"][:200], m["go"][:200], m["model"][:200]),
                    {"kind": "correspondence", "stream": res["stream"], "first": m, "count": len(res["mismatches"]),
                     "theorems_no_longer_tied": hint, "harness_cmd": res.get("harness_cmd"), "driver_cmd": res.get("driver_cmd")},
                    found_input=False)


def judge_lean_all(ctx):
    """ctx.judge_lean stays silent when any violation with an input exists (known findings included): a failed proof
    obligation is reported in every case."""
    if not ctx.lean_ok:
        ctx.violate("obligation:" + ",".join(ctx.failed_theorems)[:200],
                    "proof obligation no longer checks: %s" % ", ".join(ctx.failed_theorems)[:500],
                    {"kind": "obligation", "theorems": ctx.failed_theorems, "lean_errors": ctx.cov.get("lean_errors", [])},
                    found_input=False)
    ctx.judge_lean()



def generate(ctx):
    """(T) codec inventory regenerated from the anchored Go files: every type with a codec pair must have a schema."""
    return ctx.run_extract("codecinv", [], out_lean="CodecInventory.lean")


def run(ctx):
    ctx.level = "proof"
    ctx.assumptions += [
        "SHA-256 is a parameter H of the theorems; the driver uses a Lean SHA-256 compared bit for bit with crypto/sha256 by the correspondence",
        "public keys are an opaque leaf: K = SerializePublicKey . DeserializePublicKey is a parameter of model and theorems; the harness passes the key library's verdict for every var-bytes candidate of each input (exact table)",
        "Go runtime makeslice panics iff len > maxInt or len*elemsize > 2^48 (linux/amd64); huge non-panicking allocations (out-of-memory crash) are not modelled",
        "guards are modelled right after their field; Go checks the tx type after reading four more fixed fields (same accept/reject set; error kinds are not compared)",
    ]
    ctx.cov["trusted_base"] += ["translator extract/codecinv (go/parser: lists the types with a codec pair in the anchored files)", "harness hcodec/ledgerobj + drv_codec (correspondence check)", "Lean compiler for the driver",
                                "key library ontology-crypto (verdicts passed to the model)"]
    generate(ctx)
    ctx.lean_props()
    hbin = ctx.build_harness("hcodec")
    drv = ctx.build_driver("drv_codec")
    if hbin:
        res = ctx.correspondence("ledgerobj", hbin, ["ledgerobj"], drv, ["ledgerobj"])
        judge_all(ctx, res, "Poly.Props.C02.* (schemas txTy/headerTy/blockDec no longer match core/types)")
    judge_lean_all(ctx)
