"""C07 — Merkle proof verifiers are sound.

Proof: Poly/Props/C07.lean (accept -> claimed fact or an explicit SHA-256-style collision, for every hash
function with 32-byte outputs; domain separation of leaves and interior nodes). Tie: correspondence stream
`mverify` (harness hmerkle runs the real VerifyLeafHashInclusion / VerifyConsistency / MerkleProve on honest
proofs of real trees and on single and double mutations of every component; driver drv_merkle runs the model).
Search: whenever the real verifier accepts a claim whose roots are the true roots of known lists, the harness
checks the claim itself (leaf at index / prefix / membership).
"""


def run(ctx):
    ctx.level = "proof"
    ctx.assumptions += [
        "collision resistance appears as the alternative `Collision H` in every soundness theorem (the colliding pair is constructed)",
        "HashLen H: every hash value has 32 bytes (common.Uint256)",
        "SHA-256 itself is a parameter; the driver's Lean SHA-256 is compared with crypto/sha256 by the correspondence",
    ]
    ctx.cov["trusted_base"] += ["harness hmerkle/mverify + drv_merkle (correspondence check)", "Lean compiler for the driver"]
    ctx.lean_props()
    hbin = ctx.build_harness("hmerkle")
    drv = ctx.build_driver("drv_merkle")
    if hbin:
        res = ctx.correspondence("mverify", hbin, ["mverify"], drv, ["mverify"])
        ctx.judge(res, theorem_hint="Poly.Props.C07.* (model of the verifiers no longer matches /repo/merkle)")
    ctx.judge_lean()
