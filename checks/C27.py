"""C27 — PoW light client keeps the heaviest valid chain.

Proof: Poly/Props/C27.lean — for every trust root, validity predicate and history of contract calls (arbitrary header
trees in any order): stored headers are parent-closed with height +1 and summed total difficulty and passed the
validity predicate; the main-chain index is a gap-free parent-linked chain from the trust root to a head of maximal
total difficulty; RestructChain as written never takes an error exit on a consistent store; re-submission is a no-op;
a failed call changes nothing.
Tie: stream `pow`: synthetic header trees (difficulties from the real calculators) in many orders through the real
ETHHandler.SyncBlockHeader on a real native service + contract cache (seal accepted by the verif hook only), the
whole key space of the header-sync contract compared with the compiled model after every call.
Second instance (Bitcoin variant, header_sync/btc): stream `powbtc`, header trees with REAL regtest proof of work
through BTCHandler.SyncBlockHeader, model Poly/Model/PoWBtc.lean.
Search: the harness evaluates the property itself on the implementation's state after every call.
"""
from checks import C28


def generate(ctx):
    return C28.generate_consts(ctx)


def run(ctx):
    ctx.level = "proof"
    ctx.assumptions += [
        "header validity (difficulty / gas / base-fee rules: C28; seal: excluded, accepted by the verif hook) is an abstract predicate in the theorems; "
        "the driver instantiates it with the C28 rule model",
        "the header hash Keccak256(RLP(header)) is a field of the model header (computed by the real code, passed in the op line)",
        "a failing SyncBlockHeader call drops the contract cache (native service transaction semantics, C15); heights are below 2^64",
        "wall-clock future-block test not modelled: synthetic timestamps are years in the past",
    ]
    ctx.cov["trusted_base"] += ["extract/ethtables (constants of the rule model used as validity predicate)",
                                "harness heth/pow + drv_eth (correspondence check)", "Lean compiler for the driver",
                                "verif hook verifSealAccept (seal check only)"]
    if generate(ctx) is None:
        ctx.lean_ok = False
        ctx.failed_theorems = ["<translator ethtables failed: Poly/Generated/EthConsts.lean not regenerated>"]
        ctx.judge_lean()
        return
    ctx.lean_props()
    hbin = ctx.build_harness("heth")
    drv = ctx.build_driver("drv_eth")
    if hbin:
        res = ctx.correspondence("pow", hbin, ["pow"], drv, ["pow"])
        ctx.judge(res, theorem_hint="Poly.Props.C27.* (model PoW no longer matches SyncBlockHeader / RestructChain)")
        res2 = ctx.correspondence("powbtc", hbin, ["powbtc"], drv, ["powbtc"])
        ctx.judge(res2, theorem_hint="Poly.Props.C27.btc_* (model PoWBtc no longer matches btc commitHeader / GetCommonAncestor / ReIndexHeaderHeight)")
        res3 = ctx.correspondence("btcdiff", hbin, ["btcdiff"], drv, ["btcdiff"])
        ctx.judge(res3, theorem_hint="Poly.Props.C27.btc_retarget_eq_spec (model BtcRetarget no longer matches calcDiffAdjust / btcd's compact codec)")
    ctx.judge_lean()
