"""C23 — EVM-family deposit proofs are sound and complete.

Proof: Poly/Props/C23.lean — verifyFromEthTx (model Poly/Model/EthDeposit.lean over the C27 light-client store)
accepts exactly when: a head exists under which the height is confirmed (uint32/uint64 arithmetic characterised
exactly), the main-chain index has a block at that height (the canonical one of exactly that height on every reachable
store), the proof has exactly one storage proof and names the registered contract, the account proof verifies against
that block's state root to the RLP of the claimed account record, the storage proof verifies against the claimed
storage hash, the proven value's RLP payload left-padded to 32 bytes is Keccak(message), and the message decodes; the
result is the decoded message. Keccak-256 and trie.VerifyProof are arbitrary parameters of the theorems.
Tie: stream `evm`: light-client chains built through the real SyncBlockHeader whose headers commit to synthetic
world states built with go-ethereum's trie; proofs from trie.Prove; deposits through the real verifyFromEthTx (verif
wrapper); Keccak / VerifyProof results are passed to the model in the op line (and re-computed by Exec).
Search: the harness evaluates the property statement with go-ethereum's libraries directly on every deposit.
"""
from checks import C28


def generate(ctx):
    a = C28.generate_consts(ctx)
    b = ctx.run_extract("evmclones", ["lean"], out_lean="EvmClones.lean")
    return None if a is None or b is None else b


def run(ctx):
    ctx.level = "proof"
    ctx.assumptions += [
        "Keccak-256, go-ethereum's trie.VerifyProof / light.NodeSet and rlp are external: parameters in the theorems, "
        "oracle values in the correspondence (computed with the same libraries, re-computed by Exec)",
        "json.Unmarshal of the proof is modelled (Poly/Model/ProofJson.lean) for ASCII input: the model receives the raw JSON text; Unicode key "
        "folding, UTF-8 repair and the re-use of slice elements by duplicate array-valued keys are outside the model and not generated",
        "the light-client state under the check is the C27 model state (built by the same genesis/sync ops)",
        "the seven sibling routers are tied by (T) the clone table of extract/evmclones and (C) executing their real verifyFrom*Tx for every "
        "deposit with the eth verdict as expectation: bsc, bytom, heco, hsc, pixiechain on a header store built by their own SyncGenesisHeader / "
        "SyncBlockHeader (really sealed single-validator chains of the same shape), msc and polygon on their stores' own records mirrored from "
        "the eth state; quorum: verifyFromQuorumTx and the whole MakeDepositProposal are executed with a really signed Istanbul header; the "
        "validator-signature rules of those light clients are C29/C30",
    ]
    ctx.cov["trusted_base"] += ["extract/evmclones (go/parser clone check of the sibling routers)", "harness heth/evm + drv_eth (correspondence check)", "Lean compiler for the driver",
                                "go-ethereum v1.9.15 trie / rlp / crypto (oracles and property evaluation)",
                                "verif hooks: VerifVerifyFromEthTx wrapper, verifSealAccept"]
    if generate(ctx) is None:
        ctx.lean_ok = False
        ctx.failed_theorems = ["<translator ethtables / evmclones failed: Poly/Generated/* not regenerated>"]
        ctx.judge_lean()
        return
    ctx.lean_props()
    hbin = ctx.build_harness("heth")
    drv = ctx.build_driver("drv_eth")
    if hbin:
        res = ctx.correspondence("evm", hbin, ["evm"], drv, ["evm"])
        ctx.judge(res, theorem_hint="Poly.Props.C23.* (model EthDeposit no longer matches verifyFromEthTx / VerifyMerkleProof / CheckProofResult)")
    ctx.judge_lean()
