"""C23 — EVM-family deposit proofs are sound and complete.

Proof: Poly/Props/C23.lean — verifyFromEthTx (model Poly/Model/EthDeposit.lean over the C27 light-client store)
accepts exactly when: a head exists under which the height is confirmed (uint32/uint64 arithmetic characterised
exactly), the main-chain index has a block at that height (the canonical one of exactly that height on every reachable
store), the proof has exactly one storage proof and names the registered contract, the account proof verifies against
that block's state root to the RLP of the claimed account record, the storage proof verifies against the claimed
storage hash, the proven value's RLP payload left-padded to 32 bytes is Keccak(message), and the message decodes; the
result is the decoded message. Keccak-256 and trie.VerifyProof are arbitrary parameters of the theorems.
Tie: stream `evm`: light-client chains built through the real SyncBlockHeader whose headers commit to synthetic
world states built with go-ethereum's trie; proofs from trie.Prove; deposits through the real verifyFromEthTx (verif
wrapper); Keccak / VerifyProof results are passed to the model in the op line (and re-computed by Exec).
Search: the harness evaluates the property statement with go-ethereum's libraries directly on every deposit.
"""
from checks import C28


def generate(ctx):
    return C28.generate(ctx)


def run(ctx):
    ctx.level = "proof"
    ctx.assumptions += [
        "Keccak-256, go-ethereum's trie.VerifyProof / light.NodeSet, rlp and encoding/json are external: parameters in the theorems, "
        "oracle values in the correspondence (computed with the same libraries, re-computed by Exec)",
        "json.Unmarshal of the proof is not modelled: the model receives the unmarshalled fields (or 'malformed'); the harness marshals the same fields",
        "the light-client state under the check is the C27 model state (built by the same genesis/sync ops)",
        "only the eth router is modelled; bsc/heco/hsc/msc/pixie/bor/bytom/quorum routers use copies of the same logic over their own header stores (not tied here)",
    ]
    ctx.cov["trusted_base"] += ["harness heth/evm + drv_eth (correspondence check)", "Lean compiler for the driver",
                                "go-ethereum v1.9.15 trie / rlp / crypto (oracles and property evaluation)",
                                "verif hooks: VerifVerifyFromEthTx wrapper, verifSealAccept"]
    if generate(ctx) is None:
        ctx.lean_ok = False
        ctx.failed_theorems = ["<translator ethtables failed: Poly/Generated/EthConsts.lean not regenerated>"]
        ctx.judge_lean()
        return
    ctx.lean_props()
    hbin = ctx.build_harness("heth")
    drv = ctx.build_driver("drv_eth")
    if hbin:
        res = ctx.correspondence("evm", hbin, ["evm"], drv, ["evm"])
        ctx.judge(res, theorem_hint="Poly.Props.C23.* (model EthDeposit no longer matches verifyFromEthTx / VerifyMerkleProof / CheckProofResult)")
    ctx.judge_lean()
