"""C13 — the ledger only grows by valid successors.

Proof: Poly/Props/C13.lean over Poly/Model/Ledger.lean (AddBlock + saveBlock, ExecuteBlock + SubmitBlock, verifyHeader,
submitBlock with the parent and block-root checks, the block store). Tie: correspondence stream `grow`: a real
LedgerStoreImp with 4-7 generated validator keys and real signatures executes submission histories of honest
successors and mutants (height+1, +2, stale height with other content, unknown parent, parent = tip-1, equal / earlier
timestamp (including the uint32 boundary values and half-range offsets), flipped / truncated / zero block root, wrong
state root, missing signatures, stale re-submission, header first, a signed fork at the tip, configuration announcements,
block-root queries (GetBlockRootWithPreBlockHashes with the tip / a foreign predecessor / several heights) followed by a
block carrying the root over the foreign predecessor and by the honest block) through both submission paths; verdict class and the
complete post-state observation are compared with the compiled model. Search: after every step the harness checks
the property itself against independent references (RFC 6962 tree hash over the committed block hashes, parent = tip,
timestamp order, lookups by height / hash / transaction, unchanged state after a refusal or a re-submission).
"""
import shutil

from checks import C12 as ledger


def run(ctx):
    ctx.level = "proof"
    ledger.common(ctx)
    ctx.assumptions += [
        "the header hash is an opaque field of the model (Go: double SHA-256 of the unsigned header); hash-linking statements identify blocks by that field",
        "the state root passed to AddBlock is the one returned by ExecuteBlock on the same ledger (harness), or a corrupted one",
    ]
    if ctx.run_extract("thresholds", ["lean"], out_lean="Thresholds.lean") is None:
        return
    ctx.lean_props()
    hbin = ctx.build_harness("hledger")
    drv = ctx.build_driver("drv_ledger")
    d = ledger.ledger_dir(ctx)
    try:
        if hbin:
            res = ctx.correspondence("grow", hbin, ["grow"], drv, ["ledger"], timeout=2400)
            ctx.judge(res, theorem_hint="Poly.Props.C13.commit_only_successor / resubmit_noop / lookup_after_commit (the model of AddBlock / SubmitBlock / verifyHeader / submitBlock no longer matches ledger_store.go)")
            if drv is None and ctx.lean_ok:
                ctx.violate("precondition:driver", "drv_ledger does not build", {"kind": "driver"}, found_input=False)
    finally:
        if d:
            shutil.rmtree(d, ignore_errors=True)
    ctx.judge_lean()
