#!/usr/bin/env python3
"""tools/seeded_confirm.py <seeded-id> <pkgdir> <run-regex> [extra test pkgs...]
Confirms a seeded change in a scratch git worktree of /repo (outside /repo and /verif): the demo passes without
the patch, fails with it; the touched packages build; existing tests of the given packages give the same
pass/fail set with and without the patch. Writes seeded/<id>/confirm.json. Removes the worktree."""
import json
import os
import re
import shutil
import subprocess
import sys
import tempfile

ROOT = os.path.dirname(os.path.dirname(os.path.abspath(__file__)))
sid, pkgdir, runre = sys.argv[1:4]
extra = sys.argv[4:]
d = os.path.join(ROOT, "seeded", sid)
env = dict(os.environ, GOFLAGS="-mod=mod", GOPROXY="off", GOSUMDB="off", GOTOOLCHAIN="local")
wt = tempfile.mkdtemp(prefix="confirm-%s-" % sid)
os.rmdir(wt)
subprocess.run(["git", "-C", "/repo", "worktree", "add", "-q", "--detach", wt, "HEAD"], check=True)


def run(cmd):
    p = subprocess.run(cmd, cwd=wt, env=env, stdout=subprocess.PIPE, stderr=subprocess.STDOUT, text=True)
    return p.returncode, p.stdout


TAGS = ["-tags", os.environ["SEED_TAGS"]] if os.environ.get("SEED_TAGS") else []
if os.environ.get("SEED_BLS_STUB"):
    # packages importing the harmony router need the pure-Go stub of the cgo bls binding (as the harness does)
    mf = os.path.join(wt, "_verif_go.mod")
    open(mf, "w").write(open(os.path.join(wt, "go.mod")).read() +
                        "\nreplace github.com/harmony-one/bls => %s\n" % os.path.join(ROOT, "harness", "stubs", "harmony-bls"))
    shutil.copy(os.path.join(wt, "go.sum"), os.path.join(wt, "_verif_go.sum"))
    TAGS = TAGS + ["-modfile=" + mf]


def testset(pkgs):
    rc, out = run(["go", "test", "-vet=off", "-count=1", "-json"] + [t for t in TAGS if t.startswith("-modfile")] + pkgs)
    res = {}
    for l in out.splitlines():
        try:
            e = json.loads(l)
        except Exception:
            continue
        if e.get("Test") and e.get("Action") in ("pass", "fail"):
            res[e["Package"] + "::" + e["Test"]] = e["Action"]
    return res


try:
    os.makedirs(os.path.join(wt, pkgdir), exist_ok=True)   # a demo may live in a new sub-directory
    demo_dst = os.path.join(wt, pkgdir, "zz_seeded_demo_test.go")
    pkgs = ["./" + pkgdir.rstrip("/") + "/"] + extra
    base_tests = testset(pkgs)
    BUILD = ["go", "build", "./common/...", "./core/...", "./native/...", "./consensus/...", "./txnpool/...", "./merkle/...", "./account/...", "./p2pserver/...", "./validator/...", "./http/...", "./cmd/..."]
    _, outb0 = run(BUILD)
    fail0 = set(re.findall(r"^# (\S+)", outb0, re.M))
    shutil.copy(os.path.join(d, "demo_test.go"), demo_dst)
    rc0, out0 = run(["go", "test", "-vet=off", "-count=1"] + TAGS + ["-run", runre, "./" + pkgdir])
    os.remove(demo_dst)
    pa = subprocess.run(["git", "apply", os.path.join(d, "patch.diff")], cwd=wt, stdout=subprocess.PIPE, stderr=subprocess.STDOUT, text=True)
    _, outb = run(BUILD)
    fail1 = set(re.findall(r"^# (\S+)", outb, re.M))
    rcb = 0 if fail1 <= fail0 else 1   # third-party cgo packages fail to build on the unchanged tree too
    mut_tests = testset(pkgs)
    shutil.copy(os.path.join(d, "demo_test.go"), demo_dst)
    rc1, out1 = run(["go", "test", "-vet=off", "-count=1"] + TAGS + ["-run", runre, "./" + pkgdir])
    changed = {k: (base_tests.get(k), mut_tests.get(k)) for k in set(base_tests) | set(mut_tests) if base_tests.get(k) != mut_tests.get(k)}
    res = {"patch_applies": pa.returncode == 0, "build_ok_with_patch": rcb == 0,
           "demo_passes_without_patch": rc0 == 0, "demo_fails_with_patch": rc1 != 0,
           "existing_tests_same_result": not changed, "existing_tests_changed": changed,
           "n_existing_tests": len(base_tests), "demo_cmd": "go test -vet=off -count=1 -run '%s' ./%s" % (runre, pkgdir),
           "demo_tail_with_patch": out1[-600:], "build_tail": outb[-300:] if rcb else ""}
    res["confirmed"] = all([res["patch_applies"], res["build_ok_with_patch"], res["demo_passes_without_patch"],
                            res["demo_fails_with_patch"], res["existing_tests_same_result"]])
    json.dump(res, open(os.path.join(d, "confirm.json"), "w"), indent=1)
    print(sid, "CONFIRMED" if res["confirmed"] else "NOT CONFIRMED", {k: v for k, v in res.items() if isinstance(v, bool)})
finally:
    subprocess.run(["git", "-C", "/repo", "worktree", "remove", "--force", wt])
