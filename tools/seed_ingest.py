#!/usr/bin/env python3
"""tools/seed_ingest.py <Cxx> <k> <pkgdir> <run-regex> <what> <needs> [also_run ids,comma]
Copies /tmp/seed/<Cxx>/_out/<k>/ to seeded/<Cxx>-<k>/, writes meta.json, confirms the change in a scratch
worktree (tools/seeded_confirm.py) and, when confirmed, runs the property's check against it (tools/seeded_run.py)."""
import json
import os
import shutil
import subprocess
import sys

ROOT = os.path.dirname(os.path.dirname(os.path.abspath(__file__)))
pid, k, pkgdir, rx, what, needs = sys.argv[1:7]
also = sys.argv[7].split(",") if len(sys.argv) > 7 and sys.argv[7] else []
src = "/tmp/seed/%s/_out/%s" % (pid, k)
sid = "%s-%s" % (pid, k)
d = os.path.join(ROOT, "seeded", sid)
os.makedirs(d, exist_ok=True)
for f in ("patch.diff", "demo_test.go", "notes.md"):
    if os.path.exists(os.path.join(src, f)):
        shutil.copy(os.path.join(src, f), os.path.join(d, f))
meta = {"property": pid, "also_run": also, "what": what, "needs": needs,
        "source": "independent sub-agent given only the property text and a scratch worktree",
        "confirm_cmd": "tools/seeded_confirm.py %s %s '%s'" % (sid, pkgdir, rx)}
json.dump(meta, open(os.path.join(d, "meta.json"), "w"), indent=1)
subprocess.run([os.path.join(ROOT, "tools", "seeded_confirm.py"), sid, pkgdir, rx])
c = json.load(open(os.path.join(d, "confirm.json")))
meta["confirmed"] = c["confirmed"]
json.dump(meta, open(os.path.join(d, "meta.json"), "w"), indent=1)
if c["confirmed"]:
    subprocess.run([os.path.join(ROOT, "tools", "seeded_run.py"), sid])
else:
    print("NOT CONFIRMED:", {k2: v for k2, v in c.items() if isinstance(v, bool)}, c.get("demo_tail_with_patch", "")[-300:])
