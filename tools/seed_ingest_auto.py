#!/usr/bin/env python3
"""tools/seed_ingest_auto.py <Cxx>...: ingest every change listed in /tmp/seed/<Cxx>/_out/report.json through
tools/seed_ingest.py (confirm in a scratch worktree, then run the property's check against it)."""
import json
import os
import subprocess
import sys

ROOT = os.path.dirname(os.path.dirname(os.path.abspath(__file__)))
for pid in sys.argv[1:]:
    rp = "/tmp/seed/%s/_out/report.json" % pid
    if not os.path.exists(rp):
        print(pid, "no report.json")
        continue
    for e in json.load(open(rp)):
        env = dict(os.environ)
        tags = (e.get("tags") or "").strip()
        if tags:
            env["SEED_TAGS"] = tags
        if "cross_chain_manager" in e["pkgdir"] and e["pkgdir"].rstrip("/").endswith("cross_chain_manager"):
            env["SEED_BLS_STUB"] = "1"
        subprocess.run([os.path.join(ROOT, "tools", "seed_ingest.py"), pid, str(e["k"]), e["pkgdir"].strip("/"), e["run_regex"],
                        e["what"], e["needs"]], env=env)
