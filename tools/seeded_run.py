#!/usr/bin/env python3
"""tools/seeded_run.py [ids...] [--tier T]: for every /verif/seeded/<id>/ (patch.diff + meta.json) make a scratch
copy of /repo, apply the patch, run the check(s) of the property it breaks with VERIF_REPO pointing at the copy,
record whether the change is caught (exit 1 + VIOLATION line) in seeded/RESULTS.json, remove the copy.
/repo itself is never touched."""
import glob
import json
import os
import shutil
import subprocess
import sys
import tempfile
import time

ROOT = os.path.dirname(os.path.dirname(os.path.abspath(__file__)))
args = sys.argv[1:]
tier = "quick"
if "--tier" in args:
    i = args.index("--tier"); tier = args[i + 1]; del args[i:i + 2]
ids = args or sorted(os.path.basename(os.path.dirname(p)) for p in glob.glob(os.path.join(ROOT, "seeded", "*", "patch.diff")))
resp = os.path.join(ROOT, "seeded", "RESULTS.json")
results = json.load(open(resp)) if os.path.exists(resp) else {}
for sid in ids:
    d = os.path.join(ROOT, "seeded", sid)
    meta = json.load(open(os.path.join(d, "meta.json")))
    props = meta["property"] if isinstance(meta["property"], list) else [meta["property"]]
    props = list(props) + [p for p in meta.get("also_run", []) if p not in props]
    tmp = tempfile.mkdtemp(prefix="seeded-%s-" % sid)
    repo = os.path.join(tmp, "repo")
    subprocess.run(["rsync", "-a", "--exclude", ".git", "/repo/", repo + "/"], check=True)
    p = subprocess.run(["patch", "-p1", "-s", "-i", os.path.join(d, "patch.diff")], cwd=repo, stdout=subprocess.PIPE,
                       stderr=subprocess.STDOUT, text=True)
    entry = {"property": props, "tier": tier, "applied": p.returncode == 0, "checks": {}}
    if p.returncode != 0:
        entry["apply_output"] = p.stdout[-500:]
    else:
        for pid in props:
            if not os.path.exists(os.path.join(ROOT, "checks", pid + ".py")):
                entry["checks"][pid] = {"caught": False, "note": "no check"}
                continue
            t = time.time()
            env = dict(os.environ, VERIF_REPO=repo)
            q = subprocess.run([os.path.join(ROOT, "check"), pid, "--tier", tier], cwd=ROOT, env=env,
                               stdout=subprocess.PIPE, stderr=subprocess.STDOUT, text=True)
            viol = [l for l in q.stdout.splitlines() if l.startswith("VIOLATION")]
            entry["checks"][pid] = {"caught": q.returncode != 0 and bool(viol), "rc": q.returncode,
                                    "with_input": any("no-failing-input-found" not in l for l in viol),
                                    "lines": viol[:3], "wall_s": round(time.time() - t, 1)}
    entry["caught"] = any(c.get("caught") for c in entry["checks"].values())
    results[sid] = entry
    shutil.rmtree(tmp, ignore_errors=True)
    print(sid, "CAUGHT" if entry["caught"] else "MISSED", json.dumps(entry["checks"])[:300], flush=True)
    with open(resp, "w") as f:
        json.dump(results, f, indent=1, sort_keys=True)
# translator outputs (lean/Poly/Generated) are regenerated from /repo by the next ordinary run of each check
