#!/usr/bin/env python3
"""tools/runall.py [-j N] [--tier T] [--seed S] [ids...]: run claimed checks in parallel, print a summary table."""
import concurrent.futures
import glob
import json
import os
import subprocess
import sys
import time

ROOT = os.path.dirname(os.path.dirname(os.path.abspath(__file__)))
args = sys.argv[1:]
j, tier, seed, ids = 4, "quick", "1", []
i = 0
while i < len(args):
    if args[i] == "-j":
        j = int(args[i + 1]); i += 2
    elif args[i] == "--tier":
        tier = args[i + 1]; i += 2
    elif args[i] == "--seed":
        seed = args[i + 1]; i += 2
    else:
        ids.append(args[i]); i += 1
if not ids:
    ids = sorted(os.path.basename(p)[:-5] for p in glob.glob(os.path.join(ROOT, "checks", "registry.d", "C*.json")))


def one(pid):
    t = time.time()
    env = dict(os.environ, VERIF_SEED=seed)
    p = subprocess.run([os.path.join(ROOT, "check"), pid, "--tier", tier], cwd=ROOT, env=env, stdout=subprocess.PIPE,
                       stderr=subprocess.STDOUT, text=True)
    lines = p.stdout.splitlines()
    tag = [l for l in lines if l.startswith(("VIOLATION", "KNOWN-FINDING"))]
    os.makedirs(os.path.join(ROOT, ".build", "logs"), exist_ok=True)
    open(os.path.join(ROOT, ".build", "logs", "%s.%s.%s.log" % (pid, tier, seed)), "w").write(p.stdout)
    return pid, p.returncode, time.time() - t, (lines[-1] if lines else ""), tag


with concurrent.futures.ThreadPoolExecutor(j) as ex:
    res = list(ex.map(one, ids))
bad = 0
for pid, rc, dt, last, tag in res:
    print("%s rc=%d %6.1fs %s" % (pid, rc, dt, last))
    for t in tag[:6]:
        print("      " + t[:220])
    bad += rc != 0
print("%d checks, %d failing" % (len(res), bad))
sys.exit(1 if bad else 0)
