#!/usr/bin/env python3
"""Writes /verif/MANIFEST.json from checks/registry.py and properties.jsonl."""
import json
import os
import subprocess
import sys

ROOT = os.path.dirname(os.path.dirname(os.path.abspath(__file__)))
sys.path.insert(0, ROOT)
from checks import registry  # noqa: E402

props = [json.loads(l) for l in open(os.path.join(ROOT, "properties.jsonl"))]
hooks_commits = []
hc = os.path.join(ROOT, "hooks_commits.txt")
if os.path.exists(hc):
    hooks_commits = [l.split()[0] for l in open(hc) if l.strip() and not l.startswith("#")]
man = {
    "version": 1,
    "setup_cmd": "./check --setup",
    "hooks": {
        "guard": "verif",
        "enable": "go build -tags verif (harness module /verif/harness, replace github.com/polynetwork/poly => /repo)",
        "baseline_off_cmd": "cd /repo && GOFLAGS=-mod=mod go test -vet=off -count=1 -timeout 25m ./...",
        "source_commits": hooks_commits,
        "add_only": True,
    },
    "engines": [
        {"name": "lean", "path": "lean/", "kind_free_text": "Lean 4 project Poly: models, specs, proofs, property theorems, compiled drivers",
         "serves_properties": sorted(registry.CLAIMED)},
        {"name": "harness", "path": "harness/", "kind_free_text": "Go module driving the real code in-process (-tags verif), seeded generators, property oracles",
         "serves_properties": sorted(registry.CLAIMED)},
        {"name": "extract", "path": "extract/", "kind_free_text": "go/parser translators regenerating Lean definitions from /repo on every run",
         "serves_properties": sorted(registry.CLAIMED)},
    ],
    "checks": [],
    "not_applicable": [],
    "notes": "Technique: machine-checked proof in Lean 4; see DESIGN.md. ./check <id> [--tier quick|thorough] [--replay file].",
}
for p in props:
    pid = p["id"]
    c = registry.CLAIMED.get(pid)
    if c is None:
        man["not_applicable"].append({"property_id": pid, "reason": registry.PENDING.get(pid, registry.PENDING_REASON)})
        continue
    man["checks"].append({
        "property_id": pid,
        "quick_cmd": "./check %s --tier quick" % pid,
        "thorough_cmd": "./check %s --tier thorough" % pid,
        "evidence_file": "/verif/evidence/%s.json" % pid,
        "replay_cmd_template": "./check %s --replay {path}" % pid,
        "engine": "lean",
        "level_claimed": {"category": c["category"], "text": c["text"], "design_ref": c["design_ref"]},
        "level_note": c["note"],
        "technique": c["technique"],
    })
with open(os.path.join(ROOT, "MANIFEST.json"), "w") as f:
    json.dump(man, f, indent=1)
print("MANIFEST.json: %d checks, %d not claimed" % (len(man["checks"]), len(man["not_applicable"])))
