#!/usr/bin/env python3
"""tools/seed_prepare.py <Cxx>...: create a scratch git worktree of /repo at /tmp/seed/<id> and write the task
file /tmp/seed/<id>/_TASK.md (instructions + the property text only; nothing from /verif's machinery)."""
import json
import os
import subprocess
import sys

ROOT = os.path.dirname(os.path.dirname(os.path.abspath(__file__)))
props = {json.loads(l)["id"]: json.loads(l) for l in open(os.path.join(ROOT, "properties.jsonl"))}
import glob
for pid in sys.argv[1:]:
    p = props[pid]
    tried = []
    for mp in sorted(glob.glob(os.path.join(ROOT, "seeded", pid + "-*", "meta.json"))):
        tried.append("- " + json.load(open(mp))["what"])
    first = len(tried) + 1
    tried_txt = ("\n## Already tried by others (do NOT repeat these or close variants; pick different functions, mechanisms and trigger conditions)\n\n"
                 + "\n".join(tried) + "\n") if tried else ""
    wt = "/tmp/seed/%s" % pid
    if not os.path.exists(wt):
        os.makedirs("/tmp/seed", exist_ok=True)
        subprocess.run(["git", "-C", "/repo", "worktree", "add", "-q", "--detach", wt, "HEAD"], check=True)
    a = p["anchors"]
    mech = "\n".join("  - %s (%s)" % (m.get("name"), m.get("where")) for m in a.get("mechanism", []))
    text = f"""# Task: seed realistic property-breaking changes ({pid})

You are testing how robust a Go codebase's safety net is. You have your own scratch git worktree of the repository
polynetwork/poly (Poly Network relay-chain node, Go) at {wt} — work ONLY inside that directory (do not read or touch
/repo, /verif or any other worktree or directory under /tmp/seed). The sandbox is offline; for Go commands always
export: GOFLAGS=-mod=mod GOPROXY=off GOSUMDB=off GOTOOLCHAIN=local. Note: `go build ./...` of the whole repository
fails even on the unchanged tree in a third-party cgo package (harmony bls), and a number of the repository's tests
fail on the unchanged tree; always compare with the unchanged tree and build/test only the packages you touch and
their dependants.

## The property the code is supposed to satisfy

**{pid} — {p['title']}**

{p['statement']}

Quantified over: {p['quantifier']['text']}

Relevant code (anchors): files {', '.join(a.get('files', []))}
{mech}

{tried_txt}
## What to produce

TWO different, realistic changes (bugs a developer could plausibly introduce during a refactor, optimisation,
"simplification", feature addition or merge) to the Go source in your worktree, each of which BREAKS this property
while the code still compiles and the existing tests of the touched packages give the same results as on the unchanged
tree. Each change must need something specific to manifest — a particular interleaving, a crash or fault at a
particular point, a multi-step sequence of operations, an unusual input (size class, boundary value, repeated element,
particular ordering), or two cooperating edits at different sites that each look fine alone — NOT something ordinary
use would expose at once. Vary the two: different functions/sites, different mechanisms, at least one that is not
a one-token edit (e.g. introduces a helper, a cache, a fast path, a reordering of steps).

For each change write a demonstration: a small Go test (in the worktree, in the package it belongs to, external
`_test` package or internal as needed) or small program that FAILS with the change and PASSES without it, and shows
the property being violated (not merely that the code changed).

## Deliverables (under {wt}/_out/)

For each change k in {first}..{first+1}: `k/patch.diff` (`git diff` of the source change only, excluding the demo; applicable with
`git apply` at the repo root), `k/demo_test.go` (the demonstration, starting with a header comment that gives the package
directory it belongs in and the exact `go test -run` command), `k/notes.md` (what the change is, what it needs in order
to manifest, the commands you ran and their outcomes with and without the change, and the `-run` regex of the demo).
After saving each patch revert the source (`git checkout -- .` inside {wt} only) before the next one. NEVER use `git stash` (the stash is shared between worktrees and other people are working in sibling worktrees); to set a change aside use `git diff > file` and `git apply -R file`. Also write `{wt}/_out/report.json`: a JSON list with one object per change: {{"k": <number>, "pkgdir": "<package dir of the demo>",
"run_regex": "<-run regex>", "what": "<one sentence: the change>", "needs": "<one sentence: what it needs to manifest>", "tags": "<build tags the demo needs, or empty>"}}. Finish with a
short report: for each change one line `k | package dir of demo | -run regex | one-sentence description | what it needs`.
"""
    open(os.path.join(wt, "_TASK.md"), "w").write(text)
    print(pid, wt)
