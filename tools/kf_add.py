#!/usr/bin/env python3
"""tools/kf_add.py <property> known|fixed '<match regex on violation key>' '<what fails>' [commit]
Adds an entry to known_findings.json (file-locked). Never called by a check at run time."""
import fcntl
import json
import os
import sys

ROOT = os.path.dirname(os.path.dirname(os.path.abspath(__file__)))
p = os.path.join(ROOT, "known_findings.json")
prop, status, match, what = sys.argv[1:5]
commit = sys.argv[5] if len(sys.argv) > 5 else None
with open(p + ".lock", "w") as lk:
    fcntl.flock(lk, fcntl.LOCK_EX)
    data = json.load(open(p)) if os.path.exists(p) else {"findings": []}
    e = {"property": prop, "status": status, "match": match, "what": what}
    if commit:
        e["commit"] = commit
    if status == "fixed":
        e["line"] = "fixed: property=%s %s %s" % (prop, commit or "?", what)
    data["findings"] = [x for x in data["findings"] if not (x["property"] == prop and x["match"] == match)] + [e]
    with open(p, "w") as f:
        json.dump(data, f, indent=1)
print("ok", len(data["findings"]))
