"""Shared machinery of ./check (python3 stdlib only).

One check = (1) rebuild the Go harness from /repo's working tree with -tags verif, (2) regenerate the
translator outputs, (3) build the Lean property module (the kernel re-checks every theorem that depends
on a changed generated definition) and audit axioms, (4) run the correspondence (harness on the real
code vs compiled Lean driver on the model, same op lines), (5) on any failure search for a concrete
failing input (the harness evaluates the property itself on the implementation's outputs), (6) write
evidence and print VIOLATION / KNOWN-FINDING lines.
"""
import hashlib
import json
import os
import re
import shutil
import subprocess
import sys
import tempfile
import time

ROOT = os.path.dirname(os.path.dirname(os.path.abspath(__file__)))
REPO = os.environ.get("VERIF_REPO", "/repo")
LEAN = os.path.join(ROOT, "lean")
HARNESS = os.path.join(ROOT, "harness")
EXTRACT = os.path.join(ROOT, "extract")
BUILD = os.path.join(ROOT, ".build")
EVIDENCE = os.path.join(ROOT, "evidence")
REPLAYS = os.path.join(ROOT, "replays")
ALLOWED_AXIOMS = {"propext", "Classical.choice", "Quot.sound"}
FORBIDDEN_TOKENS = re.compile(
    r"\b(sorry|admit|native_decide|bv_decide|implemented_by|unsafe)\b|^\s*axiom\s|maxHeartbeats\s+0\b")

GOENV = dict(os.environ)
GOENV.update({"GOFLAGS": "-mod=mod", "GOPROXY": "off", "GOSUMDB": "off", "GOTOOLCHAIN": "local",
              "CGO_ENABLED": os.environ.get("CGO_ENABLED", "1")})


def sh(cmd, cwd=None, env=None, timeout=None, stdin=None):
    """Run a command, return (rc, stdout+stderr)."""
    try:
        p = subprocess.run(cmd, cwd=cwd, env=env, stdin=stdin, stdout=subprocess.PIPE,
                           stderr=subprocess.STDOUT, timeout=timeout, text=True, errors="replace")
        return p.returncode, p.stdout
    except subprocess.TimeoutExpired as e:
        out = e.stdout if isinstance(e.stdout, str) else (e.stdout or b"").decode("utf8", "replace")
        return 124, (out or "") + "\n[timeout after %ss]" % timeout


def sh_watch(cmd, env=None, timeout=None, mem_gb=12):
    """Run a command under a watchdog: killed on timeout or when its resident set exceeds mem_gb GiB."""
    p = subprocess.Popen(cmd, env=env, stdout=subprocess.PIPE, stderr=subprocess.STDOUT, text=True, errors="replace")
    t0 = time.time()
    killed = ""
    import threading
    buf = []
    th = threading.Thread(target=lambda: buf.append(p.stdout.read()))
    th.start()
    while p.poll() is None:
        time.sleep(0.5)
        try:
            for l in open("/proc/%d/status" % p.pid):
                if l.startswith("VmRSS:"):
                    if int(l.split()[1]) > mem_gb * 1024 * 1024:
                        killed = "\n[killed: resident memory above %d GiB]" % mem_gb
                        p.kill()
        except Exception:
            pass
        if timeout and time.time() - t0 > timeout:
            killed = "\n[timeout after %ss]" % timeout
            p.kill()
    th.join()
    return (p.returncode if not killed else 124), (buf[0] if buf else "") + killed


def sha256_file(path):
    h = hashlib.sha256()
    with open(path, "rb") as f:
        h.update(f.read())
    return h.hexdigest()


def write_if_changed(path, content):
    os.makedirs(os.path.dirname(path), exist_ok=True)
    try:
        with open(path) as f:
            if f.read() == content:
                return False
    except FileNotFoundError:
        pass
    tmp = "%s.tmp.%d" % (path, os.getpid())
    with open(tmp, "w") as f:
        f.write(content)
    os.replace(tmp, path)
    return True


def strip_lean_comments(src):
    """Remove /- -/ (nested) and -- comments and string literals (approximately) from Lean source."""
    out = []
    i, n, depth = 0, len(src), 0
    while i < n:
        if src.startswith("/-", i):
            depth += 1
            i += 2
            continue
        if depth > 0:
            if src.startswith("-/", i):
                depth -= 1
                i += 2
            else:
                if src[i] == "\n":
                    out.append("\n")
                i += 1
            continue
        if src.startswith("--", i):
            while i < n and src[i] != "\n":
                i += 1
            continue
        if src[i] == '"':
            i += 1
            while i < n and src[i] != '"':
                i += 2 if src[i] == "\\" else 1
            i += 1
            out.append('""')
            continue
        out.append(src[i])
        i += 1
    return "".join(out)


class Violation:
    def __init__(self, key, what, replay=None, found_input=True):
        self.key = key            # stable identifier of the specific input / call site / history
        self.what = what          # human readable
        self.replay = replay      # dict written to the replay file
        self.found_input = found_input


class Ctx:
    def __init__(self, pid, tier, seed):
        self.pid = pid
        self.tier = tier
        self.seed = seed
        self.t0 = time.time()
        self.violations = []
        self.cov = {"obligations": 0, "discharged": 0, "checker_cmd": "", "trusted_base": [],
                    "theorems": [], "generated_from": [], "evaluations": 0, "distinct_nontrivial": 0,
                    "rule": "", "samples": [], "histogram": {}, "streams": []}
        self.assumptions = []
        self.level = "proof"
        # every run has its own build and scratch directories, so concurrent runs of the same check (or runs
        # against a scratch copy via VERIF_REPO) never overwrite each other's binaries or op files
        self.rundir = os.path.join(BUILD, "run", "%s.%d" % (pid, os.getpid()))
        shutil.rmtree(self.rundir, ignore_errors=True)
        self.bindir = os.path.join(self.rundir, "bin")
        self.tmpdir = os.path.join(self.rundir, "tmp")
        os.makedirs(self.bindir, exist_ok=True)
        os.makedirs(self.tmpdir, exist_ok=True)
        self.scratch = tempfile.mkdtemp(prefix="polyverif-%s-" % pid)
        self.lean_ok = True
        kfp = os.path.join(ROOT, "known_findings.json")
        self.known = []
        if os.path.exists(kfp):
            try:
                self.known = [e for e in json.load(open(kfp)).get("findings", [])
                              if e.get("property") == pid and e.get("status") == "known"]
            except Exception:
                self.known = []
        self.replay = None
        self.failed_theorems = []
        self.log = []

    # ------------------------------------------------------------------ utilities
    def note(self, msg):
        self.log.append(msg)
        print("[%s %6.1fs] %s" % (self.pid, time.time() - self.t0, msg), flush=True)

    def thorough(self):
        return self.tier == "thorough"

    def pick(self, quick, thorough):
        return thorough if self.thorough() else quick

    def is_known(self, key):
        return any(re.fullmatch(e["match"], key) for e in self.known)

    def violate(self, key, what, replay=None, found_input=True):
        for v in self.violations:
            if v.key == key:
                return
        self.violations.append(Violation(key, what, replay, found_input))

    # ------------------------------------------------------------------ Go harness
    def gen_gomod(self):
        self.moddir = os.path.join(self.tmpdir, "gomod")
        rc, out = sh(["sh", os.path.join(HARNESS, "gen_gomod.sh"), self.moddir], env=GOENV)
        if not os.path.exists(os.path.join(HARNESS, "go.mod")):
            sh(["sh", os.path.join(HARNESS, "gen_gomod.sh")], env=GOENV)
        if rc != 0:
            self.violate("precondition:gomod", "cannot regenerate harness go.mod: " + out[-2000:],
                         {"kind": "precondition", "output": out[-4000:]}, found_input=False)
            return False
        return True

    def build_harness(self, name, tags="verif"):
        """go build -tags verif ./cmd/<name> against /repo's working tree. Returns binary path or None."""
        if not self.gen_gomod():
            return None
        out_bin = os.path.join(self.bindir, name)
        if os.path.exists(out_bin):
            os.remove(out_bin)
        t = time.time()
        rc, out = sh(["go", "build", "-modfile=" + os.path.join(self.moddir, "go.mod"), "-tags", tags, "-o", out_bin,
                      "./cmd/" + name], cwd=HARNESS, env=GOENV, timeout=1800)
        self.note("go build -tags %s cmd/%s rc=%d (%.1fs)" % (tags, name, rc, time.time() - t))
        if rc != 0:
            self.violate("precondition:build:" + name,
                         "harness %s does not build against /repo's working tree" % name,
                         {"kind": "precondition", "what": "go build failed", "output": out[-6000:]},
                         found_input=False)
            return None
        return out_bin

    # ------------------------------------------------------------------ translators
    def run_extract(self, name, args=None, out_lean=None, out_json=None, timeout=900):
        """Run translator extract/<name> (a Go main package using only the standard library, or x/tools
        through the harness module) on /repo; it prints Lean source on stdout (or JSON when out_json)."""
        src = os.path.join(EXTRACT, name)
        binp = os.path.join(self.bindir, "x_" + name)
        rc, out = sh(["go", "build", "-o", binp, "."], cwd=src, env=GOENV, timeout=900)
        if rc != 0:
            self.violate("precondition:extract-build:" + name, "translator %s does not build" % name,
                         {"kind": "precondition", "output": out[-4000:]}, found_input=False)
            return None
        p = subprocess.run([binp, REPO] + (args or []), stdout=subprocess.PIPE, stderr=subprocess.PIPE,
                           text=True, timeout=timeout)
        if p.returncode != 0:
            self.violate("translator:" + name,
                         "translator %s could not read the source it is written for: %s" % (name, p.stderr[-1500:]),
                         {"kind": "translator", "name": name, "stderr": p.stderr[-4000:]}, found_input=False)
            return None
        if out_lean:
            path = os.path.join(LEAN, "Poly", "Generated", out_lean)
            changed = write_if_changed(path, p.stdout)
            self.cov["generated_from"].append({"translator": name, "output": "Poly/Generated/" + out_lean,
                                               "sha256": hashlib.sha256(p.stdout.encode()).hexdigest(),
                                               "changed_on_disk": changed})
        if out_json:
            write_if_changed(os.path.join(self.tmpdir, out_json), p.stdout)
        return p.stdout

    # ------------------------------------------------------------------ Lean
    def lean_build(self, targets, timeout=3600):
        t = time.time()
        rc, out = sh(["lake", "build"] + targets, cwd=LEAN, timeout=timeout)
        self.note("lake build %s rc=%d (%.1fs)" % (" ".join(targets), rc, time.time() - t))
        return rc, out

    def lean_props(self, module=None, extra_modules=(), expect_native=()):
        """Build Poly.Props.<pid>, list its theorems, audit axioms, scan sources. Each theorem is one
        proof obligation. Returns True iff all discharged."""
        module = module or ("Poly.Props." + self.pid)
        path = os.path.join(LEAN, *module.split(".")) + ".lean"
        src = strip_lean_comments(open(path).read())
        thms = re.findall(r"^\s*(?:@\[[^\]]*\]\s*)?(?:protected\s+)?theorem\s+([^\s:(\[{]+)", src, re.M)
        ns = re.findall(r"^namespace\s+(\S+)", src, re.M)
        prefix = (ns[0] + ".") if ns else ""
        self.cov["obligations"] += len(thms)
        self.cov["checker_cmd"] = "cd lean && lake build %s && lake env lean <audit: #print axioms of every theorem>" % module
        rc, out = self.lean_build([module] + list(extra_modules))
        if rc != 0:
            self.lean_ok = False
            errs = [l for l in out.splitlines() if "error" in l]
            # which theorems are affected: those whose line range contains an error line, else all
            failing = self._theorems_at_errors(path, out) or ["<module %s does not build>" % module]
            self.failed_theorems = failing
            self.cov["lean_errors"] = errs[:20]
            self.note("proof obligations NOT discharged: %s" % ", ".join(failing))
            return False
        # textual scan over the property module and every project module it imports (comments stripped)
        bad = []
        todo, seen = [module], set()
        while todo:
            m = todo.pop()
            if m in seen:
                continue
            seen.add(m)
            fp = os.path.join(LEAN, *m.split(".")) + ".lean"
            if not os.path.exists(fp):
                continue
            s = strip_lean_comments(open(fp).read())
            todo += re.findall(r"^import\s+(Poly\.[A-Za-z0-9_.]+)", s, re.M)
            for mm in FORBIDDEN_TOKENS.finditer(s):
                tok = mm.group(0).strip()
                rel = os.path.relpath(fp, LEAN)
                if tok == "native_decide" and rel in expect_native:
                    continue
                bad.append("%s: %s" % (rel, tok))
        self.cov["modules_scanned"] = sorted(seen)
        if bad:
            self.lean_ok = False
            self.failed_theorems = ["<forbidden token> " + b for b in bad[:10]]
            return False
        # axiom audit
        audit = "import %s\n" % module + "".join("#print axioms %s%s\n" % (prefix, t) for t in thms)
        ap = os.path.join(self.tmpdir, "Audit.lean")
        with open(ap, "w") as f:
            f.write(audit)
        rc, out = sh(["lake", "env", "lean", ap], cwd=LEAN, timeout=1800)
        axioms = {}
        cur = None
        for m in re.finditer(r"'([^']+)' (depends on axioms: \[([^\]]*)\]|does not depend on any axioms)", out):
            name = m.group(1)
            axs = [a.strip() for a in (m.group(3) or "").replace("\n", " ").split(",") if a.strip()]
            axioms[name] = axs
        ok = rc == 0
        for t in thms:
            full = prefix + t
            if full not in axioms:
                ok = False
                self.failed_theorems.append(full + " (axioms not reported)")
                continue
            extra = [a for a in axioms[full] if a not in ALLOWED_AXIOMS
                     and not (a == "Lean.ofReduceBool" and expect_native) and not (a == "Lean.trustCompiler" and expect_native)]
            self.cov["theorems"].append({"name": full, "axioms": axioms[full]})
            if extra:
                ok = False
                self.failed_theorems.append(full + " uses " + ",".join(extra))
            else:
                self.cov["discharged"] += 1
        if not ok:
            self.lean_ok = False
            self.note("axiom audit failed: %s\n%s" % (self.failed_theorems, out[-1500:]))
        tb = self.cov["trusted_base"]
        for s in ["Lean 4 kernel", "axioms: " + ",".join(sorted({a for v in axioms.values() for a in v})) if axioms else "axioms: none"]:
            if s not in tb:
                tb.append(s)
        if self.thorough() and ok:
            rc, out = sh(["lake", "env", "leanchecker", module], cwd=LEAN, timeout=3600)
            self.cov["leanchecker"] = "ok" if rc == 0 else out[-500:]
            if rc != 0:
                self.lean_ok = False
                self.failed_theorems.append("leanchecker rejected " + module)
                ok = False
        return ok

    def _theorems_at_errors(self, path, out):
        """Map 'file:line:col: error' lines to the enclosing theorem of the Props file when possible."""
        rel = os.path.relpath(path, LEAN)
        lines = open(path).read().splitlines()
        starts = []
        for i, l in enumerate(lines):
            m = re.match(r"\s*(?:@\[[^\]]*\]\s*)?(?:protected\s+|private\s+)?(?:theorem|example|def|lemma)\s*([^\s:(\[{]*)", l)
            if m:
                starts.append((i + 1, m.group(1) or "example"))
        res = []
        for m in re.finditer(r"error: (\S+?):(\d+):(\d+)", out):
            f, ln = m.group(1), int(m.group(2))
            if f.endswith(rel) or rel.endswith(f):
                name = None
                for s, nm in starts:
                    if s <= ln:
                        name = nm
                if name and name not in res:
                    res.append(name)
            else:
                tag = "%s:%d" % (f, ln)
                if tag not in res:
                    res.append(tag)
        return res

    def build_driver(self, exe):
        rc, out = self.lean_build([exe])
        if rc != 0:
            self.cov.setdefault("driver_errors", []).append(out[-3000:])
            return None
        return os.path.join(LEAN, ".lake", "build", "bin", exe)

    # ------------------------------------------------------------------ correspondence
    def correspondence(self, stream, harness_bin, gen_args, driver_bin, driver_args=(), timeout=3000,
                       rule=None, mem_gb=12):
        """Run `harness gen` (seeded; executes each op on the real code) and the Lean driver on the same
        op lines; compare line by line. The harness writes:
            <ops>   one op per line ('#case <id>' starts a new case / resets state)
            <out>   one canonical outcome per op line
            <viol>  property-oracle failures: '<case>\\t<key>\\t<description>' (the property evaluated
                    directly on the implementation's outputs)
            <stats> JSON {evaluations, distinct_nontrivial, rule, histogram, samples}
        Returns dict with mismatches and violations."""
        base = os.path.join(self.tmpdir, stream)
        ops, outp, viol, stats = base + ".ops", base + ".go", base + ".viol", base + ".stats"
        for p in (ops, outp, viol, stats, base + ".lean"):
            if os.path.exists(p):
                os.remove(p)
        if self.replay is not None:
            # replay mode: only the recorded stream is re-executed, from the recorded op lines
            if self.replay.get("stream") != stream:
                return {"stream": stream, "mismatches": [], "viol": [], "harness_rc": 0, "skipped": True}
            rops = self.replay.get("ops") or (self.replay.get("first") or {}).get("case_ops") or []
            with open(base + ".replay", "w") as f:
                f.write("\n".join(rops) + "\n")
            gen_args = list(gen_args) + ["-replay", base + ".replay"]
        env = dict(GOENV)
        env["GOMEMLIMIT"] = "%dGiB" % mem_gb
        env["TMPDIR"] = self.scratch
        t = time.time()
        cmd = [harness_bin] + list(gen_args) + ["-seed", str(self.seed), "-tier", self.tier,
                                                 "-ops", ops, "-out", outp, "-viol", viol, "-stats", stats]
        rc, out = sh_watch(cmd, env=env, timeout=timeout, mem_gb=mem_gb)
        self.note("harness %s rc=%d (%.1fs)" % (stream, rc, time.time() - t))
        res = {"stream": stream, "mismatches": [], "viol": [], "harness_rc": rc}
        if rc != 0 or not os.path.exists(ops) or not os.path.exists(outp):
            self.violate("precondition:harness-run:" + stream,
                         "harness stream %s crashed or timed out (rc=%d)" % (stream, rc),
                         {"kind": "harness-crash", "stream": stream, "cmd": cmd, "output": out[-6000:]},
                         found_input=False)
            # concrete findings recorded before the crash are not lost
            if os.path.exists(viol):
                for line in open(viol).read().splitlines():
                    parts = line.split("\t")
                    if len(parts) >= 3:
                        res["viol"].append({"case": parts[0], "key": parts[1], "desc": parts[2],
                                            "ops": parts[3].split(" ;; ") if len(parts) > 3 else []})
            res["harness_cmd"] = cmd
            return res
        st = {}
        if os.path.exists(stats):
            try:
                st = json.load(open(stats))
            except Exception:
                st = {}
        # driver
        go_lines = open(outp).read().splitlines()
        op_lines = open(ops).read().splitlines()
        lean_lines = None
        if driver_bin:
            t = time.time()
            drc, derr = 0, ""
            with open(ops) as fin, open(base + ".lean", "w") as fout:
                try:
                    p = subprocess.run([driver_bin] + list(driver_args), stdin=fin, stdout=fout,
                                       stderr=subprocess.PIPE, text=True, timeout=timeout)
                    drc, derr = p.returncode, p.stderr
                except subprocess.TimeoutExpired:
                    drc, derr = 124, "driver timed out after %ss" % timeout
            self.note("driver %s rc=%d (%.1fs, %d ops)" % (stream, drc, time.time() - t, len(op_lines)))
            lean_lines = open(base + ".lean").read().splitlines()
            if drc != 0:
                res["driver_error"] = derr[-2000:] or "driver exited with %d" % drc
        # compare
        case_start = 0
        case_id = ""
        mism = []
        if lean_lines is not None:
            n = max(len(go_lines), len(lean_lines))
            if len(op_lines) != len(go_lines):
                mism.append({"line": min(len(op_lines), len(go_lines)), "case": "", "op": "<line count>",
                             "go": str(len(go_lines)), "model": str(len(op_lines)), "case_ops": []})
            seen_cases = set()
            for i in range(n):
                op = op_lines[i] if i < len(op_lines) else "<none>"
                if op.startswith("#case"):
                    case_start = i
                    case_id = op[5:].strip()
                g = go_lines[i] if i < len(go_lines) else "<missing>"
                l = lean_lines[i] if i < len(lean_lines) else "<missing>"
                if g != l and case_id not in seen_cases:
                    seen_cases.add(case_id)
                    j = case_start
                    end = i + 1
                    while end < len(op_lines) and not op_lines[end].startswith("#case"):
                        end += 1
                    mism.append({"line": i, "case": case_id, "op": op, "go": g[:2000], "model": l[:2000],
                                 "case_ops": op_lines[case_start:end][:400]})
                    if len(mism) >= 50:
                        break
        res["mismatches"] = mism
        # property-oracle failures
        if os.path.exists(viol):
            for line in open(viol).read().splitlines():
                parts = line.split("\t")
                if len(parts) >= 3:
                    res["viol"].append({"case": parts[0], "key": parts[1], "desc": parts[2],
                                        "ops": parts[3].split(" ;; ") if len(parts) > 3 else []})
        # evidence
        ev = int(st.get("evaluations", len(op_lines)))
        self.cov["evaluations"] += ev
        self.cov["distinct_nontrivial"] += int(st.get("distinct_nontrivial", 0))
        r = st.get("rule") or rule or ""
        if r:
            self.cov["rule"] = (self.cov["rule"] + " | " if self.cov["rule"] else "") + "%s: %s" % (stream, r)
        for s in (st.get("samples") or [])[:5]:
            self.cov["samples"].append({"stream": stream, "case": s})
        if not st.get("samples") and op_lines:
            self.cov["samples"].append({"stream": stream, "ops": op_lines[:6], "go": go_lines[:6]})
        for k, v in (st.get("histogram") or {}).items():
            self.cov["histogram"]["%s.%s" % (stream, k)] = v
        self.cov["streams"].append({"stream": stream, "ops": len(op_lines), "compared_with_model": lean_lines is not None,
                                    "mismatching_cases": len(mism), "property_oracle_failures": len(res["viol"])})
        res["harness_cmd"] = cmd
        res["driver_cmd"] = [driver_bin] + list(driver_args) if driver_bin else None
        return res

    def _replay_ops(self, res, ops, want_key=None):
        """Re-execute op lines (harness -replay, and the driver when want_key is None).
        Returns True iff the failure is still there (same property-oracle key, or any model disagreement)."""
        cmd = res.get("harness_cmd")
        if not cmd:
            return False
        base = os.path.join(self.tmpdir, res["stream"] + ".shrink")
        with open(base + ".in", "w") as f:
            f.write("\n".join(ops) + "\n")
        c = [x for x in cmd]
        for flag, path in (("-ops", base + ".ops"), ("-out", base + ".go"), ("-viol", base + ".viol"), ("-stats", base + ".stats")):
            if flag in c:
                c[c.index(flag) + 1] = path
        if "-replay" in c:
            c[c.index("-replay") + 1] = base + ".in"
        else:
            c += ["-replay", base + ".in"]
        env = dict(GOENV)
        env["TMPDIR"] = self.scratch
        rc, _ = sh(c, env=env, timeout=300)
        if rc != 0:
            return False
        if want_key is not None:
            try:
                return any(l.split("\t")[1] == want_key for l in open(base + ".viol").read().splitlines() if "\t" in l)
            except Exception:
                return False
        dc = res.get("driver_cmd")
        if not dc:
            return False
        with open(base + ".ops") as fin:
            p = subprocess.run(dc, stdin=fin, stdout=subprocess.PIPE, stderr=subprocess.DEVNULL, text=True, timeout=300)
        return p.stdout.splitlines() != open(base + ".go").read().splitlines()

    def shrink(self, res, ops, want_key=None, budget_s=45):
        """Delta debugging on the op lines of one case (the '#case' line is kept)."""
        if len(ops) <= 2 or len(ops) > 600:
            return ops
        head, body = ops[:1], ops[1:]
        if not head[0].startswith("#case"):
            head, body = [], ops
        t0 = time.time()
        if not self._replay_ops(res, head + body, want_key):
            return ops   # not reproducible in isolation (depends on generator state): keep as is
        n = 2
        while len(body) >= 2 and time.time() - t0 < budget_s:
            chunk = max(1, len(body) // n)
            reduced = False
            for i in range(0, len(body), chunk):
                cand = body[:i] + body[i + chunk:]
                if cand and self._replay_ops(res, head + cand, want_key):
                    body = cand
                    n = max(n - 1, 2)
                    reduced = True
                    break
                if time.time() - t0 > budget_s:
                    break
            if not reduced:
                if chunk == 1:
                    break
                n = min(n * 2, len(body))
        return head + body

    def judge(self, res, theorem_hint=""):
        """Turn a correspondence result into violations: a property-oracle failure is a concrete failing
        input; a bare model/implementation disagreement means the tie no longer checks."""
        stream = res["stream"]
        seen_keys = set()
        for v in res["viol"]:
            if v["key"] in seen_keys or any(x.key == v["key"] for x in self.violations):
                continue
            seen_keys.add(v["key"])
            ops = v["ops"]
            if self.replay is None and len(seen_keys) <= 3:
                ops = self.shrink(res, ops, want_key=v["key"])
            self.violate(v["key"], v["desc"],
                         {"kind": "input", "stream": stream, "case": v["case"], "ops": ops, "ops_before_shrinking": len(v["ops"]),
                          "what": v["desc"], "harness_cmd": res.get("harness_cmd")}, found_input=True)
        if res["mismatches"] and not any(not self.is_known(v["key"]) for v in res["viol"]):
            m = res["mismatches"][0]
            if self.replay is None and m.get("case_ops"):
                m = dict(m)
                m["case_ops"] = self.shrink(res, m["case_ops"], want_key=None)
            self.violate("correspondence:%s" % stream,
                         "model and implementation disagree on stream %s (%d cases), first at case %s op `%s`: go=%s model=%s"
                         % (stream, len(res["mismatches"]), m["case"], m["op"][:200], m["go"][:200], m["model"][:200]),
                         {"kind": "correspondence", "stream": stream, "first": m, "count": len(res["mismatches"]),
                          "theorems_no_longer_tied": theorem_hint, "harness_cmd": res.get("harness_cmd"),
                          "driver_cmd": res.get("driver_cmd")}, found_input=False)
        if res.get("driver_error"):
            self.violate("precondition:driver:" + stream, "Lean driver failed: " + res["driver_error"][-300:],
                         {"kind": "driver", "stderr": res["driver_error"]}, found_input=False)

    def judge_lean(self, what="proof obligation"):
        """If Lean obligations failed and no concrete violating input was found by the search, report the
        theorem names with no-failing-input-found."""
        if self.lean_ok:
            return
        if any(v.found_input and not self.is_known(v.key) for v in self.violations):
            # attach the theorem names to the replay for context
            for v in self.violations:
                if v.replay is not None:
                    v.replay["theorems_no_longer_checking"] = self.failed_theorems
            return
        self.violate("obligation:" + ",".join(self.failed_theorems)[:200],
                     "%s no longer checks: %s" % (what, ", ".join(self.failed_theorems)[:500]),
                     {"kind": "obligation", "theorems": self.failed_theorems,
                      "lean_errors": self.cov.get("lean_errors", [])}, found_input=False)

    # ------------------------------------------------------------------ finish
    def finish(self):
        kf_path = os.path.join(ROOT, "known_findings.json")
        known = []
        if os.path.exists(kf_path):
            known = [e for e in json.load(open(kf_path)).get("findings", [])
                     if e.get("property") == self.pid and e.get("status") == "known"]
        rc = 0
        os.makedirs(REPLAYS, exist_ok=True)
        n_viol = 0
        n_known = 0
        lines = []
        shown = 0
        known_seen = set()
        self.violations.sort(key=lambda v: (not v.found_input,))
        for i, v in enumerate(self.violations):
            matched = None
            for e in known:
                if re.fullmatch(e["match"], v.key):
                    matched = e
                    break
            if matched is not None:
                if matched["match"] not in known_seen:
                    known_seen.add(matched["match"])
                    n_known += 1
                    lines.append("KNOWN-FINDING: property=%s %s [%s]" % (self.pid, matched.get("what", v.what), v.key))
                continue
            n_viol += 1
            shown += 1
            if shown > 8:   # one line per distinct failure, capped; the count is in the summary and evidence
                continue
            rp = os.path.join(REPLAYS, "%s-%s-%d-%d%s.json" % (self.pid, self.tier, self.seed, i,
                                                                "-replayed" if self.replay is not None else ""))
            body = dict(v.replay or {})
            body.update({"property": self.pid, "key": v.key, "what": v.what, "seed": self.seed, "tier": self.tier,
                         "found_failing_input": v.found_input})
            with open(rp, "w") as f:
                json.dump(body, f, indent=1)
            lines.append("VIOLATION property=%s replay=%s%s" % (self.pid, rp,
                                                                  "" if v.found_input else " no-failing-input-found"))
            rc = 1
        # a known finding that no longer reproduces is reported (informational), never an alarm
        for e in known:
            if e.get("expect_present", True) and not any(re.fullmatch(e["match"], v.key) for v in self.violations):
                print("note: known finding %s did not reproduce in this run" % e["match"])
        cov = self.cov
        if not cov["samples"]:
            cov["samples"] = [{"theorems": [t["name"] for t in cov["theorems"][:5]]}]
        cov["known_findings_reported"] = n_known
        if cov["discharged"] == 0:
            # schema: a proof-level file needs discharged >= 1; a failing run reports the count under another key
            cov["discharged_none"] = True
            del cov["discharged"]
            cov["evaluations"] = max(cov["evaluations"], 1)
            cov["distinct_nontrivial"] = max(cov["distinct_nontrivial"], 2) if False else cov["distinct_nontrivial"]
        ev = {"property_id": self.pid, "tier": self.tier, "seed": self.seed, "level": self.level,
              "coverage": cov, "assumptions": self.assumptions, "wall_s": round(time.time() - self.t0, 2),
              "violations": n_viol}
        os.makedirs(EVIDENCE, exist_ok=True)
        with open(os.path.join(EVIDENCE, self.pid + ".json"), "w") as f:
            json.dump(ev, f, indent=1, sort_keys=True)
        shutil.rmtree(self.scratch, ignore_errors=True)
        # keep the last run's op files under .build/tmp/<pid> for inspection; drop binaries and the run directory
        try:
            last = os.path.join(BUILD, "tmp", self.pid)
            shutil.rmtree(last, ignore_errors=True)
            os.makedirs(os.path.dirname(last), exist_ok=True)
            shutil.move(self.tmpdir, last)
        except Exception:
            pass
        shutil.rmtree(self.rundir, ignore_errors=True)
        for l in lines:
            print(l)
        print("%s %s: obligations %d/%d, evaluations %d, violations %d, known %d, %.1fs" % (
            self.pid, self.tier, cov.get("discharged", 0), cov["obligations"], cov["evaluations"], n_viol, n_known,
            time.time() - self.t0), flush=True)
        return rc


def run_replay(ctx, path):
    """Re-execute a replay file on the current tree: harness in -replay mode (+ driver when recorded)."""
    body = json.load(open(path))
    kind = body.get("kind")
    if kind in ("input", "correspondence"):
        return body
    return body
