package main

// Mode `genesisguards` (C19, static tie): for every header-sync router the SyncGenesisHeader method is scanned for
// the once-only guard: an `if` that returns an error whose text says the genesis is already there, placed before
// the first call that stores something (a call whose callee name starts with put/store/update/Put/Store/Update or
// a direct CacheDB Put). Routers that cannot be driven in the sandbox (harmony) are covered by this scan only.

import (
	"encoding/json"
	"go/ast"
	"go/token"
	"os"
	"regexp"
	"sort"
	"strings"
)

type guardFact struct {
	Router     string `json:"router"`
	Pos        string `json:"pos"`
	Guard      string `json:"guard"` // position and text of the guard, "" if none
	FirstWrite string `json:"first_write"`
	OK         bool   `json:"ok"`
	Why        string `json:"why"`
}

var alreadyRe = regexp.MustCompile(`(?i)(had|has) been (initialized|synced)|already (set|initialized|exist)`)
var writerRe = regexp.MustCompile(`^(put|store|update|Put|Store|Update)`)

func genesisGuards(a *an, tinfos []*pkgInfo) {
	pre := a.l.modpath + "/native/service/header_sync/"
	var facts []guardFact
	for _, pi := range tinfos {
		if !strings.HasPrefix(pi.Path, pre) || pi.Path == pre+"common" {
			continue
		}
		for _, f := range pi.Files {
			for _, d := range f.Decls {
				fd, ok := d.(*ast.FuncDecl)
				if !ok || fd.Recv == nil || fd.Name.Name != "SyncGenesisHeader" || fd.Body == nil {
					continue
				}
				recv := a.src(fd.Recv.List[0].Type)
				fact := guardFact{Router: strings.TrimPrefix(pi.Path, pre) + ":" + strings.TrimPrefix(recv, "*"), Pos: a.pos(fd.Pos())}
				var guardPos, writePos token.Pos
				ast.Inspect(fd.Body, func(n ast.Node) bool {
					switch x := n.(type) {
					case *ast.IfStmt:
						if guardPos == token.NoPos {
							for _, st := range x.Body.List {
								if r, ok := st.(*ast.ReturnStmt); ok && alreadyRe.MatchString(a.src(r)) {
									guardPos = x.Pos()
									fact.Guard = a.pos(x.Pos()) + ": if " + a.src(x.Cond) + " { " + a.src(r) + " }"
								}
							}
							// `if <not installed> { store } else { return already-initialized error }`: the two branches
							// exclude each other, the guard counts from the `if`
							if eb, ok := x.Else.(*ast.BlockStmt); ok && guardPos == token.NoPos {
								for _, st := range eb.List {
									if r, ok := st.(*ast.ReturnStmt); ok && alreadyRe.MatchString(a.src(r)) {
										guardPos = x.Pos()
										fact.Guard = a.pos(x.Pos()) + ": if " + a.src(x.Cond) + " { .. } else { " + a.src(r) + " }"
									}
								}
							}
						}
					case *ast.CallExpr:
						name := ""
						switch fn := x.Fun.(type) {
						case *ast.Ident:
							name = fn.Name
						case *ast.SelectorExpr:
							name = fn.Sel.Name
						}
						if writePos == token.NoPos && writerRe.MatchString(name) {
							writePos = x.Pos()
							fact.FirstWrite = a.pos(x.Pos()) + ": " + name
						}
					}
					return true
				})
				switch {
				case guardPos == token.NoPos:
					fact.Why = "no statement returns an `already initialized` error"
				case writePos != token.NoPos && writePos < guardPos:
					fact.Why = "a storing call precedes the guard"
				default:
					fact.OK = true
					fact.Why = "guard before the first storing call"
				}
				facts = append(facts, fact)
			}
		}
	}
	sort.Slice(facts, func(i, j int) bool { return facts[i].Router < facts[j].Router })
	b, _ := json.MarshalIndent(map[string]interface{}{"installers": facts}, "", " ")
	os.Stdout.Write(b)
	os.Stdout.WriteString("\n")
}
