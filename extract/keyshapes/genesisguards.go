package main

// Mode `genesisguards` (C19, static tie): for every header-sync router the SyncGenesisHeader method is scanned for
// the once-only guard: an `if` that returns an error whose text says the genesis is already there, placed before
// the first call that stores something (a call whose callee name starts with put/store/update/Put/Store/Update or
// a direct CacheDB Put). Routers that cannot be driven in the sandbox (harmony) are covered by this scan only.

import (
	"encoding/json"
	"go/ast"
	"go/token"
	"os"
	"regexp"
	"sort"
	"strings"
)

type guardFact struct {
	Router     string `json:"router"`
	Pos        string `json:"pos"`
	Guard      string `json:"guard"` // position and text of the guard, "" if none
	FirstWrite string `json:"first_write"`
	// Subject: what the guard tests — `raw` (the marker record itself, as read from the store, compared with nil),
	// `decoded` (a value decoded from the record; `decoded-error-ignored` when a failing read counts as absent),
	// `derived` (a number or length computed from stored data: absent and zero/empty are confused)
	Subject string `json:"guard_subject"`
	OK      bool   `json:"ok"`
	Why     string `json:"why"`
}

var alreadyRe = regexp.MustCompile(`(?i)(had|has) been (initialized|synced)|already (set|initialized|exist)`)
var writerRe = regexp.MustCompile(`^(put|store|update|Put|Store|Update)`)

func genesisGuards(a *an, tinfos []*pkgInfo) {
	pre := a.l.modpath + "/native/service/header_sync/"
	var facts []guardFact
	for _, pi := range tinfos {
		if !strings.HasPrefix(pi.Path, pre) || pi.Path == pre+"common" {
			continue
		}
		for _, f := range pi.Files {
			for _, d := range f.Decls {
				fd, ok := d.(*ast.FuncDecl)
				if !ok || fd.Recv == nil || fd.Name.Name != "SyncGenesisHeader" || fd.Body == nil {
					continue
				}
				recv := a.src(fd.Recv.List[0].Type)
				fact := guardFact{Router: strings.TrimPrefix(pi.Path, pre) + ":" + strings.TrimPrefix(recv, "*"), Pos: a.pos(fd.Pos())}
				var guardPos, writePos token.Pos
				var guardCond ast.Expr
				ast.Inspect(fd.Body, func(n ast.Node) bool {
					switch x := n.(type) {
					case *ast.IfStmt:
						if guardPos == token.NoPos {
							for _, st := range x.Body.List {
								if r, ok := st.(*ast.ReturnStmt); ok && alreadyRe.MatchString(a.src(r)) {
									guardPos = x.Pos()
									guardCond = x.Cond
									if as, ok := x.Init.(*ast.AssignStmt); ok { // `if v, err := f(); cond`
										guardCond = &ast.BinaryExpr{X: x.Cond, Op: token.LAND, Y: &ast.BasicLit{Kind: token.STRING, Value: "\"init: " + a.src(as) + "\""}}
									}
									fact.Guard = a.pos(x.Pos()) + ": if " + a.src(x.Cond) + " { " + a.src(r) + " }"
								}
							}
							// `if <not installed> { store } else { return already-initialized error }`: the two branches
							// exclude each other, the guard counts from the `if`
							if eb, ok := x.Else.(*ast.BlockStmt); ok && guardPos == token.NoPos {
								for _, st := range eb.List {
									if r, ok := st.(*ast.ReturnStmt); ok && alreadyRe.MatchString(a.src(r)) {
										guardPos = x.Pos()
										guardCond = x.Cond
										if as, ok := x.Init.(*ast.AssignStmt); ok {
											guardCond = &ast.BinaryExpr{X: x.Cond, Op: token.LAND, Y: &ast.BasicLit{Kind: token.STRING, Value: "\"init: " + a.src(as) + "\""}}
										}
										fact.Guard = a.pos(x.Pos()) + ": if " + a.src(x.Cond) + " { .. } else { " + a.src(r) + " }"
									}
								}
							}
						}
					case *ast.CallExpr:
						name := ""
						switch fn := x.Fun.(type) {
						case *ast.Ident:
							name = fn.Name
						case *ast.SelectorExpr:
							name = fn.Sel.Name
						}
						if writePos == token.NoPos && writerRe.MatchString(name) {
							writePos = x.Pos()
							fact.FirstWrite = a.pos(x.Pos()) + ": " + name
						}
					}
					return true
				})
				if guardPos != token.NoPos {
					fact.Subject = guardSubject(a, fd, guardCond)
				}
				switch {
				case guardPos == token.NoPos:
					fact.Why = "no statement returns an `already initialized` error"
				case fact.Subject == "derived":
					fact.Why = "the guard tests a derived value (`" + a.src(guardCond) + "`), not the presence of the marker record"
				case writePos != token.NoPos && writePos < guardPos:
					fact.Why = "a storing call precedes the guard"
				default:
					fact.OK = true
					fact.Why = "guard before the first storing call"
				}
				facts = append(facts, fact)
			}
		}
	}
	sort.Slice(facts, func(i, j int) bool { return facts[i].Router < facts[j].Router })
	b, _ := json.MarshalIndent(map[string]interface{}{"installers": facts}, "", " ")
	os.Stdout.Write(b)
	os.Stdout.WriteString("\n")
}

var derivedRe = regexp.MustCompile(`[^!=<>]([<>]=?)[^=]|len\(|\.Cmp\(|\.Sign\(`)

// guardSubject classifies what the once-only guard looks at.
func guardSubject(a *an, fd *ast.FuncDecl, cond ast.Expr) string {
	text := a.src(cond)
	if derivedRe.MatchString(text) {
		return "derived"
	}
	// identifiers compared with nil in the condition
	var subjects []string
	ast.Inspect(cond, func(n ast.Node) bool {
		if be, ok := n.(*ast.BinaryExpr); ok && (be.Op == token.NEQ || be.Op == token.EQL) {
			if id, ok := be.X.(*ast.Ident); ok && a.src(be.Y) == "nil" && id.Name != "err" {
				subjects = append(subjects, id.Name)
			}
		}
		if id, ok := n.(*ast.Ident); ok && id.Name != "err" && id.Name != "nil" && len(subjects) == 0 {
			if _, isBin := cond.(*ast.Ident); isBin { // `if stored {`
				subjects = append(subjects, id.Name)
			}
		}
		return true
	})
	raw, ignored := false, strings.Contains(text, "err == nil")
	ast.Inspect(fd.Body, func(n ast.Node) bool {
		as, ok := n.(*ast.AssignStmt)
		if !ok || len(as.Rhs) != 1 {
			return true
		}
		for i, lh := range as.Lhs {
			id, ok := lh.(*ast.Ident)
			if !ok {
				continue
			}
			for _, sname := range subjects {
				if id.Name == sname && i == 0 {
					if strings.Contains(a.src(as.Rhs[0]), "GetCacheDB().Get(") {
						raw = true
					}
					if len(as.Lhs) == 2 {
						if e, ok := as.Lhs[1].(*ast.Ident); ok && e.Name == "_" {
							ignored = true
						}
					}
				}
			}
		}
		return true
	})
	switch {
	case raw:
		return "raw"
	case ignored:
		return "decoded-error-ignored"
	}
	return "decoded"
}
