// keyshapes: reads every storage-key construction of the native contracts of polynetwork/poly from source and
// prints, per contract, the table of key shapes as Lean definitions (Poly/Generated/KeyShapes.lean) or JSON.
//
//	keyshapes <repo> lean|json [annotations.json]
//
// A key construction site is a call utils.ConcatKey(contract, f1, ..., fn). Each field becomes a segment:
//
//	lit bytes   []byte(C) with C a string constant (or a package-level string variable initialised by a literal
//	            and never assigned again)
//	fixed n     utils.GetUint64Bytes(..) -> 8, utils.GetUint32Bytes(..) -> 4, x[:] with x of type [n]byte
//	            (common.Address -> 20, common.Uint256 -> 32, sha256.Sum256 result -> 32, ...), and the byte
//	            accessors listed in fixedMethods; a local variable assigned exactly such an expression
//	var         anything else (conservative). A reviewed annotation may refine one var field to fixed n; it must
//	            cite a source line (file + text) that establishes the length, and the translator refuses to run
//	            when the cited text is no longer there.
//
// Besides the tables the translator reports (a) every CacheDB Get/Put/Delete/NewIterator call (also through
// helper functions that pass a key parameter on) whose key does not come from ConcatKey, (b) every package
// under native/ that imports a ledger store package directly, (c) the data-entry prefix constants.
package main

import (
	"bytes"
	"encoding/hex"
	"encoding/json"
	"fmt"
	"go/ast"
	"go/constant"
	"go/printer"
	"go/token"
	"go/types"
	"os"
	"path/filepath"
	"sort"
	"strings"
)

func fail(f string, a ...interface{}) {
	fmt.Fprintf(os.Stderr, "keyshapes: "+f+"\n", a...)
	os.Exit(1)
}

type Seg struct {
	Kind string `json:"kind"` // lit | fixed | var
	Lit  string `json:"lit,omitempty"`
	N    int    `json:"n,omitempty"`
	Name string `json:"name,omitempty"` // constant name of a literal
	Src  string `json:"src"`
	Why  string `json:"why,omitempty"`
	// Derived is set when the field is not one value written raw: a variable assigned in several different ways
	// (e.g. `id := x; if len(id) > 32 { id = hash(x)[:] }`) or a sub-slice with bounds (truncation). Such a field
	// maps different logical parameters to the same bytes, which the shape theory (field bytes) cannot see.
	Derived string `json:"derived,omitempty"`
	pidx    int    // 1 + index of the enclosing function's parameter this field is (a conversion of); 0 = none
}

func (s Seg) key() string {
	switch s.Kind {
	case "lit":
		return "L" + s.Lit
	case "fixed":
		return fmt.Sprintf("F%d", s.N)
	}
	return "V"
}

type Site struct {
	Pos      string `json:"pos"`
	File     string `json:"file"`
	Func     string `json:"func"`
	Contract string `json:"contract"`
	Segs     []Seg  `json:"segs"`
	Src      string `json:"src"`
	Used     bool   `json:"reaches_store"`
}

type Shape struct {
	Segs  []Seg    `json:"segs"`
	Sites []string `json:"sites"`
	Names []string `json:"names"`
	Funcs []string `json:"funcs"`
}

type Annotation struct {
	File     string `json:"file"`
	Func     string `json:"func"`
	Expr     string `json:"expr"`
	Width    int    `json:"width"`
	CiteFile string `json:"cite_file"`
	CiteText string `json:"cite_text"`
	Reason   string `json:"reason"`
	used     bool
}

type Annotations struct {
	Widths       []*Annotation `json:"widths"`
	UnresolvedOK []struct {
		File, Func, Reason string
	} `json:"unresolved_ok"`
	DerivedOK []struct {
		File, Func, Reason string
	} `json:"derived_ok"`
}

type an struct {
	l        *loader
	repo     string
	utilsPkg string
	storPkg  string
	sites    map[token.Pos]*Site
	order    []token.Pos
	ann      Annotations
	funcDecl map[types.Object]*ast.FuncDecl
	funcPkg  map[types.Object]*pkgInfo
	mutated  map[types.Object]bool
	notes    []string
	special  map[token.Pos][]token.Pos // a specialised site -> its variants
	all      []*pkgInfo
}

func (a *an) src(n ast.Node) string {
	var b bytes.Buffer
	printer.Fprint(&b, a.l.fset, n)
	return strings.Join(strings.Fields(b.String()), " ")
}

func (a *an) rel(p token.Pos) (string, int) {
	ps := a.l.fset.Position(p)
	r, err := filepath.Rel(a.repo, ps.Filename)
	if err != nil {
		r = ps.Filename
	}
	return r, ps.Line
}

func (a *an) pos(p token.Pos) string {
	f, l := a.rel(p)
	return fmt.Sprintf("%s:%d", f, l)
}

// fixed-width byte accessors: receiver type (full name) -> method -> must be an [n]byte type; width = n
var fixedMethods = map[string]map[string]bool{
	"github.com/polynetwork/poly/common.Uint256":                 {"ToArray": true},
	"github.com/ontio/ontology/common.Uint256":                   {"ToArray": true},
	"github.com/ethereum/go-ethereum/common.Hash":                {"Bytes": true},
	"github.com/ethereum/go-ethereum/common.Address":             {"Bytes": true},
	"github.com/btcsuite/btcd/chaincfg/chainhash.Hash":           {"CloneBytes": true},
	"github.com/polynetwork/poly/common.Address":                 {},
	"github.com/starcoinorg/starcoin-go/types.HashValue":         {},
	"github.com/Zilliqa/gozilliqa-sdk/core.TxBlockOrDsBlockHash": {},
}

func arrayLen(t types.Type) (int, bool) {
	if t == nil {
		return 0, false
	}
	if p, ok := t.Underlying().(*types.Pointer); ok {
		t = p.Elem()
	}
	if arr, ok := t.Underlying().(*types.Array); ok {
		if b, ok := arr.Elem().Underlying().(*types.Basic); ok && (b.Kind() == types.Uint8 || b.Kind() == types.Byte) {
			return int(arr.Len()), true
		}
	}
	return 0, false
}

func isByteSlice(t types.Type) bool {
	if t == nil {
		return false
	}
	if s, ok := t.Underlying().(*types.Slice); ok {
		if b, ok := s.Elem().Underlying().(*types.Basic); ok && (b.Kind() == types.Uint8 || b.Kind() == types.Byte) {
			return true
		}
	}
	return false
}

// assignments collects the right-hand sides assigned to obj inside fn; opaque when some assignment cannot be
// attributed to a single expression (multi-value call, range, op-assign, address taken).
func (a *an) assignments(pi *pkgInfo, fn *ast.FuncDecl, obj types.Object) (rhs []ast.Expr, opaque bool) {
	if fn == nil || fn.Body == nil {
		return nil, true
	}
	is := func(e ast.Expr) bool {
		id, ok := e.(*ast.Ident)
		if !ok {
			return false
		}
		return pi.Info.Defs[id] == obj || pi.Info.Uses[id] == obj
	}
	ast.Inspect(fn.Body, func(n ast.Node) bool {
		switch s := n.(type) {
		case *ast.AssignStmt:
			for i, lh := range s.Lhs {
				if is(lh) {
					if len(s.Lhs) == len(s.Rhs) && (s.Tok == token.ASSIGN || s.Tok == token.DEFINE) {
						rhs = append(rhs, s.Rhs[i])
					} else {
						opaque = true
					}
				}
			}
		case *ast.ValueSpec:
			for i, nm := range s.Names {
				if pi.Info.Defs[nm] == obj {
					if len(s.Values) == len(s.Names) {
						rhs = append(rhs, s.Values[i])
					} else if len(s.Values) != 0 {
						opaque = true
					}
				}
			}
		case *ast.RangeStmt:
			if (s.Key != nil && is(s.Key)) || (s.Value != nil && is(s.Value)) {
				opaque = true
			}
		case *ast.IncDecStmt:
			if is(s.X) {
				opaque = true
			}
		case *ast.UnaryExpr:
			if s.Op == token.AND && is(s.X) {
				opaque = true
			}
		}
		return true
	})
	return
}

func (a *an) paramIndex(pi *pkgInfo, fn *ast.FuncDecl, obj types.Object) int {
	if fn == nil || fn.Type.Params == nil {
		return -1
	}
	i := 0
	for _, f := range fn.Type.Params.List {
		if len(f.Names) == 0 {
			i++
			continue
		}
		for _, nm := range f.Names {
			if pi.Info.Defs[nm] == obj {
				return i
			}
			i++
		}
	}
	return -1
}

func (a *an) callee(pi *pkgInfo, call *ast.CallExpr) types.Object {
	switch f := call.Fun.(type) {
	case *ast.Ident:
		return pi.Info.Uses[f]
	case *ast.SelectorExpr:
		if sel, ok := pi.Info.Selections[f]; ok {
			return sel.Obj()
		}
		return pi.Info.Uses[f.Sel]
	case *ast.ParenExpr:
		return a.callee(pi, &ast.CallExpr{Fun: f.X})
	}
	return nil
}

func fullName(o types.Object) string {
	if f, ok := o.(*types.Func); ok {
		return f.FullName()
	}
	if o == nil {
		return ""
	}
	if o.Pkg() != nil {
		return o.Pkg().Path() + "." + o.Name()
	}
	return o.Name()
}

// literal value of a string expression: constant, or an immutable package-level string variable
func (a *an) stringLit(pi *pkgInfo, e ast.Expr) (val string, name string, ok bool) {
	var obj types.Object
	switch x := e.(type) {
	case *ast.Ident:
		obj = pi.Info.Uses[x]
	case *ast.SelectorExpr:
		obj = pi.Info.Uses[x.Sel]
	}
	if tv, found := pi.Info.Types[e]; found && tv.Value != nil && tv.Value.Kind() == constant.String {
		if c, isConst := obj.(*types.Const); isConst && c.Pkg() != nil {
			return constant.StringVal(tv.Value), strings.TrimPrefix(c.Pkg().Path(), a.l.modpath+"/") + "." + c.Name(), true
		}
		return constant.StringVal(tv.Value), a.src(e), true
	}
	v, isVar := obj.(*types.Var)
	if !isVar || v.Pkg() == nil || v.Parent() != v.Pkg().Scope() {
		return "", "", false
	}
	if a.mutated[obj] {
		return "", "", false
	}
	dp := a.l.infos[v.Pkg().Path()]
	if dp == nil {
		return "", "", false
	}
	for _, f := range dp.Files {
		for _, d := range f.Decls {
			gd, ok := d.(*ast.GenDecl)
			if !ok || gd.Tok != token.VAR {
				continue
			}
			for _, sp := range gd.Specs {
				vs := sp.(*ast.ValueSpec)
				for i, nm := range vs.Names {
					if dp.Info.Defs[nm] == obj && len(vs.Values) == len(vs.Names) {
						if tv, found := dp.Info.Types[vs.Values[i]]; found && tv.Value != nil && tv.Value.Kind() == constant.String {
							return constant.StringVal(tv.Value), strings.TrimPrefix(v.Pkg().Path(), a.l.modpath+"/") + "." + v.Name() + " (package variable, never reassigned)", true
						}
					}
				}
			}
		}
	}
	return "", "", false
}

func (a *an) annotate(pi *pkgInfo, fn *ast.FuncDecl, e ast.Expr, s Seg) Seg {
	if s.Kind != "var" {
		return s
	}
	file, _ := a.rel(e.Pos())
	fname := ""
	if fn != nil {
		fname = fn.Name.Name
	}
	for _, w := range a.ann.Widths {
		if w.File == file && w.Func == fname && w.Expr == s.Src {
			w.used = true
			return Seg{Kind: "fixed", N: w.Width, Src: s.Src, Why: "annotation: " + w.Reason + " [" + w.CiteFile + ": " + w.CiteText + "]"}
		}
	}
	return s
}

func (a *an) classify(pi *pkgInfo, fn *ast.FuncDecl, e ast.Expr, depth int) Seg {
	src := a.src(e)
	v := Seg{Kind: "var", Src: src}
	if depth > 6 {
		return v
	}
	switch x := e.(type) {
	case *ast.ParenExpr:
		return a.classify(pi, fn, x.X, depth+1)
	case *ast.CallExpr:
		if tv, ok := pi.Info.Types[x.Fun]; ok && tv.IsType() {
			if isByteSlice(tv.Type) && len(x.Args) == 1 {
				if val, name, ok := a.stringLit(pi, x.Args[0]); ok {
					return Seg{Kind: "lit", Lit: hex.EncodeToString([]byte(val)), Name: name, Src: src}
				}
				if isByteSlice(pi.Info.Types[x.Args[0]].Type) {
					s := a.classify(pi, fn, x.Args[0], depth+1)
					s.Src = src
					return s
				}
				v.Why = "conversion of a non-constant string"
				if id, ok := x.Args[0].(*ast.Ident); ok {
					if i := a.paramIndex(pi, fn, pi.Info.Uses[id]); i >= 0 {
						v.pidx = i + 1
					}
				}
			}
			return v
		}
		obj := a.callee(pi, x)
		switch fullName(obj) {
		case a.utilsPkg + ".GetUint64Bytes":
			return Seg{Kind: "fixed", N: 8, Src: src}
		case a.utilsPkg + ".GetUint32Bytes":
			return Seg{Kind: "fixed", N: 4, Src: src}
		}
		if sel, ok := x.Fun.(*ast.SelectorExpr); ok {
			if s, ok := pi.Info.Selections[sel]; ok && s.Kind() == types.MethodVal {
				recv := s.Recv()
				if p, ok := recv.(*types.Pointer); ok {
					recv = p.Elem()
				}
				if named, ok := recv.(*types.Named); ok && named.Obj().Pkg() != nil {
					tn := named.Obj().Pkg().Path() + "." + named.Obj().Name()
					if ms, ok := fixedMethods[tn]; ok && ms[sel.Sel.Name] {
						if n, ok := arrayLen(named); ok {
							return Seg{Kind: "fixed", N: n, Src: src, Why: tn + "." + sel.Sel.Name}
						}
					}
				}
			}
		}
		v.Why = "call " + fullName(obj)
		return v
	case *ast.SliceExpr:
		if x.Low == nil && x.High == nil && !x.Slice3 {
			t := pi.Info.Types[x.X].Type
			if n, ok := arrayLen(t); ok {
				return Seg{Kind: "fixed", N: n, Src: src, Why: "array " + types.TypeString(t, nil)}
			}
			if isByteSlice(t) {
				s := a.classify(pi, fn, x.X, depth+1)
				s.Src = src
				return s
			}
		}
		if x.Low != nil || x.High != nil {
			v.Derived = "sub-slice with bounds (truncation): " + src
		}
		return v
	case *ast.Ident:
		obj := pi.Info.Uses[x]
		vr, ok := obj.(*types.Var)
		if !ok {
			return v
		}
		if vr.Pkg() != nil && vr.Parent() == vr.Pkg().Scope() {
			v.Why = "package variable"
			return v
		}
		if i := a.paramIndex(pi, fn, obj); i >= 0 {
			v.Why = "parameter"
			v.pidx = i + 1
			return v
		}
		rhs, opaque := a.assignments(pi, fn, obj)
		if opaque || len(rhs) == 0 {
			v.Why = "local variable without a single defining expression"
			return v
		}
		first := a.classify(pi, fn, rhs[0], depth+1)
		for _, r := range rhs[1:] {
			o := a.classify(pi, fn, r, depth+1)
			if o.key() != first.key() || (o.Kind != "lit" && a.src(r) != a.src(rhs[0])) {
				v.Why = "local variable assigned expressions of different shapes"
				v.Derived = fmt.Sprintf("variable %s is assigned in several ways: `%s` and `%s`", x.Name, a.src(rhs[0]), a.src(r))
				return v
			}
			if o.Derived != "" {
				first.Derived = o.Derived
			}
		}
		first.Src = src
		return first
	}
	return v
}

func (a *an) contractOf(pi *pkgInfo, fn *ast.FuncDecl, e ast.Expr, depth int) string {
	if depth > 4 {
		return "?"
	}
	var obj types.Object
	switch x := e.(type) {
	case *ast.Ident:
		obj = pi.Info.Uses[x]
	case *ast.SelectorExpr:
		obj = pi.Info.Uses[x.Sel]
	}
	vr, ok := obj.(*types.Var)
	if !ok {
		return "?"
	}
	if vr.Pkg() != nil && vr.Parent() == vr.Pkg().Scope() {
		if vr.Pkg().Path() == a.utilsPkg && strings.HasSuffix(vr.Name(), "ContractAddress") {
			return strings.TrimSuffix(vr.Name(), "ContractAddress")
		}
		return "?"
	}
	if a.paramIndex(pi, fn, obj) >= 0 {
		return "?param"
	}
	rhs, opaque := a.assignments(pi, fn, obj)
	if opaque || len(rhs) == 0 {
		return "?"
	}
	c := a.contractOf(pi, fn, rhs[0], depth+1)
	for _, r := range rhs[1:] {
		if a.contractOf(pi, fn, r, depth+1) != c {
			return "?"
		}
	}
	return c
}

// callerSegs classifies what every call of fobj in the repository passes as parameter idx. ok is false when some
// call passes something of unknown width (after following the callers' own parameters up to three levels) or
// when there is no call at all.
func (a *an) callerSegs(fobj types.Object, idx int, depth int) (alts []Seg, ok bool) {
	if depth > 3 {
		return nil, false
	}
	ok = true
	n := 0
	add := func(sg Seg) {
		for _, x := range alts {
			if x.key() == sg.key() {
				return
			}
		}
		alts = append(alts, sg)
	}
	for _, pi := range a.all {
		for _, f := range pi.Files {
			for _, d := range f.Decls {
				fd, isFn := d.(*ast.FuncDecl)
				if !isFn || fd.Body == nil {
					continue
				}
				ast.Inspect(fd.Body, func(nd ast.Node) bool {
					call, isCall := nd.(*ast.CallExpr)
					if !isCall || a.callee(pi, call) != fobj {
						return true
					}
					n++
					if idx >= len(call.Args) || call.Ellipsis != token.NoPos {
						ok = false
						return true
					}
					arg := call.Args[idx]
					if val, name, isLit := a.stringLit(pi, arg); isLit {
						add(Seg{Kind: "lit", Lit: hex.EncodeToString([]byte(val)), Name: name, Why: "constant passed by every caller of " + fobj.Name()})
						return true
					}
					sg := a.classify(pi, fd, arg, 0)
					if sg.Kind == "var" && sg.pidx > 0 {
						if up, upOK := a.callerSegs(pi.Info.Defs[fd.Name], sg.pidx-1, depth+1); upOK {
							for _, u := range up {
								add(u)
							}
							return true
						}
					}
					if sg.Kind == "var" {
						ok = false
						return true
					}
					sg.Why = "passed by every caller of " + fobj.Name() + " (" + a.pos(call.Pos()) + ": " + sg.Src + ")"
					add(sg)
					return true
				})
			}
		}
	}
	if n == 0 {
		ok = false
	}
	sort.Slice(alts, func(i, j int) bool { return alts[i].key() < alts[j].key() })
	return
}

type prov struct {
	ok    bool
	sites []token.Pos
	param int
	why   string
}

func (a *an) isConcatKey(pi *pkgInfo, call *ast.CallExpr) bool {
	return fullName(a.callee(pi, call)) == a.utilsPkg+".ConcatKey"
}

// keyProv decides where a key expression handed to the store comes from.
func (a *an) keyProv(pi *pkgInfo, fn *ast.FuncDecl, e ast.Expr, depth int) prov {
	if depth > 6 {
		return prov{param: -1, why: "too deep"}
	}
	switch x := e.(type) {
	case *ast.ParenExpr:
		return a.keyProv(pi, fn, x.X, depth+1)
	case *ast.CallExpr:
		if a.isConcatKey(pi, x) {
			return prov{ok: true, sites: []token.Pos{x.Pos()}, param: -1}
		}
		obj := a.callee(pi, x)
		if fd, ok := a.funcDecl[obj]; ok && fd.Body != nil && fd.Type.Results != nil && len(fd.Type.Results.List) == 1 {
			fp := a.funcPkg[obj]
			res := prov{ok: true, param: -1}
			n := 0
			ast.Inspect(fd.Body, func(nd ast.Node) bool {
				if _, isLit := nd.(*ast.FuncLit); isLit {
					return false
				}
				if r, ok := nd.(*ast.ReturnStmt); ok && len(r.Results) == 1 {
					n++
					p := a.keyProv(fp, fd, r.Results[0], depth+1)
					if !p.ok {
						res.ok = false
						res.why = "helper " + fd.Name.Name + " returns a key not built by ConcatKey"
					}
					res.sites = append(res.sites, p.sites...)
				}
				return true
			})
			if n > 0 && res.ok {
				return res
			}
		}
		return prov{param: -1, why: "result of " + fullName(obj)}
	case *ast.Ident:
		obj := pi.Info.Uses[x]
		if _, ok := obj.(*types.Var); !ok {
			return prov{param: -1, why: "not a variable"}
		}
		if i := a.paramIndex(pi, fn, obj); i >= 0 {
			return prov{param: i}
		}
		rhs, opaque := a.assignments(pi, fn, obj)
		if opaque || len(rhs) == 0 {
			return prov{param: -1, why: "variable " + x.Name + " has no single defining expression"}
		}
		res := prov{ok: true, param: -1}
		for _, r := range rhs {
			p := a.keyProv(pi, fn, r, depth+1)
			if !p.ok {
				return prov{param: -1, why: "variable " + x.Name + ": " + p.why}
			}
			res.sites = append(res.sites, p.sites...)
		}
		return res
	}
	return prov{param: -1, why: "expression " + a.src(e)}
}

type Unresolved struct {
	Pos  string `json:"pos"`
	Func string `json:"func"`
	Call string `json:"call"`
	Why  string `json:"why"`
}

type Output struct {
	Repo      string `json:"repo"`
	Contracts []struct {
		Name   string  `json:"name"`
		Addr   string  `json:"addr"`
		Shapes []Shape `json:"shapes"`
	} `json:"contracts"`
	Sites          []*Site       `json:"sites"`
	Unresolved     []Unresolved  `json:"unresolved_key_sites"`
	StoreSinks     []string      `json:"store_sinks"`
	DirectStore    []string      `json:"direct_store_imports"`
	Prefixes       [][2]string   `json:"data_entry_prefixes"`
	StoragePrefix  string        `json:"storage_prefix"`
	CachePutPrefix []string      `json:"cachedb_put_prefixes"`
	Annotations    []*Annotation `json:"annotations_used"`
	Ambiguous      []Unresolved  `json:"ambiguous_fields"`
	SliceAppends   []string      `json:"package_slice_appends"`
	Notes          []string      `json:"notes"`
	NSites         int           `json:"n_sites"`
	NSinkCalls     int           `json:"n_store_calls"`
}

func main() {
	if len(os.Args) < 3 {
		fail("usage: keyshapes <repo> lean|json|donetx|genesisguards|routerstart [annotations.json]")
	}
	repo, _ := filepath.Abs(os.Args[1])
	mode := os.Args[2]
	l := newLoader(repo)
	a := &an{l: l, repo: repo, sites: map[token.Pos]*Site{}, funcDecl: map[types.Object]*ast.FuncDecl{},
		funcPkg: map[types.Object]*pkgInfo{}, mutated: map[types.Object]bool{}, special: map[token.Pos][]token.Pos{}}
	a.utilsPkg = l.modpath + "/native/service/utils"
	a.storPkg = l.modpath + "/native/storage"
	annPath := filepath.Join(filepath.Dir(os.Args[0]), "annotations.json")
	if len(os.Args) > 3 {
		annPath = os.Args[3]
	}
	if data, err := os.ReadFile(annPath); err == nil {
		if err := json.Unmarshal(data, &a.ann); err != nil {
			fail("bad annotations file %s: %v", annPath, err)
		}
	} else if len(os.Args) > 3 {
		fail("cannot read annotations %s: %v", annPath, err)
	}
	norm := func(s string) string { return strings.Join(strings.Fields(s), " ") }
	for _, w := range a.ann.Widths {
		data, err := os.ReadFile(filepath.Join(repo, w.CiteFile))
		if err != nil || !strings.Contains(norm(string(data)), norm(w.CiteText)) {
			fail("annotation for %s %s `%s`: the cited text `%s` is no longer in %s — review the annotation", w.File, w.Func, w.Expr, w.CiteText, w.CiteFile)
		}
	}

	// target packages: every directory under native/ with non-test Go files
	var targets []string
	filepath.Walk(filepath.Join(repo, "native"), func(p string, info os.FileInfo, err error) error {
		if err != nil || !info.IsDir() {
			return nil
		}
		ents, _ := os.ReadDir(p)
		for _, e := range ents {
			if strings.HasSuffix(e.Name(), ".go") && !strings.HasSuffix(e.Name(), "_test.go") {
				r, _ := filepath.Rel(repo, p)
				targets = append(targets, l.modpath+"/"+filepath.ToSlash(r))
				break
			}
		}
		return nil
	})
	sort.Strings(targets)
	for _, t := range targets {
		l.load(t, 0)
	}
	// every other package of the repository (callers of exported helpers live there)
	filepath.Walk(repo, func(p string, info os.FileInfo, err error) error {
		if err != nil || !info.IsDir() {
			return nil
		}
		b := filepath.Base(p)
		if p != repo && (strings.HasPrefix(b, ".") || strings.HasPrefix(b, "_") || b == "testdata" || b == "vendor" || b == "docs") {
			return filepath.SkipDir
		}
		ents, _ := os.ReadDir(p)
		for _, e := range ents {
			if strings.HasSuffix(e.Name(), ".go") && !strings.HasSuffix(e.Name(), "_test.go") {
				r, _ := filepath.Rel(repo, p)
				if r == "." {
					l.load(l.modpath, 0)
				} else {
					l.load(l.modpath+"/"+filepath.ToSlash(r), 0)
				}
				break
			}
		}
		return nil
	})
	var tinfos []*pkgInfo
	for _, t := range targets {
		if pi := l.infos[t]; pi != nil {
			tinfos = append(tinfos, pi)
		} else {
			fail("package %s could not be loaded", t)
		}
	}
	// function declarations and mutated package variables over all loaded repository packages
	var all []*pkgInfo
	for _, pi := range l.infos {
		all = append(all, pi)
	}
	sort.Slice(all, func(i, j int) bool { return all[i].Path < all[j].Path })
	a.all = all
	for _, pi := range all {
		for _, f := range pi.Files {
			for _, d := range f.Decls {
				if fd, ok := d.(*ast.FuncDecl); ok {
					if o := pi.Info.Defs[fd.Name]; o != nil {
						a.funcDecl[o] = fd
						a.funcPkg[o] = pi
					}
				}
			}
			ast.Inspect(f, func(n ast.Node) bool {
				mark := func(e ast.Expr) {
					var o types.Object
					switch x := e.(type) {
					case *ast.Ident:
						o = pi.Info.Uses[x]
					case *ast.SelectorExpr:
						o = pi.Info.Uses[x.Sel]
					}
					if v, ok := o.(*types.Var); ok && v.Pkg() != nil && v.Parent() == v.Pkg().Scope() {
						a.mutated[o] = true
					}
				}
				switch s := n.(type) {
				case *ast.AssignStmt:
					for _, lh := range s.Lhs {
						mark(lh)
					}
				case *ast.UnaryExpr:
					if s.Op == token.AND {
						mark(s.X)
					}
				case *ast.IncDecStmt:
					mark(s.X)
				}
				return true
			})
		}
	}

	if mode == "donetx" {
		doneTx(a, tinfos)
		return
	}
	if mode == "routerstart" {
		routerStart(a)
		return
	}
	if mode == "genesisguards" {
		genesisGuards(a, tinfos)
		return
	}

	// 1. every ConcatKey call
	for _, pi := range tinfos {
		for _, f := range pi.Files {
			for _, d := range f.Decls {
				fd, ok := d.(*ast.FuncDecl)
				if !ok || fd.Body == nil {
					continue
				}
				ast.Inspect(fd.Body, func(n ast.Node) bool {
					call, ok := n.(*ast.CallExpr)
					if !ok || !a.isConcatKey(pi, call) || len(call.Args) == 0 {
						return true
					}
					file, _ := a.rel(call.Pos())
					s := &Site{Pos: a.pos(call.Pos()), File: file, Func: fd.Name.Name, Src: a.src(call)}
					s.Contract = a.contractOf(pi, fd, call.Args[0], 0)
					if call.Ellipsis != token.NoPos {
						s.Segs = append(s.Segs, Seg{Kind: "var", Src: "variadic spread", Why: "spread argument"})
					}
					for _, arg := range call.Args[1:] {
						s.Segs = append(s.Segs, a.annotate(pi, fd, arg, a.classify(pi, fd, arg, 0)))
					}
					a.sites[call.Pos()] = s
					a.order = append(a.order, call.Pos())
					return true
				})
			}
		}
	}

	// 1b. a field that is (a conversion of) a parameter of the enclosing helper is specialised to what the
	// callers pass, when every call of the helper in the repository passes a constant string or an expression of
	// known fixed width there (putTxos(UTXOS, ..) / putTxos(STXOS, ..); GetHeaderByHash(.., hash.Bytes(), ..)):
	// the site is replaced by one site per distinct value. Calls are searched in every package of the repository.
	{
		var order2 []token.Pos
		extra := token.Pos(-1)
		for _, p := range a.order {
			s := a.sites[p]
			variants := []*Site{s}
			for gi, g := range s.Segs {
				if g.Kind != "var" || g.pidx == 0 {
					continue
				}
				var fobj types.Object
				for o, fd := range a.funcDecl {
					if fd.Pos() <= p && p <= fd.End() {
						fobj = o
					}
				}
				if fobj == nil {
					continue
				}
				alts, ok := a.callerSegs(fobj, g.pidx-1, 0)
				if !ok || len(alts) == 0 {
					continue
				}
				var nv []*Site
				for _, v := range variants {
					for _, alt := range alts {
						c := *v
						c.Segs = append([]Seg{}, v.Segs...)
						alt.Src = g.Src
						c.Segs[gi] = alt
						nv = append(nv, &c)
					}
				}
				variants = nv
			}
			if len(variants) == 1 && variants[0] == s {
				order2 = append(order2, p)
				continue
			}
			delete(a.sites, p)
			a.special[p] = nil
			for _, v := range variants {
				a.sites[extra] = v
				a.special[p] = append(a.special[p], extra)
				order2 = append(order2, extra)
				extra--
			}
		}
		a.order = order2
	}

	// 2. store sinks: CacheDB methods, then every function that hands one of its parameters on as the key
	sinks := map[string]map[int]bool{}
	for _, m := range []string{"Get", "Put", "Delete", "NewIterator"} {
		sinks["(*"+a.storPkg+".CacheDB)."+m] = map[int]bool{0: true}
	}
	var unresolved []Unresolved
	nCalls := 0
	for iter := 0; iter < 10; iter++ {
		changed := false
		unresolved = nil
		nCalls = 0
		for _, s := range a.sites {
			s.Used = false
		}
		for _, pi := range tinfos {
			for _, f := range pi.Files {
				for _, d := range f.Decls {
					fd, ok := d.(*ast.FuncDecl)
					if !ok || fd.Body == nil {
						continue
					}
					ast.Inspect(fd.Body, func(n ast.Node) bool {
						call, ok := n.(*ast.CallExpr)
						if !ok {
							return true
						}
						idxs := sinks[fullName(a.callee(pi, call))]
						for idx := range idxs {
							if idx >= len(call.Args) {
								continue
							}
							nCalls++
							p := a.keyProv(pi, fd, call.Args[idx], 0)
							switch {
							case p.ok:
								for _, sp := range p.sites {
									if s := a.sites[sp]; s != nil {
										s.Used = true
									}
									for _, vp := range a.special[sp] {
										a.sites[vp].Used = true
									}
								}
							case p.param >= 0:
								fn := fullName(pi.Info.Defs[fd.Name])
								if sinks[fn] == nil {
									sinks[fn] = map[int]bool{}
								}
								if !sinks[fn][p.param] {
									sinks[fn][p.param] = true
									changed = true
								}
							default:
								unresolved = append(unresolved, Unresolved{Pos: a.pos(call.Pos()), Func: fd.Name.Name, Call: a.src(call), Why: p.why})
							}
						}
						return true
					})
				}
			}
		}
		if !changed {
			break
		}
	}
	// exported pass-through helpers could also be called from outside native/: scan the other loaded packages
	for _, pi := range all {
		if strings.HasPrefix(pi.Path, l.modpath+"/native") {
			continue
		}
		for _, f := range pi.Files {
			ast.Inspect(f, func(n ast.Node) bool {
				if call, ok := n.(*ast.CallExpr); ok {
					if idxs := sinks[fullName(a.callee(pi, call))]; idxs != nil {
						unresolved = append(unresolved, Unresolved{Pos: a.pos(call.Pos()), Func: "", Call: a.src(call), Why: "store helper called from outside native/"})
					}
				}
				return true
			})
		}
	}
	var keep []Unresolved
	for _, u := range unresolved {
		okd := false
		for _, w := range a.ann.UnresolvedOK {
			if strings.HasPrefix(u.Pos, w.File+":") && w.Func == u.Func {
				okd = true
			}
		}
		if !okd {
			keep = append(keep, u)
		}
	}
	unresolved = keep

	out := &Output{Repo: repo, Unresolved: unresolved, NSinkCalls: nCalls}
	for k, v := range sinks {
		for i := range v {
			out.StoreSinks = append(out.StoreSinks, fmt.Sprintf("%s#%d", k, i))
		}
	}
	sort.Strings(out.StoreSinks)

	// 3. direct imports of ledger store packages from native/ (allowed only in native/storage)
	for _, pi := range tinfos {
		for _, f := range pi.Files {
			for _, im := range f.Imports {
				p := strings.Trim(im.Path.Value, "\"")
				if strings.HasPrefix(p, l.modpath+"/core/store") && p != l.modpath+"/core/store/common" {
					if pi.Path != a.storPkg {
						out.DirectStore = append(out.DirectStore, a.pos(im.Pos())+" imports "+p)
					}
				}
				if strings.Contains(p, "goleveldb") && pi.Path != a.storPkg {
					out.DirectStore = append(out.DirectStore, a.pos(im.Pos())+" imports "+p)
				}
			}
		}
	}
	// 3b. append(<package-level slice>, ...), directly or through a helper that appends to its parameter: a shared
	// backing array with spare capacity makes every result alias the others (keys built this way change under the feet
	// of concurrent native executions). A package-level slice initialised by a composite literal has no spare capacity
	// (append copies) and is not reported.
	pkgSlice := func(pi *pkgInfo, e ast.Expr) *types.Var {
		var obj types.Object
		switch x := e.(type) {
		case *ast.Ident:
			obj = pi.Info.Uses[x]
		case *ast.SelectorExpr:
			obj = pi.Info.Uses[x.Sel]
		}
		v, ok := obj.(*types.Var)
		if !ok || v.Pkg() == nil || v.Parent() != v.Pkg().Scope() {
			return nil
		}
		if _, isSlice := v.Type().Underlying().(*types.Slice); !isSlice {
			return nil
		}
		// declared with a composite literal?
		if dp := a.l.infos[v.Pkg().Path()]; dp != nil {
			for _, f := range dp.Files {
				for _, d := range f.Decls {
					gd, ok := d.(*ast.GenDecl)
					if !ok || gd.Tok != token.VAR {
						continue
					}
					for _, sp := range gd.Specs {
						vs := sp.(*ast.ValueSpec)
						for i, nm := range vs.Names {
							if dp.Info.Defs[nm] == types.Object(v) && i < len(vs.Values) {
								if _, isLit := vs.Values[i].(*ast.CompositeLit); isLit {
									return nil
								}
							}
						}
					}
				}
			}
		}
		return v
	}
	appendsParam := map[types.Object]map[int]bool{}
	for _, pi := range tinfos {
		for _, f := range pi.Files {
			for _, d := range f.Decls {
				fd, ok := d.(*ast.FuncDecl)
				if !ok || fd.Body == nil {
					continue
				}
				ast.Inspect(fd.Body, func(n ast.Node) bool {
					call, ok := n.(*ast.CallExpr)
					if !ok || len(call.Args) < 2 {
						return true
					}
					if id, ok := call.Fun.(*ast.Ident); !ok || id.Name != "append" {
						return true
					}
					if v := pkgSlice(pi, call.Args[0]); v != nil {
						out.SliceAppends = append(out.SliceAppends, a.pos(call.Pos())+": "+a.src(call))
					}
					if id, ok := call.Args[0].(*ast.Ident); ok {
						if i := a.paramIndex(pi, fd, pi.Info.Uses[id]); i >= 0 {
							o := pi.Info.Defs[fd.Name]
							if appendsParam[o] == nil {
								appendsParam[o] = map[int]bool{}
							}
							appendsParam[o][i] = true
						}
					}
					return true
				})
			}
		}
	}
	for _, pi := range tinfos {
		for _, f := range pi.Files {
			ast.Inspect(f, func(n ast.Node) bool {
				call, ok := n.(*ast.CallExpr)
				if !ok {
					return true
				}
				for i := range appendsParam[a.callee(pi, call)] {
					if i < len(call.Args) {
						if v := pkgSlice(pi, call.Args[i]); v != nil {
							out.SliceAppends = append(out.SliceAppends, a.pos(call.Pos())+": "+a.src(call)+" (the callee appends to this parameter)")
						}
					}
				}
				return true
			})
		}
	}
	// 4. data entry prefixes and what CacheDB.put is called with
	if cp, _ := l.load(l.modpath+"/core/store/common", 0); cp != nil {
		names := cp.Scope().Names()
		for _, n := range names {
			if c, ok := cp.Scope().Lookup(n).(*types.Const); ok && c.Val().Kind() == constant.Int {
				isPrefix := strings.HasSuffix(c.Type().String(), "DataEntryPrefix")
				if !isPrefix { // untyped continuation lines of the same const block
					for _, pre := range []string{"DATA_", "ST_", "SYS_", "IX_", "EVENT_"} {
						if strings.HasPrefix(n, pre) {
							isPrefix = true
						}
					}
				}
				if isPrefix {
					v, _ := constant.Int64Val(c.Val())
					out.Prefixes = append(out.Prefixes, [2]string{n, fmt.Sprintf("%d", v)})
					if n == "ST_STORAGE" {
						out.StoragePrefix = fmt.Sprintf("%d", v)
					}
				}
			}
		}
	}
	if sp := l.infos[a.storPkg]; sp != nil {
		for _, f := range sp.Files {
			ast.Inspect(f, func(n ast.Node) bool {
				call, ok := n.(*ast.CallExpr)
				if !ok {
					return true
				}
				nm := fullName(a.callee(sp, call))
				for _, m := range []string{"put", "get", "delete"} {
					if nm == "(*"+a.storPkg+".CacheDB)."+m && len(call.Args) > 0 {
						tv := sp.Info.Types[call.Args[0]]
						val := "non-constant"
						if tv.Value != nil {
							val = tv.Value.ExactString()
						}
						out.CachePutPrefix = append(out.CachePutPrefix, fmt.Sprintf("%s %s(%s)=%s", a.pos(call.Pos()), m, a.src(call.Args[0]), val))
					}
				}
				return true
			})
		}
		// every write to the memdb / backend inside CacheDB
		for _, f := range sp.Files {
			ast.Inspect(f, func(n ast.Node) bool {
				if call, ok := n.(*ast.CallExpr); ok {
					nm := fullName(a.callee(sp, call))
					if strings.Contains(nm, "overlaydb.MemDB).Put") || strings.Contains(nm, "overlaydb.MemDB).Delete") {
						out.Notes = append(out.Notes, "memdb write at "+a.pos(call.Pos())+": "+a.src(call))
					}
				}
				return true
			})
		}
	}

	// 5. contract addresses
	addrs := map[string]string{}
	if up := l.infos[a.utilsPkg]; up != nil {
		for _, f := range up.Files {
			for _, d := range f.Decls {
				gd, ok := d.(*ast.GenDecl)
				if !ok || gd.Tok != token.VAR {
					continue
				}
				for _, sp := range gd.Specs {
					vs := sp.(*ast.ValueSpec)
					if len(vs.Names) == 2 && len(vs.Values) == 1 && strings.HasSuffix(vs.Names[0].Name, "ContractAddress") {
						call, ok := vs.Values[0].(*ast.CallExpr)
						if !ok || len(call.Args) != 1 || !strings.HasSuffix(a.src(call.Fun), "AddressParseFromBytes") {
							continue
						}
						cl, ok := call.Args[0].(*ast.CompositeLit)
						if !ok {
							continue
						}
						var bs []byte
						for _, el := range cl.Elts {
							tv := up.Info.Types[el]
							if tv.Value == nil {
								bs = nil
								break
							}
							x, _ := constant.Int64Val(tv.Value)
							bs = append(bs, byte(x))
						}
						if len(bs) == 20 {
							addrs[strings.TrimSuffix(vs.Names[0].Name, "ContractAddress")] = hex.EncodeToString(bs)
						}
					}
				}
			}
		}
	}

	// 6. tables
	byC := map[string]map[string]*Shape{}
	ordC := map[string][]string{}
	for _, p := range a.order {
		s := a.sites[p]
		out.Sites = append(out.Sites, s)
		if s.File == "native/service/utils/operation.go" {
			continue
		}
		if byC[s.Contract] == nil {
			byC[s.Contract] = map[string]*Shape{}
		}
		var ks []string
		for _, g := range s.Segs {
			ks = append(ks, g.key())
		}
		k := strings.Join(ks, ",")
		sh := byC[s.Contract][k]
		if sh == nil {
			sh = &Shape{Segs: s.Segs}
			byC[s.Contract][k] = sh
			ordC[s.Contract] = append(ordC[s.Contract], k)
		}
		sh.Sites = append(sh.Sites, s.Pos)
		for _, g := range s.Segs {
			if g.Kind == "lit" {
				found := false
				for _, n := range sh.Names {
					if n == g.Name {
						found = true
					}
				}
				if !found {
					sh.Names = append(sh.Names, g.Name)
				}
			}
		}
		fn := s.File[:strings.LastIndex(s.File, "/")] + "." + s.Func
		found := false
		for _, n := range sh.Funcs {
			if n == fn {
				found = true
			}
		}
		if !found {
			sh.Funcs = append(sh.Funcs, fn)
		}
	}
	var cnames []string
	for c := range byC {
		cnames = append(cnames, c)
	}
	sort.Strings(cnames)
	for _, c := range cnames {
		ks := ordC[c]
		sort.Strings(ks)
		var shapes []Shape
		for _, k := range ks {
			shapes = append(shapes, *byC[c][k])
		}
		out.Contracts = append(out.Contracts, struct {
			Name   string  `json:"name"`
			Addr   string  `json:"addr"`
			Shapes []Shape `json:"shapes"`
		}{c, addrs[c], shapes})
	}
	for _, st := range out.Sites {
		for _, g := range st.Segs {
			if g.Derived == "" {
				continue
			}
			okd := false
			for _, w := range a.ann.DerivedOK {
				if w.File == st.File && w.Func == st.Func {
					okd = true
				}
			}
			if !okd {
				out.Ambiguous = append(out.Ambiguous, Unresolved{Pos: st.Pos, Func: st.Func, Call: st.Src, Why: g.Derived})
			}
		}
	}
	out.NSites = len(out.Sites)
	for _, w := range a.ann.Widths {
		if w.used {
			out.Annotations = append(out.Annotations, w)
		} else {
			out.Notes = append(out.Notes, fmt.Sprintf("annotation not used (no var field `%s` in %s %s any more)", w.Expr, w.File, w.Func))
		}
	}

	switch mode {
	case "json":
		b, _ := json.MarshalIndent(out, "", " ")
		os.Stdout.Write(b)
		fmt.Println()
	case "lean":
		printLean(out)
	default:
		fail("unknown mode %s", mode)
	}
}

func leanBytes(h string) string {
	b, _ := hex.DecodeString(h)
	var parts []string
	for _, x := range b {
		parts = append(parts, fmt.Sprintf("%d", x))
	}
	return "[" + strings.Join(parts, ", ") + "]"
}

func leanStr(s string) string {
	return "\"" + strings.ReplaceAll(strings.ReplaceAll(s, "\\", "\\\\"), "\"", "\\\"") + "\""
}

func printLean(o *Output) {
	fmt.Println("/- GENERATED by extract/keyshapes from the Go source of polynetwork/poly (native/...). Do not edit.")
	fmt.Println("   One table per native contract: every utils.ConcatKey(contract, f1..fn) site, de-duplicated by shape. -/")
	fmt.Println("import Poly.Model.KeyShape")
	fmt.Println("namespace Poly.Generated.KeyShapes")
	fmt.Println("open Poly.Model.KeyShape")
	fmt.Println()
	for _, c := range o.Contracts {
		name := c.Name
		if strings.HasPrefix(name, "?") {
			name = "Unknown" + strings.TrimPrefix(name, "?")
		}
		fmt.Printf("/-- key shapes of contract %s (address %s) -/\n", c.Name, c.Addr)
		fmt.Printf("def shapes%s : List Shape := [\n", name)
		for i, s := range c.Shapes {
			var segs, desc []string
			for _, g := range s.Segs {
				switch g.Kind {
				case "lit":
					b, _ := hex.DecodeString(g.Lit)
					segs = append(segs, ".lit "+leanBytes(g.Lit))
					desc = append(desc, fmt.Sprintf("%q", string(b)))
				case "fixed":
					segs = append(segs, fmt.Sprintf(".fixed %d", g.N))
					desc = append(desc, fmt.Sprintf("%d", g.N))
				default:
					segs = append(segs, ".var")
					desc = append(desc, "*")
				}
			}
			sep := ","
			if i == len(c.Shapes)-1 {
				sep = ""
			}
			site := ""
			if len(s.Sites) > 0 {
				site = s.Sites[0]
			}
			fmt.Printf("  [%s]%s  -- %d: %s  (%d sites, first %s)\n", strings.Join(segs, ", "), sep, i, strings.Join(desc, " ‖ "), len(s.Sites), site)
		}
		fmt.Println("]")
		fmt.Println()
	}
	fmt.Println("/-- (contract name, 20-byte contract address, key shapes) -/")
	fmt.Println("def contracts : List (String × List UInt8 × List Shape) := [")
	for i, c := range o.Contracts {
		name := c.Name
		if strings.HasPrefix(name, "?") {
			name = "Unknown" + strings.TrimPrefix(name, "?")
		}
		sep := ","
		if i == len(o.Contracts)-1 {
			sep = ""
		}
		fmt.Printf("  (%s, %s, shapes%s)%s\n", leanStr(c.Name), leanBytes(c.Addr), name, sep)
	}
	fmt.Println("]")
	fmt.Println()
	fmt.Println("/-- prefix byte that CacheDB.Put/Get/Delete put in front of every key (ST_STORAGE) -/")
	sp := o.StoragePrefix
	if sp == "" {
		sp = "255"
	}
	fmt.Printf("def storagePrefix : UInt8 := %s\n\n", sp)
	fmt.Println("/-- every other data-entry prefix of the ledger stores (core/store/common/data_entry_prefix.go) -/")
	fmt.Println("def ledgerPrefixes : List (String × UInt8) := [")
	var rows []string
	for _, p := range o.Prefixes {
		if p[0] != "ST_STORAGE" {
			rows = append(rows, fmt.Sprintf("  (%s, %s)", leanStr(p[0]), p[1]))
		}
	}
	fmt.Println(strings.Join(rows, ",\n"))
	fmt.Println("]")
	fmt.Println()
	fmt.Println("/-- prefix arguments of the private CacheDB.put/get/delete calls, as constants (all must be ST_STORAGE) -/")
	fmt.Println("def cachePrefixArgs : List (String × String) := [")
	rows = nil
	for _, p := range o.CachePutPrefix {
		i := strings.LastIndex(p, "=")
		rows = append(rows, fmt.Sprintf("  (%s, %s)", leanStr(p[:i]), leanStr(p[i+1:])))
	}
	fmt.Println(strings.Join(rows, ",\n"))
	fmt.Println("]")
	fmt.Println()
	fmt.Println("/-- store accesses under native/ whose key is not built by ConcatKey (must be empty) -/")
	fmt.Println("def unresolvedKeySites : List String := [")
	rows = nil
	for _, u := range o.Unresolved {
		rows = append(rows, "  "+leanStr(u.Pos+" "+u.Func+": "+u.Why))
	}
	fmt.Println(strings.Join(rows, ",\n"))
	fmt.Println("]")
	fmt.Println()
	fmt.Println("/-- key fields that are not one value written raw (a variable assigned in several ways, a truncation): must be empty -/")
	fmt.Println("def ambiguousFields : List String := [")
	rows = nil
	for _, u := range o.Ambiguous {
		rows = append(rows, "  "+leanStr(u.Pos+" "+u.Func+": "+u.Why))
	}
	fmt.Println(strings.Join(rows, ",\n"))
	fmt.Println("]")
	fmt.Println()
	fmt.Println("/-- `append(<package-level slice>, ...)` under native/: results would share one backing array (must be empty) -/")
	fmt.Println("def packageSliceAppends : List String := [")
	rows = nil
	for _, u := range o.SliceAppends {
		rows = append(rows, "  "+leanStr(u))
	}
	fmt.Println(strings.Join(rows, ",\n"))
	fmt.Println("]")
	fmt.Println()
	fmt.Println("/-- packages under native/ (other than native/storage) importing a ledger store package (must be empty) -/")
	fmt.Println("def directStoreImports : List String := [")
	rows = nil
	for _, u := range o.DirectStore {
		rows = append(rows, "  "+leanStr(u))
	}
	fmt.Println(strings.Join(rows, ",\n"))
	fmt.Println("]")
	fmt.Println()
	fmt.Printf("def nSites : Nat := %d\n", o.NSites)
	fmt.Printf("def nStoreCalls : Nat := %d\n", o.NSinkCalls)
	fmt.Println("end Poly.Generated.KeyShapes")
}
