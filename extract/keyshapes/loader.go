package main

// A lenient source importer on go/parser + go/types (standard library only).
//
// Packages of the repository under analysis are parsed and type-checked from source with full function
// bodies and their types.Info kept; the standard library is type-checked from GOROOT/src without function
// bodies; third-party modules are located in the module cache through the repository's go.mod and
// type-checked maxExtDepth hops deep without bodies (deeper third-party imports become empty stub packages).
// Type errors are ignored everywhere: an expression whose type cannot be established is classified as a
// variable-width field by the caller, which is the conservative answer.

import (
	"go/ast"
	"go/build"
	"go/parser"
	"go/token"
	"go/types"
	"os"
	"path/filepath"
	"runtime"
	"sort"
	"strings"
	"unicode"
)

type pkgInfo struct {
	Path  string
	Dir   string
	Pkg   *types.Package
	Files []*ast.File
	Info  *types.Info
}

type loader struct {
	fset    *token.FileSet
	repo    string
	modpath string
	mods    [][2]string // module path -> directory, longest first
	pkgs    map[string]*types.Package
	stubs   map[string]*types.Package
	infos   map[string]*pkgInfo
	busy    map[string]bool
	goroot  string
	ctx     build.Context
}

func escMod(p string) string {
	var b strings.Builder
	for _, r := range p {
		if unicode.IsUpper(r) {
			b.WriteByte('!')
			b.WriteRune(unicode.ToLower(r))
		} else {
			b.WriteRune(r)
		}
	}
	return b.String()
}

func newLoader(repo string) *loader {
	l := &loader{fset: token.NewFileSet(), repo: repo, pkgs: map[string]*types.Package{}, stubs: map[string]*types.Package{}, infos: map[string]*pkgInfo{},
		busy: map[string]bool{}, goroot: runtime.GOROOT(), ctx: build.Default}
	if g := os.Getenv("GOROOT"); g != "" {
		l.goroot = g
	}
	l.ctx.CgoEnabled = true
	modcache := os.Getenv("GOMODCACHE")
	if modcache == "" {
		gp := os.Getenv("GOPATH")
		if gp == "" {
			gp = filepath.Join(os.Getenv("HOME"), "go")
		}
		modcache = filepath.Join(gp, "pkg", "mod")
	}
	data, err := os.ReadFile(filepath.Join(repo, "go.mod"))
	if err != nil {
		fail("cannot read go.mod: %v", err)
	}
	req := map[string]string{}
	repl := map[string][2]string{}
	block := ""
	for _, line := range strings.Split(string(data), "\n") {
		if i := strings.Index(line, "//"); i >= 0 {
			line = line[:i]
		}
		f := strings.Fields(line)
		if len(f) == 0 {
			continue
		}
		if f[0] == "module" && len(f) > 1 {
			l.modpath = f[1]
			continue
		}
		if len(f) == 2 && f[1] == "(" {
			block = f[0]
			continue
		}
		if f[0] == ")" {
			block = ""
			continue
		}
		kind := block
		if kind == "" {
			kind = f[0]
			f = f[1:]
		}
		switch kind {
		case "require":
			if len(f) >= 2 {
				req[f[0]] = f[1]
			}
		case "replace":
			// old [v] => new [v]
			for i, t := range f {
				if t == "=>" && i+1 < len(f) {
					nv := ""
					if i+2 < len(f) {
						nv = f[i+2]
					}
					repl[f[0]] = [2]string{f[i+1], nv}
				}
			}
		}
	}
	for m, v := range req {
		dir := filepath.Join(modcache, escMod(m)+"@"+v)
		if r, ok := repl[m]; ok {
			if r[1] == "" {
				dir = filepath.Join(repo, r[0])
			} else {
				dir = filepath.Join(modcache, escMod(r[0])+"@"+r[1])
			}
		}
		l.mods = append(l.mods, [2]string{m, dir})
	}
	sort.Slice(l.mods, func(i, j int) bool { return len(l.mods[i][0]) > len(l.mods[j][0]) })
	return l
}

func (l *loader) resolve(path string) (dir string, kind string) {
	if path == l.modpath || strings.HasPrefix(path, l.modpath+"/") {
		return filepath.Join(l.repo, strings.TrimPrefix(strings.TrimPrefix(path, l.modpath), "/")), "repo"
	}
	first := strings.Split(path, "/")[0]
	if !strings.Contains(first, ".") {
		d := filepath.Join(l.goroot, "src", path)
		if st, err := os.Stat(d); err == nil && st.IsDir() {
			return d, "std"
		}
	}
	if d := filepath.Join(l.goroot, "src", "vendor", path); strings.HasPrefix(path, "golang.org/x/") {
		if st, err := os.Stat(d); err == nil && st.IsDir() {
			return d, "std"
		}
	}
	for _, m := range l.mods {
		if path == m[0] || strings.HasPrefix(path, m[0]+"/") {
			d := filepath.Join(m[1], strings.TrimPrefix(strings.TrimPrefix(path, m[0]), "/"))
			if st, err := os.Stat(d); err == nil && st.IsDir() {
				return d, "ext"
			}
		}
	}
	return "", "none"
}

type depthImporter struct {
	l     *loader
	depth int // number of third-party hops so far
}

func (d depthImporter) Import(path string) (*types.Package, error) { return d.l.load(path, d.depth) }

func stub(path string) *types.Package {
	name := path[strings.LastIndex(path, "/")+1:]
	if i := strings.Index(name, "."); i > 0 {
		name = name[:i]
	}
	name = strings.ReplaceAll(name, "-", "_")
	p := types.NewPackage(path, name)
	p.MarkComplete()
	return p
}

func (l *loader) load(path string, extDepth int) (*types.Package, error) {
	if path == "unsafe" {
		return types.Unsafe, nil
	}
	if p, ok := l.pkgs[path]; ok {
		return p, nil
	}
	if path == "C" || l.busy[path] {
		return stub(path), nil
	}
	dir, kind := l.resolve(path)
	if kind == "ext" && extDepth >= maxExtDepth {
		// not cached in l.pkgs: a later, shallower import of the same package loads it for real
		if p, ok := l.stubs[path]; ok {
			return p, nil
		}
		p := stub(path)
		l.stubs[path] = p
		return p, nil
	}
	if kind == "none" {
		p := stub(path)
		l.pkgs[path] = p
		return p, nil
	}
	l.busy[path] = true
	defer delete(l.busy, path)
	ents, err := os.ReadDir(dir)
	if err != nil {
		p := stub(path)
		l.pkgs[path] = p
		return p, nil
	}
	var files []*ast.File
	for _, e := range ents {
		n := e.Name()
		if e.IsDir() || !strings.HasSuffix(n, ".go") || strings.HasSuffix(n, "_test.go") {
			continue
		}
		if ok, err := l.ctx.MatchFile(dir, n); err != nil || !ok {
			continue
		}
		mode := parser.SkipObjectResolution
		if kind == "repo" {
			mode |= parser.ParseComments
		}
		f, err := parser.ParseFile(l.fset, filepath.Join(dir, n), nil, mode)
		if err != nil || f == nil {
			continue
		}
		if f.Name.Name == "main" && kind != "repo" {
			continue
		}
		files = append(files, f)
	}
	if len(files) == 0 {
		p := stub(path)
		l.pkgs[path] = p
		return p, nil
	}
	// keep only the majority package name (ignores stray `package foo_test` or tool files)
	cnt := map[string]int{}
	for _, f := range files {
		cnt[f.Name.Name]++
	}
	best := files[0].Name.Name
	for n, c := range cnt {
		if c > cnt[best] {
			best = n
		}
	}
	var keep []*ast.File
	for _, f := range files {
		if f.Name.Name == best {
			keep = append(keep, f)
		}
	}
	nd := extDepth
	if kind == "ext" {
		nd++
	}
	conf := types.Config{Importer: depthImporter{l, nd}, Error: func(error) {}, FakeImportC: true,
		IgnoreFuncBodies: kind != "repo"}
	var info *types.Info
	if kind == "repo" {
		info = &types.Info{Types: map[ast.Expr]types.TypeAndValue{}, Defs: map[*ast.Ident]types.Object{},
			Uses: map[*ast.Ident]types.Object{}, Selections: map[*ast.SelectorExpr]*types.Selection{}}
	}
	pkg, _ := conf.Check(path, l.fset, keep, info)
	if pkg == nil {
		pkg = stub(path)
	}
	l.pkgs[path] = pkg
	if kind == "repo" {
		l.infos[path] = &pkgInfo{Path: path, Dir: dir, Pkg: pkg, Files: keep, Info: info}
	}
	return pkg, nil
}

// third-party packages are type-checked this many hops deep (their deeper imports become stubs)
var maxExtDepth = 3
