module keyshapes

go 1.21
