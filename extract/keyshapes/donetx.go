package main

// Mode `donetx` (C20, static tie): for every cross-chain-manager router package the MakeDepositProposal method must
// call scom.CheckDoneTx before scom.PutDoneTx, with the same (id, chain) arguments, return the error of the check,
// and return a non-nil message only after the PutDoneTx call.

import (
	"encoding/json"
	"go/ast"
	"go/token"
	"os"
	"sort"
	"strings"
)

type doneFact struct {
	Router string   `json:"router"`
	Pos    string   `json:"pos"`
	OK     bool     `json:"ok"`
	Why    string   `json:"why"`
	Check  string   `json:"check_args"`
	Put    string   `json:"put_args"`
	Guards []string `json:"enclosing_conditions"`
}

func doneTx(a *an, tinfos []*pkgInfo) {
	pre := a.l.modpath + "/native/service/cross_chain_manager/"
	common := pre + "common"
	var facts []doneFact
	for _, pi := range tinfos {
		if !strings.HasPrefix(pi.Path, pre) || pi.Path == common {
			continue
		}
		for _, f := range pi.Files {
			for _, d := range f.Decls {
				fd, ok := d.(*ast.FuncDecl)
				if !ok || fd.Recv == nil || fd.Name.Name != "MakeDepositProposal" || fd.Body == nil {
					continue
				}
				fact := doneFact{Router: strings.TrimPrefix(pi.Path, pre), Pos: a.pos(fd.Pos())}
				var checkPos, putPos token.Pos
				var checkCall *ast.CallExpr
				var stack []ast.Node
				errReturned := false
				ast.Inspect(fd.Body, func(n ast.Node) bool {
					if n == nil {
						stack = stack[:len(stack)-1]
						return true
					}
					stack = append(stack, n)
					call, ok := n.(*ast.CallExpr)
					if !ok {
						return true
					}
					switch fullName(a.callee(pi, call)) {
					case common + ".CheckDoneTx":
						if checkPos == token.NoPos && len(call.Args) == 3 {
							checkPos, checkCall = call.Pos(), call
							fact.Check = a.src(call.Args[1]) + ", " + a.src(call.Args[2])
							for i := len(stack) - 2; i >= 0; i-- {
								if is, ok := stack[i].(*ast.IfStmt); ok {
									// the `if err := CheckDoneTx(..); err != nil { return nil, .. }` itself
									if as, ok := is.Init.(*ast.AssignStmt); ok && len(as.Rhs) == 1 && as.Rhs[0] == ast.Expr(call) {
										errReturned = returnsNilFirst(is.Body) && strings.Contains(a.src(is.Cond), "!= nil")
										continue
									}
									fact.Guards = append(fact.Guards, a.src(is.Cond))
								}
							}
						}
					case common + ".PutDoneTx":
						if putPos == token.NoPos && len(call.Args) == 3 {
							putPos = call.Pos()
							fact.Put = a.src(call.Args[1]) + ", " + a.src(call.Args[2])
						}
					}
					return true
				})
				// `err = CheckDoneTx(..)` followed by `if err != nil { return nil, .. }`
				if checkCall != nil && !errReturned {
					ast.Inspect(fd.Body, func(n ast.Node) bool {
						bl, ok := n.(*ast.BlockStmt)
						if !ok {
							return true
						}
						for i, st := range bl.List {
							as, ok := st.(*ast.AssignStmt)
							if !ok || len(as.Rhs) != 1 || as.Rhs[0] != ast.Expr(checkCall) || i+1 >= len(bl.List) {
								continue
							}
							if is, ok := bl.List[i+1].(*ast.IfStmt); ok && strings.Contains(a.src(is.Cond), "!= nil") && returnsNilFirst(is.Body) {
								errReturned = true
							}
						}
						return true
					})
				}
				early := ""
				var stk []ast.Node
				ast.Inspect(fd.Body, func(n ast.Node) bool {
					if n == nil {
						stk = stk[:len(stk)-1]
						return true
					}
					stk = append(stk, n)
					if _, isLit := n.(*ast.FuncLit); isLit {
						stk = stk[:len(stk)-1]
						return false
					}
					r, ok := n.(*ast.ReturnStmt)
					if !ok || !(putPos == token.NoPos || r.Pos() < putPos) {
						return true
					}
					if len(r.Results) == 2 {
						if id, ok := r.Results[0].(*ast.Ident); !(ok && id.Name == "nil") {
							early = a.pos(r.Pos())
						}
					}
					if len(r.Results) == 0 { // named results: fine only inside `if err != nil { .. }`
						guarded := false
						for i := len(stk) - 2; i >= 0; i-- {
							if is, ok := stk[i].(*ast.IfStmt); ok && strings.Contains(a.src(is.Cond), "err != nil") {
								guarded = true
							}
						}
						if !guarded {
							early = a.pos(r.Pos())
						}
					}
					return true
				})
				switch {
				case checkPos == token.NoPos:
					fact.Why = "no call of CheckDoneTx"
				case putPos == token.NoPos:
					fact.Why = "no call of PutDoneTx"
				case putPos < checkPos:
					fact.Why = "PutDoneTx is called before CheckDoneTx"
				case fact.Check != fact.Put:
					fact.Why = "CheckDoneTx(" + fact.Check + ") and PutDoneTx(" + fact.Put + ") are keyed differently"
				case !errReturned:
					fact.Why = "the error of CheckDoneTx is not returned"
				case early != "":
					fact.Why = "a message is returned before PutDoneTx at " + early
				default:
					fact.OK = true
					fact.Why = "CheckDoneTx(" + fact.Check + ") error returned, then PutDoneTx with the same key, message returned afterwards"
				}
				facts = append(facts, fact)
			}
		}
	}
	sort.Slice(facts, func(i, j int) bool { return facts[i].Router < facts[j].Router })
	b, _ := json.MarshalIndent(map[string]interface{}{"handlers": facts}, "", " ")
	os.Stdout.Write(b)
	os.Stdout.WriteString("\n")
}

// returnsNilFirst: the block returns `nil, <error>`, or (function with named results, block guarded by
// `err != nil`) returns bare, i.e. with the non-nil error, which the entrance tests before looking at the message.
func returnsNilFirst(b *ast.BlockStmt) bool {
	for _, st := range b.List {
		if r, ok := st.(*ast.ReturnStmt); ok {
			if len(r.Results) == 0 {
				return true
			}
			if id, ok := r.Results[0].(*ast.Ident); ok && id.Name == "nil" {
				return true
			}
		}
	}
	return false
}
