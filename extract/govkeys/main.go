// govkeys: reads the governance contracts of polynetwork/poly from source and prints, as Lean definitions,
//
//	ccsCalls     every call of CheckConsensusSigns outside node_manager/utils.go: (package, function, method string)
//	deletes      per function: the key-prefix strings of its GetCacheDB().Delete(utils.ConcatKey(.., []byte(P), ..)) calls
//	puts         per function: the key-prefix strings of its GetCacheDB().Put(utils.ConcatKey(.., []byte(P), ..), ..) calls
//	clears       per function: the method strings of its ClearConsensusSigns calls
//
// Prefix / method constants are resolved to their string values inside the package. Usage: govkeys <repo> [lean|json]
package main

import (
	"encoding/json"
	"fmt"
	"go/ast"
	"go/parser"
	"go/token"
	"os"
	"path/filepath"
	"sort"
	"strconv"
	"strings"
)

var pkgs = []string{
	"native/service/governance/node_manager",
	"native/service/governance/side_chain_manager",
	"native/service/governance/relayer_manager",
	"native/service/governance/neo3_state_manager",
}

type row struct {
	Pkg, Func string
	Vals      []string
	Pos       string
}

func main() {
	if len(os.Args) < 2 {
		fmt.Fprintln(os.Stderr, "usage: govkeys <repo> [lean|json]")
		os.Exit(2)
	}
	repo := os.Args[1]
	mode := "lean"
	if len(os.Args) > 2 {
		mode = os.Args[2]
	}
	fset := token.NewFileSet()
	var ccs, dels, puts, clears []row
	for _, p := range pkgs {
		dir := filepath.Join(repo, p)
		parsed, err := parser.ParseDir(fset, dir, func(fi os.FileInfo) bool { return !strings.HasSuffix(fi.Name(), "_test.go") }, 0)
		if err != nil {
			fmt.Fprintln(os.Stderr, "parse", dir, err)
			os.Exit(1)
		}
		short := filepath.Base(p)
		for _, pkg := range parsed {
			consts := map[string]string{}
			for _, f := range pkg.Files {
				for _, d := range f.Decls {
					gd, ok := d.(*ast.GenDecl)
					if !ok || gd.Tok != token.CONST {
						continue
					}
					for _, sp := range gd.Specs {
						vs := sp.(*ast.ValueSpec)
						for i, n := range vs.Names {
							if i < len(vs.Values) {
								if bl, ok := vs.Values[i].(*ast.BasicLit); ok && bl.Kind == token.STRING {
									if v, err := strconv.Unquote(bl.Value); err == nil {
										consts[n.Name] = v
									}
								}
							}
						}
					}
				}
			}
			resolve := func(e ast.Expr) (string, bool) {
				switch x := e.(type) {
				case *ast.Ident:
					v, ok := consts[x.Name]
					return v, ok
				case *ast.BasicLit:
					if x.Kind == token.STRING {
						v, err := strconv.Unquote(x.Value)
						return v, err == nil
					}
				}
				return "", false
			}
			// []byte(IDENT) arguments of utils.ConcatKey(...)
			prefixes := func(call *ast.CallExpr) []string {
				var res []string
				for _, a := range call.Args {
					conv, ok := a.(*ast.CallExpr)
					if !ok || len(conv.Args) != 1 {
						continue
					}
					if _, isArr := conv.Fun.(*ast.ArrayType); !isArr {
						continue
					}
					if v, ok := resolve(conv.Args[0]); ok {
						res = append(res, v)
					}
				}
				return res
			}
			var files []string
			for name := range pkg.Files {
				files = append(files, name)
			}
			sort.Strings(files)
			for _, name := range files {
				f := pkg.Files[name]
				for _, d := range f.Decls {
					fd, ok := d.(*ast.FuncDecl)
					if !ok || fd.Body == nil {
						continue
					}
					var dl, pt, cl []string
					ast.Inspect(fd.Body, func(n ast.Node) bool {
						call, ok := n.(*ast.CallExpr)
						if !ok {
							return true
						}
						fname := ""
						switch fx := call.Fun.(type) {
						case *ast.Ident:
							fname = fx.Name
						case *ast.SelectorExpr:
							fname = fx.Sel.Name
						}
						switch fname {
						case "CheckConsensusSigns":
							if fd.Name.Name == "CheckConsensusSigns" || len(call.Args) < 2 {
								return true
							}
							v, ok := resolve(call.Args[1])
							if !ok {
								v = "?unresolved"
							}
							ccs = append(ccs, row{short, fd.Name.Name, []string{v}, fset.Position(call.Pos()).String()})
						case "ClearConsensusSigns":
							if fd.Name.Name == "ClearConsensusSigns" || len(call.Args) < 2 {
								return true
							}
							v, ok := resolve(call.Args[1])
							if !ok {
								v = "?unresolved"
							}
							cl = append(cl, v)
						case "Delete", "Put":
							if len(call.Args) == 0 {
								return true
							}
							ck, ok := call.Args[0].(*ast.CallExpr)
							if !ok {
								return true
							}
							if sel, ok := ck.Fun.(*ast.SelectorExpr); !ok || sel.Sel.Name != "ConcatKey" {
								return true
							}
							if fname == "Delete" {
								dl = append(dl, prefixes(ck)...)
							} else {
								pt = append(pt, prefixes(ck)...)
							}
						}
						return true
					})
					pos := fset.Position(fd.Pos()).String()
					if len(dl) > 0 {
						dels = append(dels, row{short, fd.Name.Name, dl, pos})
					}
					if len(pt) > 0 {
						puts = append(puts, row{short, fd.Name.Name, pt, pos})
					}
					if len(cl) > 0 {
						clears = append(clears, row{short, fd.Name.Name, cl, pos})
					}
				}
			}
		}
	}
	rel := func(p string) string { return strings.TrimPrefix(p, repo+"/") }
	if mode == "json" {
		json.NewEncoder(os.Stdout).Encode(map[string]interface{}{"ccs": ccs, "deletes": dels, "puts": puts, "clears": clears})
		return
	}
	q := func(s string) string { return strconv.Quote(s) }
	list := func(l []string) string {
		var qs []string
		for _, s := range l {
			qs = append(qs, q(s))
		}
		return "[" + strings.Join(qs, ", ") + "]"
	}
	fmt.Println("/- GENERATED by extract/govkeys from /repo on every run. Do not edit. -/")
	fmt.Println("namespace Poly.Generated.GovKeys")
	fmt.Println()
	fmt.Println("/-- every call of CheckConsensusSigns: (package, function, method string) -/")
	fmt.Println("def ccsCalls : List (String × String × String) := [")
	for i, r := range ccs {
		sep := ","
		if i == len(ccs)-1 {
			sep = ""
		}
		fmt.Printf("  (%s, %s, %s)%s  -- %s\n", q(r.Pkg), q(r.Func), q(r.Vals[0]), sep, rel(r.Pos))
	}
	fmt.Println("]")
	emit := func(name, doc string, rows []row) {
		fmt.Println()
		fmt.Printf("/-- %s -/\n", doc)
		fmt.Printf("def %s : List (String × String × List String) := [\n", name)
		for i, r := range rows {
			sep := ","
			if i == len(rows)-1 {
				sep = ""
			}
			fmt.Printf("  (%s, %s, %s)%s  -- %s\n", q(r.Pkg), q(r.Func), list(r.Vals), sep, rel(r.Pos))
		}
		fmt.Println("]")
	}
	emit("deletes", "per function: key prefixes of its storage deletes (package, function, prefixes)", dels)
	emit("puts", "per function: key prefixes of its storage puts", puts)
	emit("clears", "per function: method strings whose approval ledger it clears", clears)
	fmt.Println()
	fmt.Println("end Poly.Generated.GovKeys")
}
