module govkeys

go 1.21
