// deep: whole-program variant of the C16(b) analysis, WITH the bodies of every dependency (third-party and standard
// library): SSA of the complete program + rapid type analysis (golang.org/x/tools/go/callgraph/rta) rooted at the same
// contract entry points as the module graph. It answers the question the module graph cannot: is a wall-clock or
// random source read reachable from a native handler THROUGH a dependency (tendermint, go-ethereum, neo-gogogo, btcd,
// …)?  Not kernel-checked (the graph has several hundred thousand edges); run in the thorough tier.
//
//	deep <harness dir> <modfile> <entries.json>      prints JSON
//
// The program is loaded through the harness module (its go.mod replaces the cgo-only harmony BLS binding by a pure-Go
// stand-in, so the whole program type-checks). `entries.json` = the JSON facts of extract/callgraph (entry names).
// Not descended into: package common/log of the module and the standard `log` package (log output is not part of an
// execution result).
package main

import (
	"encoding/json"
	"fmt"
	"go/types"
	"os"
	"sort"
	"strings"

	"golang.org/x/tools/go/callgraph"
	"golang.org/x/tools/go/callgraph/rta"
	"golang.org/x/tools/go/packages"
	"golang.org/x/tools/go/ssa"
	"golang.org/x/tools/go/ssa/ssautil"
)

const module = "github.com/polynetwork/poly"

func sinkName(f *ssa.Function) string {
	if f == nil || f.Pkg == nil || f.Signature.Recv() != nil {
		return ""
	}
	switch f.Pkg.Pkg.Path() {
	case "time":
		switch f.Name() {
		case "Now", "Since", "Until", "After", "AfterFunc", "NewTimer", "NewTicker", "Tick", "Sleep":
			return "time." + f.Name()
		}
	case "math/rand", "math/rand/v2":
		switch f.Name() {
		case "New", "NewSource", "NewZipf", "NewPCG", "NewChaCha8", "init":
			return ""
		}
		if f.Parent() == nil && !strings.Contains(f.Name(), "$") && f.Synthetic == "" && ast(f) {
			return "math/rand." + f.Name()
		}
	case "crypto/rand":
		if f.Parent() == nil && f.Name() != "init" && ast(f) {
			return "crypto/rand." + f.Name()
		}
	}
	return ""
}

// ast: exported package-level function
func ast(f *ssa.Function) bool { return f.Name() != "" && f.Name()[0] >= 'A' && f.Name()[0] <= 'Z' }

func pkgPath(f *ssa.Function) string {
	if f == nil {
		return ""
	}
	if f.Pkg != nil {
		return f.Pkg.Pkg.Path()
	}
	if f.Signature != nil && f.Signature.Recv() != nil { // wrappers / instantiations without a package
		t := f.Signature.Recv().Type()
		if p, ok := t.(*types.Pointer); ok {
			t = p.Elem()
		}
		if n, ok := t.(*types.Named); ok && n.Obj().Pkg() != nil {
			return n.Obj().Pkg().Path()
		}
	}
	return ""
}

func opaque(p string) bool {
	return p == module+"/common/log" || p == "log"
}

func main() {
	if len(os.Args) < 4 {
		fmt.Fprintln(os.Stderr, "usage: deep <harness dir> <modfile> <entries.json>")
		os.Exit(2)
	}
	dir, modfile, entriesFile := os.Args[1], os.Args[2], os.Args[3]
	var facts struct {
		Entries []struct{ Name, Why string } `json:"entries"`
	}
	raw, err := os.ReadFile(entriesFile)
	if err == nil {
		err = json.Unmarshal(raw, &facts)
	}
	if err != nil || len(facts.Entries) < 30 {
		fmt.Fprintln(os.Stderr, "cannot read the entry list:", err)
		os.Exit(1)
	}
	cfg := &packages.Config{Mode: packages.LoadAllSyntax, Dir: dir, BuildFlags: []string{"-modfile=" + modfile, "-tags=verif"},
		Env: append(os.Environ(), "GOFLAGS=-mod=mod", "GOPROXY=off", "GOSUMDB=off", "GOTOOLCHAIN=local")}
	pkgs, err := packages.Load(cfg, module+"/native/...", module+"/core/store/ledgerstore")
	if err != nil {
		fmt.Fprintln(os.Stderr, "load:", err)
		os.Exit(1)
	}
	nerr := 0
	packages.Visit(pkgs, nil, func(p *packages.Package) {
		for _, e := range p.Errors {
			if nerr < 10 {
				fmt.Fprintln(os.Stderr, "type error:", p.PkgPath, e)
			}
			nerr++
		}
	})
	if nerr > 0 {
		fmt.Fprintf(os.Stderr, "%d type errors: the whole-program analysis needs a well-typed program\n", nerr)
		os.Exit(1)
	}
	prog, _ := ssautil.AllPackages(pkgs, ssa.InstantiateGenerics)
	prog.Build()
	// resolve the entry names "<rel pkg>.(…Recv).Name" / "<rel pkg>.Name"
	byName := map[string]*ssa.Function{}
	for f := range ssautil.AllFunctions(prog) {
		if f.Pkg == nil || f.Parent() != nil {
			continue
		}
		pp := f.Pkg.Pkg.Path()
		if !strings.HasPrefix(pp, module) {
			continue
		}
		rel := strings.TrimPrefix(strings.TrimPrefix(pp, module), "/")
		name := rel + "." + f.Name()
		if r := f.Signature.Recv(); r != nil {
			t := r.Type()
			ptr := ""
			if p, ok := t.(*types.Pointer); ok {
				t = p.Elem()
				ptr = "*"
			}
			if n, ok := t.(*types.Named); ok {
				name = fmt.Sprintf("%s.(%s%s).%s", rel, ptr, n.Obj().Name(), f.Name())
			}
		}
		byName[name] = f
	}
	var roots []*ssa.Function
	missing := 0
	for _, e := range facts.Entries {
		if f := byName[e.Name]; f != nil {
			roots = append(roots, f)
		} else {
			missing++
			fmt.Fprintln(os.Stderr, "entry not found in the SSA program:", e.Name)
		}
	}
	if missing > 0 {
		os.Exit(1)
	}
	res := rta.Analyze(roots, true)
	cg := res.CallGraph
	// BFS over the RTA call graph from the roots, not descending into opaque packages
	parent := map[*ssa.Function]*ssa.Function{}
	seen := map[*ssa.Function]bool{}
	var queue []*ssa.Function
	for _, r := range roots {
		seen[r] = true
		queue = append(queue, r)
	}
	type site struct {
		Caller string   `json:"caller"`
		Sink   string   `json:"sink"`
		Pkg    string   `json:"caller_package"`
		Path   []string `json:"path"`
	}
	sites := map[string]site{}
	pkgsReached := map[string]int{}
	for len(queue) > 0 {
		f := queue[0]
		queue = queue[1:]
		pkgsReached[pkgPath(f)]++
		n := cg.Nodes[f]
		if n == nil {
			continue
		}
		var outs []*callgraph.Edge
		outs = append(outs, n.Out...)
		sort.Slice(outs, func(i, j int) bool { return outs[i].Callee.Func.String() < outs[j].Callee.Func.String() })
		for _, e := range outs {
			c := e.Callee.Func
			if s := sinkName(c); s != "" {
				key := f.String() + "->" + s
				if _, ok := sites[key]; !ok {
					var path []string
					for x := f; x != nil; x = parent[x] {
						path = append([]string{x.String()}, path...)
					}
					sites[key] = site{Caller: f.String(), Sink: s, Pkg: pkgPath(f), Path: path}
				}
				continue
			}
			if seen[c] || opaque(pkgPath(c)) {
				continue
			}
			seen[c] = true
			parent[c] = f
			queue = append(queue, c)
		}
	}
	var out []site
	for _, s := range sites {
		out = append(out, s)
	}
	sort.Slice(out, func(i, j int) bool { return out[i].Caller+out[i].Sink < out[j].Caller+out[j].Sink })
	type pc struct {
		Package   string `json:"package"`
		Functions int    `json:"reachable_functions"`
	}
	var reached []pc
	for p, c := range pkgsReached {
		if p != "" && !strings.HasPrefix(p, module) {
			reached = append(reached, pc{p, c})
		}
	}
	sort.Slice(reached, func(i, j int) bool { return reached[i].Package < reached[j].Package })
	enc := json.NewEncoder(os.Stdout)
	enc.SetIndent("", " ")
	enc.Encode(map[string]interface{}{"roots": len(roots), "reachable_functions": len(seen), "rta_nodes": len(cg.Nodes),
		"sink_sites": out, "external_packages_followed": reached})
}
