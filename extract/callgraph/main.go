// callgraph: over-approximated call graph of the polynetwork/poly module, rooted at the native-contract entry
// points, with the forbidden nondeterminism sinks (wall clock, timers, random sources) as explicit *site* nodes.
//
//	callgraph <repo> lean [f]  (also writes the JSON facts to file f) Lean definitions for Poly/Generated/CallGraph.lean (graph, entries, sink sites,
//	                           closure certificate, one witness path per reachable sink site)
//	callgraph <repo> json [functions]   (with a 4th argument: also every declared function with file and line range,
//	                           for the coverage cross-check) the same facts with names, source positions and call paths; plus the callers of
//	                           NativeService.NativeCall / Invoke and CacheDB.Commit / Reset inside native/service
//
// The graph is built from go/types information of every package of the module (syntax of the module's packages,
// export data of dependencies; go/packages from x/tools does the loading). It is an over-approximation designed to be
// sound for this code base without needing the bodies of third-party packages:
//
//	E1  f -> g        for every *use* (call or not) in f's body (closures included) of a function or method g declared
//	                  in the module;
//	E2  f -> T.m      for every use in f of an interface method I.m: every named type T of the module with T or *T
//	                  implementing I (class-hierarchy analysis, all types considered live);
//	E3  f -> T.m      for every call in f of a function outside the module or of a function value: the methods m of every
//	                  named module type reachable through the static types of the arguments (fields, elements, nested),
//	                  restricted to method names through which code that cannot name the type can call it: names of
//	                  methods of any interface type declared in any loaded package (module or dependency), plus the
//	                  reflection hook names of the codecs in use (callbacks such as sort.Sort, rlp/json/amino hooks);
//	E4  f -> v        for every use in f of a package-level variable of the module whose initialiser contains function
//	                  literals or function references (v is a pseudo node holding those);
//	E5  f -> g        for every call in f through a function value: every module function, method value or function literal
//	                  (its enclosing function) that is used anywhere in the module other than as the callee of a call and
//	                  has an identical signature; package initialisers are ordinary nodes, so what they store in globals
//	                  is covered;
//	S   f -> site     for every use in f of a forbidden object: time.{Now,Since,Until,After,AfterFunc,NewTimer,NewTicker,
//	                  Tick,Sleep}, every package-level function of math/rand (and /v2) except the deterministic
//	                  constructors New, NewSource, NewZipf, NewPCG, NewChaCha8, and every function or variable of crypto/rand.
//
//	G   f -> site     (kind "global") for every place where f writes process-wide state: an assignment, ++/--, element or field
//	                  store, or delete() whose target is rooted at a package-level variable (of the module or of a
//	                  dependency), and every method call on a package-level variable (sync.Map/Pool, caches, ledgers, …:
//	                  whether the method mutates is decided by review of the allow-list, not here). Writes through a local
//	                  alias of a global (p := &global; *p = …) are not seen.
//	R   f -> site     (kind "goroutine") for every `go` statement and every `select` with two or more communication clauses in f.
//
// Not followed: the bodies of dependencies (third-party and standard library; thorough tier can load them with
// `all`), package `common/log` of the module (log output is not part of an execution result), reflection and unsafe.
package main

import (
	"encoding/json"
	"fmt"
	"go/ast"
	"go/token"
	"go/types"
	"os"
	"sort"
	"strings"

	"golang.org/x/tools/go/packages"
)

const module = "github.com/polynetwork/poly"

var opaquePkgs = map[string]bool{module + "/common/log": true}

type node struct {
	id    int
	name  string
	pos   string
	succ  map[int]bool
	site  bool   // forbidden-sink use site
	kind  string // site kind: "clock" (wall clock / timers / random sources), "global" (process-wide state written), "goroutine"
	key   string // site key
	entry string // why it is an entry ("" = not an entry)
	ext   map[string]bool // packages outside the module whose functions or variables this function uses
	file  string // <import path>/<file name> of a declared function, as coverage profiles name it
	l0    int    // first and last line of the declaration
	l1    int
}

type builder struct {
	fset      *token.FileSet
	pkgs      []*packages.Package
	nodes     []*node
	byObj     map[types.Object]*node
	named     []*types.Named // every named type declared in the module
	callable  map[string]bool // method names reachable through some interface or reflection hook
	siteCount map[string]int
	nativeUse []map[string]string
}

func rel(p string) string { return strings.TrimPrefix(strings.TrimPrefix(p, module), "/") }

func (b *builder) pos(p token.Pos) string {
	q := b.fset.Position(p)
	f := q.Filename
	if i := strings.Index(f, "/native/"); i >= 0 {
		f = f[i+1:]
	} else if i := strings.Index(f, "/core/"); i >= 0 {
		f = f[i+1:]
	} else if i := strings.Index(f, "/common/"); i >= 0 {
		f = f[i+1:]
	}
	return fmt.Sprintf("%s:%d", f, q.Line)
}

func funcName(f *types.Func) string {
	sig := f.Type().(*types.Signature)
	pk := ""
	if f.Pkg() != nil {
		pk = rel(f.Pkg().Path())
		if !strings.HasPrefix(f.Pkg().Path(), module) {
			pk = f.Pkg().Path()
		}
	}
	if r := sig.Recv(); r != nil {
		t := r.Type()
		ptr := ""
		if p, ok := t.(*types.Pointer); ok {
			t = p.Elem()
			ptr = "*"
		}
		if n, ok := t.(*types.Named); ok {
			return fmt.Sprintf("%s.(%s%s).%s", pk, ptr, n.Obj().Name(), f.Name())
		}
		return fmt.Sprintf("%s.(%s).%s", pk, types.TypeString(t, nil), f.Name())
	}
	return pk + "." + f.Name()
}

func (b *builder) newNode(name, pos string) *node {
	n := &node{id: len(b.nodes), name: name, pos: pos, succ: map[int]bool{}}
	b.nodes = append(b.nodes, n)
	return n
}

func inModule(p *types.Package) bool {
	return p != nil && (p.Path() == module || strings.HasPrefix(p.Path(), module+"/"))
}

// statelessCall: a value-receiver method called on a package-level variable that is itself a plain value (struct, basic,
// array): the method works on a copy and cannot change the variable (encoding/binary.LittleEndian and the like).
func statelessCall(v *types.Var, f *types.Func) bool {
	if _, ptr := f.Type().(*types.Signature).Recv().Type().(*types.Pointer); ptr {
		return false
	}
	switch v.Type().Underlying().(type) {
	case *types.Struct, *types.Basic, *types.Array:
		return true
	}
	return false
}

// isExtMethod: a method declared outside the module.
func isExtMethod(o types.Object) bool {
	f, ok := o.(*types.Func)
	return ok && f.Pkg() != nil && !inModule(f.Pkg()) && f.Type().(*types.Signature).Recv() != nil
}

func sinkKind(o types.Object) string {
	if o == nil || o.Pkg() == nil {
		return ""
	}
	if o.Parent() != o.Pkg().Scope() { // methods, fields, locals
		return ""
	}
	switch o.Pkg().Path() {
	case "time":
		switch o.Name() {
		case "Now", "Since", "Until", "After", "AfterFunc", "NewTimer", "NewTicker", "Tick", "Sleep":
			return "time." + o.Name()
		}
	case "math/rand", "math/rand/v2":
		if _, ok := o.(*types.Func); ok {
			switch o.Name() {
			case "New", "NewSource", "NewZipf", "NewPCG", "NewChaCha8":
				return ""
			}
			return "math/rand." + o.Name()
		}
	case "crypto/rand":
		switch o.(type) {
		case *types.Func, *types.Var:
			return "crypto/rand." + o.Name()
		}
	}
	return ""
}

// moduleNamedIn collects the named module types reachable through the structure of t.
func moduleNamedIn(t types.Type, seen map[types.Type]bool, out *[]*types.Named) {
	if t == nil || seen[t] {
		return
	}
	seen[t] = true
	switch u := t.(type) {
	case *types.Named:
		if inModule(u.Obj().Pkg()) {
			*out = append(*out, u)
		}
		moduleNamedIn(u.Underlying(), seen, out)
	case *types.Pointer:
		moduleNamedIn(u.Elem(), seen, out)
	case *types.Slice:
		moduleNamedIn(u.Elem(), seen, out)
	case *types.Array:
		moduleNamedIn(u.Elem(), seen, out)
	case *types.Map:
		moduleNamedIn(u.Key(), seen, out)
		moduleNamedIn(u.Elem(), seen, out)
	case *types.Chan:
		moduleNamedIn(u.Elem(), seen, out)
	case *types.Struct:
		for i := 0; i < u.NumFields(); i++ {
			moduleNamedIn(u.Field(i).Type(), seen, out)
		}
	case *types.Tuple:
		for i := 0; i < u.Len(); i++ {
			moduleNamedIn(u.At(i).Type(), seen, out)
		}
	}
}

func (b *builder) methodsOf(n *types.Named) []*types.Func {
	var out []*types.Func
	ms := types.NewMethodSet(types.NewPointer(n))
	for i := 0; i < ms.Len(); i++ {
		if f, ok := ms.At(i).Obj().(*types.Func); ok {
			out = append(out, f)
		}
	}
	return out
}

func main() {
	if len(os.Args) < 3 {
		fmt.Fprintln(os.Stderr, "usage: callgraph <repo> lean|json [all]")
		os.Exit(2)
	}
	repo, out := os.Args[1], os.Args[2]
	mode := packages.LoadSyntax
	cfg := &packages.Config{Mode: mode, Dir: repo, Tests: false,
		Env: append(os.Environ(), "GOFLAGS=-mod=mod", "GOPROXY=off", "GOSUMDB=off", "GOTOOLCHAIN=local")}
	pkgs, err := packages.Load(cfg, "./...")
	if err != nil {
		fmt.Fprintln(os.Stderr, "load:", err)
		os.Exit(1)
	}
	b := &builder{byObj: map[types.Object]*node{}, siteCount: map[string]int{}}
	for _, p := range pkgs {
		if inModule(p.Types) && len(p.Syntax) > 0 && p.PkgPath != module { // the root holds two `main`s (node, sigsvr)
			b.pkgs = append(b.pkgs, p)
			b.fset = p.Fset
		}
	}
	if len(b.pkgs) < 50 {
		fmt.Fprintf(os.Stderr, "only %d module packages loaded from %s\n", len(b.pkgs), repo)
		os.Exit(1)
	}
	sort.Slice(b.pkgs, func(i, j int) bool { return b.pkgs[i].PkgPath < b.pkgs[j].PkgPath })
	// type errors inside module packages other than those caused by the cgo-only dependency are fatal: the facts
	// would be unreliable
	for _, p := range b.pkgs {
		for _, e := range p.Errors {
			if !strings.Contains(e.Msg, "bls") && !strings.Contains(e.Pos, "harmony") {
				fmt.Fprintf(os.Stderr, "type error in %s: %v\n", p.PkgPath, e)
				os.Exit(1)
			}
		}
	}
	// method names callable from code that cannot name a module type
	b.callable = map[string]bool{}
	for _, h := range []string{"MarshalJSON", "UnmarshalJSON", "MarshalText", "UnmarshalText", "MarshalBinary", "UnmarshalBinary",
		"MarshalAmino", "UnmarshalAmino", "MarshalAminoJSON", "UnmarshalAminoJSON", "EncodeRLP", "DecodeRLP", "String", "Error",
		"GobEncode", "GobDecode", "Format", "GoString", "Scan", "Value", "MarshalYAML", "UnmarshalYAML", "Marshal", "Unmarshal",
		"MarshalTo", "Size", "Reset", "ProtoMessage"} {
		b.callable[h] = true
	}
	packages.Visit(pkgs, nil, func(p *packages.Package) {
		if p.Types == nil {
			return
		}
		sc := p.Types.Scope()
		for _, name := range sc.Names() {
			if tn, ok := sc.Lookup(name).(*types.TypeName); ok {
				if it, ok := tn.Type().Underlying().(*types.Interface); ok {
					for i := 0; i < it.NumMethods(); i++ {
						b.callable[it.Method(i).Name()] = true
					}
				}
			}
		}
	})
	// pass 1: nodes for every declared function / method, and for package-level variables holding functions
	type body struct {
		n    *node
		pkg  *packages.Package
		body ast.Node
	}
	var bodies []body
	for _, p := range b.pkgs {
		sc := p.Types.Scope()
		for _, name := range sc.Names() {
			if tn, ok := sc.Lookup(name).(*types.TypeName); ok && !tn.IsAlias() {
				if nt, ok := tn.Type().(*types.Named); ok {
					b.named = append(b.named, nt)
				}
			}
		}
		for _, f := range p.Syntax {
			for _, d := range f.Decls {
				switch d := d.(type) {
				case *ast.FuncDecl:
					obj, _ := p.TypesInfo.Defs[d.Name].(*types.Func)
					if obj == nil {
						continue
					}
					// package initialisers are nodes too (never entries): what they store in globals can be called later
					n := b.newNode(funcName(obj), b.pos(d.Pos()))
					b.byObj[obj] = n
					pp := b.fset.Position(d.Pos())
					fn := pp.Filename
					if i := strings.LastIndex(fn, "/"); i >= 0 {
						fn = fn[i+1:]
					}
					n.file, n.l0, n.l1 = p.PkgPath+"/"+fn, pp.Line, b.fset.Position(d.End()).Line
					if d.Body != nil && !opaquePkgs[p.PkgPath] {
						bodies = append(bodies, body{n, p, d.Body})
					}
				case *ast.GenDecl:
					if d.Tok != token.VAR {
						continue
					}
					for _, s := range d.Specs {
						vs := s.(*ast.ValueSpec)
						for i, nm := range vs.Names {
							obj, _ := p.TypesInfo.Defs[nm].(*types.Var)
							if obj == nil || len(vs.Values) == 0 {
								continue
							}
							var init ast.Expr
							if len(vs.Values) == len(vs.Names) {
								init = vs.Values[i]
							} else {
								init = vs.Values[0]
							}
							holds := false
							ast.Inspect(init, func(x ast.Node) bool {
								switch x := x.(type) {
								case *ast.FuncLit:
									holds = true
								case *ast.Ident:
									if _, ok := p.TypesInfo.Uses[x].(*types.Func); ok {
										holds = true
									}
								}
								return true
							})
							if holds && !opaquePkgs[p.PkgPath] {
								n := b.newNode(rel(p.PkgPath)+".var:"+nm.Name, b.pos(nm.Pos()))
								b.byObj[obj] = n
								bodies = append(bodies, body{n, p, init})
							}
						}
					}
				}
			}
		}
	}
	// interface method -> implementing module methods (CHA), cached
	chaCache := map[*types.Func][]*types.Func{}
	cha := func(m *types.Func) []*types.Func {
		if r, ok := chaCache[m]; ok {
			return r
		}
		var res []*types.Func
		sig := m.Type().(*types.Signature)
		iface, _ := sig.Recv().Type().Underlying().(*types.Interface)
		if iface != nil {
			for _, nt := range b.named {
				if _, isI := nt.Underlying().(*types.Interface); isI {
					continue
				}
				if types.Implements(nt, iface) || types.Implements(types.NewPointer(nt), iface) {
					o, _, _ := types.LookupFieldOrMethod(types.NewPointer(nt), true, m.Pkg(), m.Name())
					if f, ok := o.(*types.Func); ok {
						res = append(res, f)
					}
				}
			}
		}
		chaCache[m] = res
		return res
	}
	isIfaceMethod := func(f *types.Func) bool {
		sig := f.Type().(*types.Signature)
		if sig.Recv() == nil {
			return false
		}
		_, ok := sig.Recv().Type().Underlying().(*types.Interface)
		return ok
	}
	// pass 1.5: address-taken functions (used other than as the callee of a call) and function literals, by type:
	// a call through a function *value* may reach any of them with an identical signature (E5)
	type taken struct {
		sig types.Type
		n   *node
	}
	var addrTaken []taken
	for _, bd := range bodies {
		info := bd.pkg.TypesInfo
		callee := map[*ast.Ident]bool{}
		ast.Inspect(bd.body, func(x ast.Node) bool {
			switch x := x.(type) {
			case *ast.CallExpr:
				switch fn := ast.Unparen(x.Fun).(type) {
				case *ast.Ident:
					callee[fn] = true
				case *ast.SelectorExpr:
					callee[fn.Sel] = true
				}
			case *ast.FuncLit:
				if tv, ok := info.Types[x]; ok {
					addrTaken = append(addrTaken, taken{tv.Type, bd.n})
				}
			case *ast.SelectorExpr:
				if f, ok := info.Uses[x.Sel].(*types.Func); ok && !callee[x.Sel] {
					if tv, ok := info.Types[x]; ok {
						if isIfaceMethod(f) {
							for _, impl := range cha(f) {
								if t := b.byObj[impl]; t != nil {
									addrTaken = append(addrTaken, taken{tv.Type, t})
								}
							}
						} else if t := b.byObj[f]; t != nil {
							addrTaken = append(addrTaken, taken{tv.Type, t})
						}
					}
					callee[x.Sel] = true // handled here with the type of the whole selector expression
				}
			case *ast.Ident:
				if f, ok := info.Uses[x].(*types.Func); ok && !callee[x] {
					if t := b.byObj[f]; t != nil {
						addrTaken = append(addrTaken, taken{f.Type(), t})
					}
				}
			}
			return true
		})
	}
	dynTargets := func(sig types.Type) []*node {
		var out []*node
		for _, t := range addrTaken {
			if types.Identical(t.sig.Underlying(), sig.Underlying()) { // named function types (RegisterService, Handler) included
				out = append(out, t.n)
			}
		}
		return out
	}
	// pass 2: edges
	for _, bd := range bodies {
		from := bd.n
		info := bd.pkg.TypesInfo
		addFunc := func(g *types.Func) {
			if isIfaceMethod(g) {
				for _, impl := range cha(g) {
					if t := b.byObj[impl]; t != nil {
						from.succ[t.id] = true
					}
				}
				return
			}
			if t := b.byObj[g]; t != nil {
				from.succ[t.id] = true
			}
		}
		addSite := func(kind, what string, p token.Pos) {
			base := from.name + "->" + what
			ord := b.siteCount[base]
			b.siteCount[base]++
			s := b.newNode("site:"+base, b.pos(p))
			s.site = true
			s.kind = kind
			s.key = fmt.Sprintf("%s#%d", base, ord)
			from.succ[s.id] = true
		}
		// globalRoot: the package-level variable an lvalue / receiver expression is rooted at, if any
		var globalRoot func(e ast.Expr) *types.Var
		globalRoot = func(e ast.Expr) *types.Var {
			switch e := e.(type) {
			case *ast.Ident:
				if v, ok := info.Uses[e].(*types.Var); ok && v.Pkg() != nil && v.Parent() == v.Pkg().Scope() {
					return v
				}
			case *ast.SelectorExpr:
				if v, ok := info.Uses[e.Sel].(*types.Var); ok && v.Pkg() != nil && v.Parent() == v.Pkg().Scope() {
					return v // pkg.Var
				}
				return globalRoot(e.X)
			case *ast.IndexExpr:
				return globalRoot(e.X)
			case *ast.StarExpr:
				return globalRoot(e.X)
			case *ast.ParenExpr:
				return globalRoot(e.X)
			case *ast.SliceExpr:
				return globalRoot(e.X)
			}
			return nil
		}
		varName := func(v *types.Var) string {
			pp := v.Pkg().Path()
			if inModule(v.Pkg()) {
				pp = rel(pp)
			}
			return pp + "." + v.Name()
		}
		ast.Inspect(bd.body, func(x ast.Node) bool {
			switch x := x.(type) {
			case *ast.GoStmt:
				addSite("goroutine", "go", x.Pos())
			case *ast.SelectStmt:
				if x.Body != nil && len(x.Body.List) >= 2 {
					addSite("goroutine", "select", x.Pos())
				}
			case *ast.AssignStmt:
				if x.Tok != token.DEFINE {
					for _, l := range x.Lhs {
						if v := globalRoot(l); v != nil && !opaquePkgs[v.Pkg().Path()] {
							addSite("global", "write:"+varName(v), l.Pos())
						}
					}
				}
			case *ast.IncDecStmt:
				if v := globalRoot(x.X); v != nil && !opaquePkgs[v.Pkg().Path()] {
					addSite("global", "write:"+varName(v), x.Pos())
				}
			case *ast.Ident:
				o := info.Uses[x]
				if o == nil {
					return true
				}
				if k := sinkKind(o); k != "" {
					addSite("clock", k, x.Pos())
					return true
				}
				if o.Pkg() != nil && !inModule(o.Pkg()) && o.Parent() == o.Pkg().Scope() || isExtMethod(o) {
					if from.ext == nil {
						from.ext = map[string]bool{}
					}
					from.ext[o.Pkg().Path()] = true
				}
				switch o := o.(type) {
				case *types.Func:
					addFunc(o)
					// callers of the nested-invocation and cache-commit APIs inside contract code (C15 side condition)
					if o.Pkg() != nil && strings.HasPrefix(bd.pkg.PkgPath, module+"/native/service") {
						fn := funcName(o)
						switch fn {
						case "native.(*NativeService).NativeCall", "native.(*NativeService).Invoke",
							"native/storage.(*CacheDB).Commit", "native/storage.(*CacheDB).Reset":
							b.nativeUse = append(b.nativeUse, map[string]string{"func": from.name, "callee": fn, "pos": b.pos(x.Pos())})
						}
					}
				case *types.Var:
					if t := b.byObj[o]; t != nil {
						from.succ[t.id] = true
					}
				}
			case *ast.CallExpr:
				if id, ok := ast.Unparen(x.Fun).(*ast.Ident); ok && id.Name == "delete" && len(x.Args) == 2 {
					if _, isB := info.Uses[id].(*types.Builtin); isB {
						if v := globalRoot(x.Args[0]); v != nil && !opaquePkgs[v.Pkg().Path()] {
							addSite("global", "write:"+varName(v), x.Pos())
						}
					}
				}
				if sel, ok := ast.Unparen(x.Fun).(*ast.SelectorExpr); ok {
					if f, isF := info.Uses[sel.Sel].(*types.Func); isF && f.Type().(*types.Signature).Recv() != nil {
						if v := globalRoot(sel.X); v != nil && !opaquePkgs[v.Pkg().Path()] && !statelessCall(v, f) {
							addSite("global", "call:"+varName(v)+"."+f.Name(), x.Pos())
						}
					}
				}
				// E3: calls that leave the module (or go through a function value) may call back into methods of the
				// module types they are handed
				external, dynamic := false, false
				switch fn := ast.Unparen(x.Fun).(type) {
				case *ast.Ident:
					switch o := info.Uses[fn].(type) {
					case *types.Func:
						external = !inModule(o.Pkg())
					case *types.Var:
						external, dynamic = true, true
					case *types.Builtin, *types.TypeName:
						external = false
					}
				case *ast.SelectorExpr:
					switch o := info.Uses[fn.Sel].(type) {
					case *types.Func:
						external = !inModule(o.Pkg()) || opaquePkgs[o.Pkg().Path()]
						if isIfaceMethod(o) && !inModule(o.Pkg()) {
							external = true
						}
					case *types.Var:
						external, dynamic = true, true
					}
				case *ast.FuncLit:
					external = false
				default:
					if tv, ok := info.Types[x.Fun]; ok && !tv.IsType() {
						external, dynamic = true, true
					}
				}
				if dynamic {
					if tv, ok := info.Types[x.Fun]; ok {
						for _, t := range dynTargets(tv.Type) {
							from.succ[t.id] = true
						}
					}
				}
				if external {
					var nts []*types.Named
					seen := map[types.Type]bool{}
					for _, a := range x.Args {
						if tv, ok := info.Types[a]; ok {
							moduleNamedIn(tv.Type, seen, &nts)
						}
					}
					if sel, ok := ast.Unparen(x.Fun).(*ast.SelectorExpr); ok {
						if tv, ok := info.Types[sel.X]; ok && !tv.IsType() {
							moduleNamedIn(tv.Type, seen, &nts) // receiver handed to an external method
						}
					}
					for _, nt := range nts {
						for _, m := range b.methodsOf(nt) {
							if !b.callable[m.Name()] {
								continue
							}
							if t := b.byObj[m]; t != nil {
								from.succ[t.id] = true
							}
						}
					}
				}
			}
			return true
		})
	}
	// entries: handlers registered through (*NativeService).Register, every method of the implementations of the
	// per-chain handler interfaces, and the block-execution path that invokes them
	markEntry := func(f *types.Func, why string) {
		if n := b.byObj[f]; n != nil && n.entry == "" {
			n.entry = why
		}
	}
	for _, p := range b.pkgs {
		if !strings.HasPrefix(p.PkgPath, module+"/native/service") {
			continue
		}
		for _, f := range p.Syntax {
			ast.Inspect(f, func(x ast.Node) bool {
				c, ok := x.(*ast.CallExpr)
				if !ok || len(c.Args) != 2 {
					return true
				}
				sel, ok := c.Fun.(*ast.SelectorExpr)
				if !ok || sel.Sel.Name != "Register" {
					return true
				}
				if m, ok := p.TypesInfo.Uses[sel.Sel].(*types.Func); !ok || funcName(m) != "native.(*NativeService).Register" {
					return true
				}
				var h *types.Func
				switch a := c.Args[1].(type) {
				case *ast.Ident:
					h, _ = p.TypesInfo.Uses[a].(*types.Func)
				case *ast.SelectorExpr:
					h, _ = p.TypesInfo.Uses[a.Sel].(*types.Func)
				}
				if h == nil {
					fmt.Fprintf(os.Stderr, "cannot resolve registered handler at %s\n", b.pos(c.Pos()))
					os.Exit(1)
				}
				name := "?"
				if tv, ok := p.TypesInfo.Types[c.Args[0]]; ok && tv.Value != nil {
					name = strings.Trim(tv.Value.ExactString(), `"`)
				}
				markEntry(h, "registered handler "+rel(p.PkgPath)+":"+name)
				return true
			})
		}
	}
	nHandlers := 0
	for _, n := range b.nodes {
		if n.entry != "" {
			nHandlers++
		}
	}
	ifaceNames := map[string]string{
		module + "/native/service/header_sync/common":         "HeaderSyncHandler",
		module + "/native/service/cross_chain_manager/common": "ChainHandler",
	}
	nImpl := 0
	for _, p := range b.pkgs {
		in, ok := ifaceNames[p.PkgPath]
		if !ok {
			continue
		}
		tn, _ := p.Types.Scope().Lookup(in).(*types.TypeName)
		if tn == nil {
			fmt.Fprintf(os.Stderr, "interface %s not found in %s\n", in, p.PkgPath)
			os.Exit(1)
		}
		iface := tn.Type().Underlying().(*types.Interface)
		for _, nt := range b.named {
			if _, isI := nt.Underlying().(*types.Interface); isI {
				continue
			}
			if types.Implements(types.NewPointer(nt), iface) {
				nImpl++
				for i := 0; i < iface.NumMethods(); i++ {
					o, _, _ := types.LookupFieldOrMethod(types.NewPointer(nt), true, nt.Obj().Pkg(), iface.Method(i).Name())
					if f, ok := o.(*types.Func); ok {
						markEntry(f, in+" implementation")
					}
				}
			}
		}
	}
	if nHandlers < 30 || nImpl < 30 {
		fmt.Fprintf(os.Stderr, "too few entry points found (%d registered handlers, %d chain handler types): the translator no longer understands the source\n", nHandlers, nImpl)
		os.Exit(1)
	}
	for _, n := range b.nodes {
		switch n.name {
		case "core/store/ledgerstore.(*LedgerStoreImp).executeBlock", "core/store/ledgerstore.(*LedgerStoreImp).handleTransaction",
			"core/store/ledgerstore.(*StateStore).HandleInvokeTransaction", "native.(*NativeService).Invoke",
			"native.(*NativeService).NativeCall":
			if n.entry == "" {
				n.entry = "block execution path"
			}
		}
	}
	// reachability + parents for witness paths
	parent := map[int]int{}
	var queue, entries []int
	reach := map[int]bool{}
	for _, n := range b.nodes {
		if n.entry != "" {
			entries = append(entries, n.id)
			reach[n.id] = true
			parent[n.id] = -1
			queue = append(queue, n.id)
		}
	}
	for len(queue) > 0 {
		c := queue[0]
		queue = queue[1:]
		var ss []int
		for s := range b.nodes[c].succ {
			ss = append(ss, s)
		}
		sort.Ints(ss)
		for _, s := range ss {
			if !reach[s] {
				reach[s] = true
				parent[s] = c
				queue = append(queue, s)
			}
		}
	}
	// what package initialisers reach runs at process start, not during a transaction (reported for the coverage
	// cross-check only)
	initReach := map[int]bool{}
	{
		var q []int
		for _, n := range b.nodes {
			if strings.HasSuffix(n.name, ".init") || strings.Contains(n.name, ".var:") {
				initReach[n.id] = true
				q = append(q, n.id)
			}
		}
		for len(q) > 0 {
			c := q[0]
			q = q[1:]
			for s := range b.nodes[c].succ {
				if !initReach[s] {
					initReach[s] = true
					q = append(q, s)
				}
			}
		}
	}
	// every node of the module graph is emitted, so that the Lean side re-checks the closure of the claimed
	// reachable set over the whole graph
	keep := []int{}
	newID := map[int]int{}
	for _, n := range b.nodes {
		newID[n.id] = len(keep)
		keep = append(keep, n.id)
	}
	pathTo := func(id int) []int {
		var p []int
		for c := id; c != -1; c = parent[c] {
			p = append([]int{newID[c]}, p...)
		}
		return p
	}
	type siteOut struct {
		Key       string   `json:"key"`
		Kind      string   `json:"kind"`
		Pos       string   `json:"pos"`
		Reachable bool     `json:"reachable"`
		Node      int      `json:"node"`
		Path      []string `json:"path,omitempty"`
		PathIDs   []int    `json:"path_ids,omitempty"`
		Entry     string   `json:"entry,omitempty"`
	}
	var sites []siteOut
	for _, n := range b.nodes {
		if !n.site {
			continue
		}
		s := siteOut{Key: n.key, Kind: n.kind, Pos: n.pos, Reachable: reach[n.id], Node: newID[n.id]}
		if reach[n.id] {
			s.PathIDs = pathTo(n.id)
			for c := n.id; c != -1; c = parent[c] {
				s.Path = append([]string{b.nodes[c].name + " (" + b.nodes[c].pos + ")"}, s.Path...)
				if parent[c] == -1 {
					s.Entry = b.nodes[c].entry
				}
			}
		}
		sites = append(sites, s)
	}
	sort.Slice(sites, func(i, j int) bool { return sites[i].Key < sites[j].Key })
	nEdges := 0
	for _, id := range keep {
		if reach[id] {
			nEdges += len(b.nodes[id].succ)
		}
	}
	writeJSON := func(f *os.File) {
		var ents []map[string]string
		for _, e := range entries {
			ents = append(ents, map[string]string{"name": b.nodes[e].name, "why": b.nodes[e].entry})
		}
		enc := json.NewEncoder(f)
		enc.SetIndent("", " ")
		var fns []map[string]interface{}
		if len(os.Args) > 4 || (out == "json" && len(os.Args) > 3) { // optional: every declared function with its line range
			for _, n := range b.nodes {
				if n.file != "" {
					fns = append(fns, map[string]interface{}{"name": n.name, "file": n.file, "l0": n.l0, "l1": n.l1, "reachable": reach[n.id], "init_reachable": initReach[n.id]})
				}
			}
		}
		extSet := map[string]bool{}
		for _, n := range b.nodes {
			if reach[n.id] {
				for p := range n.ext {
					extSet[p] = true
				}
			}
		}
		var exts []string
		for p := range extSet {
			exts = append(exts, p)
		}
		sort.Strings(exts)
		enc.Encode(map[string]interface{}{
			"external_packages_used": exts, // the frontier: bodies not followed by this (module-level) graph
			"functions": fns,
			"module_functions": len(b.nodes), "reachable": len(reach), "edges_from_reachable": nEdges,
			"entries": ents, "sites": sites, "callers": b.nativeUse,
			"registered_handlers": nHandlers, "chain_handler_types": nImpl,
		})
	}
	if out == "lean" && len(os.Args) > 3 {
		f, err := os.Create(os.Args[3])
		if err != nil {
			fmt.Fprintln(os.Stderr, err)
			os.Exit(1)
		}
		writeJSON(f)
		f.Close()
	}
	switch out {
	case "json":
		writeJSON(os.Stdout)
	case "lean":
		w := os.Stdout
		fmt.Fprintf(w, "/- GENERATED by extract/callgraph from %s — do not edit. %d module functions, %d reachable from %d entry points, %d edges. -/\n", "the Go source", len(b.nodes), len(reach), len(entries), nEdges)
		fmt.Fprintf(w, "namespace Poly.Generated.CallGraph\n\n")
		// the rows are emitted in chunks (one definition per 40 rows) to keep every literal small
		const chunk = 40
		nChunks := (len(keep) + chunk - 1) / chunk
		for c := 0; c < nChunks; c++ {
			fmt.Fprintf(w, "def rows%d : List (List Nat) := [\n", c)
			for i := c * chunk; i < len(keep) && i < (c+1)*chunk; i++ {
				id := keep[i]
				var ss []int
				for s := range b.nodes[id].succ {
					ss = append(ss, newID[s])
				}
				sort.Ints(ss)
				strs := make([]string, len(ss))
				for j, s := range ss {
					strs[j] = fmt.Sprint(s)
				}
				sep := ","
				if i == len(keep)-1 || i == (c+1)*chunk-1 {
					sep = ""
				}
				fmt.Fprintf(w, "  [%s]%s -- %d %s\n", strings.Join(strs, ","), sep, i, b.nodes[id].name)
			}
			fmt.Fprintf(w, "]\n")
		}
		fmt.Fprintf(w, "\n/-- Successor lists of every function of the module and every sink use site; the node id is the position. -/\ndef succ : List (List Nat) :=\n  List.flatten [")
		for c := 0; c < nChunks; c++ {
			if c > 0 {
				fmt.Fprintf(w, ", ")
			}
			if c%12 == 11 {
				fmt.Fprintf(w, "\n    ")
			}
			fmt.Fprintf(w, "rows%d", c)
		}
		fmt.Fprintf(w, "]\n\n")
		var es []string
		for _, e := range entries {
			es = append(es, fmt.Sprint(newID[e]))
		}
		fmt.Fprintf(w, "def entries : List Nat := [%s]\n\n", strings.Join(es, ","))
		for _, kd := range []struct{ kind, def, doc string }{
			{"clock", "sinkSites", "Every use site of a wall-clock / timer / random-source sink in the module: (node id, site key)."},
			{"global", "globalWriteSites", "Every place where a function writes process-wide state (target rooted at a package-level variable) or calls a method on a package-level variable."},
			{"goroutine", "goroutineSites", "Every `go` statement and every `select` with two or more communication clauses."},
		} {
			fmt.Fprintf(w, "/-- %s -/\ndef %s : List (Nat × String) := [\n", kd.doc, kd.def)
			first := true
			for _, s := range sites {
				if s.Kind != kd.kind {
					continue
				}
				if !first {
					fmt.Fprintf(w, ",\n")
				}
				first = false
				fmt.Fprintf(w, "  (%d, %q)", s.Node, s.Key)
			}
			fmt.Fprintf(w, "\n]\n\n")
		}
		// certificate: bit i set iff kept node i is reachable
		bits := make([]byte, (len(keep)+7)/8)
		for i, id := range keep {
			if reach[id] {
				bits[i/8] |= 1 << uint(i%8)
			}
		}
		hexs := ""
		for i := len(bits) - 1; i >= 0; i-- {
			hexs += fmt.Sprintf("%02x", bits[i])
		}
		fmt.Fprintf(w, "/-- Closure certificate: bit i is set iff node i is claimed reachable. -/\ndef certificate : Nat := 0x%s\n\n", hexs)
		for _, kd := range []struct{ kind, def string }{{"clock", "witnessPaths"}, {"global", "globalWitnessPaths"}, {"goroutine", "goroutineWitnessPaths"}} {
			fmt.Fprintf(w, "/-- One call path from an entry point to every reachable %s site, in the order of the site keys. -/\ndef %s : List (List Nat) := [\n", kd.kind, kd.def)
			first := true
			for _, s := range sites {
				if !s.Reachable || s.Kind != kd.kind {
					continue
				}
				strs := make([]string, len(s.PathIDs))
				for j, v := range s.PathIDs {
					strs[j] = fmt.Sprint(v)
				}
				if !first {
					fmt.Fprintf(w, ",\n")
				}
				first = false
				fmt.Fprintf(w, "  [%s]", strings.Join(strs, ","))
			}
			fmt.Fprintf(w, "\n]\n\n")
		}
		fmt.Fprintf(w, "end Poly.Generated.CallGraph\n")
	default:
		fmt.Fprintln(os.Stderr, "unknown output", out)
		os.Exit(2)
	}
}
