module ethtables

go 1.21
