// ethtables: reads the literal constants and tables of the Ethereum header rules of polynetwork/poly from
// source (go/parser + go/constant, standard library only) and prints them as Lean definitions.
//
//	ethtables <repo> lean|json|certs [k]   (certs: primality / compositeness certificates for both size tables;
//	                                          k = 0..7 selects the module holding the 64-epoch chunks 4k..4k+3)
//
// What is read (and fails loudly when the source no longer has the shape this translator is written for):
//   - native/service/header_sync/eth/header_sync.go : the big.NewInt(..) package variables (BIG_9, BOMB_DELAY, ...),
//     the fork chain of SyncBlockHeader (`if isX(&header) { expected = makeDifficultyCalculator(big.NewInt(D))... }`),
//     the field list of HashHeader (seal hash)
//   - native/service/header_sync/eth/header1559.go  : EIP-1559 constants, calculator variables, Header field order
//   - native/service/header_sync/eth/utils.go       : ethash constants, datasetSizes, cacheSizes
//   - common/constants/constants.go, common/config/config.go : fork heights per network id
//   - go-ethereum (version pinned by go.mod) params/protocol_params.go : MinimumDifficulty, DifficultyBoundDivisor,
//     GasLimitBoundDivisor, MinGasLimit, MaximumExtraDataSize
package main

import (
	"encoding/json"
	"fmt"
	"go/ast"
	"go/constant"
	"go/parser"
	"go/token"
	"math/big"
	"os"
	"path/filepath"
	"regexp"
	"sort"
	"strings"
)

var fset = token.NewFileSet()

func die(f string, a ...interface{}) {
	fmt.Fprintf(os.Stderr, "ethtables: "+f+"\n", a...)
	os.Exit(1)
}

func parse(path string) *ast.File {
	f, err := parser.ParseFile(fset, path, nil, 0)
	if err != nil {
		die("parse %s: %v", path, err)
	}
	return f
}

type env map[string]constant.Value

// eval evaluates integer constant expressions: literals, idents bound in env, + - * / << >>, parentheses,
// big.NewInt(c), selector time.Second (= 1e9, Go's definition).
func (e env) eval(x ast.Expr) (constant.Value, bool) {
	switch v := x.(type) {
	case *ast.BasicLit:
		if v.Kind == token.INT {
			return constant.MakeFromLiteral(v.Value, token.INT, 0), true
		}
	case *ast.ParenExpr:
		return e.eval(v.X)
	case *ast.Ident:
		c, ok := e[v.Name]
		return c, ok
	case *ast.SelectorExpr:
		if id, ok := v.X.(*ast.Ident); ok && id.Name == "time" && v.Sel.Name == "Second" {
			return constant.MakeInt64(1000000000), true
		}
	case *ast.UnaryExpr:
		if a, ok := e.eval(v.X); ok && (v.Op == token.SUB || v.Op == token.ADD) {
			return constant.UnaryOp(v.Op, a, 0), true
		}
	case *ast.BinaryExpr:
		a, ok1 := e.eval(v.X)
		b, ok2 := e.eval(v.Y)
		if !ok1 || !ok2 {
			return nil, false
		}
		switch v.Op {
		case token.SHL, token.SHR:
			s, ok := constant.Uint64Val(b)
			if !ok {
				return nil, false
			}
			return constant.Shift(a, v.Op, uint(s)), true
		case token.ADD, token.SUB, token.MUL:
			return constant.BinaryOp(a, v.Op, b), true
		case token.QUO:
			return constant.BinaryOp(a, token.QUO_ASSIGN, b), true
		}
	case *ast.CallExpr:
		if isSel(v.Fun, "big", "NewInt") && len(v.Args) == 1 {
			return e.eval(v.Args[0])
		}
	}
	return nil, false
}

func isSel(x ast.Expr, pkg, name string) bool {
	s, ok := x.(*ast.SelectorExpr)
	if !ok {
		return false
	}
	id, ok := s.X.(*ast.Ident)
	return ok && id.Name == pkg && s.Sel.Name == name
}

// collect evaluates every package-level const/var whose initialiser is an integer constant expression.
func collect(f *ast.File, e env) {
	for _, d := range f.Decls {
		g, ok := d.(*ast.GenDecl)
		if !ok || (g.Tok != token.CONST && g.Tok != token.VAR) {
			continue
		}
		for _, s := range g.Specs {
			vs := s.(*ast.ValueSpec)
			for i, n := range vs.Names {
				if i < len(vs.Values) {
					if c, ok := e.eval(vs.Values[i]); ok {
						e[n.Name] = c
					}
				}
			}
		}
	}
}

func table(f *ast.File, name string, e env) []string {
	for _, d := range f.Decls {
		g, ok := d.(*ast.GenDecl)
		if !ok || g.Tok != token.VAR {
			continue
		}
		for _, s := range g.Specs {
			vs := s.(*ast.ValueSpec)
			if len(vs.Names) == 1 && vs.Names[0].Name == name && len(vs.Values) == 1 {
				cl, ok := vs.Values[0].(*ast.CompositeLit)
				if !ok {
					die("%s is not a composite literal", name)
				}
				var out []string
				for _, el := range cl.Elts {
					c, ok := e.eval(el)
					if !ok {
						die("%s: non-constant element at %s", name, fset.Position(el.Pos()))
					}
					out = append(out, c.ExactString())
				}
				return out
			}
		}
	}
	die("table %s not found", name)
	return nil
}

func funcDecl(f *ast.File, name string) *ast.FuncDecl {
	for _, d := range f.Decls {
		if fd, ok := d.(*ast.FuncDecl); ok && fd.Name.Name == name {
			return fd
		}
	}
	die("function %s not found", name)
	return nil
}

type era struct {
	Pred  string `json:"pred"`
	Delay string `json:"delay"`
	Pos   string `json:"pos"`
}

// forkChain finds in SyncBlockHeader the if/else-if chain assigning `expected` and returns the (predicate,
// bomb delay) pairs in order; the final else must call difficultyCalculator.
func forkChain(f *ast.File, e env) []era {
	fd := funcDecl(f, "SyncBlockHeader")
	var res []era
	found := false
	ast.Inspect(fd.Body, func(n ast.Node) bool {
		is, ok := n.(*ast.IfStmt)
		if !ok || found {
			return true
		}
		chain := []era{}
		cur := is
		for {
			pred, ok := predName(cur.Cond)
			if !ok {
				return true
			}
			d, ok := delayOf(cur.Body, e)
			if !ok {
				return true
			}
			chain = append(chain, era{pred, d, fset.Position(cur.Pos()).String()})
			switch el := cur.Else.(type) {
			case *ast.IfStmt:
				cur = el
				continue
			case *ast.BlockStmt:
				if !callsLegacy(el) {
					die("final else of the difficulty fork chain does not call difficultyCalculator (%s)", fset.Position(el.Pos()))
				}
				res = chain
				found = true
				return false
			default:
				return true
			}
		}
	})
	if !found {
		die("difficulty fork chain not found in SyncBlockHeader")
	}
	return res
}

func predName(c ast.Expr) (string, bool) {
	call, ok := c.(*ast.CallExpr)
	if !ok {
		return "", false
	}
	id, ok := call.Fun.(*ast.Ident)
	if !ok || !strings.HasPrefix(id.Name, "is") {
		return "", false
	}
	return id.Name, true
}

func delayOf(b *ast.BlockStmt, e env) (string, bool) {
	if len(b.List) != 1 {
		return "", false
	}
	as, ok := b.List[0].(*ast.AssignStmt)
	if !ok || len(as.Lhs) != 1 || len(as.Rhs) != 1 {
		return "", false
	}
	if id, ok := as.Lhs[0].(*ast.Ident); !ok || id.Name != "expected" {
		return "", false
	}
	outer, ok := as.Rhs[0].(*ast.CallExpr)
	if !ok {
		return "", false
	}
	inner, ok := outer.Fun.(*ast.CallExpr)
	if !ok {
		return "", false
	}
	if id, ok := inner.Fun.(*ast.Ident); !ok || id.Name != "makeDifficultyCalculator" || len(inner.Args) != 1 {
		return "", false
	}
	c, ok := e.eval(inner.Args[0])
	if !ok {
		return "", false
	}
	return c.ExactString(), true
}

func callsLegacy(b *ast.BlockStmt) bool {
	r := false
	ast.Inspect(b, func(n ast.Node) bool {
		if c, ok := n.(*ast.CallExpr); ok {
			if id, ok := c.Fun.(*ast.Ident); ok && id.Name == "difficultyCalculator" {
				r = true
			}
		}
		return true
	})
	return r
}

type field struct {
	Name     string `json:"name"`
	Optional bool   `json:"optional"`
}

func headerFields(f *ast.File) []field {
	for _, d := range f.Decls {
		g, ok := d.(*ast.GenDecl)
		if !ok || g.Tok != token.TYPE {
			continue
		}
		for _, s := range g.Specs {
			ts := s.(*ast.TypeSpec)
			st, ok := ts.Type.(*ast.StructType)
			if ts.Name.Name != "Header" || !ok {
				continue
			}
			var out []field
			for _, fl := range st.Fields.List {
				tag := ""
				if fl.Tag != nil {
					tag = fl.Tag.Value
				}
				if strings.Contains(tag, `rlp:"-"`) {
					continue
				}
				for _, n := range fl.Names {
					out = append(out, field{n.Name, strings.Contains(tag, `rlp:"optional"`)})
				}
			}
			return out
		}
	}
	die("type Header not found")
	return nil
}

// sealFields: the composite literal `enc := []interface{}{header.X, ...}` of HashHeader plus the appended optionals.
func sealFields(f *ast.File) []field {
	fd := funcDecl(f, "HashHeader")
	var out []field
	ast.Inspect(fd.Body, func(n ast.Node) bool {
		switch v := n.(type) {
		case *ast.CompositeLit:
			for _, el := range v.Elts {
				if s, ok := el.(*ast.SelectorExpr); ok {
					out = append(out, field{s.Sel.Name, false})
				}
			}
		case *ast.CallExpr:
			if id, ok := v.Fun.(*ast.Ident); ok && id.Name == "append" {
				for _, a := range v.Args[1:] {
					if s, ok := a.(*ast.SelectorExpr); ok {
						out = append(out, field{s.Sel.Name, true})
					}
				}
			}
		}
		return true
	})
	if len(out) == 0 {
		die("HashHeader field list not found")
	}
	return out
}

// heightMap reads `var NAME = map[uint32]uint64{ K: V, ... }` of common/config/config.go.
func heightMap(f *ast.File, name string, e env) [][2]string {
	for _, d := range f.Decls {
		g, ok := d.(*ast.GenDecl)
		if !ok || g.Tok != token.VAR {
			continue
		}
		for _, s := range g.Specs {
			vs := s.(*ast.ValueSpec)
			if len(vs.Names) == 1 && vs.Names[0].Name == name && len(vs.Values) == 1 {
				cl := vs.Values[0].(*ast.CompositeLit)
				var out [][2]string
				for _, el := range cl.Elts {
					kv := el.(*ast.KeyValueExpr)
					k, ok1 := e.eval(kv.Key)
					val := kv.Value
					if sel, ok := val.(*ast.SelectorExpr); ok { // constants.X
						val = sel.Sel
					}
					v, ok2 := e.eval(val)
					if !ok1 || !ok2 {
						die("%s: non-constant entry at %s", name, fset.Position(el.Pos()))
					}
					out = append(out, [2]string{k.ExactString(), v.ExactString()})
				}
				return out
			}
		}
	}
	die("map %s not found", name)
	return nil
}

// getterDefault reads the fallback constant of `func GetX(id) { h := MAP[id]; if h == 0 { h = constants.Y }; return h }`
// ("0" when the getter has no fallback).
func getterDefault(f *ast.File, fn string, e env) string {
	fd := funcDecl(f, fn)
	res := "0"
	ast.Inspect(fd.Body, func(n ast.Node) bool {
		if is, ok := n.(*ast.IfStmt); ok {
			for _, st := range is.Body.List {
				if as, ok := st.(*ast.AssignStmt); ok && len(as.Rhs) == 1 {
					val := as.Rhs[0]
					if sel, ok := val.(*ast.SelectorExpr); ok {
						val = sel.Sel
					}
					if c, ok := e.eval(val); ok {
						res = c.ExactString()
					}
				}
			}
		}
		return true
	})
	return res
}

func gethDir(repo string) string {
	gm, err := os.ReadFile(filepath.Join(repo, "go.mod"))
	if err != nil {
		die("%v", err)
	}
	ver := ""
	if m := regexp.MustCompile(`github.com/ethereum/go-ethereum\s+\S+\s+=>\s+github.com/ethereum/go-ethereum\s+(\S+)`).FindSubmatch(gm); m != nil {
		ver = string(m[1])
	} else if m := regexp.MustCompile(`(?m)^\s*github.com/ethereum/go-ethereum\s+(v\S+)`).FindSubmatch(gm); m != nil {
		ver = string(m[1])
	} else {
		die("go-ethereum version not found in go.mod")
	}
	cache := os.Getenv("GOMODCACHE")
	if cache == "" {
		gp := os.Getenv("GOPATH")
		if gp == "" {
			home, _ := os.UserHomeDir()
			gp = filepath.Join(home, "go")
		}
		cache = filepath.Join(gp, "pkg", "mod")
	}
	return filepath.Join(cache, "github.com", "ethereum", "go-ethereum@"+ver)
}

func need(e env, names ...string) {
	for _, n := range names {
		if _, ok := e[n]; !ok {
			die("constant %s not found / not an integer constant expression", n)
		}
	}
}

func main() {
	if len(os.Args) < 3 {
		die("usage: ethtables <repo> lean|json")
	}
	repo, mode := os.Args[1], os.Args[2]
	dir := filepath.Join(repo, "native/service/header_sync/eth")
	hs := parse(filepath.Join(dir, "header_sync.go"))
	h1559 := parse(filepath.Join(dir, "header1559.go"))
	ut := parse(filepath.Join(dir, "utils.go"))
	cst := parse(filepath.Join(repo, "common/constants/constants.go"))
	cfg := parse(filepath.Join(repo, "common/config/config.go"))
	geth := gethDir(repo)
	pp := parse(filepath.Join(geth, "params/protocol_params.go"))

	eth := env{}
	collect(hs, eth)
	collect(h1559, eth)
	collect(ut, eth)
	need(eth, "BIG_1", "BIG_2", "BIG_9", "BIG_MINUS_99", "BLOCK_DIFF_FACTOR", "DIFF_PERIOD", "BOMB_DELAY",
		"expDiffPeriod", "big1", "big2", "big9", "bigMinus99",
		"BaseFeeChangeDenominator", "ElasticityMultiplier", "InitialBaseFee",
		"epochLength", "maxEpoch", "datasetInitBytes", "datasetGrowthBytes", "mixBytes", "hashBytes",
		"cacheInitBytes", "cacheGrowthBytes", "allowedFutureBlockTime")
	par := env{}
	collect(pp, par)
	need(par, "MinimumDifficulty", "DifficultyBoundDivisor", "GasLimitBoundDivisor", "MinGasLimit", "MaximumExtraDataSize")
	ce := env{}
	collect(cst, ce)
	collect(cfg, ce) // NETWORK_ID_* live in config.go

	chain := forkChain(hs, eth)
	ds := table(ut, "datasetSizes", eth)
	cs := table(ut, "cacheSizes", eth)
	hf := headerFields(h1559)
	sf := sealFields(hs)
	londonMap := heightMap(cfg, "ETH1559_HEIGHT", ce)
	arrowMap := heightMap(cfg, "ETH4345_HEIGHT", ce)
	grayMap := heightMap(cfg, "ETH5133_HEIGHT", ce)
	londonDef := getterDefault(cfg, "GetEth1559Height", ce)
	arrowDef := getterDefault(cfg, "GetEth4345Height", ce)
	grayDef := getterDefault(cfg, "GetEth5133Height", ce)

	if mode == "json" {
		js := map[string]interface{}{"eth": strs(eth), "params": strs(par), "forkChain": chain, "headerFields": hf, "sealFields": sf,
			"ETH1559_HEIGHT": londonMap, "ETH1559_default": londonDef, "ETH4345_HEIGHT": arrowMap, "ETH4345_default": arrowDef,
			"ETH5133_HEIGHT": grayMap, "ETH5133_default": grayDef,
			"datasetSizes": len(ds), "cacheSizes": len(cs), "geth": geth}
		b, _ := json.MarshalIndent(js, "", " ")
		fmt.Println(string(b))
		return
	}
	if mode == "certs" {
		u := func(name string) uint64 {
			v, _ := constant.Uint64Val(eth[name])
			return v
		}
		part := -1
		if len(os.Args) > 3 {
			fmt.Sscan(os.Args[3], &part)
		}
		fmt.Print(certsLean(part, ds, cs, u("datasetInitBytes"), u("datasetGrowthBytes"), u("mixBytes"), u("cacheInitBytes"), u("cacheGrowthBytes"), u("hashBytes")))
		return
	}
	rel := func(p string) string { return strings.TrimPrefix(p, repo+"/") }
	var b strings.Builder
	w := func(f string, a ...interface{}) { fmt.Fprintf(&b, f, a...) }
	w("/- GENERATED by extract/ethtables from the Go source (header_sync/eth, common/config, common/constants,\n   go-ethereum params) on every run of ./check C28 C27 — do not edit. -/\n")
	w("namespace Poly.Generated.EthConsts\n\n")
	w("/-! package variables / constants of %s -/\n", rel(dir))
	names := []string{}
	for k := range eth {
		names = append(names, k)
	}
	sort.Strings(names)
	for _, k := range names {
		w("def %s : Int := %s\n", leanName(k), leanInt(eth[k].ExactString()))
	}
	w("\n/-! go-ethereum params (%s) -/\n", filepath.Base(geth))
	for _, k := range []string{"MinimumDifficulty", "DifficultyBoundDivisor", "GasLimitBoundDivisor", "MinGasLimit", "MaximumExtraDataSize"} {
		w("def %s : Int := %s\n", k, leanInt(par[k].ExactString()))
	}
	w("\n/-- The fork chain of SyncBlockHeader: (predicate, bomb delay passed to makeDifficultyCalculator), first match wins;\n    when none matches the legacy difficultyCalculator (BOMB_DELAY) is used. -/\n")
	w("def forkChain : List (String × Int) := [")
	for i, c := range chain {
		if i > 0 {
			w(", ")
		}
		w("(%q, %s)", c.Pred, c.Delay)
	}
	w("]\n")
	w("\n/-- common/config: fork height per network id and the getter's fallback (0 = none). -/\n")
	pm := func(name string, m [][2]string, def string) {
		w("def %s : List (Nat × Nat) := [", name)
		for i, kv := range m {
			if i > 0 {
				w(", ")
			}
			w("(%s, %s)", kv[0], kv[1])
		}
		w("]\ndef %s_default : Nat := %s\n", name, def)
	}
	pm("eth1559Height", londonMap, londonDef)
	pm("eth4345Height", arrowMap, arrowDef)
	pm("eth5133Height", grayMap, grayDef)
	pf := func(name string, fs []field) {
		w("def %s : List (String × Bool) := [", name)
		for i, f := range fs {
			if i > 0 {
				w(", ")
			}
			w("(%q, %v)", f.Name, f.Optional)
		}
		w("]\n")
	}
	w("\n/-- RLP field order of Header (name, rlp:\"optional\") and of the seal hash HashHeader. -/\n")
	pf("headerFields", hf)
	pf("sealFields", sf)
	pt := func(name string, t []string) {
		// chunks of 64 entries (a single 2048-element literal exceeds Lean's default recursion depth)
		n := 0
		for i := 0; i < len(t); i += 64 {
			w("\ndef %s_%d : List Nat := [", name, n)
			for j := i; j < i+64 && j < len(t); j++ {
				if j > i {
					w(",")
				}
				if (j-i)%8 == 0 {
					w("\n  ")
				} else {
					w(" ")
				}
				w("%s", t[j])
			}
			w("]\n")
			n++
		}
		w("\ndef %s : Array Nat := List.toArray <| List.flatten [", name)
		for i := 0; i < n; i++ {
			if i > 0 {
				w(", ")
			}
			w("%s_%d", name, i)
		}
		w("]\n")
	}
	pt("datasetSizes", ds)
	pt("cacheSizes", cs)
	w("\nend Poly.Generated.EthConsts\n")
	fmt.Print(b.String())
}

func strs(e env) map[string]string {
	m := map[string]string{}
	for k, v := range e {
		m[k] = v.ExactString()
	}
	return m
}

func leanInt(s string) string {
	if strings.HasPrefix(s, "-") {
		return "(" + s + ")"
	}
	return s
}

// leanName keeps Go identifiers; lower-case names that clash with nothing in Lean are fine inside the namespace.
func leanName(k string) string { return k }

// ---------------------------------------------------------------- size-table certificates

func smallestFactor(n uint64) uint64 {
	if n%2 == 0 {
		return 2
	}
	for d := uint64(3); d*d <= n; d += 2 {
		if n%d == 0 {
			return d
		}
	}
	return n
}

func primeFactors(n uint64) []uint64 {
	var out []uint64
	for n > 1 {
		f := smallestFactor(n)
		if len(out) == 0 || out[len(out)-1] != f {
			out = append(out, f)
		}
		n /= f
	}
	return out
}

func powmod(a, e, n uint64) uint64 {
	r := new(big.Int).Exp(new(big.Int).SetUint64(a), new(big.Int).SetUint64(e), new(big.Int).SetUint64(n))
	return r.Uint64()
}

const certSmallBound = 10000

// prattChain appends to chain the entries needed to certify p (sub-primes >= certSmallBound first).
func prattChain(p uint64, done map[uint64]bool, chain *[]string) {
	if done[p] {
		return
	}
	done[p] = true
	qs := primeFactors(p - 1)
	for _, q := range qs {
		if q >= certSmallBound {
			prattChain(q, done, chain)
		}
	}
	a := uint64(2)
	for ; a < 1000; a++ {
		if powmod(a, p-1, p) != 1 {
			continue
		}
		ok := true
		for _, q := range qs {
			if powmod(a, (p-1)/q, p) == 1 {
				ok = false
				break
			}
		}
		if ok {
			break
		}
	}
	var qq []string
	for _, q := range qs {
		qq = append(qq, fmt.Sprint(q))
	}
	*chain = append(*chain, fmt.Sprintf("⟨%d, %d, [%s]⟩", p, a, strings.Join(qq, ", ")))
}

func epochCert(init, growth, unit, epoch, v uint64) string {
	bound := init + growth*epoch - unit
	var ws []string
	if v <= bound && (bound-v)%(2*unit) == 0 && (bound-v)/(2*unit) < 5000 {
		for sz := bound; sz > v; sz -= 2 * unit {
			f := smallestFactor(sz / unit)
			if f == sz/unit {
				f = 0 // a prime candidate above the table value: no witness exists, the check will fail
			}
			ws = append(ws, fmt.Sprint(f))
		}
	}
	var chain []string
	if v/unit >= 2 {
		prattChain(v/unit, map[uint64]bool{}, &chain)
	}
	return fmt.Sprintf("⟨[%s], [%s]⟩", strings.Join(ws, ", "), strings.Join(chain, ", "))
}

func minI(a, b int) int {
	if a < b {
		return a
	}
	return b
}

func certsLean(part int, ds, cs []string, dInit, dGrowth, dUnit, cInit, cGrowth, cUnit uint64) string {
	var b strings.Builder
	w := func(f string, a ...interface{}) { fmt.Fprintf(&b, f, a...) }
	w("import Poly.Model.EthSizeCert\n")
	w("/- GENERATED by extract/ethtables (mode certs) from the size tables of header_sync/eth/utils.go — do not edit.\n")
	w("   For every table entry: a non-trivial divisor for each larger candidate and a Pratt chain for the entry's item count. -/\n")
	w("namespace Poly.Generated.EthSizeCerts\nopen Poly.Model.EthSizeCert\n")
	emit := func(name string, t []string, init, growth, unit uint64) {
		n := 0
		for i := 0; i < len(t); i += 64 {
			if part >= 0 && n/4 != part { // module `part` holds the chunks 4*part .. 4*part+3 of both tables
				n++
				continue
			}
			w("\ndef %s_%d : List Nat := [%s]\n", strings.Replace(name, "Certs", "Vals", 1), n, strings.Join(t[i:minI(i+64, len(t))], ", "))
			w("\ndef %s_%d : List EpochCert := [", name, n)
			for j := i; j < i+64 && j < len(t); j++ {
				if j > i {
					w(",")
				}
				var v uint64
				fmt.Sscan(t[j], &v)
				w("\n  %s", epochCert(init, growth, unit, uint64(j), v))
			}
			w("]\n")
			n++
		}
	}
	emit("datasetCerts", ds, dInit, dGrowth, dUnit)
	emit("cacheCerts", cs, cInit, cGrowth, cUnit)
	w("\nend Poly.Generated.EthSizeCerts\n")
	return b.String()
}
