// guards: for every native method registered through (*NativeService).Register, every SyncGenesisHeader of a
// HeaderSyncHandler implementation and every MakeDepositProposal of a ChainHandler implementation, the witness guard
// that precedes the first state write.
//
//	guards <repo> lean [jsonfile]    Lean table for Poly/Generated/Guards.lean (and the detailed facts as JSON)
//	guards <repo> json
//
// Facts per method body (go/types resolved):
//   - a *guard* is a statement at the top level of the function body (so it dominates everything after it) of the form
//     `err := utils.ValidateOwner(native, X)` / `err = …` / `if err := …; err != nil` followed by a test of err;
//     kind "operator" when X is a variable assigned from node_manager.GetCurConOperator at the top level of the same
//     body, otherwise "owner" (X is read from the call's parameters); when the failure branch does not return
//     unconditionally the guard is "soft"; the one accepted soft form is CommitDpos' (`MaxBlockChangeView` test in the
//     failure branch) reported as "operatorOrDue";
//   - the *first write* is the first top-level statement containing a call of (*storage.CacheDB).Put/Delete or of a module
//     function that reaches one (closure over static calls and interface dispatch to module types);
//   - the reported guard is the first guard if it precedes the first write (or there is no write), else "none";
//     a guard that comes *after* a write is reported as "late:<kind>" (never expected).
package main

import (
	"encoding/json"
	"fmt"
	"go/ast"
	"go/token"
	"go/types"
	"os"
	"sort"
	"strings"

	"golang.org/x/tools/go/packages"
)

const module = "github.com/polynetwork/poly"

type fact struct {
	Contract   string `json:"contract"`
	Method     string `json:"method"`
	Func       string `json:"func"`
	Pos        string `json:"pos"`
	Guard      string `json:"guard"`
	GuardPos   string `json:"guard_pos,omitempty"`
	GuardArg   string `json:"guard_arg,omitempty"`
	FirstWrite string `json:"first_write,omitempty"`
}

var fset *token.FileSet

func pos(p token.Pos) string {
	q := fset.Position(p)
	f := q.Filename
	if i := strings.Index(f, "/native/"); i >= 0 {
		f = f[i+1:]
	}
	return fmt.Sprintf("%s:%d", f, q.Line)
}

func inModule(p *types.Package) bool {
	return p != nil && (p.Path() == module || strings.HasPrefix(p.Path(), module+"/"))
}

func fullName(f *types.Func) string {
	sig := f.Type().(*types.Signature)
	pk := ""
	if f.Pkg() != nil {
		pk = strings.TrimPrefix(strings.TrimPrefix(f.Pkg().Path(), module), "/")
	}
	if r := sig.Recv(); r != nil {
		t := r.Type()
		if p, ok := t.(*types.Pointer); ok {
			t = p.Elem()
		}
		if n, ok := t.(*types.Named); ok {
			return pk + "." + n.Obj().Name() + "." + f.Name()
		}
	}
	return pk + "." + f.Name()
}

type decl struct {
	fn   *types.Func
	d    *ast.FuncDecl
	info *types.Info
}

func main() {
	if len(os.Args) < 3 {
		fmt.Fprintln(os.Stderr, "usage: guards <repo> lean|json [jsonfile]")
		os.Exit(2)
	}
	repo, out := os.Args[1], os.Args[2]
	cfg := &packages.Config{Mode: packages.LoadSyntax, Dir: repo,
		Env: append(os.Environ(), "GOFLAGS=-mod=mod", "GOPROXY=off", "GOSUMDB=off", "GOTOOLCHAIN=local")}
	pkgs, err := packages.Load(cfg, "./native/...", "./core/...", "./common/...", "./merkle/...", "./consensus/vbft/config")
	if err != nil {
		fmt.Fprintln(os.Stderr, "load:", err)
		os.Exit(1)
	}
	decls := map[*types.Func]*decl{}
	var named []*types.Named
	var mine []*packages.Package
	for _, p := range pkgs {
		if !inModule(p.Types) || len(p.Syntax) == 0 {
			continue
		}
		fset = p.Fset
		mine = append(mine, p)
		for _, e := range p.Errors {
			if !strings.Contains(e.Msg, "bls") && !strings.Contains(e.Pos, "harmony") {
				fmt.Fprintf(os.Stderr, "type error in %s: %v\n", p.PkgPath, e)
				os.Exit(1)
			}
		}
		sc := p.Types.Scope()
		for _, name := range sc.Names() {
			if tn, ok := sc.Lookup(name).(*types.TypeName); ok && !tn.IsAlias() {
				if nt, ok := tn.Type().(*types.Named); ok {
					named = append(named, nt)
				}
			}
		}
		for _, f := range p.Syntax {
			for _, d := range f.Decls {
				if fd, ok := d.(*ast.FuncDecl); ok && fd.Body != nil {
					if obj, ok := p.TypesInfo.Defs[fd.Name].(*types.Func); ok {
						decls[obj] = &decl{obj, fd, p.TypesInfo}
					}
				}
			}
		}
	}
	if len(mine) < 40 {
		fmt.Fprintf(os.Stderr, "only %d module packages loaded\n", len(mine))
		os.Exit(1)
	}
	isIface := func(f *types.Func) *types.Interface {
		sig := f.Type().(*types.Signature)
		if sig.Recv() == nil {
			return nil
		}
		it, _ := sig.Recv().Type().Underlying().(*types.Interface)
		return it
	}
	impls := func(m *types.Func) []*types.Func {
		var res []*types.Func
		it := isIface(m)
		for _, nt := range named {
			if _, ok := nt.Underlying().(*types.Interface); ok {
				continue
			}
			if types.Implements(nt, it) || types.Implements(types.NewPointer(nt), it) {
				o, _, _ := types.LookupFieldOrMethod(types.NewPointer(nt), true, m.Pkg(), m.Name())
				if f, ok := o.(*types.Func); ok {
					res = append(res, f)
				}
			}
		}
		return res
	}
	isCacheWrite := func(f *types.Func) bool {
		n := fullName(f)
		return n == "native/storage.CacheDB.Put" || n == "native/storage.CacheDB.Delete"
	}
	// callees of a node (static + CHA)
	calleesOf := func(info *types.Info, n ast.Node) []*types.Func {
		var res []*types.Func
		ast.Inspect(n, func(x ast.Node) bool {
			id, ok := x.(*ast.Ident)
			if !ok {
				return true
			}
			if f, ok := info.Uses[id].(*types.Func); ok {
				if isIface(f) != nil {
					if inModule(f.Pkg()) {
						res = append(res, impls(f)...)
					}
				} else {
					res = append(res, f)
				}
			}
			return true
		})
		return res
	}
	// writes closure (memoised DFS; cycles are cut conservatively as "not yet known", then re-evaluated to a fixpoint)
	writes := map[*types.Func]bool{}
	for changed := true; changed; {
		changed = false
		for f, d := range decls {
			if writes[f] {
				continue
			}
			for _, c := range calleesOf(d.info, d.d.Body) {
				if isCacheWrite(c) || writes[c] {
					writes[f] = true
					changed = true
					break
				}
			}
		}
	}
	nodeWrites := func(info *types.Info, n ast.Node) bool {
		for _, c := range calleesOf(info, n) {
			if isCacheWrite(c) || writes[c] {
				return true
			}
		}
		return false
	}
	analyse := func(f *types.Func) fact {
		d := decls[f]
		ft := fact{Func: fullName(f), Pos: pos(d.d.Pos()), Guard: "none"}
		info := d.info
		opVars := map[types.Object]bool{}
		stmts := d.d.Body.List
		firstWrite := -1
		guardIdx := -1
		for i, st := range stmts {
			// operator variable?
			if as, ok := st.(*ast.AssignStmt); ok && len(as.Rhs) == 1 {
				if call, ok := as.Rhs[0].(*ast.CallExpr); ok {
					if fn := calleeOf(info, call); fn != nil && fullName(fn) == "native/service/governance/node_manager.GetCurConOperator" {
						if id, ok := as.Lhs[0].(*ast.Ident); ok {
							if o := info.ObjectOf(id); o != nil {
								opVars[o] = true
							}
						}
					}
				}
			}
			// guard?
			var call *ast.CallExpr
			var errTestInSame *ast.IfStmt
			switch s := st.(type) {
			case *ast.AssignStmt:
				if len(s.Rhs) == 1 {
					call, _ = s.Rhs[0].(*ast.CallExpr)
				}
			case *ast.IfStmt:
				if as, ok := s.Init.(*ast.AssignStmt); ok && len(as.Rhs) == 1 {
					call, _ = as.Rhs[0].(*ast.CallExpr)
					errTestInSame = s
				}
			}
			isGuard := false
			if call != nil {
				if fn := calleeOf(info, call); fn != nil && fullName(fn) == "native/service/utils.ValidateOwner" && len(call.Args) == 2 {
					isGuard = true
				}
			}
			if isGuard && guardIdx < 0 {
				kind := "owner"
				if id, ok := call.Args[1].(*ast.Ident); ok && opVars[info.ObjectOf(id)] {
					kind = "operator"
				}
				// the failure branch
				var test *ast.IfStmt
				if errTestInSame != nil {
					test = errTestInSame
				} else if i+1 < len(stmts) {
					test, _ = stmts[i+1].(*ast.IfStmt)
				}
				hard := false
				due := false
				if test != nil && len(test.Body.List) > 0 {
					if _, ok := test.Body.List[0].(*ast.ReturnStmt); ok {
						hard = true
					}
					ast.Inspect(test.Body, func(x ast.Node) bool {
						if id, ok := x.(*ast.Ident); ok && id.Name == "MaxBlockChangeView" {
							due = true
						}
						return true
					})
				}
				switch {
				case hard:
				case due && kind == "operator":
					kind = "operatorOrDue"
				default:
					kind = "soft:" + kind
				}
				if firstWrite >= 0 {
					kind = "late:" + kind
				}
				guardIdx = i
				ft.Guard = kind
				ft.GuardPos = pos(call.Pos())
				ft.GuardArg = exprString(call.Args[1])
				continue
			}
			if firstWrite < 0 && nodeWrites(info, st) {
				firstWrite = i
				ft.FirstWrite = pos(st.Pos())
			}
		}
		return ft
	}
	var facts []fact
	// (a) registered methods
	for _, p := range mine {
		if !strings.HasPrefix(p.PkgPath, module+"/native/service") {
			continue
		}
		for _, f := range p.Syntax {
			ast.Inspect(f, func(x ast.Node) bool {
				c, ok := x.(*ast.CallExpr)
				if !ok || len(c.Args) != 2 {
					return true
				}
				fn := calleeOf(p.TypesInfo, c)
				if fn == nil || fullName(fn) != "native.NativeService.Register" {
					return true
				}
				var h *types.Func
				switch a := c.Args[1].(type) {
				case *ast.Ident:
					h, _ = p.TypesInfo.Uses[a].(*types.Func)
				case *ast.SelectorExpr:
					h, _ = p.TypesInfo.Uses[a.Sel].(*types.Func)
				}
				tv := p.TypesInfo.Types[c.Args[0]]
				if h == nil || decls[h] == nil || tv.Value == nil {
					fmt.Fprintf(os.Stderr, "cannot resolve registration at %s\n", pos(c.Pos()))
					os.Exit(1)
				}
				ft := analyse(h)
				parts := strings.Split(p.PkgPath, "/")
				ft.Contract = parts[len(parts)-1]
				ft.Method = strings.Trim(tv.Value.ExactString(), `"`)
				facts = append(facts, ft)
				return true
			})
		}
	}
	nReg := len(facts)
	// (b), (c) per-chain handlers
	type ifaceSpec struct{ pkg, name, method, prefix string }
	for _, is := range []ifaceSpec{
		{module + "/native/service/header_sync/common", "HeaderSyncHandler", "SyncGenesisHeader", "header_sync/"},
		{module + "/native/service/cross_chain_manager/common", "ChainHandler", "MakeDepositProposal", "cross_chain_manager/"},
	} {
		var it *types.Interface
		for _, p := range mine {
			if p.PkgPath == is.pkg {
				if tn, ok := p.Types.Scope().Lookup(is.name).(*types.TypeName); ok {
					it, _ = tn.Type().Underlying().(*types.Interface)
				}
			}
		}
		if it == nil {
			fmt.Fprintf(os.Stderr, "interface %s not found\n", is.name)
			os.Exit(1)
		}
		perPkg := map[string][]*types.Named{}
		for _, nt := range named {
			if _, ok := nt.Underlying().(*types.Interface); ok {
				continue
			}
			if types.Implements(types.NewPointer(nt), it) {
				perPkg[nt.Obj().Pkg().Path()] = append(perPkg[nt.Obj().Pkg().Path()], nt)
			}
		}
		for pp, nts := range perPkg {
			for _, nt := range nts {
				o, _, _ := types.LookupFieldOrMethod(types.NewPointer(nt), true, nt.Obj().Pkg(), is.method)
				f, ok := o.(*types.Func)
				if !ok || decls[f] == nil {
					fmt.Fprintf(os.Stderr, "method %s of %s has no body\n", is.method, nt)
					os.Exit(1)
				}
				ft := analyse(f)
				parts := strings.Split(pp, "/")
				ft.Contract = is.prefix + parts[len(parts)-1]
				if len(nts) > 1 {
					ft.Contract += ":" + strings.ToLower(strings.TrimSuffix(nt.Obj().Name(), "Handler"))
				}
				ft.Method = is.method
				facts = append(facts, ft)
			}
		}
	}
	if nReg < 30 || len(facts)-nReg < 30 {
		fmt.Fprintf(os.Stderr, "too few methods found (%d registered, %d handler methods)\n", nReg, len(facts)-nReg)
		os.Exit(1)
	}
	sort.Slice(facts, func(i, j int) bool {
		if facts[i].Contract != facts[j].Contract {
			return facts[i].Contract < facts[j].Contract
		}
		return facts[i].Method < facts[j].Method
	})
	writeJSON := func(f *os.File) {
		enc := json.NewEncoder(f)
		enc.SetIndent("", " ")
		enc.Encode(map[string]interface{}{"methods": facts, "registered": nReg})
	}
	if out == "lean" && len(os.Args) > 3 {
		f, err := os.Create(os.Args[3])
		if err != nil {
			fmt.Fprintln(os.Stderr, err)
			os.Exit(1)
		}
		writeJSON(f)
		f.Close()
	}
	switch out {
	case "json":
		writeJSON(os.Stdout)
	case "lean":
		fmt.Printf("/- GENERATED by extract/guards from the Go source — do not edit. -/\nnamespace Poly.Generated.Guards\n\n")
		fmt.Printf("/-- ((contract or handler package, method), witness guard preceding the first state write). -/\ndef table : List ((String × String) × String) := [\n")
		for i, ft := range facts {
			sep := ","
			if i == len(facts)-1 {
				sep = ""
			}
			fmt.Printf("  ((%q, %q), %q)%s -- %s %s\n", ft.Contract, ft.Method, ft.Guard, sep, ft.Func, ft.Pos)
		}
		fmt.Printf("]\n\nend Poly.Generated.Guards\n")
	}
}

func calleeOf(info *types.Info, c *ast.CallExpr) *types.Func {
	switch fn := ast.Unparen(c.Fun).(type) {
	case *ast.Ident:
		f, _ := info.Uses[fn].(*types.Func)
		return f
	case *ast.SelectorExpr:
		f, _ := info.Uses[fn.Sel].(*types.Func)
		return f
	}
	return nil
}

func exprString(e ast.Expr) string {
	switch x := e.(type) {
	case *ast.Ident:
		return x.Name
	case *ast.SelectorExpr:
		return exprString(x.X) + "." + x.Sel.Name
	}
	return "?"
}
