// thresholds: reads the quorum arithmetic of polynetwork/poly from source and prints it as Lean
// definitions over Int (Go's `/` on int is truncated division = Int.tdiv), as a Go program holding the
// same expressions verbatim (for the N = 1..10000 sweep that validates this translator), or as JSON.
//
//   thresholds <repo> lean|go|json
//
// A site is (file, function, selector). Selector "assign:<var>" picks every assignment to <var> in the
// function, in source order; "cmp" picks every comparison whose operands contain a division or a
// multiplication by an integer literal. Non-arithmetic sub-expressions (len(x), identifiers, calls) become
// parameters v0, v1, ... in order of first appearance; their source text is kept.
package main

import (
	"bytes"
	"encoding/json"
	"fmt"
	"go/ast"
	"go/parser"
	"go/printer"
	"go/token"
	"os"
	"path/filepath"
	"strings"
)

type site struct {
	ID, File, Func, Sel string
}

var sites = []site{
	{"ledger_verifyHeader_m", "core/store/ledgerstore/ledger_store.go", "verifyHeader", "assign:m"},
	{"ledger_verifyHeader_needFix", "core/store/ledgerstore/ledger_store.go", "verifyHeader", "assign:needFix"},
	{"ledger_verifyHeader_cmp", "core/store/ledgerstore/ledger_store.go", "verifyHeader", "cmpvar:m"},
	{"types_AddressFromBookkeepers", "core/types/address.go", "AddressFromBookkeepers", "callarg:AddressFromMultiPubKeys:1"},
	{"nodemgr_CheckConsensusSigns", "native/service/governance/node_manager/utils.go", "CheckConsensusSigns", "cmp"},
	{"sigmgr_CheckSigns", "native/service/governance/signature_manager/utils.go", "CheckSigns", "cmp"},
	{"vote_CheckVotes", "native/service/cross_chain_manager/consensus_vote/utils.go", "CheckVotes", "cmp"},
	{"vbft_getCommitConsensus", "consensus/vbft/node_utils.go", "getCommitConsensus", "cmp"},
	{"neo3_verifyWitness_m", "native/service/header_sync/neo3/utils.go", "*", "assign:m"},
	{"neo3legacy_verifyWitness_m", "native/service/header_sync/neo3legacy/utils.go", "*", "assign:m"},
	{"ont_verifyCrossChainMsg", "native/service/header_sync/ont/utils.go", "VerifyCrossChainMsg", "cmp"},
	{"ont_verifyHeader", "native/service/header_sync/ont/utils.go", "verifyHeader", "cmp"},
	{"cosmos_VerifyCosmosHeader", "native/service/header_sync/cosmos/utils.go", "*", "cmp"},
	{"okex_VerifyCosmosHeader", "native/service/header_sync/okex/header_sync.go", "*", "cmp"},
	{"heimdall_VerifyCosmosHeader", "native/service/header_sync/polygon/heimdall_header_sync.go", "*", "cmp"},
	{"vbft_genesis_C", "consensus/vbft/config/genesis.go", "*", "kv:C"},
}

type emitted struct {
	ID    string   `json:"id"`
	Pos   string   `json:"pos"`
	Func  string   `json:"func"`
	Src   string   `json:"src"`
	Atoms []string `json:"atoms"`
	Lean  string   `json:"lean"`
	Go    string   `json:"go"`
	Bool  bool     `json:"bool"`
}

var fset = token.NewFileSet()

func src(n ast.Node) string {
	var b bytes.Buffer
	printer.Fprint(&b, fset, n)
	return b.String()
}

type tr struct {
	atoms []string
	ok    bool
	why   string
}

func (t *tr) atom(e ast.Expr) int {
	s := src(e)
	for i, a := range t.atoms {
		if a == s {
			return i
		}
	}
	t.atoms = append(t.atoms, s)
	return len(t.atoms) - 1
}

// returns lean, go renderings; isBool
func (t *tr) expr(e ast.Expr) (string, string, bool) {
	switch x := e.(type) {
	case *ast.ParenExpr:
		l, g, b := t.expr(x.X)
		return "(" + l + ")", "(" + g + ")", b
	case *ast.BasicLit:
		if x.Kind == token.INT {
			return x.Value, x.Value, false
		}
	case *ast.BinaryExpr:
		l1, g1, b1 := t.expr(x.X)
		l2, g2, b2 := t.expr(x.Y)
		switch x.Op {
		case token.ADD, token.SUB, token.MUL:
			op := x.Op.String()
			return "(" + l1 + " " + op + " " + l2 + ")", "(" + g1 + " " + op + " " + g2 + ")", false
		case token.QUO:
			return "(Int.tdiv " + l1 + " " + l2 + ")", "(" + g1 + " / " + g2 + ")", false
		case token.REM:
			return "(Int.tmod " + l1 + " " + l2 + ")", "(" + g1 + " % " + g2 + ")", false
		case token.GEQ, token.LEQ, token.LSS, token.GTR, token.EQL, token.NEQ:
			lop := map[token.Token]string{token.GEQ: "≥", token.LEQ: "≤", token.LSS: "<", token.GTR: ">", token.EQL: "=", token.NEQ: "≠"}[x.Op]
			if b1 || b2 {
				if x.Op == token.EQL {
					return "(" + l1 + " == " + l2 + ")", "(" + g1 + " == " + g2 + ")", true
				}
				if x.Op == token.NEQ {
					return "(" + l1 + " != " + l2 + ")", "(" + g1 + " != " + g2 + ")", true
				}
			}
			return "(decide (" + l1 + " " + lop + " " + l2 + "))", "(" + g1 + " " + x.Op.String() + " " + g2 + ")", true
		case token.LOR:
			return "(" + l1 + " || " + l2 + ")", "(" + g1 + " || " + g2 + ")", true
		case token.LAND:
			return "(" + l1 + " && " + l2 + ")", "(" + g1 + " && " + g2 + ")", true
		}
		_ = b1
		_ = b2
	}
	i := t.atom(e)
	return fmt.Sprintf("v%d", i), fmt.Sprintf("v%d", i), false
}

func hasArith(e ast.Expr) bool {
	found := false
	ast.Inspect(e, func(n ast.Node) bool {
		if b, ok := n.(*ast.BinaryExpr); ok {
			if b.Op == token.QUO {
				found = true
			}
			if b.Op == token.MUL {
				if _, ok := b.X.(*ast.BasicLit); ok {
					found = true
				}
				if _, ok := b.Y.(*ast.BasicLit); ok {
					found = true
				}
			}
		}
		return true
	})
	return found
}

func isCmp(op token.Token) bool {
	switch op {
	case token.GEQ, token.LEQ, token.LSS, token.GTR:
		return true
	}
	return false
}

func main() {
	repo, mode := os.Args[1], os.Args[2]
	var out []emitted
	for _, s := range sites {
		path := filepath.Join(repo, s.File)
		f, err := parser.ParseFile(fset, path, nil, 0)
		if err != nil {
			fmt.Fprintf(os.Stderr, "thresholds: %v\n", err)
			os.Exit(1)
		}
		n := 0
		for _, d := range f.Decls {
			fd, ok := d.(*ast.FuncDecl)
			if !ok || fd.Body == nil || (s.Func != "*" && fd.Name.Name != s.Func) {
				continue
			}
			var picked []ast.Expr
			ast.Inspect(fd.Body, func(nd ast.Node) bool {
				switch {
				case strings.HasPrefix(s.Sel, "assign:"):
					v := s.Sel[7:]
					if as, ok := nd.(*ast.AssignStmt); ok && len(as.Lhs) == 1 && len(as.Rhs) == 1 {
						if id, ok := as.Lhs[0].(*ast.Ident); ok && id.Name == v {
							if v != "m" || hasArith(as.Rhs[0]) {
								picked = append(picked, as.Rhs[0])
							}
						}
					}
				case strings.HasPrefix(s.Sel, "cmpvar:"):
					v := s.Sel[7:]
					if b, ok := nd.(*ast.BinaryExpr); ok && isCmp(b.Op) {
						if id, ok := b.Y.(*ast.Ident); ok && id.Name == v {
							picked = append(picked, b)
							return false
						}
					}
				case s.Sel == "cmp":
					if b, ok := nd.(*ast.BinaryExpr); ok && isCmp(b.Op) && hasArith(b) {
						picked = append(picked, b)
						return false
					}
				case strings.HasPrefix(s.Sel, "callarg:"):
					parts := strings.Split(s.Sel, ":")
					if c, ok := nd.(*ast.CallExpr); ok {
						if id, ok := c.Fun.(*ast.Ident); ok && id.Name == parts[1] {
							idx := int(parts[2][0] - '0')
							if idx < len(c.Args) {
								picked = append(picked, c.Args[idx])
							}
						}
					}
				case strings.HasPrefix(s.Sel, "kv:"):
					if kv, ok := nd.(*ast.KeyValueExpr); ok {
						if id, ok := kv.Key.(*ast.Ident); ok && id.Name == s.Sel[3:] && hasArith(kv.Value) {
							picked = append(picked, kv.Value)
						}
					}
				}
				return true
			})
			for _, e := range picked {
				t := &tr{}
				l, g, b := t.expr(e)
				pos := fset.Position(e.Pos())
				rel, _ := filepath.Rel(repo, pos.Filename)
				out = append(out, emitted{ID: fmt.Sprintf("%s%d", s.ID, n), Pos: fmt.Sprintf("%s:%d", rel, pos.Line),
					Func: fd.Name.Name, Src: src(e), Atoms: t.atoms, Lean: l, Go: g, Bool: b})
				n++
			}
		}
		if n == 0 {
			fmt.Fprintf(os.Stderr, "thresholds: site %s (%s %s %s) not found in source\n", s.ID, s.File, s.Func, s.Sel)
			os.Exit(1)
		}
	}
	switch mode {
	case "json":
		b, _ := json.MarshalIndent(out, "", " ")
		fmt.Println(string(b))
	case "lean":
		fmt.Println("/- GENERATED by extract/thresholds from /repo on every run. Do not edit. -/")
		fmt.Println("namespace Poly.Generated.Thresholds")
		for _, e := range out {
			params := ""
			for i := range e.Atoms {
				params += fmt.Sprintf(" (v%d : Int)", i)
			}
			ty := "Int"
			if e.Bool {
				ty = "Bool"
			}
			fmt.Printf("\n/-- %s in %s: `%s`; parameters: %s -/\n", e.Pos, e.Func, strings.ReplaceAll(e.Src, "\n", " "), strings.Join(e.Atoms, " , "))
			fmt.Printf("def %s%s : %s := %s\n", e.ID, params, ty, e.Lean)
		}
		// evaluation table used by the sweep driver: every definition applied to (a, b) with unused parameters ignored
		fmt.Println("\ndef sweepNames : List String := [" + func() string {
			var ns []string
			for _, e := range out {
				ns = append(ns, "\""+e.ID+"\"")
			}
			return strings.Join(ns, ", ")
		}() + "]")
		fmt.Println("\ndef sweepEval (a b : Int) : List String := [")
		for i, e := range out {
			args := ""
			for j := range e.Atoms {
				if j%2 == 0 {
					args += " a"
				} else {
					args += " b"
				}
			}
			sep := ","
			if i == len(out)-1 {
				sep = ""
			}
			fmt.Printf("  toString (%s%s)%s\n", e.ID, args, sep)
		}
		fmt.Println("]")
		fmt.Println("\nend Poly.Generated.Thresholds")
	case "go":
		fmt.Println("// GENERATED by extract/thresholds: the source expressions verbatim, parameters substituted.")
		fmt.Println("package main\n\nimport (\n\t\"fmt\"\n\t\"os\"\n\t\"strconv\"\n)\n")
		for _, e := range out {
			params := []string{}
			for i := range e.Atoms {
				params = append(params, fmt.Sprintf("v%d", i))
			}
			ty := "int64"
			if e.Bool {
				ty = "bool"
			}
			p := ""
			if len(params) > 0 {
				p = strings.Join(params, ", ") + " int64"
			}
			fmt.Printf("// %s `%s`\nfunc %s(%s) %s { return %s }\n\n", e.Pos, strings.ReplaceAll(e.Src, "\n", " "), e.ID, p, ty, e.Go)
		}
		fmt.Println("func main() {\n\tlo, _ := strconv.ParseInt(os.Args[1], 10, 64)\n\thi, _ := strconv.ParseInt(os.Args[2], 10, 64)\n\tfor a := lo; a <= hi; a++ {\n\t\tfor _, b := range []int64{a, a - 1, a + 1, 2 * a / 3, (2*a + 2) / 3, a / 3, 3 * a, 0} {\n\t\t\tfmt.Print(a, \" \", b)")
		for _, e := range out {
			args := []string{}
			for j := range e.Atoms {
				if j%2 == 0 {
					args = append(args, "a")
				} else {
					args = append(args, "b")
				}
			}
			fmt.Printf("\t\t\tfmt.Print(\" \", %s(%s))\n", e.ID, strings.Join(args, ", "))
		}
		fmt.Println("\t\t\tfmt.Println()\n\t\t}\n\t}\n}")
	}
}
