module thresholds

go 1.21
