module codecinv

go 1.21
