module cmsgkinds

go 1.21
