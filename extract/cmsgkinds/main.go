// cmsgkinds: reads the VBFT consensus message inventory of polynetwork/poly from source and prints it as Lean
// tables (C44):
//
//   - the MsgType constants of consensus/vbft/msg_types.go with their iota values,
//   - for every struct with a `Type() MsgType` method: the constant it returns, and how it is encoded
//     (Serialize body: json.Marshal(msg) | custom),
//   - the switch of DeserializeVbftMsg in consensus/vbft/msg_builder.go: case constant -> struct allocated and
//     the decoder called (json.Unmarshal | method name),
//   - for every struct encoded with json.Marshal (and the envelope ConsensusMsgPayload and FaultyReport,
//     BlockInfo_): field name, json tag, exported?
//
//     cmsgkinds <repo>
package main

import (
	"fmt"
	"go/ast"
	"go/parser"
	"go/token"
	"os"
	"path/filepath"
	"reflect"
	"sort"
	"strings"
)

var fset = token.NewFileSet()

func die(f string, a ...interface{}) {
	fmt.Fprintf(os.Stderr, f+"\n", a...)
	os.Exit(1)
}

func parse(repo, rel string) *ast.File {
	f, err := parser.ParseFile(fset, filepath.Join(repo, rel), nil, 0)
	if err != nil {
		die("parse %s: %v", rel, err)
	}
	return f
}

func recvName(fd *ast.FuncDecl) string {
	if fd.Recv == nil || len(fd.Recv.List) != 1 {
		return ""
	}
	t := fd.Recv.List[0].Type
	if s, ok := t.(*ast.StarExpr); ok {
		t = s.X
	}
	if id, ok := t.(*ast.Ident); ok {
		return id.Name
	}
	return ""
}

func q(s string) string { return "\"" + s + "\"" }

func main() {
	if len(os.Args) < 2 {
		die("usage: cmsgkinds <repo>")
	}
	repo := os.Args[1]
	types := parse(repo, "consensus/vbft/msg_types.go")
	builder := parse(repo, "consensus/vbft/msg_builder.go")

	// 1. constants of type MsgType (single iota block)
	var consts []string
	for _, d := range types.Decls {
		gd, ok := d.(*ast.GenDecl)
		if !ok || gd.Tok != token.CONST {
			continue
		}
		isMsg := false
		for i, sp := range gd.Specs {
			vs := sp.(*ast.ValueSpec)
			if i == 0 {
				if id, ok := vs.Type.(*ast.Ident); ok && id.Name == "MsgType" {
					if len(vs.Values) == 1 {
						if v, ok := vs.Values[0].(*ast.Ident); ok && v.Name == "iota" {
							isMsg = true
						}
					}
				}
				if !isMsg {
					break
				}
			} else if vs.Type != nil || len(vs.Values) != 0 {
				die("MsgType const block is not a plain iota list at %s", fset.Position(vs.Pos()))
			}
			for _, n := range vs.Names {
				consts = append(consts, n.Name)
			}
		}
	}
	if len(consts) == 0 {
		die("no MsgType iota block found")
	}

	// 2. Type() methods and Serialize bodies
	typeOf := map[string]string{}
	encOf := map[string]string{}
	for _, d := range types.Decls {
		fd, ok := d.(*ast.FuncDecl)
		if !ok || fd.Body == nil {
			continue
		}
		rn := recvName(fd)
		if rn == "" {
			continue
		}
		switch fd.Name.Name {
		case "Type":
			if len(fd.Body.List) == 1 {
				if rs, ok := fd.Body.List[0].(*ast.ReturnStmt); ok && len(rs.Results) == 1 {
					if id, ok := rs.Results[0].(*ast.Ident); ok {
						typeOf[rn] = id.Name
						continue
					}
				}
			}
			die("Type() of %s is not a single `return <const>`", rn)
		case "Serialize":
			enc := "custom"
			if len(fd.Body.List) == 1 {
				if rs, ok := fd.Body.List[0].(*ast.ReturnStmt); ok && len(rs.Results) == 1 {
					if ce, ok := rs.Results[0].(*ast.CallExpr); ok {
						if se, ok := ce.Fun.(*ast.SelectorExpr); ok {
							if x, ok := se.X.(*ast.Ident); ok && x.Name == "json" && se.Sel.Name == "Marshal" && len(ce.Args) == 1 {
								if a, ok := ce.Args[0].(*ast.Ident); ok && fd.Recv.List[0].Names[0].Name == a.Name {
									enc = "json"
								}
							}
						}
					}
				}
			}
			encOf[rn] = enc
		}
	}

	// 3. the switch of DeserializeVbftMsg
	type swc struct{ konst, strct, dec string }
	var cases []swc
	hasLenCheck := false
	for _, d := range builder.Decls {
		fd, ok := d.(*ast.FuncDecl)
		if !ok || fd.Name.Name != "DeserializeVbftMsg" {
			continue
		}
		ast.Inspect(fd.Body, func(n ast.Node) bool {
			if ifs, ok := n.(*ast.IfStmt); ok {
				if be, ok := ifs.Cond.(*ast.BinaryExpr); ok && be.Op == token.LSS {
					l, r := exprStr(be.X), exprStr(be.Y)
					if l == "m.Len" && r == "uint32(len(m.Payload))" {
						hasLenCheck = true
					}
				}
			}
			sw, ok := n.(*ast.SwitchStmt)
			if !ok {
				return true
			}
			if exprStr(sw.Tag) != "m.Type" {
				return true
			}
			for _, c := range sw.Body.List {
				cc := c.(*ast.CaseClause)
				if len(cc.List) != 1 {
					die("switch case with %d labels at %s", len(cc.List), fset.Position(cc.Pos()))
				}
				k := exprStr(cc.List[0])
				strct, dec := "", ""
				for _, st := range cc.Body {
					if as, ok := st.(*ast.AssignStmt); ok && len(as.Rhs) == 1 {
						if ue, ok := as.Rhs[0].(*ast.UnaryExpr); ok && ue.Op == token.AND {
							if cl, ok := ue.X.(*ast.CompositeLit); ok {
								strct = exprStr(cl.Type)
							}
						}
					}
					if ifs, ok := st.(*ast.IfStmt); ok && ifs.Init != nil {
						if as, ok := ifs.Init.(*ast.AssignStmt); ok && len(as.Rhs) == 1 {
							if ce, ok := as.Rhs[0].(*ast.CallExpr); ok {
								dec = exprStr(ce.Fun)
							}
						}
					}
				}
				if strct == "" || dec == "" {
					die("cannot read case %s at %s", k, fset.Position(cc.Pos()))
				}
				if dec == "json.Unmarshal" {
					dec = "json"
				} else {
					dec = "custom"
				}
				cases = append(cases, swc{k, strct, dec})
			}
			return false
		})
	}
	if len(cases) == 0 {
		die("switch of DeserializeVbftMsg not found")
	}

	// 4. struct fields and json tags
	structs := map[string][][3]string{}
	collect := func(f *ast.File) {
		for _, d := range f.Decls {
			gd, ok := d.(*ast.GenDecl)
			if !ok || gd.Tok != token.TYPE {
				continue
			}
			for _, sp := range gd.Specs {
				ts := sp.(*ast.TypeSpec)
				st, ok := ts.Type.(*ast.StructType)
				if !ok {
					continue
				}
				var fl [][3]string
				for _, fld := range st.Fields.List {
					tag := ""
					if fld.Tag != nil {
						raw := strings.Trim(fld.Tag.Value, "`")
						tag = reflect.StructTag(raw).Get("json")
						if i := strings.Index(tag, ","); i >= 0 {
							tag = tag[:i]
						}
					}
					for _, n := range fld.Names {
						t := tag
						if t == "" {
							t = n.Name
						}
						exp := "false"
						if ast.IsExported(n.Name) {
							exp = "true"
						}
						fl = append(fl, [3]string{n.Name, t, exp})
					}
				}
				structs[ts.Name.Name] = fl
			}
		}
	}
	collect(types)
	collect(builder)

	// output
	var b strings.Builder
	b.WriteString("/- GENERATED by extract/cmsgkinds from consensus/vbft/msg_types.go and msg_builder.go. Do not edit. -/\n")
	b.WriteString("namespace Poly.Generated.CMsgKinds\n\n")
	b.WriteString("/-- MsgType constants with their iota values -/\ndef constCodes : List (String × Nat) := [")
	for i, c := range consts {
		if i > 0 {
			b.WriteString(", ")
		}
		fmt.Fprintf(&b, "(%s, %d)", q(c), i)
	}
	b.WriteString("]\n\n/-- struct -> constant returned by its `Type()` method, encoder used by `Serialize` -/\ndef typeMethod : List (String × String × String) := [")
	var names []string
	for n := range typeOf {
		names = append(names, n)
	}
	sort.Strings(names)
	for i, n := range names {
		if i > 0 {
			b.WriteString(", ")
		}
		e := encOf[n]
		if e == "" {
			e = "missing"
		}
		fmt.Fprintf(&b, "(%s, %s, %s)", q(n), q(typeOf[n]), q(e))
	}
	b.WriteString("]\n\n/-- `switch m.Type` of DeserializeVbftMsg: case constant -> struct allocated, decoder -/\ndef switchCases : List (String × String × String) := [")
	for i, c := range cases {
		if i > 0 {
			b.WriteString(", ")
		}
		fmt.Fprintf(&b, "(%s, %s, %s)", q(c.konst), q(c.strct), q(c.dec))
	}
	fmt.Fprintf(&b, "]\n\n/-- `if m.Len < uint32(len(m.Payload))` is present before the switch -/\ndef hasLenCheck : Bool := %v\n\n", hasLenCheck)
	b.WriteString("/-- fields of the structs that go through encoding/json: (field, json tag, exported) -/\ndef jsonStructs : List (String × List (String × String × Bool)) := [\n")
	var jn []string
	for _, n := range names {
		if encOf[n] == "json" {
			jn = append(jn, n)
		}
	}
	jn = append(jn, "ConsensusMsgPayload", "FaultyReport", "BlockInfo_")
	for i, n := range jn {
		fl, ok := structs[n]
		if !ok {
			die("struct %s not found", n)
		}
		fmt.Fprintf(&b, "  (%s, [", q(n))
		for j, f := range fl {
			if j > 0 {
				b.WriteString(", ")
			}
			fmt.Fprintf(&b, "(%s, %s, %s)", q(f[0]), q(f[1]), f[2])
		}
		b.WriteString("])")
		if i < len(jn)-1 {
			b.WriteString(",")
		}
		b.WriteString("\n")
	}
	b.WriteString("]\n\nend Poly.Generated.CMsgKinds\n")
	fmt.Print(b.String())
}

func exprStr(e ast.Expr) string {
	switch x := e.(type) {
	case *ast.Ident:
		return x.Name
	case *ast.SelectorExpr:
		return exprStr(x.X) + "." + x.Sel.Name
	case *ast.CallExpr:
		var a []string
		for _, y := range x.Args {
			a = append(a, exprStr(y))
		}
		return exprStr(x.Fun) + "(" + strings.Join(a, ", ") + ")"
	case *ast.StarExpr:
		return "*" + exprStr(x.X)
	}
	return fmt.Sprintf("<%T>", e)
}
