module evmclones

go 1.21
