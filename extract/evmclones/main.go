// evmclones: checks that the go-ethereum-trie deposit routers of polynetwork/poly carry the same decision logic.
//
//	evmclones <repo> lean|json|text
//
// For every router package the three functions of the deposit check (verifyFrom*Tx, verifyMerkleProof,
// checkProofResult) are parsed, normalised and compared with the reference router:
//   - local identifiers (parameters, results, := / var / range bindings) are renamed v0, v1, ... in order of first binding;
//   - string literals (error texts) are blanked; the function's own name is blanked;
//   - the package qualifier of the header store getters (X.GetCanonicalHeight / X.GetCanonicalHeader) becomes HS;
//   - import aliases become a canonical name of the imported path; the proof type of verifyMerkleProof's first parameter
//     becomes PROOF (ETHProof vs Proof: same fields, checked by the differential harness);
//   - the header type of verifyMerkleProof's second parameter and the header expression passed to it become HDR
//     (types.Header vs header_sync/eth.Header; polygon reaches it through HeaderWithOptionalSnap);
//   - `_ = f(x)` is the statement `f(x)`.
// eth's exported VerifyMerkleProof / CheckProofResult are compared with the reference's unexported ones in the same way
// (eth's verifyFromEthTx reads the head through GetCurrentHeader and is modelled on its own).
package main

import (
	"bytes"
	"crypto/sha256"
	"encoding/hex"
	"encoding/json"
	"fmt"
	"go/ast"
	"go/parser"
	"go/printer"
	"go/token"
	"os"
	"path/filepath"
	"regexp"
	"strings"
)

type router struct {
	Name, File string
}

var routers = []router{
	{"bsc", "native/service/cross_chain_manager/bsc/bsc_handler.go"},
	{"heco", "native/service/cross_chain_manager/heco/heco_handler.go"},
	{"hsc", "native/service/cross_chain_manager/hsc/hsc_handler.go"},
	{"msc", "native/service/cross_chain_manager/msc/msc_handler.go"},
	{"pixiechain", "native/service/cross_chain_manager/pixiechain/pixiechain_handler.go"},
	{"polygon", "native/service/cross_chain_manager/polygon/bor_handler.go"},
	{"bytom", "native/service/cross_chain_manager/bytom/bytom_handler.go"},
	{"eth", "native/service/cross_chain_manager/eth/utils.go"},
}

const reference = "bsc"

var roles = []struct {
	Role string
	Re   *regexp.Regexp
}{
	{"verifyFromTx", regexp.MustCompile(`^verifyFrom\w*Tx$`)},
	{"verifyMerkleProof", regexp.MustCompile(`^(?i:verifyMerkleProof)$`)},
	{"checkProofResult", regexp.MustCompile(`^(?i:checkProofResult)$`)},
}

type shape struct {
	Router string `json:"router"`
	Role   string `json:"role"`
	Func   string `json:"func"`
	Pos    string `json:"pos"`
	Hash   string `json:"hash"`
	Same   bool   `json:"same"`
	Norm   string `json:"-"`
}

func die(f string, a ...interface{}) {
	fmt.Fprintf(os.Stderr, "evmclones: "+f+"\n", a...)
	os.Exit(1)
}

func normalise(fset *token.FileSet, fd *ast.FuncDecl, role string, imports map[string]string) string {
	locals := map[string]string{}
	bind := func(id *ast.Ident) {
		if id == nil || id.Name == "_" {
			return
		}
		if _, ok := locals[id.Name]; !ok {
			locals[id.Name] = fmt.Sprintf("v%d", len(locals))
		}
	}
	for _, fl := range []*ast.FieldList{fd.Type.Params, fd.Type.Results} {
		if fl == nil {
			continue
		}
		for _, f := range fl.List {
			for _, n := range f.Names {
				bind(n)
			}
		}
	}
	ast.Inspect(fd.Body, func(n ast.Node) bool {
		switch v := n.(type) {
		case *ast.AssignStmt:
			if v.Tok == token.DEFINE {
				for _, l := range v.Lhs {
					if id, ok := l.(*ast.Ident); ok {
						bind(id)
					}
				}
			}
		case *ast.ValueSpec:
			for _, id := range v.Names {
				bind(id)
			}
		case *ast.RangeStmt:
			if v.Tok == token.DEFINE {
				if id, ok := v.Key.(*ast.Ident); ok {
					bind(id)
				}
				if id, ok := v.Value.(*ast.Ident); ok {
					bind(id)
				}
			}
		}
		return true
	})
	// proof and header types of the parameters of verifyMerkleProof
	if role == "verifyMerkleProof" && fd.Type.Params != nil && len(fd.Type.Params.List) >= 2 {
		fd.Type.Params.List[0].Type = ast.NewIdent("PROOF")
		fd.Type.Params.List[1].Type = ast.NewIdent("HDR")
	}
	var rewrite func(n ast.Node) bool
	rewrite = func(n ast.Node) bool {
		switch v := n.(type) {
		case *ast.BasicLit:
			if v.Kind == token.STRING {
				v.Value = `""`
			}
		case *ast.SelectorExpr:
			if id, ok := v.X.(*ast.Ident); ok {
				if v.Sel.Name == "GetCanonicalHeight" || v.Sel.Name == "GetCanonicalHeader" {
					id.Name = "HS"
				} else if nn, ok := locals[id.Name]; ok {
					id.Name = nn
				} else if path, ok := imports[id.Name]; ok {
					id.Name = path // import alias -> canonical name of the imported package
				}
				return false
			}
			ast.Inspect(v.X, rewrite)
			return false
		case *ast.CallExpr:
			if id, ok := v.Fun.(*ast.Ident); ok && strings.EqualFold(id.Name, "verifyMerkleProof") && len(v.Args) == 3 {
				id.Name = "verifyMerkleProof"
				v.Args[1] = ast.NewIdent("HDR")
			}
			if id, ok := v.Fun.(*ast.Ident); ok && strings.EqualFold(id.Name, "checkProofResult") {
				id.Name = "checkProofResult"
			}
		case *ast.KeyValueExpr:
			// struct literal keys are field names, not locals
			ast.Inspect(v.Value, rewrite)
			return false
		case *ast.Ident:
			if nn, ok := locals[v.Name]; ok {
				v.Name = nn
			}
		}
		return true
	}
	ast.Inspect(fd, rewrite)
	// `_ = f(x)` -> `f(x)`
	var fix func(list []ast.Stmt)
	fix = func(list []ast.Stmt) {
		for i, s := range list {
			if as, ok := s.(*ast.AssignStmt); ok && as.Tok == token.ASSIGN && len(as.Lhs) == 1 && len(as.Rhs) == 1 {
				if id, ok := as.Lhs[0].(*ast.Ident); ok && id.Name == "_" {
					list[i] = &ast.ExprStmt{X: as.Rhs[0]}
				}
			}
		}
	}
	ast.Inspect(fd.Body, func(n ast.Node) bool {
		if b, ok := n.(*ast.BlockStmt); ok {
			fix(b.List)
		}
		return true
	})
	fd.Name.Name = "F"
	fd.Doc = nil
	var buf bytes.Buffer
	cfg := printer.Config{Mode: printer.RawFormat}
	if err := cfg.Fprint(&buf, token.NewFileSet(), fd); err != nil {
		die("print: %v", err)
	}
	// collapse whitespace: comments inside bodies are not attached to the decl, positions differ
	return strings.Join(strings.Fields(buf.String()), " ")
}

// importNames maps every import name of the file (alias or last path element) to a canonical name built from the
// last two elements of the import path.
func importNames(f *ast.File) map[string]string {
	m := map[string]string{}
	for _, im := range f.Imports {
		path := strings.Trim(im.Path.Value, `"`)
		parts := strings.Split(path, "/")
		canon := parts[len(parts)-1]
		if len(parts) >= 2 {
			canon = parts[len(parts)-2] + "_" + parts[len(parts)-1]
		}
		canon = strings.NewReplacer("-", "_", ".", "_").Replace(canon)
		name := parts[len(parts)-1]
		if im.Name != nil {
			name = im.Name.Name
		}
		m[name] = canon
	}
	return m
}

func main() {
	if len(os.Args) < 3 {
		die("usage: evmclones <repo> lean|json|text")
	}
	repo, mode := os.Args[1], os.Args[2]
	var shapes []*shape
	for _, r := range routers {
		fset := token.NewFileSet()
		f, err := parser.ParseFile(fset, filepath.Join(repo, r.File), nil, 0)
		if err != nil {
			die("parse %s: %v", r.File, err)
		}
		for _, role := range roles {
			if r.Name == "eth" && role.Role == "verifyFromTx" {
				continue
			}
			var found *ast.FuncDecl
			for _, d := range f.Decls {
				if fd, ok := d.(*ast.FuncDecl); ok && fd.Recv == nil && role.Re.MatchString(fd.Name.Name) {
					if found != nil {
						die("%s: two functions match role %s", r.File, role.Role)
					}
					found = fd
				}
			}
			if found == nil {
				die("%s: no function for role %s", r.File, role.Role)
			}
			name := found.Name.Name
			pos := fset.Position(found.Pos())
			norm := normalise(fset, found, role.Role, importNames(f))
			h := sha256.Sum256([]byte(norm))
			shapes = append(shapes, &shape{Router: r.Name, Role: role.Role, Func: name, Pos: fmt.Sprintf("%s:%d", r.File, pos.Line),
				Hash: hex.EncodeToString(h[:8]), Norm: norm})
		}
	}
	ref := map[string]string{}
	for _, s := range shapes {
		if s.Router == reference {
			ref[s.Role] = s.Norm
		}
	}
	for _, s := range shapes {
		s.Same = s.Norm == ref[s.Role]
	}
	switch mode {
	case "json":
		b, _ := json.MarshalIndent(shapes, "", " ")
		fmt.Println(string(b))
	case "text":
		for _, s := range shapes {
			fmt.Printf("## %s %s (%s) same=%v\n%s\n", s.Router, s.Role, s.Pos, s.Same, s.Norm)
		}
	default:
		var b strings.Builder
		fmt.Fprintf(&b, "/- GENERATED by extract/evmclones from the Go source (cross_chain_manager routers) on every run of ./check C23 — do not edit. -/\n")
		fmt.Fprintf(&b, "namespace Poly.Generated.EvmClones\n\n")
		fmt.Fprintf(&b, "structure Shape where\n  router : String\n  role : String\n  func : String\n  pos : String\n  hash : String\n  sameAsReference : Bool\n  deriving Repr\n\n")
		fmt.Fprintf(&b, "/-- Reference router the others are compared with (after normalisation, see extract/evmclones). -/\ndef reference : String := %q\n\n", reference)
		fmt.Fprintf(&b, "def shapes : List Shape := [\n")
		for i, s := range shapes {
			sep := ","
			if i == len(shapes)-1 {
				sep = ""
			}
			fmt.Fprintf(&b, "  ⟨%q, %q, %q, %q, %q, %v⟩%s\n", s.Router, s.Role, s.Func, s.Pos, s.Hash, s.Same, sep)
		}
		fmt.Fprintf(&b, "]\n\nend Poly.Generated.EvmClones\n")
		fmt.Print(b.String())
	}
}
