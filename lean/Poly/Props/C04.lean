import Poly.Proofs.Schema
import Poly.Model.SchemaRecords
/-! # C04 — placeholder, theorems follow -/
namespace Poly.Props.C04
open Poly.Model.Codec Poly.Model.Schema Poly.Model.SchemaRecords

theorem dec_enc (K : Bytes → Option Bytes) (t : Ty) (v : t.Val) (r : Bytes) (h : t.WF K v) :
    t.dec K (t.enc v ++ r) = .ok (v, r) := Ty.dec_enc K t v r h

end Poly.Props.C04
