import Poly.Proofs.Schema
import Poly.Model.SchemaRecords
import Poly.Generated.CodecInventory
/-!
# C04 — Contract parameters and stored records round-trip canonically

Generic theorems over the schema DSL `Ty` (`Poly.Model.Schema`), proved once by induction on the schema, and their
instances for the 50 record schemas of `Poly.Model.SchemaRecords.table` (one per Go type with a codec pair in the thirteen
anchored files — the list of those types is regenerated from the Go source, `Poly.Generated.CodecInventory.c04`).
`K` (public-key library) is a parameter; none of the record schemas uses it.
-/
namespace Poly.Props.C04
open Poly.Model.Codec Poly.Model.Schema Poly.Model.SchemaRecords

/-! ## Generic theorems (every schema, every value, every suffix) -/

/-- Round trip with exact consumption. -/
theorem dec_enc (K : Bytes → Option Bytes) (t : Ty) (v : t.Val) (r : Bytes) (h : t.WF K v) :
    t.dec K (t.enc v ++ r) = .ok (v, r) := Ty.dec_enc K t v r h

/-- Encodings determine the value. -/
theorem enc_injective (K : Bytes → Option Bytes) (t : Ty) (v w : t.Val) (hv : t.WF K v) (hw : t.WF K w)
    (h : t.enc v = t.enc w) : v = w := Ty.enc_injective K t v w hv hw h

/-- Encodings are prefix-free: in a concatenation the split point and the value are determined. -/
theorem enc_prefix_free (K : Bytes → Option Bytes) (t : Ty) (v w : t.Val) (r r' : Bytes) (hv : t.WF K v) (hw : t.WF K w)
    (h : t.enc v ++ r = t.enc w ++ r') : v = w ∧ r = r' := Ty.enc_prefix_free K t v w r r' hv hw h

/-- For schemas without eof-ignoring tails, every proper prefix of an encoding is rejected. -/
theorem dec_trunc (K : Bytes → Option Bytes) (t : Ty) (hs : t.strict = true) (v : t.Val) (h : t.WF K v) (k : Nat)
    (hk : k < (t.enc v).length) : IsErr (t.dec K ((t.enc v).take k)) := Ty.dec_trunc K t hs v h k hk

/-- Schemas that never preallocate from an unbounded wire count never reach the panic outcome, on any input. -/
theorem dec_total_no_panic (K : Bytes → Option Bytes) (t : Ty) (h : t.noUnboundedPrealloc = true) (bs : Bytes) :
    t.dec K bs ≠ .error .panic := Ty.dec_no_panic K t h bs

/-- A Go map is written in an order that depends only on its set of entries: any two enumerations of the same entries with
pairwise distinct keys have the same canonical entry list, hence the same bytes; that list is strictly descending by key
(so it is a well-formed map value and decodes back to itself). -/
theorem enc_map_perm (c : Cnt) (k : Leaf) (kg : Guard) (v : Ty) (ord : KeyOrd) (es₁ es₂ : List (k.Val × v.Val))
    (hp : es₁.Perm es₂) (hnd : nodupKeys (k.sortKey ord) es₁) :
    (Ty.map c k kg v ord).enc (canonMap (k.sortKey ord) es₁) = (Ty.map c k kg v ord).enc (canonMap (k.sortKey ord) es₂) ∧
    strictDesc (k.sortKey ord) (canonMap (k.sortKey ord) es₁) := by
  rw [canonMap_perm (k.sortKey ord) es₁ es₂ hp hnd]
  exact ⟨rfl, canonMap_strictDesc _ _⟩

/-- A map value that is already canonical is what decoding produces from its own encoding (no reordering, no loss). -/
theorem canonical_map_is_fixed (κ ν : Type) (key : κ → Bytes) (es : List (κ × ν)) (h : strictDesc key es) :
    canonMap key es = es := canonMap_of_strictDesc key es h

/-- The executable well-formedness test decides a sufficient condition for `WF`. -/
theorem wfb_sound (K : Bytes → Option Bytes) (t : Ty) (v : t.Val) (h : t.wfb K v = true) : t.WF K v := Ty.wfb_sound K t v h

/-! ## The record table -/

/-- (T) every type with a codec pair in the anchored Go files has a schema, and every schema names such a type. -/
theorem inventory_covered :
    (∀ e ∈ Poly.Generated.CodecInventory.c04, (find e.1).isSome = true) ∧
    (∀ rc ∈ table, (Poly.Generated.CodecInventory.c04.map (·.1)).contains rc.name = true) ∧
    table.length = 50 := by decide

/-- (T) constants used by the record schemas: `ContractInvokeParam.Version ≤ MAX_NATIVE_VERSION = 0`, addresses of 20 bytes,
hashes of 32. -/
theorem constants_match :
    Poly.Generated.CodecInventory.const "MAX_NATIVE_VERSION" = 0 ∧ Poly.Generated.CodecInventory.const "ADDR_LEN" = 20 ∧
    Poly.Generated.CodecInventory.const "UINT256_SIZE" = 32 := by decide

/-- No record decoder preallocates from an unbounded wire count (after the fixes to `BtcTxParam`, `RippleExtraInfo`,
`StateValidatorListParam`). -/
theorem records_no_unbounded_prealloc : ∀ rc ∈ table, rc.ty.noUnboundedPrealloc = true := by decide

/-- All record schemas are strict except the two side-chain records with the eof-ignoring trailing `ExtraInfo`. -/
theorem records_strict :
    ∀ rc ∈ table, rc.ty.strict = true ∨ rc.name = "SideChain" ∨ rc.name = "RegisterSideChainParam" := by decide

/-- Round trip for every record type of the table. -/
theorem records_roundtrip (K : Bytes → Option Bytes) (rc : Rec) (_hrc : rc ∈ table) (v : rc.ty.Val) (r : Bytes)
    (h : rc.ty.WF K v) : rc.ty.dec K (rc.ty.enc v ++ r) = .ok (v, r) := Ty.dec_enc K rc.ty v r h

/-- Malformed input never makes a record decoder panic. -/
theorem records_no_panic (K : Bytes → Option Bytes) (rc : Rec) (hrc : rc ∈ table) (bs : Bytes) :
    rc.ty.dec K bs ≠ .error .panic := Ty.dec_no_panic K rc.ty (records_no_unbounded_prealloc rc hrc) bs

/-- Truncated encodings are rejected for every record type except the two side-chain records. -/
theorem records_truncation_rejected (K : Bytes → Option Bytes) (rc : Rec) (hrc : rc ∈ table)
    (hn : rc.name ≠ "SideChain" ∧ rc.name ≠ "RegisterSideChainParam") (v : rc.ty.Val) (h : rc.ty.WF K v) (k : Nat)
    (hk : k < (rc.ty.enc v).length) : IsErr (rc.ty.dec K ((rc.ty.enc v).take k)) := by
  rcases records_strict rc hrc with hs | hs | hs
  · exact Ty.dec_trunc K rc.ty hs v h k hk
  · exact absurd hs hn.1
  · exact absurd hs hn.2

private theorem canon_by_field_perm {α : Type} (key : α → Bytes) (l₁ l₂ : List α) (hp : l₁.Perm l₂)
    (hnd : (l₁.map key).Nodup) :
    (canonMap (ν := Unit) key (l₁.map fun a => (a, ()))).map (·.1) = (canonMap (ν := Unit) key (l₂.map fun a => (a, ()))).map (·.1) := by
  have hp' : List.Perm (l₁.map fun a => (a, ())) (l₂.map fun a => (a, ())) := hp.map _
  have hnd' : nodupKeys (ν := Unit) key (l₁.map fun a => (a, ())) := by
    unfold nodupKeys
    rw [List.pairwise_map]
    exact (List.pairwise_map.mp hnd).imp (fun h => h)
  rw [canonMap_perm _ _ _ hp' hnd']

/-- `PeerPoolMap` (map keyed by a field of its items): the canonical item list does not depend on the enumeration order. -/
theorem peerPoolMap_order_independent (is₁ is₂ : peerPoolMap.Val) (hp : List.Perm (α := peerPoolItem.Val) is₁ is₂)
    (hnd : (List.map (α := peerPoolItem.Val) (fun it => it.2.1) is₁).Nodup) : peerPoolPost is₁ = peerPoolPost is₂ :=
  canon_by_field_perm (α := peerPoolItem.Val) (fun it => it.2.1) is₁ is₂ hp hnd

/-! ## Non-vacuity: well-formed values of records with lists, maps and big integers -/

def exFeeInfo : feeInfo.Val :=
  ((7 : UInt32), [((List.replicate 19 0 ++ [2] : Bytes), (300 : Nat)), ((List.replicate 19 0 ++ [1] : Bytes), (0 : Nat))])

example : feeInfo.WF (fun _ => none) exFeeInfo := Ty.wfb_sound _ feeInfo exFeeInfo (by decide)

def exSigInfo : sigInfo.Val := (true, [(([0x62] : Bytes), ([1, 2] : Bytes)), (([0x61, 0x61] : Bytes), ([] : Bytes)), (([0x61] : Bytes), ([3] : Bytes))])

example : sigInfo.WF (fun _ => none) exSigInfo := Ty.wfb_sound _ sigInfo exSigInfo (by decide)

def exBtcTxParam : btcTxParam.Val :=
  (([1, 2] : Bytes), (5 : UInt64), ([[9], []] : List Bytes), ((1 : UInt64), (2 : UInt64), (3 : UInt64)))

example : btcTxParam.WF (fun _ => none) exBtcTxParam := Ty.wfb_sound _ btcTxParam exBtcTxParam (by decide)

end Poly.Props.C04
