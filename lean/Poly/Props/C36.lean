import Poly.Proofs.GovAdmit
/-!
# C36 — Only registered relayers can submit transactions

Model: `admits` (txnpool/proc TxActor.isValidSender: some signing address is stored under `relayer ‖ addr` in the relayer
manager's storage or is in the permitted cache), the relayer request / approve state machine of `Poly.Model.Gov`, and the
permitted cache refresh (http/base/actor UpdatePermittedAddrMap: every member of the pool of the current view and their
multi-signature address). The actor mailbox, the one-minute refresh timer and the later pool stages are not modelled.
-/
namespace Poly.Props.C36
open Poly.Model.Gov

/-- A transaction is admitted iff at least one of its signing addresses is a registered relayer or a permitted address. -/
theorem admits_iff (s : State) (signers : List Addr) :
    admits s signers = true ↔ ∃ a ∈ signers, a ∈ s.relayers ∨ a ∈ s.permitted := Poly.Model.Gov.admits_iff s signers

/-- The admission query is the `admits` function and changes nothing. -/
theorem admission_transaction (H : Bytes → Bytes) (s : State) (signers : List Addr) :
    exec H s (.submit signers) = .ok { st := s, ret := if admits s signers then "1" else "0", events := [] } := by
  simp [exec, plan, runPlan]

/-- An approved registration takes effect: every address of the request is a relayer afterwards and is admitted. -/
theorem registration_effective (H : Bytes → Bytes) (s : State) (sg : List Addr) (id : Nat) (a : Addr)
    (h : applied H s (.rlappr sg id a) = true) :
    ∃ l r, alGet s.rlApply id = some (l, r) ∧ ∀ x ∈ l, x ∈ (step H s (.rlappr sg id a)).relayers ∧
      admits (step H s (.rlappr sg id a)) [x] = true := by
  obtain ⟨ap, s1, ev, s2, n, hp, hc, hf⟩ := (applied_iff H s _).1 h
  rw [step_of_applied H hp hc hf]
  simp only [plan] at hp
  repeat' split at hp
  all_goals try (cases hp; done)
  rename_i _ _ l r hreq
  injection hp with hp; injection hp with hp; subst hp
  dsimp only at hf
  injection hf with hf; injection hf with hf1 hf2; subst hf1
  refine ⟨l, r, hreq, ?_⟩
  intro x hx
  have hm : x ∈ l.foldl addOnce s1.relayers := (mem_foldl_addOnce l s1.relayers x).2 (Or.inr hx)
  refine ⟨hm, ?_⟩
  rw [Poly.Model.Gov.admits_iff]
  exact ⟨x, List.mem_singleton.2 rfl, Or.inl hm⟩

/-- An approved removal takes effect for later submissions: no address of the request is a relayer afterwards, and a
transaction signed only by it is refused unless the address is a permitted validator address. -/
theorem removal_effective (H : Bytes → Bytes) (s : State) (sg : List Addr) (id : Nat) (a : Addr)
    (h : applied H s (.rlapprrm sg id a) = true) :
    ∃ l r, alGet s.rlRemove id = some (l, r) ∧ ∀ x ∈ l, x ∉ (step H s (.rlapprrm sg id a)).relayers ∧
      (x ∉ s.permitted → admits (step H s (.rlapprrm sg id a)) [x] = false) := by
  obtain ⟨ap, s1, ev, s2, n, hp, hc, hf⟩ := (applied_iff H s _).1 h
  rw [step_of_applied H hp hc hf]
  have hs1 := ccs_frame H hc
  simp only [plan] at hp
  repeat' split at hp
  all_goals try (cases hp; done)
  rename_i _ _ l r hreq
  injection hp with hp; injection hp with hp; subst hp
  dsimp only at hf
  injection hf with hf; injection hf with hf1 hf2; subst hf1
  refine ⟨l, r, hreq, ?_⟩
  intro x hx
  have hnot : x ∉ s1.relayers.filter (fun y => !l.contains y) := by
    intro hm
    have := (List.mem_filter.1 hm).2
    simp only [Bool.not_eq_true', List.contains_eq_mem, decide_eq_false_iff_not] at this
    exact this hx
  refine ⟨hnot, ?_⟩
  intro hperm
  cases hb : admits _ [x] with
  | false => rfl
  | true =>
    rw [Poly.Model.Gov.admits_iff] at hb
    obtain ⟨y, hy, hor⟩ := hb
    rw [List.mem_singleton.1 hy] at hor
    rcases hor with h1 | h2
    · exact absurd h1 hnot
    · simp only at h2; rw [hs1] at h2; exact absurd h2 hperm

/-- The relayer registry changes only through an applied relayer approval; every other transaction (and approvals
below the quorum) leaves it as it is. -/
theorem registry_changes_only_by_approval (H : Bytes → Bytes) (s : State) (op : Op) :
    (applied H s op = false → (step H s op).relayers = s.relayers) ∧
    ((∀ sg id a, op ≠ .rlappr sg id a ∧ op ≠ .rlapprrm sg id a) → (step H s op).relayers = s.relayers) :=
  ⟨relayers_unchanged_unless_applied H s op, relayers_frame H s op⟩

/-- The permitted cache is filled from the pool of the current view only (refresh) and only grows until the node
restarts: chain transactions never change it. (A validator that left the pool stays permitted until the restart.) -/
theorem permitted_only_grows (H : Bytes → Bytes) (s : State) (op : Op) (hr : op ≠ .restart) (x : Addr)
    (hx : x ∈ s.permitted) : x ∈ (step H s op).permitted := by
  rcases step_cases H s op with e | ⟨o, hp, e⟩ | ⟨ap, s1, ev, hp, hc, e⟩ | ⟨ap, s1, ev, s2, n, hp, hc, hf, e⟩
  · rw [e]; exact hx
  · rw [e]; exact permitted_done H s op o hp hr x hx
  · rw [e, ccs_frame H hc]; exact hx
  · rw [e, permitted_fire H s op ap s1 s2 n hp hf, ccs_frame H hc]; exact hx

/-- Non-vacuity (a test on literals): a relayer is registered, admitted, removed, refused; the validator is admitted
after a refresh; nobody else is. -/
example :
    let a1 : Addr := List.replicate 20 1
    let rl : Addr := List.replicate 20 5
    let out : Addr := List.replicate 20 9
    let s0 : State := run id {} [.key [2] a1, .height 10, .init 100000 [(1, "02", a1)], .rlreg [out] out [rl], .rlappr [a1] 0 a1]
    let s1 := run id s0 [.rlrm [out] out [rl], .rlapprrm [a1] 0 a1, .refresh none]
    admits s0 [out, rl] = true ∧ admits s0 [out] = false ∧ admits s0 [a1] = false ∧
    admits s1 [rl] = false ∧ admits s1 [a1] = true ∧ admits s1 [] = false := by decide

end Poly.Props.C36
