import Poly.Proofs.MerkleTree
import Poly.Proofs.MerkleServe
/-!
# C06 — Block-hash accumulator is a correct append-only Merkle tree

Model: `Poly.Model.Merkle` (`CompactTree`, `appendHash` carry loop, `root`, `getRootWithNewLeaf(s)`, …).
Spec: `Poly.Spec.RFC6962.mth` (split at the largest power of two below `n`) over the leaf hashes.
All statements hold for every hash function `H` and every append sequence `D` (no size bound in the model;
the Go code uses `uint32` sizes, the correspondence covers sizes below 2^31).
-/
namespace Poly.Props.C06
open Poly.Spec.RFC6962 Poly.Model.Merkle Poly.Proofs.MerkleTree

variable (H : List UInt8 → List UInt8)

/-- Appending any sequence of leaves to the empty tree (with any store) never panics. -/
theorem append_never_panics (D : List (List UInt8)) (st : Option HashStore) :
    ∃ s, State.appendAll H ⟨emptyTree, st⟩ D = .ok s := by
  obtain ⟨s, h, _⟩ := inv_appendAll H D [] ⟨emptyTree, st⟩ (inv_empty H)
  exact ⟨s, h⟩

/-- The frontier invariant: after appending `D` the frontier (read from the smallest subtree up) is
`fr |D| (leaf hashes)` — the last node of every level of odd width — and it has one hash per one-bit of
the size. -/
theorem frontier_inv (D : List (List UInt8)) (st : Option HashStore) (s : State)
    (h : State.appendAll H ⟨emptyTree, st⟩ D = .ok s) :
    s.tree.size = D.length ∧
    s.tree.hashes.reverse = fr H D.length (D.map (hashLeaf H)) ∧
    s.tree.hashes.length = countBit D.length := by
  obtain ⟨s', h', hi, _⟩ := inv_appendAll H D [] ⟨emptyTree, st⟩ (inv_empty H)
  rw [h] at h'; cases h'
  simp only [List.nil_append] at hi
  have hc := inv_countBit H _ _ hi
  obtain ⟨h1, h2⟩ := hi
  simp only [List.length_map] at h1 h2
  exact ⟨h1, h2, by rw [hc, h1]⟩

/-- After any sequence of appends the root is the RFC 6962 Merkle tree hash of all appended leaves. -/
theorem root_eq_mth (D : List (List UInt8)) (st : Option HashStore) (s : State)
    (h : State.appendAll H ⟨emptyTree, st⟩ D = .ok s) :
    root H s.tree = .ok (mth H (D.map (hashLeaf H))) := by
  obtain ⟨s', h', hi, _⟩ := inv_appendAll H D [] ⟨emptyTree, st⟩ (inv_empty H)
  rw [h] at h'; cases h'
  simpa using inv_root H _ _ hi

/-- The empty tree has the hash of the empty string as root. -/
theorem root_empty : root H emptyTree = .ok (H []) := by
  simp [root, emptyTree, hashEmpty]

/-- `GetRootWithNewLeaf`: the predicted root equals the root after actually appending the leaf. -/
theorem predicted_root_single (D : List (List UInt8)) (st : Option HashStore) (s : State) (x : List UInt8)
    (h : State.appendAll H ⟨emptyTree, st⟩ D = .ok s) :
    ∃ s', State.appendAll H ⟨emptyTree, st⟩ (D ++ [x]) = .ok s' ∧
      getRootWithNewLeaf H s.tree x = root H s'.tree := by
  obtain ⟨s0, h0, hi, _⟩ := inv_appendAll H D [] ⟨emptyTree, st⟩ (inv_empty H)
  rw [h] at h0; cases h0
  obtain ⟨s', h', hi', _⟩ := inv_appendAll H (D ++ [x]) [] ⟨emptyTree, st⟩ (inv_empty H)
  refine ⟨s', h', ?_⟩
  rw [inv_predict1 H _ _ x hi, inv_root H _ _ hi']
  simp

/-- `GetRootWithNewLeaves`: the root predicted for extra leaves equals the root after appending them
(the prediction runs on a clone without store: the model function has no access to the store). -/
theorem predicted_root (D xs : List (List UInt8)) (st : Option HashStore) (s : State)
    (h : State.appendAll H ⟨emptyTree, st⟩ D = .ok s) :
    ∃ s', State.appendAll H s xs = .ok s' ∧ getRootWithNewLeaves H s.tree xs = root H s'.tree ∧
      getRootWithNewLeaves H s.tree xs = .ok (mth H ((D ++ xs).map (hashLeaf H))) := by
  obtain ⟨s0, h0, hi, _⟩ := inv_appendAll H D [] ⟨emptyTree, st⟩ (inv_empty H)
  rw [h] at h0; cases h0
  simp only [List.nil_append] at hi
  obtain ⟨s', h', hi', _⟩ := inv_appendAll H xs _ s hi
  obtain ⟨c, hc, hic, _⟩ := inv_appendAll H xs _ ⟨s.tree, none⟩ hi
  refine ⟨s', h', ?_, ?_⟩
  · unfold getRootWithNewLeaves; rw [hc]; simp only
    rw [inv_root H _ _ hic, inv_root H _ _ hi']
  · unfold getRootWithNewLeaves; rw [hc]; simp only
    rw [inv_root H _ _ hic]; simp

/-- The hypotheses are satisfiable: a concrete three-leaf history (with `H` the identity the root shows
the RFC shape `1 ‖ (1 ‖ 0a ‖ 0b) ‖ 0c`). -/
example : ∃ s, State.appendAll id ⟨emptyTree, some ⟨false, [], []⟩⟩ [[0xa], [0xb], [0xc]] = .ok s ∧
    root id s.tree = .ok [1, 1, 0, 0xa, 0, 0xb, 0, 0xc] := by
  obtain ⟨s, h⟩ := append_never_panics id [[0xa], [0xb], [0xc]] (some ⟨false, [], []⟩)
  refine ⟨s, h, ?_⟩
  rw [root_eq_mth id _ _ s h]
  simp [mth_split, Poly.Proofs.MerkleSpec.splitPoint_two, mth_single, hashLeaf, hashChildren,
    splitPoint_unique 3 2 ⟨1, rfl⟩ (by omega) (by omega)]

end Poly.Props.C06
