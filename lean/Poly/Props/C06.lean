import Poly.Proofs.MerkleTree
import Poly.Proofs.MerkleServe
import Poly.Proofs.MerkleStore
import Poly.Proofs.MerkleComplete
import Poly.Proofs.MerkleCons
import Poly.Proofs.MerkleArray
import Poly.Proofs.MerkleBits
/-!
# C06 — Block-hash accumulator is a correct append-only Merkle tree

Model: `Poly.Model.Merkle` (`CompactTree`, `appendHash` carry loop, `root`, `getRootWithNewLeaf(s)`, …).
Spec: `Poly.Spec.RFC6962.mth` (split at the largest power of two below `n`) over the leaf hashes.
All statements hold for every hash function `H` and every append sequence `D` (no size bound in the model;
the Go code uses `uint32` sizes, the correspondence covers sizes below 2^31).
-/
namespace Poly.Props.C06
open Poly.Spec.RFC6962 Poly.Model.Merkle Poly.Proofs.MerkleTree Poly.Proofs.MerkleStore Poly.Proofs.MerkleComplete

variable (H : List UInt8 → List UInt8)

/-- Appending any sequence of leaves to the empty tree (with any store) never panics. -/
theorem append_never_panics (D : List (List UInt8)) (st : Option HashStore) :
    ∃ s, State.appendAll H ⟨emptyTree, st⟩ D = .ok s := by
  obtain ⟨s, h, _⟩ := inv_appendAll H D [] ⟨emptyTree, st⟩ (inv_empty H)
  exact ⟨s, h⟩

/-- The frontier invariant: after appending `D` the frontier (read from the smallest subtree up) is
`fr |D| (leaf hashes)` — the last node of every level of odd width — and it has one hash per one-bit of
the size. -/
theorem frontier_inv (D : List (List UInt8)) (st : Option HashStore) (s : State)
    (h : State.appendAll H ⟨emptyTree, st⟩ D = .ok s) :
    s.tree.size = D.length ∧
    s.tree.hashes.reverse = fr H D.length (D.map (hashLeaf H)) ∧
    s.tree.hashes.length = countBit D.length := by
  obtain ⟨s', h', hi, _⟩ := inv_appendAll H D [] ⟨emptyTree, st⟩ (inv_empty H)
  rw [h] at h'; cases h'
  simp only [List.nil_append] at hi
  have hc := inv_countBit H _ _ hi
  obtain ⟨h1, h2⟩ := hi
  simp only [List.length_map] at h1 h2
  exact ⟨h1, h2, by rw [hc, h1]⟩

/-- After any sequence of appends the root is the RFC 6962 Merkle tree hash of all appended leaves. -/
theorem root_eq_mth (D : List (List UInt8)) (st : Option HashStore) (s : State)
    (h : State.appendAll H ⟨emptyTree, st⟩ D = .ok s) :
    root H s.tree = .ok (mth H (D.map (hashLeaf H))) := by
  obtain ⟨s', h', hi, _⟩ := inv_appendAll H D [] ⟨emptyTree, st⟩ (inv_empty H)
  rw [h] at h'; cases h'
  simpa using inv_root H _ _ hi

/-- The empty tree has the hash of the empty string as root. -/
theorem root_empty : root H emptyTree = .ok (H []) := by
  simp [root, emptyTree, hashEmpty]

/-- `GetRootWithNewLeaf`: the predicted root equals the root after actually appending the leaf. -/
theorem predicted_root_single (D : List (List UInt8)) (st : Option HashStore) (s : State) (x : List UInt8)
    (h : State.appendAll H ⟨emptyTree, st⟩ D = .ok s) :
    ∃ s', State.appendAll H ⟨emptyTree, st⟩ (D ++ [x]) = .ok s' ∧
      getRootWithNewLeaf H s.tree x = root H s'.tree := by
  obtain ⟨s0, h0, hi, _⟩ := inv_appendAll H D [] ⟨emptyTree, st⟩ (inv_empty H)
  rw [h] at h0; cases h0
  obtain ⟨s', h', hi', _⟩ := inv_appendAll H (D ++ [x]) [] ⟨emptyTree, st⟩ (inv_empty H)
  refine ⟨s', h', ?_⟩
  rw [inv_predict1 H _ _ x hi, inv_root H _ _ hi']
  simp

/-- `GetRootWithNewLeaves`: the root predicted for extra leaves equals the root after appending them
(the prediction runs on a clone without store: the model function has no access to the store). -/
theorem predicted_root (D xs : List (List UInt8)) (st : Option HashStore) (s : State)
    (h : State.appendAll H ⟨emptyTree, st⟩ D = .ok s) :
    ∃ s', State.appendAll H s xs = .ok s' ∧ getRootWithNewLeaves H s.tree xs = root H s'.tree ∧
      getRootWithNewLeaves H s.tree xs = .ok (mth H ((D ++ xs).map (hashLeaf H))) := by
  obtain ⟨s0, h0, hi, _⟩ := inv_appendAll H D [] ⟨emptyTree, st⟩ (inv_empty H)
  rw [h] at h0; cases h0
  simp only [List.nil_append] at hi
  obtain ⟨s', h', hi', _⟩ := inv_appendAll H xs _ s hi
  obtain ⟨c, hc, hic, _⟩ := inv_appendAll H xs _ ⟨s.tree, none⟩ hi
  refine ⟨s', h', ?_, ?_⟩
  · unfold getRootWithNewLeaves; rw [hc]; simp only
    rw [inv_root H _ _ hic, inv_root H _ _ hi']
  · unfold getRootWithNewLeaves; rw [hc]; simp only
    rw [inv_root H _ _ hic]; simp


/-! ### Frontier and store in RFC terms, generators, reload, marshal -/

/-- A fresh store of either kind (memory / file). -/
def freshStore (isFile : Bool) : Option HashStore := some ⟨isFile, [], []⟩

/-- After appending `D` to the empty tree: the frontier is `frontier` (the roots of the maximal perfect
subtrees of the binary decomposition of `|D|`, largest first) and the hash store holds `postorder` (the
post-orders of those subtrees, i.e. every node in the order it was completed). -/
theorem store_postorder (D : List (List UInt8)) (isFile : Bool) (s : State)
    (h : State.appendAll H ⟨emptyTree, freshStore isFile⟩ D = .ok s) :
    s.tree.hashes = frontier H (D.map (hashLeaf H)) ∧
    ∃ st, s.store = some st ∧ st.hashes = postorder H (D.map (hashLeaf H)) ∧ st.isFile = isFile := by
  obtain ⟨s', h', hi⟩ := sinv_appendAll H D [] ⟨emptyTree, freshStore isFile⟩
    (sinv_empty H _ (by intro x hx; simp [freshStore] at hx; subst hx; rfl))
  rw [h] at h'; cases h'
  simp only [List.nil_append] at hi
  refine ⟨hi.2.1, ?_⟩
  -- the store is still there and of the same kind
  have hk : ∀ (D : List (List UInt8)) (s0 s1 : State) (st0 : HashStore), s0.store = some st0 →
      State.appendAll H s0 D = .ok s1 → ∃ st1, s1.store = some st1 ∧ st1.isFile = st0.isFile := by
    intro D
    induction D with
    | nil => intro s0 s1 st0 h0 h1; simp [State.appendAll] at h1; subst h1; exact ⟨st0, h0, rfl⟩
    | cons d D ih =>
      intro s0 s1 st0 h0 h1
      simp only [State.appendAll] at h1
      cases ha : s0.append H d with
      | error e => simp [ha] at h1
      | ok r =>
        obtain ⟨sa, au⟩ := r
        simp only [ha] at h1
        have hsa : sa.store = some (st0.put (match appendLeaf H s0.tree d with | .ok (_, st, _) => st | .error _ => [])) := by
          unfold State.append at ha
          cases hl : appendLeaf H s0.tree d with
          | error e => simp [hl] at ha
          | ok q =>
            obtain ⟨t, st, audit⟩ := q
            simp only [hl, Except.ok.injEq, Prod.mk.injEq] at ha
            rw [← ha.1]; simp [h0]
        obtain ⟨st1, e1, e2⟩ := ih sa s1 _ hsa h1
        exact ⟨st1, e1, by rw [e2]; rfl⟩
  obtain ⟨st1, e1, e2⟩ := hk D _ s _ rfl h
  exact ⟨st1, e1, hi.2.2 st1 e1, by rw [e2]⟩

/-- The fold of that frontier is the RFC 6962 root (second, independent route to `root_eq_mth`). -/
theorem frontier_fold_eq_mth (L : List Hash) (hL : L ≠ []) : hashFold H (frontier H L) = .ok (mth H L) :=
  hashFold_frontier H L hL

/-- `InclusionProof(m, n)` for any leaf of any EARLIER tree size `n ≤ |D|` is the RFC 6962 audit path
`PATH(m, D[0:n])`, read back from the store by position. -/
theorem inclusion_gen_correct (D : List (List UInt8)) (isFile : Bool) (s : State) (m n : Nat)
    (h : State.appendAll H ⟨emptyTree, freshStore isFile⟩ D = .ok s) (hm : m < n) (hn : n ≤ D.length) :
    inclusionProof H s m n = .ok (path H m ((D.map (hashLeaf H)).take n)) := by
  obtain ⟨s', h', hi⟩ := sinv_appendAll H D [] ⟨emptyTree, freshStore isFile⟩
    (sinv_empty H _ (by intro x hx; simp [freshStore] at hx; subst hx; rfl))
  rw [h] at h'; cases h'
  simp only [List.nil_append] at hi
  obtain ⟨_, st, hst, _, _⟩ := store_postorder H D isFile s h
  exact inclusionProof_eq_path H _ s st m n hi hst hm (by simpa using hn)

/-- The node's own verifier accepts the RFC 6962 audit path of every leaf of every tree. -/
theorem verify_inclusion_complete (L : List Hash) (m : Nat) (x : Hash) (hx : L[m]? = some x) :
    verifyLeafHashInclusion H x m (path H m L) (mth H L) L.length = .ok () :=
  verifyInclusion_complete H L m x hx

/-- Hence: the inclusion proof generated for any leaf `m` of any earlier size `n` is accepted by
`VerifyLeafHashInclusion` against the root of the first `n` leaves. -/
theorem generated_inclusion_accepted (D : List (List UInt8)) (isFile : Bool) (s : State) (m n : Nat)
    (h : State.appendAll H ⟨emptyTree, freshStore isFile⟩ D = .ok s) (hm : m < n) (hn : n ≤ D.length) :
    ∃ p x, inclusionProof H s m n = .ok p ∧ (D.map (hashLeaf H))[m]? = some x ∧
      verifyLeafHashInclusion H x m p (mth H ((D.map (hashLeaf H)).take n)) n = .ok () := by
  have hlt : m < (D.map (hashLeaf H)).length := by simp; omega
  refine ⟨_, _, inclusion_gen_correct H D isFile s m n h hm hn, List.getElem?_eq_getElem hlt, ?_⟩
  have hx : ((D.map (hashLeaf H)).take n)[m]? = some ((D.map (hashLeaf H))[m]) := by
    rw [List.getElem?_take_of_lt hm, List.getElem?_eq_getElem hlt]
  have := verifyInclusion_complete H ((D.map (hashLeaf H)).take n) m _ hx
  have hl : ((D.map (hashLeaf H)).take n).length = n := by simp; omega
  rwa [hl] at this

/-- `ConsistencyProof(m, n)` between any two sizes `1 ≤ m ≤ n ≤ |D|` is the RFC 6962 consistency proof
`PROOF(m, D[0:n])`, read back from the store by position. (For `m = 0` the RFC defines no proof; the code
then reads store position `0xFFFFFFFF`: modelled and exercised by the correspondence, see the registry.) -/
theorem consistency_gen_correct (D : List (List UInt8)) (isFile : Bool) (s : State) (m n : Nat)
    (h : State.appendAll H ⟨emptyTree, freshStore isFile⟩ D = .ok s) (hm1 : 1 ≤ m) (hmn : m ≤ n) (hn : n ≤ D.length) :
    consistencyProof H s m n = .ok (some (proof H m ((D.map (hashLeaf H)).take n))) := by
  obtain ⟨s', h', hi⟩ := sinv_appendAll H D [] ⟨emptyTree, freshStore isFile⟩
    (sinv_empty H _ (by intro x hx; simp [freshStore] at hx; subst hx; rfl))
  rw [h] at h'; cases h'
  simp only [List.nil_append] at hi
  obtain ⟨_, st, hst, _, _⟩ := store_postorder H D isFile s h
  exact Poly.Proofs.MerkleCons.consistencyProof_eq_proof H _ s st m n hi hst hm1 hmn (by simpa using hn)

/-- The node's own verifier accepts the RFC 6962 consistency proof between any two sizes `1 ≤ m ≤ n`. -/
theorem verify_consistency_complete (L : List Hash) (m : Nat) (hm1 : 1 ≤ m) (hmn : m ≤ L.length) :
    verifyConsistency H m L.length (mth H (L.take m)) (mth H L) (proof H m L) = .ok () :=
  Poly.Proofs.MerkleCons.verifyConsistency_complete H L m hm1 hmn

/-- Hence: the consistency proof generated between any two sizes `1 ≤ m ≤ n ≤ |D|` is accepted by
`VerifyConsistency` against the roots of the first `m` and the first `n` leaves. -/
theorem generated_consistency_accepted (D : List (List UInt8)) (isFile : Bool) (s : State) (m n : Nat)
    (h : State.appendAll H ⟨emptyTree, freshStore isFile⟩ D = .ok s) (hm1 : 1 ≤ m) (hmn : m ≤ n) (hn : n ≤ D.length) :
    ∃ p, consistencyProof H s m n = .ok (some p) ∧
      verifyConsistency H m n (mth H ((D.map (hashLeaf H)).take m)) (mth H ((D.map (hashLeaf H)).take n)) p = .ok () := by
  refine ⟨_, consistency_gen_correct H D isFile s m n h hm1 hmn hn, ?_⟩
  have hl : ((D.map (hashLeaf H)).take n).length = n := by simp; omega
  have := Poly.Proofs.MerkleCons.verifyConsistency_complete H ((D.map (hashLeaf H)).take n) m hm1 (by omega)
  rw [hl, List.take_take, Nat.min_eq_left hmn] at this
  exact this

/-- `MerkleInclusionLeafPath(data, m, n)` for the `m`-th appended leaf verifies with `MerkleProve` against
the root of the first `n` leaves and yields the leaf data. -/
theorem leafpath_gen_verifies (hlen : HashLen H) (D : List (List UInt8)) (isFile : Bool) (s : State) (m n : Nat)
    (data : List UInt8) (h : State.appendAll H ⟨emptyTree, freshStore isFile⟩ D = .ok s) (hm : m < n)
    (hn : n ≤ D.length) (hd : D[m]? = some data) (hsz : data.length < 2 ^ 64) :
    ∃ p, merkleInclusionLeafPath H s data m n = .ok p ∧
      merkleProve H p (mth H ((D.map (hashLeaf H)).take n)) = .ok data := by
  obtain ⟨s', h', hi⟩ := sinv_appendAll H D [] ⟨emptyTree, freshStore isFile⟩
    (sinv_empty H _ (by intro x hx; simp [freshStore] at hx; subst hx; rfl))
  rw [h] at h'; cases h'
  simp only [List.nil_append] at hi
  obtain ⟨_, st, hst, _, _⟩ := store_postorder H D isFile s h
  exact leafPath_gen_verifies H hlen _ s st data m n hi hst hm (by simpa using hn)
    (by rw [List.getElem?_map, hd]; rfl)
    (by intro y hy; obtain ⟨d, _, rfl⟩ := List.mem_map.mp hy; exact hlen _) hsz

/-- Reload from the hash file: closing and reopening the file of the tree of `D` (even when the file is
followed by stale hashes of a longer history) gives back exactly the store, so the reloaded tree
`NewTree(size, frontier, reopened file)` answers every proof query as before. -/
theorem reload (D : List (List UInt8)) (s : State) (tail : List Hash)
    (h : State.appendAll H ⟨emptyTree, freshStore true⟩ D = .ok s) :
    ∃ st, s.store = some st ∧ reopenFile (st.hashes ++ tail) s.tree.size = some ⟨true, st.hashes, tail⟩ ∧
      newTree s.tree.size s.tree.hashes = .ok s.tree := by
  obtain ⟨hf, st, hst, hpo, _⟩ := store_postorder H D true s h
  obtain ⟨hsz, _, hc⟩ := frontier_inv H D _ s h
  refine ⟨st, hst, ?_, ?_⟩
  · rw [hpo, hsz]
    have := reopenFile_ok H (D.map (hashLeaf H)) tail
    simpa using this
  · have : newTree s.tree.size s.tree.hashes = .ok ⟨s.tree.size, s.tree.hashes⟩ := by simp [newTree, hc, hsz]
    rw [this]

/-- Marshal round trip: `UnMarshal(Marshal(tree)) = tree` after any append sequence (sizes below 2^32),
also when the buffer carries trailing bytes. -/
theorem marshal_roundtrip (hlen : HashLen H) (D : List (List UInt8)) (st : Option HashStore) (s : State)
    (rest : List UInt8) (h : State.appendAll H ⟨emptyTree, st⟩ D = .ok s) (hsz : D.length < 2 ^ 32) :
    unmarshal (marshal s.tree ++ rest) = .ok s.tree := by
  obtain ⟨h1, h2, h3⟩ := frontier_inv H D st s h
  apply unmarshal_marshal
  · omega
  · rw [h3, h1]
  · -- every frontier hash is a hash value
    obtain ⟨s', h', hi, _⟩ := Poly.Proofs.MerkleTree.inv_appendAll H D [] ⟨emptyTree, st⟩ (inv_empty H)
    rw [h] at h'; cases h'
    obtain ⟨s2, h2', hi2⟩ := sinv_appendAll H D [] ⟨emptyTree, none⟩ (sinv_empty H _ (by simp))
    obtain ⟨s3, h3', hi3, _⟩ := Poly.Proofs.MerkleTree.inv_appendAll H D [] ⟨emptyTree, none⟩ (inv_empty H)
    rw [h2'] at h3'; cases h3'
    have hsame : s.tree.hashes = s2.tree.hashes := by
      have a := hi.2; have b := hi3.2
      simp only [List.nil_append] at a b
      have := a.trans b.symm
      exact List.reverse_inj.mp this
    rw [hsame, hi2.2.1]
    intro y hy
    exact frontier_len32 H hlen _ (by intro z hz; simp at hz; obtain ⟨d, _, rfl⟩ := hz; exact hlen _) y hy

/-- `countBit` exactly as the Go loop (`num &= num - 1` until zero) is the digit sum used in the model. -/
theorem countBit_loop_exact (n : Nat) : countBitGo n = countBit n := Poly.Proofs.MerkleBits.countBitGo_eq n

/-- The store of an `n`-leaf tree holds `2n - popcount(n)` hashes. -/
theorem stored_hash_count (n : Nat) : storedHashNum n + countBit n = 2 * n :=
  Poly.Proofs.MerkleBits.storedHashNum_add_countBit n

/-- Range in which the `Nat` model of the `uint32` arithmetic is exact: for trees below 2^31 leaves
`treeSize + 1`, every subtree size (`id * 2 - 1`), every store position (prefix sums of `getSubTreePos`,
`offset + k*2 - 1`, `pos[p] + offset + k*2 - 1`: all of them positions of stored hashes, by the generator
theorems) and the store length stay below 2^32, so no `uint32` operation of the generators wraps. -/
theorem uint32_range (n : Nat) (h : n < 2 ^ 31) :
    n + 1 < 2 ^ 32 ∧ storedHashNum n ≤ 2 * n ∧ storedHashNum n < 2 ^ 32 ∧
    (∀ s ∈ getSubTreeSize n, s < 2 ^ 32) ∧ (∀ p ∈ getSubTreePos n, p < 2 ^ 32) :=
  Poly.Proofs.MerkleBits.uint32_range n h

/-- `merkleRoot(n)` recomputed from the store is the RFC 6962 root of the first `n` leaves. -/
theorem stored_root_correct (D : List (List UInt8)) (isFile : Bool) (s : State) (n : Nat)
    (h : State.appendAll H ⟨emptyTree, freshStore isFile⟩ D = .ok s) (hn1 : 1 ≤ n) (hn : n ≤ D.length) :
    ∃ st, s.store = some st ∧ merkleRoot H (getHash1 st) n = .ok (mth H ((D.map (hashLeaf H)).take n)) := by
  obtain ⟨s', h', hi⟩ := sinv_appendAll H D [] ⟨emptyTree, freshStore isFile⟩
    (sinv_empty H _ (by intro x hx; simp [freshStore] at hx; subst hx; rfl))
  rw [h] at h'; cases h'
  simp only [List.nil_append] at hi
  obtain ⟨_, st, hst, _, _⟩ := store_postorder H D isFile s h
  exact ⟨st, hst, Poly.Proofs.MerkleBits.merkleRoot_ok H _ s st n hi hst hn1 (by simpa using hn)⟩

/-- The compiled driver keeps the hash store in an array (`Poly.Model.MerkleArray.AStore`); it reads,
appends (overwriting stale file content) and reopens exactly as the list-backed store of the model, so the
correspondence runs the model's generators on the model's store. -/
theorem driver_store_refines (a : Poly.Model.MerkleArray.AStore) (new : List Hash) (keep : Option Nat) (n : Nat)
    (hw : a.wpos ≤ a.arr.size) :
    a.reader = getHash1 a.toStore ∧
    (a.put new).toStore = a.toStore.put new ∧ (a.put new).wpos ≤ (a.put new).arr.size ∧
    (a.reopen keep n).map Poly.Model.MerkleArray.AStore.toStore =
      reopenFile (match keep with | none => a.arr.toList | some k => a.arr.toList.take k) n :=
  ⟨Poly.Proofs.MerkleArray.reader_eq a, (Poly.Proofs.MerkleArray.put_eq new a hw).1,
   (Poly.Proofs.MerkleArray.put_eq new a hw).2, Poly.Proofs.MerkleArray.reopen_eq a keep n⟩

/-- The hypotheses are satisfiable: a concrete three-leaf history (with `H` the identity the root shows
the RFC shape `1 ‖ (1 ‖ 0a ‖ 0b) ‖ 0c`). -/
example : ∃ s, State.appendAll id ⟨emptyTree, some ⟨false, [], []⟩⟩ [[0xa], [0xb], [0xc]] = .ok s ∧
    root id s.tree = .ok [1, 1, 0, 0xa, 0, 0xb, 0, 0xc] := by
  obtain ⟨s, h⟩ := append_never_panics id [[0xa], [0xb], [0xc]] (some ⟨false, [], []⟩)
  refine ⟨s, h, ?_⟩
  rw [root_eq_mth id _ _ s h]
  simp [mth_split, Poly.Proofs.MerkleSpec.splitPoint_two, mth_single, hashLeaf, hashChildren,
    splitPoint_unique 3 2 ⟨1, rfl⟩ (by omega) (by omega)]

end Poly.Props.C06
