import Poly.Proofs.Codec
import Poly.Proofs.Schema
/-!
# C01 — Binary codec round-trips and fails safely on truncated input

Model: `Poly.Model.Codec` (writers = `ZeroCopySink.WriteX`; machine readers = `ZeroCopySource.NextX` with `off : UInt64`,
the `SafeAdd` guard and Go slice-bounds panics as `none`; pure readers on the unread remainder; the streaming codec
`serialization.*`). All statements are for every value, every prefix `pre` already consumed and every suffix `r`.
"All concatenations" is `concatenation_roundtrip` / `concatenation_truncation`: the generic schema theorem (shared with C04) whose
leaves are these primitives.
-/
namespace Poly.Props.C01
open Poly.Model.Codec Poly.Model.Schema

/-! ## Round trip with exact consumption (pure readers: value, remainder `r`, no eof) -/

theorem roundtrip_u8 (v : UInt8) (r : Bytes) : P.nextByte (wU8 v ++ r) = (v, r, false) := P.nextByte_w v r
theorem roundtrip_u16 (v : UInt16) (r : Bytes) : P.nextU16 (wU16 v ++ r) = (v, r, false) := P.nextU16_w v r
theorem roundtrip_u32 (v : UInt32) (r : Bytes) : P.nextU32 (wU32 v ++ r) = (v, r, false) := P.nextU32_w v r
theorem roundtrip_u64 (v : UInt64) (r : Bytes) : P.nextU64 (wU64 v ++ r) = (v, r, false) := P.nextU64_w v r
theorem roundtrip_i16 (v : Int16) (r : Bytes) : P.nextI16 (wI16 v ++ r) = (v, r, false) := P.nextI16_w v r
theorem roundtrip_i32 (v : Int32) (r : Bytes) : P.nextI32 (wI32 v ++ r) = (v, r, false) := P.nextI32_w v r
theorem roundtrip_i64 (v : Int64) (r : Bytes) : P.nextI64 (wI64 v ++ r) = (v, r, false) := P.nextI64_w v r
theorem roundtrip_bool (v : Bool) (r : Bytes) : P.nextBool (wBool v ++ r) = (v, r, false) := P.nextBool_w v r
theorem roundtrip_varuint (v : UInt64) (r : Bytes) : P.nextVarUint (wVarUint v ++ r) = (v, r, false) :=
  P.nextVarUint_w v r
/-- byte strings and strings (`WriteVarBytes`/`WriteString`), for every length a Go slice can have -/
theorem roundtrip_varbytes (b r : Bytes) (h : b.length < 2 ^ 64) : P.nextVarBytes (wVarBytes b ++ r) = (b, r, false) :=
  P.nextVarBytes_w b r h
/-- addresses (`n = 20`), hashes (`n = 32`) and any fixed-size field -/
theorem roundtrip_fixed (n : Nat) (b r : Bytes) (h : b.length = n) : P.nextFixed n (wBytes b ++ r) = (b, r, false) :=
  P.nextFixed_w n b r h

/-! ## The real reader (`off : UInt64`, `SafeAdd` guard) computes exactly the pure reader and never panics -/

/-- Every `ZeroCopySource.NextX`, started in any state with `off ≤ len < 2^64`, does not panic, returns the pure reader's
value and eof flag on the unread remainder, keeps the slice, keeps the invariant, and leaves exactly the pure remainder. -/
theorem source_refines_pure (x : Src) (h : x.Inv) :
    (∀ n, Refines x (nextBytes x n) (P.nextBytes n.toNat x.rem)) ∧
    Refines x (nextByte x) (P.nextByte x.rem) ∧ Refines x (nextBool x) (P.nextBool x.rem) ∧
    Refines x (nextU16 x) (P.nextU16 x.rem) ∧ Refines x (nextU32 x) (P.nextU32 x.rem) ∧
    Refines x (nextU64 x) (P.nextU64 x.rem) ∧ Refines x (nextI16 x) (P.nextI16 x.rem) ∧
    Refines x (nextI32 x) (P.nextI32 x.rem) ∧ Refines x (nextI64 x) (P.nextI64 x.rem) ∧
    Refines x (nextVarUint x) (P.nextVarUint x.rem) ∧ Refines x (nextVarBytes x) (P.nextVarBytes x.rem) ∧
    Refines x (nextAddress x) (P.nextFixed 20 x.rem) ∧ Refines x (nextHash x) (P.nextFixed 32 x.rem) :=
  ⟨fun n => nextBytes_refines x n h, nextByte_refines x h, nextBool_refines x h, nextU16_refines x h, nextU32_refines x h,
   nextU64_refines x h, nextI16_refines x h, nextI32_refines x h, nextI64_refines x h, nextVarUint_refines x h,
   nextVarBytes_refines x h, nextFixed_refines 20 (by decide) x h, nextFixed_refines 32 (by decide) x h⟩

/-- `NextBytes` for *every* `off ≤ len` and *every* `n : UInt64` (including `off + n` wrapping around): no panic, the new
offset stays within `[off, len]`, the data is exactly `s[off, off')`, and eof is reported iff fewer than `n` bytes remain. -/
theorem nextBytes_in_bounds (x : Src) (n : UInt64) (h : x.Inv) :
    ∃ d x' eof, nextBytes x n = some (d, x', eof) ∧ x'.s = x.s ∧
      x.off.toNat ≤ x'.off.toNat ∧ x'.off.toNat ≤ x.s.length ∧
      d = (x.s.drop x.off.toNat).take (x'.off.toNat - x.off.toNat) ∧
      (eof = true ↔ x.s.length < x.off.toNat + n.toNat) := by
  obtain ⟨x', hm, hi, hs, hr⟩ := nextBytes_refines x n h
  have hrl : x'.rem.length = x.s.length - x'.off.toNat := by simp [Src.rem, hs]
  have hi1 := hi.1
  rw [hs] at hi1
  have h1 := h.1
  rw [hr] at hrl
  have hl : x.rem.length = x.s.length - x.off.toNat := by simp [Src.rem]
  by_cases c : n.toNat ≤ x.rem.length
  · have hp : P.nextBytes n.toNat x.rem = (x.rem.take n.toNat, x.rem.drop n.toNat, false) := by simp [P.nextBytes, c]
    rw [hp] at hrl hm
    simp only [List.length_drop, hl] at hrl
    rw [hl] at c
    have e : x'.off.toNat - x.off.toNat = n.toNat := by omega
    exact ⟨_, x', _, hm, hs, by omega, hi1, by rw [e]; rfl, by simp; omega⟩
  · have hp : P.nextBytes n.toNat x.rem = (x.rem, [], true) := by simp [P.nextBytes, c]
    rw [hp] at hrl hm
    simp only [List.length_nil] at hrl
    rw [hl] at c
    have e : x'.off.toNat = x.s.length := by omega
    refine ⟨_, x', _, hm, hs, by omega, hi1, ?_, by simp; omega⟩
    rw [e]; exact (List.take_of_length_le (by simp [Src.rem])).symm

/-- Reading back what was written, at any position of any buffer: value, no eof, and `Pos()` advanced by exactly the number
of bytes written — for each primitive of `ZeroCopySource`. -/
theorem source_roundtrip_pos (pre r : Bytes) :
    (∀ v : UInt16, (pre ++ wU16 v ++ r).length < 2 ^ 64 → ∃ x', nextU16 ⟨pre ++ wU16 v ++ r, UInt64.ofNat pre.length⟩ = some (v, x', false) ∧ x'.off.toNat = pre.length + (wU16 v).length ∧ x'.s = pre ++ wU16 v ++ r) ∧
    (∀ v : UInt32, (pre ++ wU32 v ++ r).length < 2 ^ 64 → ∃ x', nextU32 ⟨pre ++ wU32 v ++ r, UInt64.ofNat pre.length⟩ = some (v, x', false) ∧ x'.off.toNat = pre.length + (wU32 v).length ∧ x'.s = pre ++ wU32 v ++ r) ∧
    (∀ v : UInt64, (pre ++ wU64 v ++ r).length < 2 ^ 64 → ∃ x', nextU64 ⟨pre ++ wU64 v ++ r, UInt64.ofNat pre.length⟩ = some (v, x', false) ∧ x'.off.toNat = pre.length + (wU64 v).length ∧ x'.s = pre ++ wU64 v ++ r) ∧
    (∀ v : Int64, (pre ++ wI64 v ++ r).length < 2 ^ 64 → ∃ x', nextI64 ⟨pre ++ wI64 v ++ r, UInt64.ofNat pre.length⟩ = some (v, x', false) ∧ x'.off.toNat = pre.length + (wI64 v).length ∧ x'.s = pre ++ wI64 v ++ r) ∧
    (∀ v : Bool, (pre ++ wBool v ++ r).length < 2 ^ 64 → ∃ x', nextBool ⟨pre ++ wBool v ++ r, UInt64.ofNat pre.length⟩ = some (v, x', false) ∧ x'.off.toNat = pre.length + (wBool v).length ∧ x'.s = pre ++ wBool v ++ r) ∧
    (∀ v : UInt64, (pre ++ wVarUint v ++ r).length < 2 ^ 64 → ∃ x', nextVarUint ⟨pre ++ wVarUint v ++ r, UInt64.ofNat pre.length⟩ = some (v, x', false) ∧ x'.off.toNat = pre.length + (wVarUint v).length ∧ x'.s = pre ++ wVarUint v ++ r) ∧
    (∀ b : Bytes, (pre ++ wVarBytes b ++ r).length < 2 ^ 64 → ∃ x', nextVarBytes ⟨pre ++ wVarBytes b ++ r, UInt64.ofNat pre.length⟩ = some (b, x', false) ∧ x'.off.toNat = pre.length + (wVarBytes b).length ∧ x'.s = pre ++ wVarBytes b ++ r) ∧
    (∀ a : Bytes, a.length = 20 → (pre ++ wBytes a ++ r).length < 2 ^ 64 → ∃ x', nextAddress ⟨pre ++ wBytes a ++ r, UInt64.ofNat pre.length⟩ = some (a, x', false) ∧ x'.off.toNat = pre.length + 20 ∧ x'.s = pre ++ wBytes a ++ r) ∧
    (∀ a : Bytes, a.length = 32 → (pre ++ wBytes a ++ r).length < 2 ^ 64 → ∃ x', nextHash ⟨pre ++ wBytes a ++ r, UInt64.ofNat pre.length⟩ = some (a, x', false) ∧ x'.off.toNat = pre.length + 32 ∧ x'.s = pre ++ wBytes a ++ r) := by
  refine ⟨?_, ?_, ?_, ?_, ?_, ?_, ?_, ?_, ?_⟩
  · intro v hl; exact machine_roundtrip nextU16 P.nextU16 nextU16_refines pre _ r v (P.nextU16_w v r) hl
  · intro v hl; exact machine_roundtrip nextU32 P.nextU32 nextU32_refines pre _ r v (P.nextU32_w v r) hl
  · intro v hl; exact machine_roundtrip nextU64 P.nextU64 nextU64_refines pre _ r v (P.nextU64_w v r) hl
  · intro v hl; exact machine_roundtrip nextI64 P.nextI64 nextI64_refines pre _ r v (P.nextI64_w v r) hl
  · intro v hl; exact machine_roundtrip nextBool P.nextBool nextBool_refines pre _ r v (P.nextBool_w v r) hl
  · intro v hl; exact machine_roundtrip nextVarUint P.nextVarUint nextVarUint_refines pre _ r v (P.nextVarUint_w v r) hl
  · intro b hl
    have hb : b.length < 2 ^ 64 := by simp only [wVarBytes, List.length_append] at hl; omega
    exact machine_roundtrip nextVarBytes P.nextVarBytes nextVarBytes_refines pre _ r b (P.nextVarBytes_w b r hb) hl
  · intro a ha hl
    have := machine_roundtrip nextAddress (P.nextFixed 20) (nextFixed_refines 20 (by decide)) pre _ r a (P.nextFixed_w 20 a r ha) hl
    simpa [wBytes, ha] using this
  · intro a ha hl
    have := machine_roundtrip nextHash (P.nextFixed 32) (nextFixed_refines 32 (by decide)) pre _ r a (P.nextFixed_w 32 a r ha) hl
    simpa [wBytes, ha] using this

/-- the `BackUp(lenRead)` idiom returns to the starting offset -/
theorem backup_restores (x : Src) (e : UInt64) : backUp { x with off := e } (e - x.off) = x := backUp_restores x e

/-! ## Sizes -/

/-- `WriteVarUint` uses 1 / 3 / 5 / 9 bytes exactly by range (boundaries 0xFC|0xFD, 0xFFFF|0x10000, 0xFFFFFFFF|0x100000000),
and that is the `size` it returns. -/
theorem varuint_size (v : UInt64) :
    (wVarUint v).length = varUintSize v ∧
    (varUintSize v = 1 ↔ v.toNat < 0xFD) ∧ (varUintSize v = 3 ↔ 0xFD ≤ v.toNat ∧ v.toNat ≤ 0xFFFF) ∧
    (varUintSize v = 5 ↔ 0x10000 ≤ v.toNat ∧ v.toNat ≤ 0xFFFFFFFF) ∧ (varUintSize v = 9 ↔ 0x100000000 ≤ v.toNat) := by
  refine ⟨P.wVarUint_length v, ?_⟩
  have := v.toNat_lt
  unfold varUintSize
  simp only [UInt64.lt_iff_toNat_lt, UInt64.le_iff_toNat_le]
  simp only [UInt64.toNat_ofNat]
  refine ⟨?_, ?_, ?_, ?_⟩ <;> (repeat' split) <;> simp <;> omega

theorem fixed_sizes (a : UInt16) (b : UInt32) (c : UInt64) (d : Bool) :
    (wU16 a).length = 2 ∧ (wU32 b).length = 4 ∧ (wU64 c).length = 8 ∧ (wBool d).length = 1 := by
  simp [wU16, wU32, wU64, wBool]

/-! ## Truncation: a cut anywhere inside an encoding is reported as eof, never as a value -/

theorem truncation_is_eof :
    (∀ (v : UInt8) k, k < (wU8 v).length → (P.nextByte ((wU8 v).take k)).2.2 = true) ∧
    (∀ (v : UInt16) k, k < (wU16 v).length → (P.nextU16 ((wU16 v).take k)).2.2 = true) ∧
    (∀ (v : UInt32) k, k < (wU32 v).length → (P.nextU32 ((wU32 v).take k)).2.2 = true) ∧
    (∀ (v : UInt64) k, k < (wU64 v).length → (P.nextU64 ((wU64 v).take k)).2.2 = true) ∧
    (∀ (v : Bool) k, k < (wBool v).length → (P.nextBool ((wBool v).take k)).2.2 = true) ∧
    (∀ (v : UInt64) k, k < (wVarUint v).length → (P.nextVarUint ((wVarUint v).take k)).2.2 = true) ∧
    (∀ (b : Bytes) k, b.length < 2 ^ 64 → k < (wVarBytes b).length → (P.nextVarBytes ((wVarBytes b).take k)).2.2 = true) ∧
    (∀ n (b : Bytes) k, b.length = n → k < n → (P.nextFixed n ((wBytes b).take k)).2.2 = true) := by
  refine ⟨P.nextByte_trunc, P.nextU16_trunc, P.nextU32_trunc, P.nextU64_trunc, P.nextBool_trunc, P.nextVarUint_trunc,
    fun b k h hk => P.nextVarBytes_trunc b h k hk, ?_⟩
  intro n b k hb hk
  have := P.nextBytes_trunc n k b hb hk
  simp only [P.nextFixed, wBytes, this, if_true]

/-- A length prefix (in any of the accepted encodings) that exceeds the remaining data is eof. -/
theorem length_prefix_beyond_data_is_eof (bs r1 : Bytes) (n : UInt64) (h : P.nextVarUint bs = (n, r1, false))
    (hl : r1.length < n.toNat) : (P.nextVarBytes bs).2.2 = true := by
  rw [P.nextVarBytes_short bs r1 n h hl]

/-- `NextVarUint` accepts non-minimal encodings (the model mirrors this; canonical form is *not* enforced by the reader). -/
theorem varuint_nonminimal_accepted (r : Bytes) :
    (∀ v : UInt16, P.nextVarUint (0xFD :: wU16 v ++ r) = (v.toUInt64, r, false)) ∧
    (∀ v : UInt32, P.nextVarUint (0xFE :: wU32 v ++ r) = (v.toUInt64, r, false)) ∧
    (∀ v : UInt64, P.nextVarUint (0xFF :: wU64 v ++ r) = (v, r, false)) :=
  ⟨fun v => P.nextVarUint_nonminimal16 v r, fun v => P.nextVarUint_nonminimal32 v r, fun v => P.nextVarUint_nonminimal64 v r⟩

/-- `NextBool` is strict: a byte other than 0 / 1 is reported as eof. -/
theorem bool_strict (b : UInt8) (r : Bytes) (h0 : b ≠ 0) (h1 : b ≠ 1) : (P.nextBool (b :: r)).2.2 = true := by
  rw [P.nextBool_strict b r h0 h1]

/-! ## `SafeAdd/SafeSub/SafeMul` -/

theorem safe_math_exact (x y : UInt64) :
    ((safeAdd x y).2 = decide (2 ^ 64 ≤ x.toNat + y.toNat) ∧ (safeAdd x y).1.toNat = (x.toNat + y.toNat) % 2 ^ 64) ∧
    ((safeSub x y).2 = decide (x.toNat < y.toNat) ∧ ((safeSub x y).2 = false → (safeSub x y).1.toNat = x.toNat - y.toNat)) ∧
    ((safeMul x y).2 = decide (2 ^ 64 ≤ x.toNat * y.toNat) ∧ (safeMul x y).1.toNat = (x.toNat * y.toNat) % 2 ^ 64) :=
  ⟨safeAdd_spec x y, safeSub_spec x y, safeMul_spec x y⟩

/-! ## Streaming codec (`common/serialization`) -/

/-- The streaming and zero-copy encoders produce identical bytes for every shared primitive. -/
theorem stream_eq_zerocopy :
    (∀ v, Stream.wU8 v = wU8 v) ∧ (∀ v, Stream.wU16 v = wU16 v) ∧ (∀ v, Stream.wU32 v = wU32 v) ∧
    (∀ v, Stream.wU64 v = wU64 v) ∧ (∀ v, Stream.wBool v = wBool v) ∧ (∀ v, Stream.wVarUint v = wVarUint v) ∧
    (∀ v, Stream.wVarBytes v = wVarBytes v) :=
  ⟨Stream.wU8_eq, Stream.wU16_eq, Stream.wU32_eq, Stream.wU64_eq, Stream.wBool_eq, Stream.wVarUint_eq, Stream.wVarBytes_eq⟩

/-- What the zero-copy sink wrote, the streaming readers read back (value and exact consumption). Byte strings up to
2^63-1 bytes: above that `byteXReader`'s `int64(x)` cast goes negative (no Go slice is that long). -/
theorem stream_roundtrip (r : Bytes) :
    (∀ v, Stream.readU8 (wU8 v ++ r) = (.ok v, r)) ∧ (∀ v, Stream.readU16 (wU16 v ++ r) = (.ok v, r)) ∧
    (∀ v, Stream.readU32 (wU32 v ++ r) = (.ok v, r)) ∧ (∀ v, Stream.readU64 (wU64 v ++ r) = (.ok v, r)) ∧
    (∀ v, Stream.readBool (wBool v ++ r) = (.ok v, r)) ∧ (∀ v, Stream.readByte (wU8 v ++ r) = (.ok v, r)) ∧
    (∀ v, Stream.readVarUint 0 (wVarUint v ++ r) = (.ok v, r)) ∧
    (∀ b : Bytes, b.length < 2 ^ 63 → Stream.readVarBytes (wVarBytes b ++ r) = (.ok b, r)) ∧
    (∀ n (b : Bytes), b.length = n → n < 2 ^ 63 → Stream.readFixed n (b ++ r) = (.ok b, r)) :=
  ⟨fun v => Stream.readU8_w v r, fun v => Stream.readU16_w v r, fun v => Stream.readU32_w v r, fun v => Stream.readU64_w v r,
   fun v => Stream.readBool_w v r, fun v => Stream.readByte_w v r, fun v => Stream.readVarUint_w v r,
   fun b h => Stream.readVarBytes_w b r h, fun n b h hn => Stream.readFixed_w n b r h hn⟩

/-- Truncated input, or a length prefix beyond the remaining data, is an error for the streaming readers. -/
theorem stream_truncation_is_error :
    (∀ (v : UInt16) k, k < (wU16 v).length → Stream.isErr (Stream.readU16 ((wU16 v).take k))) ∧
    (∀ (v : UInt32) k, k < (wU32 v).length → Stream.isErr (Stream.readU32 ((wU32 v).take k))) ∧
    (∀ (v : UInt64) k, k < (wU64 v).length → Stream.isErr (Stream.readU64 ((wU64 v).take k))) ∧
    (∀ (v : UInt64) k, k < (wVarUint v).length → Stream.isErr (Stream.readVarUint 0 ((wVarUint v).take k))) ∧
    (∀ (b : Bytes) k, b.length < 2 ^ 64 → k < (wVarBytes b).length → Stream.isErr (Stream.readVarBytes ((wVarBytes b).take k))) ∧
    (∀ (bs r1 : Bytes) (n : UInt64), Stream.readVarUint 0 bs = (.ok n, r1) → r1.length < n.toNat → Stream.isErr (Stream.readVarBytes bs)) :=
  ⟨Stream.readU16_trunc, Stream.readU32_trunc, Stream.readU64_trunc, Stream.readVarUint_trunc,
   fun b k h hk => Stream.readVarBytes_trunc b h k hk, Stream.readVarBytes_short⟩

/-! ## The sink's reserve-nine-bytes mechanism -/

/-- `ZeroCopySink.WriteVarUint` (`NextBytes(9)`, fill, `BackUp(9 - size)`) appends exactly `wVarUint v` to any buffer, never
panics, and returns the size. -/
theorem sink_varuint_mechanism (buf : Bytes) (v : UInt64) :
    Sink.writeVarUint buf v = some (buf ++ wVarUint v, varUintSize v) := Sink.writeVarUint_eq buf v

/-! ## All concatenations -/

/-- Any sequence (product) of primitives — and lists / maps of them — written field after field is read back field by field
to the same values, consuming exactly what was written (the generic schema theorem of `Poly.Proofs.Schema`, whose leaves
are the primitives above; `K` only concerns public-key leaves). -/
theorem concatenation_roundtrip (K : Bytes → Option Bytes) (t : Ty) (v : t.Val) (r : Bytes) (h : t.WF K v) :
    t.dec K (t.enc v ++ r) = .ok (v, r) := Ty.dec_enc K t v r h

/-- Every cut strictly inside a concatenation of strict primitives is reported as an error by the field-by-field reader. -/
theorem concatenation_truncation (K : Bytes → Option Bytes) (t : Ty) (hs : t.strict = true) (v : t.Val) (h : t.WF K v) (k : Nat)
    (hk : k < (t.enc v).length) : IsErr (t.dec K ((t.enc v).take k)) := Ty.dec_trunc K t hs v h k hk

/-! ## Non-vacuity -/
example : (Ty.pair (.leaf .u16 .none) (.pair (.leaf .varbytes .none) (.leaf .bool .none))).WF (fun _ => none)
    ((513 : UInt16), ([1, 2, 3] : Bytes), true) := Ty.wfb_sound _ _ _ (by decide)

example : (Src.mk [1, 2, 3] 1).Inv := by constructor <;> decide
example : nextVarBytes ⟨[0xAA, 0x02, 0x10, 0x20, 0x30], 1⟩ = some ([0x10, 0x20], ⟨[0xAA, 0x02, 0x10, 0x20, 0x30], 4⟩, false) := by decide
example : (P.nextVarBytes [0xFF, 0xFF, 0xFF, 0xFF, 0xFF, 0xFF, 0xFF, 0xFF, 0xFF, 1]).2.2 = true := by decide

end Poly.Props.C01
