import Poly.Proofs.VBFT

/-!
# C40 — VBFT participant selection is well formed

Property theorems only. The model (`Poly.Model.VBFT`) mirrors calcParticipant / calcParticipantPeers /
buildParticipantConfig (consensus/vbft/node_utils.go) and the position table of GenesisChainConfig
(consensus/vbft/config/genesis.go). Every theorem is for all 64-byte seeds, all position tables, all N and C.
-/
namespace Poly.Props.C40
open Poly.Model.VBFT Poly.Proofs.VBFT

/-- Whenever buildParticipantConfig succeeds: the proposers are C+1 different members of the position table; the
    endorsers and the committers are different members of the table, at least 2C each, and none of them is one of
    the first C proposers. -/
theorem selection_well_formed (blkNum : Nat) (vrf : Seed) (table : List Nat) (N C : Nat) (cfg : ParticipantConfig)
    (h : buildParticipantConfig blkNum vrf table N C = .ok cfg) :
    (cfg.proposers.Nodup ∧ (∀ x ∈ cfg.proposers, x ∈ table) ∧ cfg.proposers.length = C + 1) ∧
    (cfg.endorsers.Nodup ∧ (∀ x ∈ cfg.endorsers, x ∈ table) ∧ 2 * C ≤ cfg.endorsers.length ∧
      ∀ x ∈ cfg.endorsers, x ∉ cfg.proposers.take C) ∧
    (cfg.committers.Nodup ∧ (∀ x ∈ cfg.committers, x ∈ table) ∧ 2 * C ≤ cfg.committers.length ∧
      ∀ x ∈ cfg.committers, x ∉ cfg.proposers.take C) := by
  have w := build_spec blkNum vrf table N C cfg h
  exact ⟨⟨w.p_nodup, w.p_table, w.p_size⟩, ⟨w.e_nodup, w.e_table, w.e_size, w.e_disj⟩,
    ⟨w.c_nodup, w.c_table, w.c_size, w.c_disj⟩⟩

/-- Every call of calcParticipantPeers (any start/end, any proposer list handed in) returns different members of
    the table; in the endorser and committer modes none of the first C handed-in proposers is returned. -/
theorem peers_well_formed (vrf : Seed) (table : List Nat) (N C : Nat) (proposers : List Nat) (start end_ : Nat)
    (res : List Nat) (h : calcParticipantPeers vrf table N C proposers start end_ = some res) :
    res.Nodup ∧ (∀ x ∈ res, x ∈ table) ∧ (isEC end_ = true → ∀ x ∈ res, x ∉ proposers.take C) :=
  calcParticipantPeers_spec vrf table N C proposers start end_ res h

/-- A single draw is a member of the table or the exhaustion marker `math.MaxUint32` (offsets from 512 on). -/
theorem draw_from_table (vrf : Seed) (table : List Nat) (k p : Nat) (h : calcParticipant vrf table k = some p) :
    p = maxU32 ∨ p ∈ table :=
  calcParticipant_mem vrf table k p h

/-- With a non-empty position table the selection never panics (the only panic of the code is the division by the
    table length), and it always terminates: the model is a total function whose loop is bounded by the 512 window
    offsets (`termination_by 512 - i`). -/
theorem selection_total (blkNum : Nat) (vrf : Seed) (table : List Nat) (hne : table ≠ []) (N C : Nat) :
    buildParticipantConfig blkNum vrf table N C ≠ .panic :=
  build_no_panic blkNum vrf table hne N C

/-- Every node derives the same selection from the same inputs: the selection is a function of (seed, table, N, C)
    alone, and the two Go maps of calcParticipantPeers enter only through membership — replacing the exclusion map
    by any other collection with the same members (in any order, with any multiplicity) changes nothing. -/
theorem selection_is_function (vrf : Seed) (table : List Nat) (N C end_ : Nat) (excl₁ excl₂ : List Nat)
    (hm : ∀ x, x ∈ excl₁ ↔ x ∈ excl₂) (i : Nat) (peers : List Nat) (cnt : Nat) :
    peersLoop vrf table N C end_ excl₁ i peers cnt = peersLoop vrf table N C end_ excl₂ i peers cnt :=
  peersLoop_excl_congr vrf table N C end_ excl₁ excl₂ hm i peers cnt

/-- The position table of GenesisChainConfig (for every hash function used by the shuffle): it is a rearrangement of
    15 slots per pool entry, so every entry is the index of a pool member, and N = k, C = k / 3. -/
theorem table_from_pool (h : String → Nat → Nat) (peers : List Peer) :
    let cc := genesisChainConfig h peers
    cc.posTable.Perm (peers.flatMap fun p => List.replicate 15 p.index) ∧
      (∀ x ∈ cc.posTable, ∃ p ∈ peers, p.index = x) ∧ cc.N = peers.length ∧ cc.C = peers.length / 3 := by
  intro cc
  have hp : cc.posTable.Perm (initTable peers) := shuffle_perm h peers _ _
  refine ⟨hp, ?_, rfl, rfl⟩
  intro x hx
  exact (mem_initTable peers x).mp (hp.mem_iff.mp hx)

/-- Liveness gap of the coded rule (not part of the property's safety statement, recorded because the check measured
    it): whenever the position table has at most 3C different members (C >= 1) and N > 2C, no participant
    configuration exists for any seed — after excluding C proposers only 2C peers remain while the endorser loop
    stops only with more than 2C (or N) members. -/
theorem no_configuration_with_3C_members (blkNum : Nat) (vrf : Seed) (table : List Nat) (N C : Nat) (hC : 1 ≤ C)
    (hN : 2 * C < N) (hd : ∀ S : List Nat, S.Nodup → (∀ x ∈ S, x ∈ table) → S.length ≤ 3 * C)
    (cfg : ParticipantConfig) : buildParticipantConfig blkNum vrf table N C ≠ .ok cfg :=
  no_config_with_3C_members blkNum vrf table N C hC hN hd cfg

/-- In particular the chain configuration GenesisChainConfig produces (N = k, C = k/3) for a pool of k = 3c peers,
    c >= 1, admits no participant configuration, whatever the seed, the height and the shuffle hash. -/
theorem genesis_config_of_3c_peers_cannot_build (h : String → Nat → Nat) (peers : List Peer) (c : Nat) (hc : 1 ≤ c)
    (hk : peers.length = 3 * c) (blkNum : Nat) (vrf : Seed) (cfg : ParticipantConfig) :
    buildParticipantConfig blkNum vrf (genesisChainConfig h peers).posTable (genesisChainConfig h peers).N
      (genesisChainConfig h peers).C ≠ .ok cfg :=
  genesis_3c_cannot_build h peers c hc hk blkNum vrf cfg

/-- GetPeersConfig hands the pool over in Go-map order. For two orders of the same pool the generated tables are
    rearrangements of each other (same entries, same multiplicities) and N, C agree; the tables themselves can
    differ (example below), so the table is a function of the pool only up to rearrangement. -/
theorem table_order_dependence_is_a_rearrangement (h : String → Nat → Nat) (p₁ p₂ : List Peer) (hp : p₁.Perm p₂) :
    (genesisChainConfig h p₁).posTable.Perm (genesisChainConfig h p₂).posTable ∧
      (genesisChainConfig h p₁).N = (genesisChainConfig h p₂).N ∧
      (genesisChainConfig h p₁).C = (genesisChainConfig h p₂).C :=
  genesis_order_perm h p₁ p₂ hp

/-- two orders of a two-peer pool, same shuffle hash: different tables -/
example : (genesisChainConfig (fun _ i => i / 2) [⟨1, "a"⟩, ⟨2, "b"⟩]).posTable ≠
    (genesisChainConfig (fun _ i => i / 2) [⟨2, "b"⟩, ⟨1, "a"⟩]).posTable := by decide

/-! ## Non-vacuity (tests by evaluation) -/

private def seedA : Seed := Vector.ofFn fun i => (i.val * 37 + 11).toUInt8
private def tableA : List Nat := [1, 2, 3, 4, 4, 3, 2, 1, 2, 4, 1, 3]

local macro "lstep" i:num v:num : tactic =>
  `(tactic| (rw [peersLoop]; simp [show calcParticipant seedA tableA $i = some $v by decide, maxU32, isEC,
      MAX_PROPOSER_COUNT, MAX_ENDORSER_COUNT, MAX_COMMITTER_COUNT]))

private theorem t1 : calcParticipantPeers seedA tableA 4 1 [] 0 32 = some [3, 2, 1, 4] := by
  unfold calcParticipantPeers
  simp [isEC, MAX_PROPOSER_COUNT, MAX_ENDORSER_COUNT, MAX_COMMITTER_COUNT]
  lstep 0 3; lstep 1 3; lstep 2 3; lstep 3 2; lstep 4 1; lstep 5 1; lstep 6 1; lstep 7 1; lstep 8 4

private theorem t2 : calcParticipantPeers seedA tableA 4 1 [3, 2] 32 272 = some [1, 4, 2] := by
  unfold calcParticipantPeers
  simp [isEC, MAX_PROPOSER_COUNT, MAX_ENDORSER_COUNT, MAX_COMMITTER_COUNT, buildExcl]
  lstep 32 1; lstep 33 4; lstep 34 1; lstep 35 4; lstep 36 2

private theorem t3 : calcParticipantPeers seedA tableA 4 1 [3, 2] 272 512 = some [2, 4, 1] := by
  unfold calcParticipantPeers
  simp [isEC, MAX_PROPOSER_COUNT, MAX_ENDORSER_COUNT, MAX_COMMITTER_COUNT, buildExcl]
  lstep 272 2; lstep 273 2; lstep 274 4; lstep 275 1

/-- A concrete build that succeeds (4 peers, C = 1): the hypothesis of `selection_well_formed` is satisfiable. -/
example : buildParticipantConfig 5 seedA tableA 4 1 = .ok ⟨[3, 2], [1, 4, 2], [2, 4, 1]⟩ := by
  have hs : seedIsNil seedA = false := by decide
  simp [buildParticipantConfig, hs, MAX_PROPOSER_COUNT, MAX_ENDORSER_COUNT, MAX_COMMITTER_COUNT, t1]
  simp [t2, t3]

/-- The C = 0 quirk as coded: the exclusion map still receives the first proposer. -/
example : buildExcl 0 [7, 8] [] = [7] ∧ buildExcl 2 [7, 8, 9] [] = [7, 8] := by decide

end Poly.Props.C40
